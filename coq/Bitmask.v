(** Model of the rank/unrank machinery of bfs_bitmask (algo/bfs_bitmask.py) at the list level:
    a chunk is the set of permutations sharing a suffix; inside a chunk a permutation is identified
    by the rank of its relabelled 8-element prefix in itertools.permutations(range(8)). *)
From Coq Require Import ZArith List Bool Arith Lia.
From V Require Import Base Perm.
Import ListNotations.

Definition RR : nat := 8.                                             (* R: chunk prefix size *)
Definition prefix_table : list (list nat) := perms (seq 0 RR).        (* model_prefixes, rank order *)

(* VertexChunk.__init__: map1 = [i for i in range(n) if i not in suffix]; map2 = its inverse *)
Definition chunk_map1 (n : nat) (suffix : list nat) : list nat :=
  filter (fun i => negb (existsb (Nat.eqb i) suffix)) (seq 0 n).
Definition chunk_map2 (n : nat) (map1 : list nat) : list nat :=
  fold_left (fun m '(i, v) => upd m v i) (combine (seq 0 (length map1)) map1) (repeat 0 n).

(* rank_to_permutation: the prefix of the permutation with this rank, relabelled through map1 *)
Definition rank_to_prefix (rank : nat) (map1 : list nat) : list nat :=
  map (fun d => nth d map1 0) (nth rank prefix_table []).

Fixpoint index_of (x : list nat) (l : list (list nat)) (i : nat) : option nat :=
  match l with
  | [] => None
  | y :: t => if nat_list_eqb x y then Some i else index_of x t (S i)
  end.

(* permutation_to_rank: relabel the first 8 entries through map2 and look the prefix up;
   PREFIX_MAP_2 is zero-initialised, so an encoding that is not a permutation of 0..7 yields rank 0 *)
Definition prefix_to_rank (prefix : list nat) (map2 : list nat) : nat :=
  match index_of (map (fun v => nth v map2 0) (firstn RR prefix)) prefix_table 0 with
  | Some r => r
  | None => 0
  end.

(* packing used by the real code: 4 bits per entry (_encode_perm), 3 bits per relabelled prefix entry *)
Definition pack (bits : Z) (p : list nat) : Z :=
  fold_right (fun '(i, v) acc => Z.lor (Z.shiftl (Z.of_nat v) (bits * Z.of_nat i)) acc) 0%Z (combine (seq 0 (length p)) p).

(* _bit_count on one 64-bit word *)
Definition popcount64 (x : Z) : nat := length (filter (fun i => Z.testbit x (Z.of_nat i)) (seq 0 64)).
