(** General-n theorem for the [conjugacy_classes] family of Families.v (model of
    cayleypy/graphs_lib.py [PermutationGroups.conjugacy_classes]) when every class is taken in full
    (no sample count): the generators are exactly the permutations of n points whose cycle type is
    one of the requested ones (padded with fixed points). *)
From Coq Require Import ZArith List Bool Arith Lia Sorting.Mergesort Sorting.Permutation.
From V Require Import Base Perm PermProofs PermCycles BitmaskProofs Matrix Def DefProofs Families
  FamiliesProofs ClassEnumCycles ClassEnumGeneral ClassEnumCount.
Import ListNotations.
Open Scope nat_scope.

Lemma zsum_acc l : forall a, fold_left Z.add l a = (a + zsum l)%Z.
Proof.
  unfold zsum. induction l as [|x l IH]; intros a; cbn [fold_left]; [lia|].
  rewrite IH, (IH (0 + x)%Z). lia.
Qed.

Lemma zsum_cons a l : zsum (a :: l) = (a + zsum l)%Z.
Proof. unfold zsum at 1. cbn [fold_left]. rewrite zsum_acc. lia. Qed.

Lemma zsum_nonneg l : Forall (fun c => (0 < c)%Z) l -> (0 <= zsum l)%Z.
Proof.
  induction 1 as [|a l Ha _ IH]; [unfold zsum; cbn; lia|]. rewrite zsum_cons. lia.
Qed.

Lemma sum_to_nats cl : Forall (fun c => (0 < c)%Z) cl -> sum_list (to_nats cl) = Z.to_nat (zsum cl).
Proof.
  induction 1 as [|a l Ha Hl IH]; [reflexivity|].
  rewrite zsum_cons. unfold sum_list, to_nats in *. cbn [map fold_right]. rewrite IH.
  pose proof (zsum_nonneg l Hl). lia.
Qed.

Lemma map_repeat' {A B} (f : A -> B) a k : map f (repeat a k) = repeat (f a) k.
Proof. induction k as [|k IH]; cbn [repeat map]; [reflexivity|]. rewrite IH. reflexivity. Qed.

Lemma sum_list_perm l1 l2 : Permutation l1 l2 -> sum_list l1 = sum_list l2.
Proof. unfold sum_list. induction 1; cbn [fold_right]; lia. Qed.

(* the padded, descending list of cycle lengths the Python builds for one dict key *)
Definition class_lengths (N : nat) (cl : list Z) : list nat :=
  rev (NatSort.sort (to_nats (cl ++ repeat 1%Z (Z.to_nat (Z.of_nat N - zsum cl))))).

(* the cycle type it stands for: the given lengths plus fixed points *)
Definition class_type (N : nat) (cl : list Z) : list nat :=
  NatSort.sort (to_nats cl ++ repeat 1 (N - Z.to_nat (zsum cl))).

Definition class_perms (N : nat) (cl : list Z) : list (list nat) :=
  match perms_with_cycle_lengths N (class_lengths N cl) with Ok ps => ps | Err _ => [] end.

Definition class_valid (N : nat) (cl : list Z) : Prop :=
  Forall (fun c => (0 < c)%Z) cl /\ (zsum cl <= Z.of_nat N)%Z.

Lemma class_lengths_perm N cl : class_valid N cl ->
  Permutation (class_lengths N cl) (to_nats cl ++ repeat 1 (N - Z.to_nat (zsum cl))).
Proof.
  intros [Hpos Hsum]. unfold class_lengths.
  eapply Permutation_trans; [apply Permutation_sym, Permutation_rev|].
  eapply Permutation_trans; [apply Permutation_sym, NatSort.Permuted_sort|].
  unfold to_nats. rewrite map_app.
  replace (Z.to_nat (Z.of_nat N - zsum cl)) with (N - Z.to_nat (zsum cl))
    by (pose proof (zsum_nonneg cl Hpos); lia).
  rewrite map_repeat'. reflexivity.
Qed.

Theorem class_perms_spec N cl : 1 <= N -> class_valid N cl ->
  perms_with_cycle_lengths N (class_lengths N cl) = Ok (class_perms N cl) /\
  class_perms N cl <> [] /\ NoDup (class_perms N cl) /\
  forall p, In p (class_perms N cl) <-> length p = N /\ Perm p /\ cycle_type p = class_type N cl.
Proof.
  intros HN HV. pose proof (class_lengths_perm N cl HV) as HP. destruct HV as [Hpos Hsum].
  pose proof (zsum_nonneg cl Hpos) as Hnn.
  destruct (proj2 (class_enum_Ok_iff N (class_lengths N cl))) as (ps & Hps).
  { split; [exact HN|]. split.
    - apply Forall_forall. intros k Hk. eapply Permutation_in in Hk; [|exact HP].
      apply in_app_or in Hk as [Hk|Hk].
      + unfold to_nats in Hk. apply in_map_iff in Hk as (z & <- & Hz).
        rewrite Forall_forall in Hpos. specialize (Hpos z Hz). lia.
      + apply repeat_spec in Hk. lia.
    - rewrite (sum_list_perm _ _ HP), sum_list_app, sum_repeat, sum_to_nats by exact Hpos. lia. }
  unfold class_perms. rewrite Hps. split; [reflexivity|]. split; [|split].
  - intros ->. pose proof (class_enum_count _ _ _ Hps) as Hc. cbn [length] in Hc.
    pose proof (lt_O_fact N). lia.
  - apply (class_enum_NoDup _ _ _ Hps).
  - intros p. rewrite (class_enum_In_iff _ _ _ Hps). unfold class_type.
    rewrite (sort_perm_eq _ _ HP). reflexivity.
Qed.

(* the fold over the dict items *)
Lemma conj_fold N : 1 <= N -> forall classes g nm st sh,
  (forall cl, In cl classes -> class_valid N cl) ->
  exists nm' st',
    fold_left (conj_step (Z.of_nat N)) (map (fun cl => (cl, None)) classes) (Ok (g, nm, st, sh)) =
      Ok (g ++ flat_map (fun cl => map of_nats (class_perms N cl)) classes, nm ++ nm', st ++ st', sh) /\
    length nm' = length (flat_map (fun cl => map of_nats (class_perms N cl)) classes).
Proof.
  intros HN. induction classes as [|cl t IH]; intros g nm st sh HV.
  - exists [], []. cbn [map fold_left flat_map]. rewrite !app_nil_r. auto.
  - cbn [map fold_left]. unfold conj_step at 2. cbn [bind].
    fold (class_lengths N cl). rewrite Nat2Z.id.
    destruct (class_perms_spec N cl HN (HV cl (or_introl eq_refl))) as (E & _). rewrite E. cbn [bind].
    match goal with |- context [Ok (_, nm ++ ?a, st ++ ?b, sh)] => set (nm1 := a); set (st1 := b) end.
    destruct (IH (g ++ map of_nats (class_perms N cl)) (nm ++ nm1) (st ++ st1) sh) as (nm' & st' & EF & HL).
    { intros cl' Hcl'. apply HV. right. exact Hcl'. }
    exists (nm1 ++ nm'), (st1 ++ st'). rewrite EF. cbn [flat_map]. rewrite !app_assoc. split; [reflexivity|].
    rewrite !app_length, HL. f_equal. unfold nm1. rewrite !map_length, seq_length. reflexivity.
Qed.

Theorem conjugacy_classes_spec N classes shuffles : 1 <= N -> classes <> [] ->
  (forall cl, In cl classes -> class_valid N cl) ->
  exists d, conjugacy_classes (Z.of_nat N) (map (fun cl => (cl, None)) classes) shuffles = Ok d /\
    (forall p, In p (p_gens d) <->
       exists cl, In cl classes /\ length p = N /\ Perm p /\ cycle_type p = class_type N cl) /\
    length (p_names d) = length (p_gens d) /\
    p_central d = of_nats (seq 0 N).
Proof.
  intros HN Hne HV. unfold conjugacy_classes.
  destruct (Z.leb_spec 1 (Z.of_nat N)) as [_|]; [|lia]. cbn [negb].
  assert (forallb (fun '(cl, _) => forallb (fun c => (0 <? c)%Z) cl)
            (map (fun cl => (cl, @None Z)) classes) = true) as E1.
  { apply forallb_forall. intros [cl o] Hin. apply in_map_iff in Hin as (cl' & E & Hcl). inversion E; subst.
    apply forallb_forall. intros c Hc. apply Z.ltb_lt. destruct (HV _ Hcl) as [Hp _].
    rewrite Forall_forall in Hp. apply Hp. exact Hc. }
  rewrite E1. cbn [negb].
  assert (forallb (fun '(cl, _) => (zsum cl <=? Z.of_nat N)%Z)
            (map (fun cl => (cl, @None Z)) classes) = true) as E2.
  { apply forallb_forall. intros [cl o] Hin. apply in_map_iff in Hin as (cl' & E & Hcl). inversion E; subst.
    apply Z.leb_le. apply (HV _ Hcl). }
  rewrite E2. cbn [negb].
  destruct (conj_fold N HN classes [] [] [] shuffles HV) as (nm' & st' & EF & HL).
  rewrite EF. cbn [bind app].
  set (G := flat_map (class_perms N) classes).
  assert (flat_map (fun cl => map of_nats (class_perms N cl)) classes = map of_nats G) as EG.
  { unfold G. clear. induction classes as [|cl t IH]; [reflexivity|].
    cbn [flat_map]. rewrite map_app, IH. reflexivity. }
  rewrite EG in *.
  assert (forall p, In p G <->
            exists cl, In cl classes /\ length p = N /\ Perm p /\ cycle_type p = class_type N cl) as HG.
  { intros p. unfold G. rewrite in_flat_map. split; intros (cl & Hcl & H); exists cl; (split; [exact Hcl|]);
      apply (class_perms_spec N cl HN (HV _ Hcl)); exact H. }
  rewrite (create_ok G (Some nm') _ N).
  - eexists. split; [reflexivity|]. cbn [p_gens p_names p_central names_of].
    split; [exact HG|]. split; [|reflexivity]. rewrite HL. apply map_length.
  - destruct classes as [|cl t]; [congruence|]. unfold G. cbn [flat_map].
    destruct (class_perms_spec N cl HN (HV _ (or_introl eq_refl))) as (_ & Hn & _).
    destruct (class_perms N cl); [congruence|discriminate].
  - lia.
  - apply Forall_forall. intros p Hp. apply HG in Hp as (cl & _ & H1 & H2 & _). split; assumption.
  - intros l El. inversion El; subst. rewrite HL. apply map_length.
Qed.

(* small-n validation and non-vacuity *)
Example conjugacy_classes_4 :
  match conjugacy_classes 4 [([2%Z], None); ([3%Z], None)] [] with
  | Ok d => length (p_gens d) = 6 + 8 /\ p_gens d = class_perms 4 [2%Z] ++ class_perms 4 [3%Z]
  | Err _ => False
  end.
Proof. vm_compute. auto. Qed.

Example class_valid_instance : class_valid 4 [2%Z] /\ class_type 4 [2%Z] = [1; 1; 2].
Proof. split; [split; [repeat constructor|vm_compute; discriminate]|reflexivity]. Qed.

Print Assumptions class_perms_spec.
Print Assumptions conjugacy_classes_spec.
