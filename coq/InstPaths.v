(** E1 - the path-finding theorems (C04, C05, C12) instantiated for the concrete permutation-graph model.
    For [env_of d inv_mats = Some e] with a well-formed permutation description [d], every structural hypothesis of
    the abstract theorems about the pair (graph, inverted graph) is PROVED; what remains is NoColl on [Ustates d]
    (nothing at all for the identity hasher on one-word codes) and the layer-size bounds of the abstract theorems. *)
From Coq Require Import ZArith List Bool Arith Lia Sorting.Sorted.
From V Require Import Base BaseProofs Tensor Perm PermProofs Codec Hash Matrix Graph GraphProofs GraphImpl Def DefProofs
                      Bfs BfsStep BfsProofs Paths PathsProofs Mitm MitmProofs Interactive InteractiveProofs
                      InteractiveBetween BfsRun PathRun MitmFind InstPerm InstSmall.
From V.gen Require Import Consts.
Import ListNotations.
Local Open Scope nat_scope.

(* ------------------------------------------------------------------ *)
(** * The environment env_of builds for a permutation description *)

Definition desc_fwd (d : gdesc) : gdesc := with_flag d (g_kind d).
Definition desc_inv (d : gdesc) : gdesc := with_flag d (GPerm (inverted_perms (desc_perms d))).

Lemma env_of_perm d inv_mats e : wf_perm_desc d -> env_of d inv_mats = Some e ->
  pe_G e = impl_of (desc_fwd d) /\ pe_Ginv e = impl_of (desc_inv d) /\
  pe_invmap e = perm_inverse_map (desc_perms d).
Proof.
  intros Hwf He. pose proof (wf_kind d Hwf) as Hk. unfold env_of in He. rewrite Hk in He. cbn in He.
  inversion He as [He']. cbn. unfold desc_fwd, desc_inv. rewrite Hk. auto.
Qed.

(* env_of never fails on a permutation description *)
Lemma env_of_perm_some d inv_mats : wf_perm_desc d -> exists e, env_of d inv_mats = Some e.
Proof.
  intros Hwf. pose proof (wf_kind d Hwf) as Hk. unfold env_of. rewrite Hk. cbn. eexists. reflexivity.
Qed.

Lemma desc_fwd_wf d : wf_perm_desc d -> wf_perm_desc (desc_fwd d).
Proof. apply with_flag_self_wf. Qed.
Lemma desc_inv_wf d : wf_perm_desc d -> wf_perm_desc (desc_inv d).
Proof. apply with_flag_inverted_wf. Qed.
Lemma desc_fwd_perms d : desc_perms (desc_fwd d) = desc_perms d.
Proof. reflexivity. Qed.
Lemma desc_inv_perms d : desc_perms (desc_inv d) = inverted_perms (desc_perms d).
Proof. reflexivity. Qed.
Lemma desc_fwd_U d s : Ustates (desc_fwd d) s <-> Ustates d s.
Proof. apply (with_flag_Ustates d (g_kind d) s). Qed.
Lemma desc_inv_U d s : Ustates (desc_inv d) s <-> Ustates d s.
Proof. apply (with_flag_Ustates d _ s). Qed.

(* "copies share hashes with their origin": same width, hasher, central length *)
Lemma desc_fwd_hash d s : hashf (impl_of (desc_fwd d)) s = hashf (impl_of d) s.
Proof. reflexivity. Qed.
Lemma desc_inv_hash d s : wf_perm_desc d -> hashf (impl_of (desc_inv d)) s = hashf (impl_of d) s.
Proof.
  intros Hwf. pose proof (wf_kind d Hwf) as Hk. unfold impl_of, mk_impl, desc_inv, with_flag, encoded_row. cbn.
  rewrite Hk. reflexivity.
Qed.
Lemma desc_fwd_unword d h : unword (impl_of (desc_fwd d)) h = unword (impl_of d) h.
Proof. reflexivity. Qed.
Lemma desc_inv_unword d h : wf_perm_desc d -> unword (impl_of (desc_inv d)) h = unword (impl_of d) h.
Proof.
  intros Hwf. pose proof (wf_kind d Hwf) as Hk. unfold impl_of, mk_impl, desc_inv, with_flag. cbn.
  rewrite Hk. reflexivity.
Qed.

(* ------------------------------------------------------------------ *)
(** * Every structural hypothesis of C04 / C05 / C12, with no assumption about hashing *)

Definition path_structural (e : path_env) (U : state -> Prop) : Prop :=
  closed state (acts (pe_G e)) U /\
  closed state (acts (pe_Ginv e)) U /\
  (forall s, hashf (pe_Ginv e) s = hashf (pe_G e) s) /\
  length (acts (pe_Ginv e)) = length (acts (pe_G e)) /\
  (forall i g gi x, nth_error (acts (pe_G e)) i = Some g -> nth_error (acts (pe_Ginv e)) i = Some gi -> U x ->
                    g (gi x) = x /\ gi (g x) = x) /\
  (inv_closed (pe_G e) = true -> symmetric_on state (acts (pe_G e)) U) /\
  (inv_closed (pe_Ginv e) = true -> symmetric_on state (acts (pe_Ginv e)) U) /\
  central (pe_Ginv e) = central (pe_G e) /\
  U (central (pe_G e)) /\
  (forall m, pe_invmap e = Some m -> invmap_ok e U m) /\
  (inv_closed (pe_G e) = true -> exists m, pe_invmap e = Some m).

Theorem perm_env_structural d inv_mats e :
  wf_perm_desc d -> env_of d inv_mats = Some e -> path_structural e (Ustates d).
Proof.
  intros Hwf He. destruct (env_of_perm d inv_mats e Hwf He) as (EG & EGi & Em).
  pose proof (desc_fwd_wf d Hwf) as HwfF. pose proof (desc_inv_wf d Hwf) as HwfI.
  unfold path_structural. rewrite EG, EGi, Em. unfold invmap_ok. rewrite EG.
  split; [|split; [|split; [|split; [|split; [|split; [|split; [|split; [|split; [|split]]]]]]]]].
  - intros g x Hg Hx. apply desc_fwd_U. apply (perm_closed _ _ (desc_fwd d) HwfF g x Hg). apply desc_fwd_U. exact Hx.
  - intros g x Hg Hx. apply desc_inv_U. apply (perm_closed _ _ (desc_inv d) HwfI g x Hg). apply desc_inv_U. exact Hx.
  - intros s. rewrite desc_inv_hash by exact Hwf. reflexivity.
  - unfold impl_of. rewrite (perm_n_gens _ _ _ HwfF), (perm_n_gens _ _ _ HwfI), desc_inv_perms, desc_fwd_perms.
    apply inverted_perms_length.
  - intros i g gi x Hg Hgi [Hx _]. unfold impl_of in Hg, Hgi.
    destruct (perm_acts_nth_error _ _ _ i g HwfF Hg) as [Hi ->].
    destruct (perm_acts_nth_error _ _ _ i gi HwfI Hgi) as [_ ->].
    rewrite desc_fwd_perms in *. rewrite desc_inv_perms.
    assert (In (nth i (desc_perms d) []) (desc_perms d)) as Hin by (apply nth_In; exact Hi).
    destruct (wf_perm_in d _ Hwf Hin) as [HP Hl].
    destruct (inverted_perms_undo (desc_perms d) i x Hi HP) as [H1 H2]; [lia|]. split; assumption.
  - intros Hic.
    assert (Hs : symmetric_on state (acts (impl_of (desc_fwd d))) (Ustates (desc_fwd d))).
    { unfold desc_fwd in *. apply with_flag_Sym; assumption. }
    intros g x Hg Hx. apply (Hs g x Hg). apply desc_fwd_U. exact Hx.
  - intros Hic.
    assert (Hs : symmetric_on state (acts (impl_of (desc_inv d))) (Ustates (desc_inv d))).
    { unfold desc_inv in *. apply with_flag_Sym; assumption. }
    intros g x Hg Hx. apply (Hs g x Hg). apply desc_inv_U. exact Hx.
  - reflexivity.
  - apply desc_fwd_U. apply (perm_central_U splitmix_steps hash_mult (desc_fwd d) HwfF).
  - intros m Hm i g Hg. unfold impl_of in Hg.
    destruct (perm_acts_nth_error _ _ _ i g HwfF Hg) as [Hi ->]. rewrite desc_fwd_perms in *.
    destruct (perm_inverse_map_correct (desc_perms d) m Hm) as [Hlm Hc]. destruct (Hc i Hi) as [Hlt Hnth].
    exists (apply_perm 0%Z (nth (nth i m 0%nat) (desc_perms d) [])). split.
    + unfold impl_of. rewrite (perm_acts_wf _ _ _ HwfF), desc_fwd_perms.
      apply (map_nth_error (fun p : list nat => @apply_perm Z 0%Z p)). apply nth_error_nth'. exact Hlt.
    + intros x [Hx _].
      assert (In (nth i (desc_perms d) []) (desc_perms d)) as Hin by (apply nth_In; exact Hi).
      destruct (wf_perm_in d _ Hwf Hin) as [HP Hl].
      apply (inverse_map_undoes (desc_perms d) m i x Hm Hi HP). lia.
  - intros Hic. cbn in Hic. pose proof (wf_kind d Hwf) as Hk. rewrite Hk in Hic. cbn in Hic.
    destruct (perm_inverse_map (desc_perms d)) as [m|]; [exists m; reflexivity | discriminate].
Qed.

Lemma pe_G_acts d inv_mats e : wf_perm_desc d -> env_of d inv_mats = Some e -> acts (pe_G e) = acts (impl_of d).
Proof. intros Hwf He. destruct (env_of_perm d inv_mats e Hwf He) as (-> & _). reflexivity. Qed.

Lemma pe_G_central d inv_mats e : wf_perm_desc d -> env_of d inv_mats = Some e -> central (pe_G e) = g_central d.
Proof. intros Hwf He. destruct (env_of_perm d inv_mats e Hwf He) as (-> & _). reflexivity. Qed.

Lemma pe_G_hash d inv_mats e s : wf_perm_desc d -> env_of d inv_mats = Some e -> hashf (pe_G e) s = hashf (impl_of d) s.
Proof. intros Hwf He. destruct (env_of_perm d inv_mats e Hwf He) as (-> & _). reflexivity. Qed.

(* the hash-dependent hypotheses, from NoColl alone *)
Definition path_hash_ok (e : path_env) (U : state -> Prop) : Prop :=
  NoCollOn (pe_G e) U /\
  (is_identity (pe_G e) = true -> forall a, U a -> unword (pe_G e) (hashf (pe_G e) a) = a) /\
  (is_identity (pe_Ginv e) = true -> forall a, U a -> unword (pe_Ginv e) (hashf (pe_Ginv e) a) = a).

Theorem perm_env_hash_ok d inv_mats e :
  wf_perm_desc d -> env_of d inv_mats = Some e -> NoCollOn (impl_of d) (Ustates d) -> path_hash_ok e (Ustates d).
Proof.
  intros Hwf He Hnc. destruct (env_of_perm d inv_mats e Hwf He) as (EG & EGi & _).
  unfold path_hash_ok. rewrite EG, EGi. split; [|split].
  - exact Hnc.
  - intros Hid a Ha. rewrite desc_fwd_unword, desc_fwd_hash.
    apply (perm_IdOK_nocoll splitmix_steps hash_mult d Hwf Hnc Hid a Ha).
  - intros Hid a Ha. rewrite desc_inv_unword, desc_inv_hash by exact Hwf.
    apply (perm_IdOK_nocoll splitmix_steps hash_mult d Hwf Hnc Hid a Ha).
Qed.

(* identity hasher on one-word codes: nothing is assumed *)
Theorem perm_env_hash_ok_unconditional d inv_mats e :
  wf_perm_desc d -> env_of d inv_mats = Some e -> g_hasher d = HIdentity -> single_word d -> path_hash_ok e (Ustates d).
Proof.
  intros Hwf He Hh Hsw. apply (perm_env_hash_ok d inv_mats e Hwf He). apply (impl_of_identity_nocoll d Hwf Hh Hsw).
Qed.

Ltac prep Hwf He Hnc :=
  let HS := fresh "HS" in let HH := fresh "HH" in
  pose proof (perm_env_structural _ _ _ Hwf He) as HS;
  pose proof (perm_env_hash_ok _ _ _ Hwf He Hnc) as HH;
  destruct HS as (Hcl & Hcli & Hsh & Hlen & Hundo & HsymG & HsymI & Hcen & HcU & Hinv & Hex);
  destruct HH as (HncG & HidG & HidI).

(* the inverted graph is collision-free as well *)
Lemma perm_env_nocoll_inv d inv_mats e :
  wf_perm_desc d -> env_of d inv_mats = Some e -> NoCollOn (impl_of d) (Ustates d) -> NoCollOn (pe_Ginv e) (Ustates d).
Proof.
  intros Hwf He Hnc. prep Hwf He Hnc. intros a b Ha Hb. rewrite !Hsh. apply HncG; assumption.
Qed.

(* ------------------------------------------------------------------ *)
(** * A ball computed by [ball_of] is well formed (what C09 delivers) *)

Lemma ball_of_ball_ok (G : impl) (U : state -> Prop) batch D explore c lh ns :
  closed state (acts G) U -> NoCollOn G U ->
  (is_identity G = true -> forall a, U a -> unword G (hashf G a) = a) ->
  (inv_closed G = true -> symmetric_on state (acts G) U) ->
  (1 <= batch)%Z -> U c ->
  ball_of G batch D explore [c] = Ok (lh, ns) ->
  ball_ok G c lh /\ length lh = ns /\ 1 <= ns.
Proof.
  intros Hcl Hnc Hid Hsym Hb Hc Hball. unfold ball_of in Hball.
  match type of Hball with context [bfs G ?cfg [c]] => set (cfg0 := cfg) in * end.
  destruct (bfs G cfg0 [c]) as [o|er] eqn:E; cbn in Hball; [|discriminate].
  inversion Hball as [[Hlh Hns]]. clear Hball.
  assert (Hs : forall s, In s [c] -> U s) by (intros s [<- | []]; exact Hc).
  assert (Hne : [c] <> []) by discriminate.
  pose proof (bfs_prefix G cfg0 U Hcl Hnc Hid Hsym Hb [c] Hs Hne o E) as P. cbv zeta in P.
  destruct P as (H1 & _ & _ & _ & _ & _ & _ & _ & _ & _ & _ & Hrh & _).
  destruct (Hrh eq_refl) as (HlenD & Hlay).
  split; [|split; [exact HlenD | exact H1]].
  intros i Hi. rewrite HlenD in Hi. destruct (Hlay i Hi) as (Hss & _ & Hmem). split; assumption.
Qed.

(* ------------------------------------------------------------------ *)
(** * C12: find_path (find_path_one) on a permutation graph *)

Theorem find_path_perm_valid : forall d inv_mats e,
  wf_perm_desc d -> env_of d inv_mats = Some e -> NoCollOn (impl_of d) (Ustates d) ->
  (forall q k, (Z.of_nat (length (layer state st_eq_dec (acts (pe_G e)) [q] k)) < 1000000000000)%Z) ->
  (forall q k, (Z.of_nat (length (layer state st_eq_dec (acts (pe_Ginv e)) [q] k)) < 1000000000000)%Z) ->
  forall lhf nsf lhi nsi s p,
  balls_ok e lhf nsf lhi nsi -> Ustates d s ->
  find_path_one e (lhf, nsf) (lhi, nsi) s = Ok (Some p) ->
  run state (acts (pe_G e)) s p = Some (central (pe_G e)) /\
  dist_is state (acts (pe_G e)) [s] (central (pe_G e)) (length p) /\
  length p <= 2 * ball_depth e nsf nsi.
Proof.
  intros d inv_mats e Hwf He Hnc. prep Hwf He Hnc.
  intros Hsm Hsmi. exact (find_path_valid e (Ustates d) Hcl Hcli HncG Hsh Hlen Hundo HidG HidI HsymI Hcen HcU Hsm Hsmi Hinv).
Qed.

Theorem find_path_perm_valid_unconditional : forall d inv_mats e,
  wf_perm_desc d -> env_of d inv_mats = Some e -> g_hasher d = HIdentity -> single_word d ->
  (forall q k, (Z.of_nat (length (layer state st_eq_dec (acts (pe_G e)) [q] k)) < 1000000000000)%Z) ->
  (forall q k, (Z.of_nat (length (layer state st_eq_dec (acts (pe_Ginv e)) [q] k)) < 1000000000000)%Z) ->
  forall lhf nsf lhi nsi s p,
  balls_ok e lhf nsf lhi nsi -> Ustates d s ->
  find_path_one e (lhf, nsf) (lhi, nsi) s = Ok (Some p) ->
  run state (acts (pe_G e)) s p = Some (central (pe_G e)) /\
  dist_is state (acts (pe_G e)) [s] (central (pe_G e)) (length p) /\
  length p <= 2 * ball_depth e nsf nsi.
Proof.
  intros d inv_mats e Hwf He Hh Hsw.
  exact (find_path_perm_valid d inv_mats e Hwf He (proj1 (impl_of_identity_nocoll d Hwf Hh Hsw))).
Qed.

Theorem find_path_perm_shortest : forall d inv_mats e,
  wf_perm_desc d -> env_of d inv_mats = Some e -> NoCollOn (impl_of d) (Ustates d) ->
  (forall q k, (Z.of_nat (length (layer state st_eq_dec (acts (pe_G e)) [q] k)) < 1000000000000)%Z) ->
  (forall q k, (Z.of_nat (length (layer state st_eq_dec (acts (pe_Ginv e)) [q] k)) < 1000000000000)%Z) ->
  forall lhf nsf lhi nsi s k,
  balls_ok e lhf nsf lhi nsi -> Ustates d s ->
  dist_is state (acts (pe_G e)) [s] (central (pe_G e)) k -> k <= 2 * ball_depth e nsf nsi ->
  exists p, find_path_one e (lhf, nsf) (lhi, nsi) s = Ok (Some p) /\ length p = k /\
            run state (acts (pe_G e)) s p = Some (central (pe_G e)).
Proof.
  intros d inv_mats e Hwf He Hnc. prep Hwf He Hnc.
  intros Hsm Hsmi lhf nsf lhi nsi s k Hb Hs.
  exact (find_path_shortest e (Ustates d) Hcl Hcli HncG Hsh Hlen Hundo HidG HidI HsymI Hcen HcU Hsm Hsmi Hinv lhf nsf lhi nsi s k Hb Hs Hex).
Qed.

Theorem find_path_perm_shortest_unconditional : forall d inv_mats e,
  wf_perm_desc d -> env_of d inv_mats = Some e -> g_hasher d = HIdentity -> single_word d ->
  (forall q k, (Z.of_nat (length (layer state st_eq_dec (acts (pe_G e)) [q] k)) < 1000000000000)%Z) ->
  (forall q k, (Z.of_nat (length (layer state st_eq_dec (acts (pe_Ginv e)) [q] k)) < 1000000000000)%Z) ->
  forall lhf nsf lhi nsi s k,
  balls_ok e lhf nsf lhi nsi -> Ustates d s ->
  dist_is state (acts (pe_G e)) [s] (central (pe_G e)) k -> k <= 2 * ball_depth e nsf nsi ->
  exists p, find_path_one e (lhf, nsf) (lhi, nsi) s = Ok (Some p) /\ length p = k /\
            run state (acts (pe_G e)) s p = Some (central (pe_G e)).
Proof.
  intros d inv_mats e Hwf He Hh Hsw.
  exact (find_path_perm_shortest d inv_mats e Hwf He (proj1 (impl_of_identity_nocoll d Hwf Hh Hsw))).
Qed.

Theorem find_path_perm_none : forall d inv_mats e,
  wf_perm_desc d -> env_of d inv_mats = Some e -> NoCollOn (impl_of d) (Ustates d) ->
  (forall q k, (Z.of_nat (length (layer state st_eq_dec (acts (pe_G e)) [q] k)) < 1000000000000)%Z) ->
  (forall q k, (Z.of_nat (length (layer state st_eq_dec (acts (pe_Ginv e)) [q] k)) < 1000000000000)%Z) ->
  forall lhf nsf lhi nsi s,
  balls_ok e lhf nsf lhi nsi -> Ustates d s ->
  (forall k, dist_is state (acts (pe_G e)) [s] (central (pe_G e)) k -> 2 * ball_depth e nsf nsi < k) ->
  find_path_one e (lhf, nsf) (lhi, nsi) s = Ok None.
Proof.
  intros d inv_mats e Hwf He Hnc. prep Hwf He Hnc.
  intros Hsm Hsmi lhf nsf lhi nsi s Hb Hs.
  exact (find_path_none e (Ustates d) Hcl Hcli HncG Hsh Hlen Hundo HidG HidI HsymI Hcen HcU Hsm Hsmi Hinv lhf nsf lhi nsi s Hb Hs Hex).
Qed.

Theorem find_path_perm_none_unconditional : forall d inv_mats e,
  wf_perm_desc d -> env_of d inv_mats = Some e -> g_hasher d = HIdentity -> single_word d ->
  (forall q k, (Z.of_nat (length (layer state st_eq_dec (acts (pe_G e)) [q] k)) < 1000000000000)%Z) ->
  (forall q k, (Z.of_nat (length (layer state st_eq_dec (acts (pe_Ginv e)) [q] k)) < 1000000000000)%Z) ->
  forall lhf nsf lhi nsi s,
  balls_ok e lhf nsf lhi nsi -> Ustates d s ->
  (forall k, dist_is state (acts (pe_G e)) [s] (central (pe_G e)) k -> 2 * ball_depth e nsf nsi < k) ->
  find_path_one e (lhf, nsf) (lhi, nsi) s = Ok None.
Proof.
  intros d inv_mats e Hwf He Hh Hsw.
  exact (find_path_perm_none d inv_mats e Hwf He (proj1 (impl_of_identity_nocoll d Hwf Hh Hsw))).
Qed.


(* ------------------------------------------------------------------ *)
(** * C04: paths restored from a BFS ball *)

(* reverting a path needs no hashing at all *)
Theorem revert_path_perm_valid : forall d inv_mats e,
  wf_perm_desc d -> env_of d inv_mats = Some e ->
  forall m a b p, pe_invmap e = Some m -> Ustates d a -> run state (acts (pe_G e)) a p = Some b ->
  exists q, revert_path (Some m) p = Ok q /\ length q = length p /\ run state (acts (pe_G e)) b q = Some a.
Proof.
  intros d inv_mats e Hwf He m a b p Hm.
  destruct (perm_env_structural d inv_mats e Hwf He) as (Hcl & _ & _ & _ & _ & _ & _ & _ & _ & Hinv & _).
  exact (revert_path_valid (pe_G e) (Ustates d) Hcl m a b p (Hinv m Hm)).
Qed.

Theorem restore_path_perm_correct : forall d inv_mats e,
  wf_perm_desc d -> env_of d inv_mats = Some e -> NoCollOn (impl_of d) (Ustates d) ->
  forall c, Ustates d c -> forall lh i q, ball_ok (pe_G e) c lh -> i <= length lh ->
  In q (layer state st_eq_dec (acts (pe_G e)) [c] i) ->
  exists p, restore_path (pe_G e) (pe_Ginv e) (firstn i lh) q = Ok p /\ length p = i /\
            run state (acts (pe_G e)) c p = Some q.
Proof.
  intros d inv_mats e Hwf He Hnc. prep Hwf He Hnc.
  exact (restore_path_correct (pe_G e) (pe_Ginv e) (Ustates d) Hcl Hcli HncG Hlen Hundo).
Qed.

Theorem restore_path_perm_correct_unconditional : forall d inv_mats e,
  wf_perm_desc d -> env_of d inv_mats = Some e -> g_hasher d = HIdentity -> single_word d ->
  forall c, Ustates d c -> forall lh i q, ball_ok (pe_G e) c lh -> i <= length lh ->
  In q (layer state st_eq_dec (acts (pe_G e)) [c] i) ->
  exists p, restore_path (pe_G e) (pe_Ginv e) (firstn i lh) q = Ok p /\ length p = i /\
            run state (acts (pe_G e)) c p = Some q.
Proof.
  intros d inv_mats e Hwf He Hh Hsw.
  exact (restore_path_perm_correct d inv_mats e Hwf He (proj1 (impl_of_identity_nocoll d Hwf Hh Hsw))).
Qed.

Theorem find_path_to_perm_sound : forall d inv_mats e,
  wf_perm_desc d -> env_of d inv_mats = Some e -> NoCollOn (impl_of d) (Ustates d) ->
  forall c, Ustates d c -> forall lh ns q p, ball_ok (pe_G e) c lh -> Ustates d q ->
  find_path_to (pe_G e) (pe_Ginv e) lh ns q = Ok (Some p) ->
  run state (acts (pe_G e)) c p = Some q /\ dist_is state (acts (pe_G e)) [c] q (length p) /\ length p < length lh.
Proof.
  intros d inv_mats e Hwf He Hnc. prep Hwf He Hnc.
  exact (find_path_to_sound (pe_G e) (pe_Ginv e) (Ustates d) Hcl Hcli HncG Hlen Hundo).
Qed.

Theorem find_path_to_perm_sound_unconditional : forall d inv_mats e,
  wf_perm_desc d -> env_of d inv_mats = Some e -> g_hasher d = HIdentity -> single_word d ->
  forall c, Ustates d c -> forall lh ns q p, ball_ok (pe_G e) c lh -> Ustates d q ->
  find_path_to (pe_G e) (pe_Ginv e) lh ns q = Ok (Some p) ->
  run state (acts (pe_G e)) c p = Some q /\ dist_is state (acts (pe_G e)) [c] q (length p) /\ length p < length lh.
Proof.
  intros d inv_mats e Hwf He Hh Hsw.
  exact (find_path_to_perm_sound d inv_mats e Hwf He (proj1 (impl_of_identity_nocoll d Hwf Hh Hsw))).
Qed.

Theorem find_path_to_perm_complete : forall d inv_mats e,
  wf_perm_desc d -> env_of d inv_mats = Some e -> NoCollOn (impl_of d) (Ustates d) ->
  forall c, Ustates d c -> forall lh ns q, ball_ok (pe_G e) c lh -> Ustates d q -> length lh = ns ->
  (find_path_to (pe_G e) (pe_Ginv e) lh ns q = Ok None <->
   (forall i, i < length lh -> ~ In q (layer state st_eq_dec (acts (pe_G e)) [c] i))) /\
  (exists r, find_path_to (pe_G e) (pe_Ginv e) lh ns q = Ok r).
Proof.
  intros d inv_mats e Hwf He Hnc. prep Hwf He Hnc.
  exact (find_path_to_complete (pe_G e) (pe_Ginv e) (Ustates d) Hcl Hcli HncG Hlen Hundo).
Qed.

Theorem find_path_to_perm_complete_unconditional : forall d inv_mats e,
  wf_perm_desc d -> env_of d inv_mats = Some e -> g_hasher d = HIdentity -> single_word d ->
  forall c, Ustates d c -> forall lh ns q, ball_ok (pe_G e) c lh -> Ustates d q -> length lh = ns ->
  (find_path_to (pe_G e) (pe_Ginv e) lh ns q = Ok None <->
   (forall i, i < length lh -> ~ In q (layer state st_eq_dec (acts (pe_G e)) [c] i))) /\
  (exists r, find_path_to (pe_G e) (pe_Ginv e) lh ns q = Ok r).
Proof.
  intros d inv_mats e Hwf He Hh Hsw.
  exact (find_path_to_perm_complete d inv_mats e Hwf He (proj1 (impl_of_identity_nocoll d Hwf Hh Hsw))).
Qed.

Theorem find_path_to_perm_shortest : forall d inv_mats e,
  wf_perm_desc d -> env_of d inv_mats = Some e -> NoCollOn (impl_of d) (Ustates d) ->
  forall c, Ustates d c -> forall lh ns q p, ball_ok (pe_G e) c lh -> Ustates d q ->
  find_path_to (pe_G e) (pe_Ginv e) lh ns q = Ok (Some p) ->
  forall p', run state (acts (pe_G e)) c p' = Some q -> length p <= length p'.
Proof.
  intros d inv_mats e Hwf He Hnc. prep Hwf He Hnc.
  exact (find_path_to_shortest (pe_G e) (pe_Ginv e) (Ustates d) Hcl Hcli HncG Hlen Hundo).
Qed.

Theorem find_path_to_perm_shortest_unconditional : forall d inv_mats e,
  wf_perm_desc d -> env_of d inv_mats = Some e -> g_hasher d = HIdentity -> single_word d ->
  forall c, Ustates d c -> forall lh ns q p, ball_ok (pe_G e) c lh -> Ustates d q ->
  find_path_to (pe_G e) (pe_Ginv e) lh ns q = Ok (Some p) ->
  forall p', run state (acts (pe_G e)) c p' = Some q -> length p <= length p'.
Proof.
  intros d inv_mats e Hwf He Hh Hsw.
  exact (find_path_to_perm_shortest d inv_mats e Hwf He (proj1 (impl_of_identity_nocoll d Hwf Hh Hsw))).
Qed.

Theorem find_path_from_perm_sound : forall d inv_mats e,
  wf_perm_desc d -> env_of d inv_mats = Some e -> NoCollOn (impl_of d) (Ustates d) ->
  forall c, Ustates d c -> forall m lh ns q p, pe_invmap e = Some m -> ball_ok (pe_G e) c lh -> Ustates d q ->
  find_path_from (pe_G e) (pe_Ginv e) (Some m) lh ns q = Ok (Some p) ->
  run state (acts (pe_G e)) q p = Some c /\ dist_is state (acts (pe_G e)) [c] q (length p).
Proof.
  intros d inv_mats e Hwf He Hnc. prep Hwf He Hnc.
  intros c Hc m lh ns q p Hm.
  exact (find_path_from_sound (pe_G e) (pe_Ginv e) (Ustates d) Hcl Hcli HncG Hlen Hundo c Hc m lh ns q p (Hinv m Hm)).
Qed.

Theorem find_path_from_perm_sound_unconditional : forall d inv_mats e,
  wf_perm_desc d -> env_of d inv_mats = Some e -> g_hasher d = HIdentity -> single_word d ->
  forall c, Ustates d c -> forall m lh ns q p, pe_invmap e = Some m -> ball_ok (pe_G e) c lh -> Ustates d q ->
  find_path_from (pe_G e) (pe_Ginv e) (Some m) lh ns q = Ok (Some p) ->
  run state (acts (pe_G e)) q p = Some c /\ dist_is state (acts (pe_G e)) [c] q (length p).
Proof.
  intros d inv_mats e Hwf He Hh Hsw.
  exact (find_path_from_perm_sound d inv_mats e Hwf He (proj1 (impl_of_identity_nocoll d Hwf Hh Hsw))).
Qed.


(* ------------------------------------------------------------------ *)
(** * C05: meet in the middle, set-to-set search, step-by-step BFS *)

Theorem mitm_to_perm_sound : forall d inv_mats e,
  wf_perm_desc d -> env_of d inv_mats = Some e -> NoCollOn (impl_of d) (Ustates d) ->
  forall c, Ustates d c ->
  (forall q k, (Z.of_nat (length (layer state st_eq_dec (acts (pe_Ginv e)) [q] k)) < 1000000000000)%Z) ->
  forall lh ns q p, ball_ok (pe_G e) c lh -> length lh = ns -> 1 <= ns -> Ustates d q ->
  mitm_find_path_to (pe_G e) (pe_Ginv e) lh ns (hashf (pe_G e) c) q = Ok (Some p) ->
  run state (acts (pe_G e)) c p = Some q /\ dist_is state (acts (pe_G e)) [c] q (length p) /\
  length p <= 2 * (ns - 1).
Proof.
  intros d inv_mats e Hwf He Hnc. prep Hwf He Hnc.
  exact (mitm_to_sound (pe_G e) (pe_Ginv e) (Ustates d) Hcl Hcli HncG Hsh Hlen Hundo HidI HsymI).
Qed.

Theorem mitm_to_perm_sound_unconditional : forall d inv_mats e,
  wf_perm_desc d -> env_of d inv_mats = Some e -> g_hasher d = HIdentity -> single_word d ->
  forall c, Ustates d c ->
  (forall q k, (Z.of_nat (length (layer state st_eq_dec (acts (pe_Ginv e)) [q] k)) < 1000000000000)%Z) ->
  forall lh ns q p, ball_ok (pe_G e) c lh -> length lh = ns -> 1 <= ns -> Ustates d q ->
  mitm_find_path_to (pe_G e) (pe_Ginv e) lh ns (hashf (pe_G e) c) q = Ok (Some p) ->
  run state (acts (pe_G e)) c p = Some q /\ dist_is state (acts (pe_G e)) [c] q (length p) /\
  length p <= 2 * (ns - 1).
Proof.
  intros d inv_mats e Hwf He Hh Hsw.
  exact (mitm_to_perm_sound d inv_mats e Hwf He (proj1 (impl_of_identity_nocoll d Hwf Hh Hsw))).
Qed.

Theorem mitm_to_perm_complete : forall d inv_mats e,
  wf_perm_desc d -> env_of d inv_mats = Some e -> NoCollOn (impl_of d) (Ustates d) ->
  forall c, Ustates d c ->
  (forall q k, (Z.of_nat (length (layer state st_eq_dec (acts (pe_Ginv e)) [q] k)) < 1000000000000)%Z) ->
  forall lh ns q k, ball_ok (pe_G e) c lh -> length lh = ns -> 1 <= ns -> Ustates d q ->
  nth 0 (nth 0 lh []) 0%Z = hashf (pe_G e) c ->
  dist_is state (acts (pe_G e)) [c] q k -> k <= 2 * (ns - 1) ->
  exists p, mitm_find_path_to (pe_G e) (pe_Ginv e) lh ns (hashf (pe_G e) c) q = Ok (Some p).
Proof.
  intros d inv_mats e Hwf He Hnc. prep Hwf He Hnc.
  exact (mitm_to_complete (pe_G e) (pe_Ginv e) (Ustates d) Hcl Hcli HncG Hsh Hlen Hundo HidI HsymI).
Qed.

Theorem mitm_to_perm_complete_unconditional : forall d inv_mats e,
  wf_perm_desc d -> env_of d inv_mats = Some e -> g_hasher d = HIdentity -> single_word d ->
  forall c, Ustates d c ->
  (forall q k, (Z.of_nat (length (layer state st_eq_dec (acts (pe_Ginv e)) [q] k)) < 1000000000000)%Z) ->
  forall lh ns q k, ball_ok (pe_G e) c lh -> length lh = ns -> 1 <= ns -> Ustates d q ->
  nth 0 (nth 0 lh []) 0%Z = hashf (pe_G e) c ->
  dist_is state (acts (pe_G e)) [c] q k -> k <= 2 * (ns - 1) ->
  exists p, mitm_find_path_to (pe_G e) (pe_Ginv e) lh ns (hashf (pe_G e) c) q = Ok (Some p).
Proof.
  intros d inv_mats e Hwf He Hh Hsw.
  exact (mitm_to_perm_complete d inv_mats e Hwf He (proj1 (impl_of_identity_nocoll d Hwf Hh Hsw))).
Qed.

Theorem mitm_to_perm_none : forall d inv_mats e,
  wf_perm_desc d -> env_of d inv_mats = Some e -> NoCollOn (impl_of d) (Ustates d) ->
  forall c, Ustates d c ->
  (forall q k, (Z.of_nat (length (layer state st_eq_dec (acts (pe_Ginv e)) [q] k)) < 1000000000000)%Z) ->
  forall lh ns q, ball_ok (pe_G e) c lh -> length lh = ns -> 1 <= ns -> Ustates d q ->
  nth 0 (nth 0 lh []) 0%Z = hashf (pe_G e) c ->
  (forall k, dist_is state (acts (pe_G e)) [c] q k -> 2 * (ns - 1) < k) ->
  mitm_find_path_to (pe_G e) (pe_Ginv e) lh ns (hashf (pe_G e) c) q = Ok None.
Proof.
  intros d inv_mats e Hwf He Hnc. prep Hwf He Hnc.
  exact (mitm_to_none (pe_G e) (pe_Ginv e) (Ustates d) Hcl Hcli HncG Hsh Hlen Hundo HidI HsymI).
Qed.

Theorem mitm_to_perm_none_unconditional : forall d inv_mats e,
  wf_perm_desc d -> env_of d inv_mats = Some e -> g_hasher d = HIdentity -> single_word d ->
  forall c, Ustates d c ->
  (forall q k, (Z.of_nat (length (layer state st_eq_dec (acts (pe_Ginv e)) [q] k)) < 1000000000000)%Z) ->
  forall lh ns q, ball_ok (pe_G e) c lh -> length lh = ns -> 1 <= ns -> Ustates d q ->
  nth 0 (nth 0 lh []) 0%Z = hashf (pe_G e) c ->
  (forall k, dist_is state (acts (pe_G e)) [c] q k -> 2 * (ns - 1) < k) ->
  mitm_find_path_to (pe_G e) (pe_Ginv e) lh ns (hashf (pe_G e) c) q = Ok None.
Proof.
  intros d inv_mats e Hwf He Hh Hsw.
  exact (mitm_to_perm_none d inv_mats e Hwf He (proj1 (impl_of_identity_nocoll d Hwf Hh Hsw))).
Qed.

Theorem mitm_to_perm_exact : forall d inv_mats e,
  wf_perm_desc d -> env_of d inv_mats = Some e -> NoCollOn (impl_of d) (Ustates d) ->
  forall c, Ustates d c ->
  (forall q k, (Z.of_nat (length (layer state st_eq_dec (acts (pe_Ginv e)) [q] k)) < 1000000000000)%Z) ->
  forall lh ns q k, ball_ok (pe_G e) c lh -> length lh = ns -> 1 <= ns -> Ustates d q ->
  dist_is state (acts (pe_G e)) [c] q k -> k <= 2 * (ns - 1) ->
  exists p, mitm_find_path_to (pe_G e) (pe_Ginv e) lh ns (hashf (pe_G e) c) q = Ok (Some p) /\
            length p = k /\ run state (acts (pe_G e)) c p = Some q.
Proof.
  intros d inv_mats e Hwf He Hnc. prep Hwf He Hnc.
  exact (mitm_to_exact (pe_G e) (pe_Ginv e) (Ustates d) Hcl Hcli HncG Hsh Hlen Hundo HidI HsymI).
Qed.

Theorem mitm_to_perm_exact_unconditional : forall d inv_mats e,
  wf_perm_desc d -> env_of d inv_mats = Some e -> g_hasher d = HIdentity -> single_word d ->
  forall c, Ustates d c ->
  (forall q k, (Z.of_nat (length (layer state st_eq_dec (acts (pe_Ginv e)) [q] k)) < 1000000000000)%Z) ->
  forall lh ns q k, ball_ok (pe_G e) c lh -> length lh = ns -> 1 <= ns -> Ustates d q ->
  dist_is state (acts (pe_G e)) [c] q k -> k <= 2 * (ns - 1) ->
  exists p, mitm_find_path_to (pe_G e) (pe_Ginv e) lh ns (hashf (pe_G e) c) q = Ok (Some p) /\
            length p = k /\ run state (acts (pe_G e)) c p = Some q.
Proof.
  intros d inv_mats e Hwf He Hh Hsw.
  exact (mitm_to_perm_exact d inv_mats e Hwf He (proj1 (impl_of_identity_nocoll d Hwf Hh Hsw))).
Qed.

Theorem between_perm_sound : forall d inv_mats e,
  wf_perm_desc d -> env_of d inv_mats = Some e -> NoCollOn (impl_of d) (Ustates d) ->
  forall A B, (forall s, In s A -> Ustates d s) -> (forall s, In s B -> Ustates d s) ->
  forall maxd s p, find_path_between (pe_G e) (pe_Ginv e) A B maxd = Ok (Some (s, p)) ->
  In s A /\ (exists b, In b B /\ run state (acts (pe_G e)) s p = Some b) /\
  dstar (pe_G e) A B (length p) /\ length p <= 2 * N.to_nat maxd.
Proof.
  intros d inv_mats e Hwf He Hnc. prep Hwf He Hnc.
  exact (between_sound (pe_G e) (pe_Ginv e) (Ustates d) Hcl Hcli HncG Hsh Hlen Hundo HidG HidI HsymG HsymI).
Qed.

Theorem between_perm_sound_unconditional : forall d inv_mats e,
  wf_perm_desc d -> env_of d inv_mats = Some e -> g_hasher d = HIdentity -> single_word d ->
  forall A B, (forall s, In s A -> Ustates d s) -> (forall s, In s B -> Ustates d s) ->
  forall maxd s p, find_path_between (pe_G e) (pe_Ginv e) A B maxd = Ok (Some (s, p)) ->
  In s A /\ (exists b, In b B /\ run state (acts (pe_G e)) s p = Some b) /\
  dstar (pe_G e) A B (length p) /\ length p <= 2 * N.to_nat maxd.
Proof.
  intros d inv_mats e Hwf He Hh Hsw.
  exact (between_perm_sound d inv_mats e Hwf He (proj1 (impl_of_identity_nocoll d Hwf Hh Hsw))).
Qed.

Theorem between_perm_complete : forall d inv_mats e,
  wf_perm_desc d -> env_of d inv_mats = Some e -> NoCollOn (impl_of d) (Ustates d) ->
  forall A B, (forall s, In s A -> Ustates d s) -> (forall s, In s B -> Ustates d s) ->
  forall maxd k, dstar (pe_G e) A B k -> k <= 2 * N.to_nat maxd ->
  exists s p, find_path_between (pe_G e) (pe_Ginv e) A B maxd = Ok (Some (s, p)).
Proof.
  intros d inv_mats e Hwf He Hnc. prep Hwf He Hnc.
  exact (between_complete (pe_G e) (pe_Ginv e) (Ustates d) Hcl Hcli HncG Hsh Hlen Hundo HidG HidI HsymG HsymI).
Qed.

Theorem between_perm_complete_unconditional : forall d inv_mats e,
  wf_perm_desc d -> env_of d inv_mats = Some e -> g_hasher d = HIdentity -> single_word d ->
  forall A B, (forall s, In s A -> Ustates d s) -> (forall s, In s B -> Ustates d s) ->
  forall maxd k, dstar (pe_G e) A B k -> k <= 2 * N.to_nat maxd ->
  exists s p, find_path_between (pe_G e) (pe_Ginv e) A B maxd = Ok (Some (s, p)).
Proof.
  intros d inv_mats e Hwf He Hh Hsw.
  exact (between_perm_complete d inv_mats e Hwf He (proj1 (impl_of_identity_nocoll d Hwf Hh Hsw))).
Qed.

Theorem between_perm_none : forall d inv_mats e,
  wf_perm_desc d -> env_of d inv_mats = Some e -> NoCollOn (impl_of d) (Ustates d) ->
  forall A B, (forall s, In s A -> Ustates d s) -> (forall s, In s B -> Ustates d s) ->
  forall maxd, (forall k, dstar (pe_G e) A B k -> 2 * N.to_nat maxd < k) ->
  find_path_between (pe_G e) (pe_Ginv e) A B maxd = Ok None.
Proof.
  intros d inv_mats e Hwf He Hnc. prep Hwf He Hnc.
  exact (between_none (pe_G e) (pe_Ginv e) (Ustates d) Hcl Hcli HncG Hsh Hlen Hundo HidG HidI HsymG HsymI).
Qed.

Theorem between_perm_none_unconditional : forall d inv_mats e,
  wf_perm_desc d -> env_of d inv_mats = Some e -> g_hasher d = HIdentity -> single_word d ->
  forall A B, (forall s, In s A -> Ustates d s) -> (forall s, In s B -> Ustates d s) ->
  forall maxd, (forall k, dstar (pe_G e) A B k -> 2 * N.to_nat maxd < k) ->
  find_path_between (pe_G e) (pe_Ginv e) A B maxd = Ok None.
Proof.
  intros d inv_mats e Hwf He Hh Hsw.
  exact (between_perm_none d inv_mats e Hwf He (proj1 (impl_of_identity_nocoll d Hwf Hh Hsw))).
Qed.

Theorem ibfs_perm_layers : forall d inv_mats e,
  wf_perm_desc d -> env_of d inv_mats = Some e -> NoCollOn (impl_of d) (Ustates d) ->
  forall starts, (forall s, In s starts -> Ustates d s) -> forall k,
  let b := ibfs_after (pe_G e) starts k in
  length (ihashes b) = S k /\
  NoDup (cur_layer b) /\ set_eq (cur_layer b) (layer state st_eq_dec (acts (pe_G e)) starts k) /\
  (forall i, i <= k -> StronglySorted Z.lt (nth i (ihashes b) []) /\
     (forall h, In h (nth i (ihashes b) []) <->
                exists t, In t (layer state st_eq_dec (acts (pe_G e)) starts i) /\ hashf (pe_G e) t = h)) /\
  nth k (ihashes b) [] = map (hashf (pe_G e)) (cur_layer b).
Proof.
  intros d inv_mats e Hwf He Hnc. prep Hwf He Hnc.
  exact (ibfs_layers (pe_G e) (Ustates d) Hcl HncG HidG HsymG).
Qed.

Theorem ibfs_perm_layers_unconditional : forall d inv_mats e,
  wf_perm_desc d -> env_of d inv_mats = Some e -> g_hasher d = HIdentity -> single_word d ->
  forall starts, (forall s, In s starts -> Ustates d s) -> forall k,
  let b := ibfs_after (pe_G e) starts k in
  length (ihashes b) = S k /\
  NoDup (cur_layer b) /\ set_eq (cur_layer b) (layer state st_eq_dec (acts (pe_G e)) starts k) /\
  (forall i, i <= k -> StronglySorted Z.lt (nth i (ihashes b) []) /\
     (forall h, In h (nth i (ihashes b) []) <->
                exists t, In t (layer state st_eq_dec (acts (pe_G e)) starts i) /\ hashf (pe_G e) t = h)) /\
  nth k (ihashes b) [] = map (hashf (pe_G e)) (cur_layer b).
Proof.
  intros d inv_mats e Hwf He Hh Hsw.
  exact (ibfs_perm_layers d inv_mats e Hwf He (proj1 (impl_of_identity_nocoll d Hwf Hh Hsw))).
Qed.


(* ------------------------------------------------------------------ *)
(** * End to end: find_path exactly as the harness runs it (check_fp_case): the ball is computed by [ball_of]
      in the graph itself (inverse-closed generators) or in the inverted graph (otherwise) *)

Definition fp_ball (e : path_env) (batch : Z) (depth : BinNums.N) (explore : Z) (c : state) : result (list (list Z) * nat) :=
  ball_of (if inv_closed (pe_G e) then pe_G e else pe_Ginv e) batch depth explore [c].

Lemma fp_ball_ok d inv_mats e batch depth explore lh ns :
  wf_perm_desc d -> env_of d inv_mats = Some e -> NoCollOn (impl_of d) (Ustates d) -> (1 <= batch)%Z ->
  fp_ball e batch depth explore (g_central d) = Ok (lh, ns) ->
  balls_ok e lh ns lh ns /\ ball_depth e ns ns = ns - 1.
Proof.
  intros Hwf He Hnc Hb Hball. pose proof (perm_env_nocoll_inv d inv_mats e Hwf He Hnc) as HncI.
  prep Hwf He Hnc. unfold fp_ball in Hball. rewrite <- (pe_G_central d inv_mats e Hwf He) in Hball. split.
  - split; intros Hic; rewrite Hic in Hball.
    + exact (ball_of_ball_ok (pe_G e) (Ustates d) batch depth explore _ lh ns Hcl HncG HidG HsymG Hb HcU Hball).
    + exact (ball_of_ball_ok (pe_Ginv e) (Ustates d) batch depth explore _ lh ns Hcli HncI HidI HsymI Hb HcU Hball).
  - unfold ball_depth. destruct (inv_closed (pe_G e)); reflexivity.
Qed.

Theorem find_path_perm_e2e_valid : forall d inv_mats e batch depth explore lh ns s p,
  wf_perm_desc d -> env_of d inv_mats = Some e -> NoCollOn (impl_of d) (Ustates d) ->
  (forall q k, (Z.of_nat (length (layer state st_eq_dec (acts (pe_G e)) [q] k)) < 1000000000000)%Z) ->
  (forall q k, (Z.of_nat (length (layer state st_eq_dec (acts (pe_Ginv e)) [q] k)) < 1000000000000)%Z) ->
  (1 <= batch)%Z -> fp_ball e batch depth explore (g_central d) = Ok (lh, ns) -> Ustates d s ->
  find_path_one e (lh, ns) (lh, ns) s = Ok (Some p) ->
  run state (acts (impl_of d)) s p = Some (g_central d) /\
  dist_is state (acts (impl_of d)) [s] (g_central d) (length p) /\
  length p <= 2 * (ns - 1).
Proof.
  intros d inv_mats e batch depth explore lh ns s p Hwf He Hnc Hsm Hsmi Hb Hball Hs.
  intros Hres. destruct (fp_ball_ok d inv_mats e batch depth explore lh ns Hwf He Hnc Hb Hball) as [Hbk Hdep].
  rewrite <- (pe_G_acts d inv_mats e Hwf He), <- (pe_G_central d inv_mats e Hwf He), <- Hdep.
  exact (find_path_perm_valid d inv_mats e Hwf He Hnc Hsm Hsmi lh ns lh ns s p Hbk Hs Hres).
Qed.

(* at most 14 symbols: the layer bounds hold by counting *)
Theorem find_path_perm_e2e_valid_small_n : forall d inv_mats e batch depth explore lh ns s p,
  wf_perm_desc d -> env_of d inv_mats = Some e -> NoCollOn (impl_of d) (Ustates d) -> desc_n d <= 14 ->
  (1 <= batch)%Z -> fp_ball e batch depth explore (g_central d) = Ok (lh, ns) -> Ustates d s ->
  find_path_one e (lh, ns) (lh, ns) s = Ok (Some p) ->
  run state (acts (impl_of d)) s p = Some (g_central d) /\
  dist_is state (acts (impl_of d)) [s] (g_central d) (length p) /\
  length p <= 2 * (ns - 1).
Proof.
  intros d inv_mats e batch depth explore lh ns s p Hwf He Hnc Hn. destruct (perm_env_small d inv_mats e Hwf He Hn) as [Hsm Hsmi].
  exact (find_path_perm_e2e_valid d inv_mats e batch depth explore lh ns s p Hwf He Hnc Hsm Hsmi).
Qed.

(* identity hasher on a one-word code, at most 14 symbols: NO hypothesis about hashing or sizes is left *)
Theorem find_path_perm_e2e_valid_closed : forall d inv_mats e batch depth explore lh ns s p,
  wf_perm_desc d -> env_of d inv_mats = Some e -> g_hasher d = HIdentity -> single_word d -> desc_n d <= 14 ->
  (1 <= batch)%Z -> fp_ball e batch depth explore (g_central d) = Ok (lh, ns) -> Ustates d s ->
  find_path_one e (lh, ns) (lh, ns) s = Ok (Some p) ->
  run state (acts (impl_of d)) s p = Some (g_central d) /\
  dist_is state (acts (impl_of d)) [s] (g_central d) (length p) /\
  length p <= 2 * (ns - 1).
Proof.
  intros d inv_mats e batch depth explore lh ns s p Hwf He Hh Hsw Hn.
  exact (find_path_perm_e2e_valid_small_n d inv_mats e batch depth explore lh ns s p Hwf He (proj1 (impl_of_identity_nocoll d Hwf Hh Hsw)) Hn).
Qed.

Theorem find_path_perm_e2e_shortest : forall d inv_mats e batch depth explore lh ns s k,
  wf_perm_desc d -> env_of d inv_mats = Some e -> NoCollOn (impl_of d) (Ustates d) ->
  (forall q k, (Z.of_nat (length (layer state st_eq_dec (acts (pe_G e)) [q] k)) < 1000000000000)%Z) ->
  (forall q k, (Z.of_nat (length (layer state st_eq_dec (acts (pe_Ginv e)) [q] k)) < 1000000000000)%Z) ->
  (1 <= batch)%Z -> fp_ball e batch depth explore (g_central d) = Ok (lh, ns) -> Ustates d s ->
  dist_is state (acts (impl_of d)) [s] (g_central d) k -> k <= 2 * (ns - 1) ->
  exists p, find_path_one e (lh, ns) (lh, ns) s = Ok (Some p) /\ length p = k /\
            run state (acts (impl_of d)) s p = Some (g_central d).
Proof.
  intros d inv_mats e batch depth explore lh ns s k Hwf He Hnc Hsm Hsmi Hb Hball Hs.
  destruct (fp_ball_ok d inv_mats e batch depth explore lh ns Hwf He Hnc Hb Hball) as [Hbk Hdep].
  rewrite <- (pe_G_acts d inv_mats e Hwf He), <- (pe_G_central d inv_mats e Hwf He), <- Hdep.
  exact (find_path_perm_shortest d inv_mats e Hwf He Hnc Hsm Hsmi lh ns lh ns s k Hbk Hs).
Qed.

(* at most 14 symbols: the layer bounds hold by counting *)
Theorem find_path_perm_e2e_shortest_small_n : forall d inv_mats e batch depth explore lh ns s k,
  wf_perm_desc d -> env_of d inv_mats = Some e -> NoCollOn (impl_of d) (Ustates d) -> desc_n d <= 14 ->
  (1 <= batch)%Z -> fp_ball e batch depth explore (g_central d) = Ok (lh, ns) -> Ustates d s ->
  dist_is state (acts (impl_of d)) [s] (g_central d) k -> k <= 2 * (ns - 1) ->
  exists p, find_path_one e (lh, ns) (lh, ns) s = Ok (Some p) /\ length p = k /\
            run state (acts (impl_of d)) s p = Some (g_central d).
Proof.
  intros d inv_mats e batch depth explore lh ns s k Hwf He Hnc Hn. destruct (perm_env_small d inv_mats e Hwf He Hn) as [Hsm Hsmi].
  exact (find_path_perm_e2e_shortest d inv_mats e batch depth explore lh ns s k Hwf He Hnc Hsm Hsmi).
Qed.

(* identity hasher on a one-word code, at most 14 symbols: NO hypothesis about hashing or sizes is left *)
Theorem find_path_perm_e2e_shortest_closed : forall d inv_mats e batch depth explore lh ns s k,
  wf_perm_desc d -> env_of d inv_mats = Some e -> g_hasher d = HIdentity -> single_word d -> desc_n d <= 14 ->
  (1 <= batch)%Z -> fp_ball e batch depth explore (g_central d) = Ok (lh, ns) -> Ustates d s ->
  dist_is state (acts (impl_of d)) [s] (g_central d) k -> k <= 2 * (ns - 1) ->
  exists p, find_path_one e (lh, ns) (lh, ns) s = Ok (Some p) /\ length p = k /\
            run state (acts (impl_of d)) s p = Some (g_central d).
Proof.
  intros d inv_mats e batch depth explore lh ns s k Hwf He Hh Hsw Hn.
  exact (find_path_perm_e2e_shortest_small_n d inv_mats e batch depth explore lh ns s k Hwf He (proj1 (impl_of_identity_nocoll d Hwf Hh Hsw)) Hn).
Qed.

Theorem find_path_perm_e2e_none : forall d inv_mats e batch depth explore lh ns s,
  wf_perm_desc d -> env_of d inv_mats = Some e -> NoCollOn (impl_of d) (Ustates d) ->
  (forall q k, (Z.of_nat (length (layer state st_eq_dec (acts (pe_G e)) [q] k)) < 1000000000000)%Z) ->
  (forall q k, (Z.of_nat (length (layer state st_eq_dec (acts (pe_Ginv e)) [q] k)) < 1000000000000)%Z) ->
  (1 <= batch)%Z -> fp_ball e batch depth explore (g_central d) = Ok (lh, ns) -> Ustates d s ->
  (forall k, dist_is state (acts (impl_of d)) [s] (g_central d) k -> 2 * (ns - 1) < k) ->
  find_path_one e (lh, ns) (lh, ns) s = Ok None.
Proof.
  intros d inv_mats e batch depth explore lh ns s Hwf He Hnc Hsm Hsmi Hb Hball Hs.
  destruct (fp_ball_ok d inv_mats e batch depth explore lh ns Hwf He Hnc Hb Hball) as [Hbk Hdep].
  rewrite <- (pe_G_acts d inv_mats e Hwf He), <- (pe_G_central d inv_mats e Hwf He), <- Hdep.
  exact (find_path_perm_none d inv_mats e Hwf He Hnc Hsm Hsmi lh ns lh ns s Hbk Hs).
Qed.

(* at most 14 symbols: the layer bounds hold by counting *)
Theorem find_path_perm_e2e_none_small_n : forall d inv_mats e batch depth explore lh ns s,
  wf_perm_desc d -> env_of d inv_mats = Some e -> NoCollOn (impl_of d) (Ustates d) -> desc_n d <= 14 ->
  (1 <= batch)%Z -> fp_ball e batch depth explore (g_central d) = Ok (lh, ns) -> Ustates d s ->
  (forall k, dist_is state (acts (impl_of d)) [s] (g_central d) k -> 2 * (ns - 1) < k) ->
  find_path_one e (lh, ns) (lh, ns) s = Ok None.
Proof.
  intros d inv_mats e batch depth explore lh ns s Hwf He Hnc Hn. destruct (perm_env_small d inv_mats e Hwf He Hn) as [Hsm Hsmi].
  exact (find_path_perm_e2e_none d inv_mats e batch depth explore lh ns s Hwf He Hnc Hsm Hsmi).
Qed.

(* identity hasher on a one-word code, at most 14 symbols: NO hypothesis about hashing or sizes is left *)
Theorem find_path_perm_e2e_none_closed : forall d inv_mats e batch depth explore lh ns s,
  wf_perm_desc d -> env_of d inv_mats = Some e -> g_hasher d = HIdentity -> single_word d -> desc_n d <= 14 ->
  (1 <= batch)%Z -> fp_ball e batch depth explore (g_central d) = Ok (lh, ns) -> Ustates d s ->
  (forall k, dist_is state (acts (impl_of d)) [s] (g_central d) k -> 2 * (ns - 1) < k) ->
  find_path_one e (lh, ns) (lh, ns) s = Ok None.
Proof.
  intros d inv_mats e batch depth explore lh ns s Hwf He Hh Hsw Hn.
  exact (find_path_perm_e2e_none_small_n d inv_mats e batch depth explore lh ns s Hwf He (proj1 (impl_of_identity_nocoll d Hwf Hh Hsw)) Hn).
Qed.

(* ------------------------------------------------------------------ *)
(** * Non-vacuity *)

Example lrx5_env : exists e, env_of lrx5 [] = Some e.
Proof. apply env_of_perm_some. exact lrx5_wf. Qed.

Example big24_env_structural : forall e, env_of big24 [] = Some e -> path_structural e (Ustates big24).
Proof. intros e He. exact (perm_env_structural big24 [] e big24_wf He). Qed.

Example lrx5_env_all_hyps : forall e, env_of lrx5 [] = Some e ->
  path_structural e (Ustates lrx5) /\ path_hash_ok e (Ustates lrx5).
Proof.
  intros e He. split.
  - exact (perm_env_structural lrx5 [] e lrx5_wf He).
  - exact (perm_env_hash_ok_unconditional lrx5 [] e lrx5_wf He eq_refl lrx5_single).
Qed.

(* find_path on LRX(5) with a ball of depth 3: the model answers X,R,X,R for the state 3 1 4 0 2, and by the closed
   theorem this IS a shortest path to the identity (distance 4); it answers "no path" for the reversal 4 3 2 1 0,
   hence that state is farther than 6 from the identity - with no assumption whatsoever *)
Example lrx5_find_path : forall e, env_of lrx5 [] = Some e ->
  exists lh ns,
    fp_ball e 1048576 3%N 1000000 (g_central lrx5) = Ok (lh, ns) /\ ns = 4 /\
    find_path_one e (lh, ns) (lh, ns) [3; 1; 4; 0; 2]%Z = Ok (Some [2; 1; 2; 1]) /\
    run state (acts (impl_of lrx5)) [3; 1; 4; 0; 2]%Z [2; 1; 2; 1] = Some (g_central lrx5) /\
    dist_is state (acts (impl_of lrx5)) [[3; 1; 4; 0; 2]%Z] (g_central lrx5) 4 /\
    find_path_one e (lh, ns) (lh, ns) [4; 3; 2; 1; 0]%Z = Ok None /\
    (forall k, dist_is state (acts (impl_of lrx5)) [[4; 3; 2; 1; 0]%Z] (g_central lrx5) k -> 6 < k).
Proof.
  intros e He.
  assert (E : e = {| pe_G := impl_of (desc_fwd lrx5); pe_Ginv := impl_of (desc_inv lrx5);
                     pe_invmap := perm_inverse_map (desc_perms lrx5); pe_flag_ok := pe_flag_ok e |}).
  { unfold env_of in He. cbn in He. inversion He. reflexivity. }
  destruct (fp_ball e 1048576 3%N 1000000 (g_central lrx5)) as [[lh ns]|er] eqn:Eb.
  2:{ exfalso. rewrite E in Eb.
      assert (H : match fp_ball {| pe_G := impl_of (desc_fwd lrx5); pe_Ginv := impl_of (desc_inv lrx5);
                     pe_invmap := perm_inverse_map (desc_perms lrx5); pe_flag_ok := pe_flag_ok e |} 1048576 3%N 1000000 (g_central lrx5)
                  with Ok _ => true | Err _ => false end = true) by (vm_compute; reflexivity).
      rewrite Eb in H. discriminate. }
  assert (H : match fp_ball e 1048576 3%N 1000000 (g_central lrx5) with
              | Ok ball => (snd ball =? 4) &&
                           path_res_eqb (find_path_one e ball ball [3; 1; 4; 0; 2]%Z) (Ok (Some [2; 1; 2; 1])) &&
                           path_res_eqb (find_path_one e ball ball [4; 3; 2; 1; 0]%Z) (Ok None)
              | Err _ => false end = true).
  { rewrite E. vm_compute. reflexivity. }
  rewrite Eb in H. cbn [snd] in H. apply andb_true_iff in H as [H H3]. apply andb_true_iff in H as [H1 H2].
  apply Nat.eqb_eq in H1.
  assert (R1 : find_path_one e (lh, ns) (lh, ns) [3; 1; 4; 0; 2]%Z = Ok (Some [2; 1; 2; 1])).
  { destruct (find_path_one e (lh, ns) (lh, ns) [3; 1; 4; 0; 2]%Z) as [[p|]|er]; cbn in H2; try discriminate.
    apply PermProofs.list_eqb_nat_true in H2. subst p. reflexivity. }
  assert (R2 : find_path_one e (lh, ns) (lh, ns) [4; 3; 2; 1; 0]%Z = Ok None).
  { destruct (find_path_one e (lh, ns) (lh, ns) [4; 3; 2; 1; 0]%Z) as [[p|]|er]; cbn in H3; try discriminate. reflexivity. }
  assert (Hn : desc_n lrx5 <= 14) by (vm_compute; lia).
  assert (Hb : (1 <= 1048576)%Z) by lia.
  assert (Hs1 : Ustates lrx5 [3; 1; 4; 0; 2]%Z) by (apply Ustatesb_spec; vm_compute; reflexivity).
  assert (Hs2 : Ustates lrx5 [4; 3; 2; 1; 0]%Z) by (apply Ustatesb_spec; vm_compute; reflexivity).
  destruct (find_path_perm_e2e_valid_closed lrx5 [] e 1048576%Z 3%N 1000000%Z lh ns _ _
              lrx5_wf He eq_refl lrx5_single Hn Hb Eb Hs1 R1) as (V1 & V2 & _).
  exists lh, ns. split; [reflexivity|]. split; [exact H1|]. split; [exact R1|]. split; [exact V1|].
  split; [exact V2|]. split; [exact R2|].
  intros k Hk. destruct (le_lt_dec k (2 * (ns - 1))) as [Hle | Hgt]; [|lia].
  destruct (find_path_perm_e2e_shortest_closed lrx5 [] e 1048576%Z 3%N 1000000%Z lh ns _ k
              lrx5_wf He eq_refl lrx5_single Hn Hb Eb Hs2 Hk Hle) as (p & Hp & _).
  rewrite R2 in Hp. discriminate.
Qed.

Print Assumptions perm_env_structural.
Print Assumptions perm_env_hash_ok.
Print Assumptions perm_env_hash_ok_unconditional.
Print Assumptions ball_of_ball_ok.
Print Assumptions find_path_perm_valid.
Print Assumptions find_path_perm_shortest.
Print Assumptions find_path_perm_none.
Print Assumptions find_path_perm_valid_unconditional.
Print Assumptions find_path_perm_shortest_unconditional.
Print Assumptions find_path_perm_none_unconditional.
Print Assumptions revert_path_perm_valid.
Print Assumptions restore_path_perm_correct_unconditional.
Print Assumptions find_path_to_perm_sound_unconditional.
Print Assumptions find_path_to_perm_complete_unconditional.
Print Assumptions find_path_to_perm_shortest_unconditional.
Print Assumptions find_path_from_perm_sound_unconditional.
Print Assumptions mitm_to_perm_sound_unconditional.
Print Assumptions mitm_to_perm_complete_unconditional.
Print Assumptions mitm_to_perm_none_unconditional.
Print Assumptions mitm_to_perm_exact_unconditional.
Print Assumptions between_perm_sound_unconditional.
Print Assumptions between_perm_complete_unconditional.
Print Assumptions between_perm_none_unconditional.
Print Assumptions ibfs_perm_layers_unconditional.
Print Assumptions find_path_perm_e2e_valid_closed.
Print Assumptions find_path_perm_e2e_shortest_closed.
Print Assumptions find_path_perm_e2e_none_closed.
Print Assumptions lrx5_find_path.
