(** Reference BFS that runs inside Coq (vm_compute) on orbits of tens of thousands of states.
    States are [list Z]; generators are functions [list Z -> list Z] (permutation or matrix actions).
    The visited set is a red-black tree from the standard library (MSetRBT) over [list Z] ordered
    lexicographically; the ordered-type instance is built and proved here (it has to live with its
    definition, a module must satisfy its signature).  Correctness against Graph.v: RefBfsProofs.v. *)
From Coq Require Import ZArith List Bool Arith Lia Orders MSetRBT.
Import ListNotations.

(* ------------------------------------------------------------------------------------------- *)
(* list Z with Leibniz equality and the lexicographic order *)
Module ListZ_as_OT <: Orders.OrderedType.
  Definition t := list Z.
  Definition eq := @Logic.eq t.
  Definition eq_equiv : Equivalence eq := eq_equivalence.

  Fixpoint compare (a b : list Z) : comparison :=
    match a, b with
    | [], [] => Eq
    | [], _ :: _ => Lt
    | _ :: _, [] => Gt
    | x :: a', y :: b' =>
        match Z.compare x y with
        | Eq => compare a' b'
        | Lt => Lt
        | Gt => Gt
        end
    end.

  Definition lt (a b : list Z) : Prop := compare a b = Lt.

  Lemma compare_refl a : compare a a = Eq.
  Proof. induction a as [|x a IH]; simpl; auto. rewrite Z.compare_refl. exact IH. Qed.

  Lemma compare_eq a : forall b, compare a b = Eq -> a = b.
  Proof.
    induction a as [|x a IH]; intros [|y b]; simpl; intros H; try discriminate; auto.
    destruct (Z.compare x y) eqn:E; try discriminate.
    apply Z.compare_eq_iff in E. subst y. f_equal. apply IH. exact H.
  Qed.

  Lemma compare_antisym a : forall b, compare b a = CompOpp (compare a b).
  Proof.
    induction a as [|x a IH]; intros [|y b]; simpl; auto.
    rewrite (Z.compare_antisym x y). destruct (Z.compare x y); simpl; auto.
  Qed.

  Lemma lt_trans a : forall b c, lt a b -> lt b c -> lt a c.
  Proof.
    unfold lt. induction a as [|x a IH]; intros [|y b] [|z c]; simpl; intros H1 H2;
      try discriminate; auto.
    destruct (Z.compare x y) eqn:E1; try discriminate;
      destruct (Z.compare y z) eqn:E2; try discriminate.
    - apply Z.compare_eq_iff in E1. apply Z.compare_eq_iff in E2. subst.
      rewrite Z.compare_refl. eapply IH; eauto.
    - apply Z.compare_eq_iff in E1. subst. rewrite E2. reflexivity.
    - apply Z.compare_eq_iff in E2. subst. rewrite E1. reflexivity.
    - rewrite Z.compare_lt_iff in E1, E2.
      assert (E : Z.compare x z = Lt) by (apply Z.compare_lt_iff; lia).
      rewrite E. reflexivity.
  Qed.

  Lemma lt_strorder : StrictOrder lt.
  Proof.
    split.
    - intros a H. unfold lt in H. rewrite compare_refl in H. discriminate.
    - intros a b c. apply lt_trans.
  Qed.

  Lemma lt_compat : Proper (eq ==> eq ==> iff) lt.
  Proof. intros a a' Ha b b' Hb. unfold eq in *. subst. reflexivity. Qed.

  Lemma compare_spec : forall a b, CompareSpec (eq a b) (lt a b) (lt b a) (compare a b).
  Proof.
    intros a b. destruct (compare a b) eqn:E; constructor.
    - apply compare_eq. exact E.
    - exact E.
    - unfold lt. rewrite compare_antisym, E. reflexivity.
  Qed.

  Definition eq_dec : forall a b : list Z, {eq a b} + {~ eq a b} := list_eq_dec Z.eq_dec.
End ListZ_as_OT.

Module LZSet := MSetRBT.Make ListZ_as_OT.
(* the raw trees are used directly: no proof component is carried around at run time *)
Module LZRaw := LZSet.Raw.

Definition zstate := list Z.
Definition zstate_eq_dec : forall a b : zstate, {a = b} + {a <> b} := list_eq_dec Z.eq_dec.

Section RefBfs.
  Variable gens : list (zstate -> zstate).

  (* one candidate: keep it iff it has not been seen, and mark it seen *)
  Definition visit (acc : LZRaw.t * list zstate) (x : zstate) : LZRaw.t * list zstate :=
    let '(vis, new) := acc in
    if LZRaw.mem x vis then acc else (LZRaw.add x vis, x :: new).

  Definition visit_all (acc : LZRaw.t * list zstate) (cands : list zstate) : LZRaw.t * list zstate :=
    fold_left visit cands acc.

  (* all out-neighbours of one state, visited in generator order *)
  Definition expand_one (acc : LZRaw.t * list zstate) (x : zstate) : LZRaw.t * list zstate :=
    fold_left (fun a g => visit a (g x)) gens acc.

  (* from (seen so far, layer i) to (seen so far, layer i+1) *)
  Definition expand (vis : LZRaw.t) (fr : list zstate) : LZRaw.t * list zstate :=
    fold_left expand_one fr (vis, []).

  (* layer 0 = the distinct start states *)
  Definition bfs_init (starts : list zstate) : LZRaw.t * list zstate :=
    visit_all (LZRaw.empty, []) starts.

  (* runs until an empty layer; [acc] holds the sizes found so far, newest first *)
  Fixpoint bfs_loop (fuel : nat) (vis : LZRaw.t) (fr : list zstate) (acc : list nat) : option (list nat) :=
    match fuel with
    | O => None
    | S f =>
        match fr with
        | [] => Some (rev acc)
        | _ :: _ => let '(vis', nxt) := expand vis fr in bfs_loop f vis' nxt (length fr :: acc)
        end
    end.

  (* growth function of the orbit of [starts]; None = out of fuel (never a normal-looking value) *)
  Definition growth_fuel (starts : list zstate) (fuel : nat) : option (list nat) :=
    let '(vis, fr) := bfs_init starts in bfs_loop fuel vis fr [].

  Fixpoint prefix_loop (k : nat) (vis : LZRaw.t) (fr : list zstate) : list nat :=
    length fr ::
    match k with
    | O => []
    | S k' => let '(vis', nxt) := expand vis fr in prefix_loop k' vis' nxt
    end.

  (* sizes of layers 0..k (k+1 numbers; zeros after the last layer) *)
  Definition growth_prefix (starts : list zstate) (k : nat) : list nat :=
    let '(vis, fr) := bfs_init starts in prefix_loop k vis fr.
End RefBfs.
