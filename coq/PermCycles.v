(** Proofs about [from_cycles] and [partition_to_permutation] (Perm.v): both write, for each
    cycle c and each position i, perm[c[i]] := c[(i+1) mod len c]; when the cycles are pairwise
    disjoint, duplicate-free and in range the outcome is a permutation with exactly those cycles. *)
From Coq Require Import ZArith List Bool Arith Lia Sorting.Permutation.
From V Require Import Base Perm PermProofs.
Import ListNotations.

(* ---------- generic list facts ---------- *)
Lemma NoDup_app_l {A} (l l' : list A) : NoDup (l ++ l') -> NoDup l.
Proof.
  induction l as [|a l IH]; intros ND; [constructor|].
  simpl in ND. inversion ND as [|? ? Hn ND']; subst. constructor.
  - intros Hin. apply Hn. apply in_or_app. left; exact Hin.
  - apply IH; exact ND'.
Qed.

Lemma NoDup_app_r {A} (l l' : list A) : NoDup (l ++ l') -> NoDup l'.
Proof.
  induction l as [|a l IH]; intros ND; [exact ND|].
  simpl in ND. inversion ND as [|? ? Hn ND']; subst. apply IH; exact ND'.
Qed.

Lemma NoDup_app_disj {A} (l l' : list A) x : NoDup (l ++ l') -> In x l -> In x l' -> False.
Proof.
  induction l as [|a l IH]; intros ND H1 H2; [destruct H1|].
  simpl in ND. inversion ND as [|? ? Hn ND']; subst.
  destruct H1 as [->|H1].
  - apply Hn. apply in_or_app. right; exact H2.
  - apply IH; auto.
Qed.

Lemma NoDup_map_inj {A B} (f : A -> B) l :
  NoDup l -> (forall x y, In x l -> In y l -> f x = f y -> x = y) -> NoDup (map f l).
Proof.
  induction 1 as [|a l Hn ND IH]; intros Hinj; simpl; constructor.
  - intros Hin. apply in_map_iff in Hin as (y & E & Hy). apply Hn.
    assert (y = a) by (apply Hinj; simpl; auto). subst; auto.
  - apply IH. intros x y Hx Hy. apply Hinj; simpl; auto.
Qed.

Lemma skipn_add {A} a b (l : list A) : skipn b (skipn a l) = skipn (a + b) l.
Proof.
  revert l; induction a as [|a IH]; intros l; [reflexivity|].
  destruct l as [|h t]; cbn [skipn Nat.add].
  - apply skipn_nil.
  - apply IH.
Qed.

(* ---------- the common write loop on nat cycles ---------- *)
Definition wstep (c : list nat) (pm : list nat) (i : nat) : list nat :=
  upd pm (nth i c 0) (nth ((i + 1) mod length c) c 0).
Definition write_cycle (c : list nat) (pm : list nat) : list nat :=
  fold_left (wstep c) (seq 0 (length c)) pm.
Definition write_cycles (cs : list (list nat)) (pm : list nat) : list nat :=
  fold_left (fun pm c => write_cycle c pm) cs pm.

Lemma wfold_length c l pm : length (fold_left (wstep c) l pm) = length pm.
Proof.
  revert pm; induction l as [|a l IH]; intros pm; simpl; auto.
  rewrite IH. unfold wstep. apply upd_length.
Qed.

Lemma wprefix c pm : NoDup c -> (forall x, In x c -> x < length pm) ->
  forall k, k <= length c ->
  let r := fold_left (wstep c) (seq 0 k) pm in
  (forall i, i < k -> nth (nth i c 0) r 0 = nth ((i + 1) mod length c) c 0) /\
  (forall x, (forall i, i < k -> nth i c 0 <> x) -> nth x r 0 = nth x pm 0).
Proof.
  intros ND Hlt. induction k as [|k IH]; intros Hk; cbv zeta.
  - cbn [seq fold_left]. split; intros; [lia|reflexivity].
  - rewrite seq_S, fold_left_app. cbn [fold_left Nat.add].
    destruct (IH ltac:(lia)) as [I1 I2]. cbv zeta in I1, I2.
    set (r := fold_left _ (seq 0 k) pm) in *.
    assert (length r = length pm) as Hr by apply wfold_length.
    unfold wstep.
    split.
    + intros i Hi. destruct (Nat.eq_dec i k) as [->|Hne].
      * apply nth_upd_same. rewrite Hr. apply Hlt. apply nth_In. lia.
      * rewrite nth_upd_other. { apply I1. lia. }
        intros E. apply Hne. symmetry. apply (proj1 (NoDup_nth c 0) ND); try lia.
    + intros x Hx. rewrite nth_upd_other by (apply Hx; lia). apply I2. intros i Hi. apply Hx. lia.
Qed.

Lemma write_cycle_spec c pm : NoDup c -> (forall x, In x c -> x < length pm) ->
  let r := write_cycle c pm in
  length r = length pm /\
  (forall i, i < length c -> nth (nth i c 0) r 0 = nth ((i + 1) mod length c) c 0) /\
  (forall x, ~ In x c -> nth x r 0 = nth x pm 0).
Proof.
  intros ND Hlt. cbv zeta. unfold write_cycle.
  destruct (wprefix c pm ND Hlt (length c) (le_n _)) as [I1 I2]. cbv zeta in I1, I2.
  split; [apply wfold_length|]. split; [exact I1|].
  intros x Hx. apply I2. intros i Hi E. apply Hx. rewrite <- E. apply nth_In. exact Hi.
Qed.

Lemma write_cycles_spec cs : forall pm,
  NoDup (concat cs) -> (forall x, In x (concat cs) -> x < length pm) ->
  let r := write_cycles cs pm in
  length r = length pm /\
  (forall c i, In c cs -> i < length c -> nth (nth i c 0) r 0 = nth ((i + 1) mod length c) c 0) /\
  (forall x, ~ In x (concat cs) -> nth x r 0 = nth x pm 0).
Proof.
  induction cs as [|c rest IH]; intros pm ND Hlt; cbv zeta.
  - unfold write_cycles. cbn [fold_left concat]. split; auto. split; [intros c i []|auto].
  - cbn [concat] in ND, Hlt |- *. unfold write_cycles. cbn [fold_left].
    change (fold_left (fun pm0 c0 => write_cycle c0 pm0) rest (write_cycle c pm))
      with (write_cycles rest (write_cycle c pm)).
    destruct (write_cycle_spec c pm) as (L1 & S1 & U1).
    { eapply NoDup_app_l; eauto. }
    { intros x Hx. apply Hlt. apply in_or_app; auto. }
    cbv zeta in L1, S1, U1.
    destruct (IH (write_cycle c pm)) as (L2 & S2 & U2).
    { eapply NoDup_app_r; eauto. }
    { intros x Hx. rewrite L1. apply Hlt. apply in_or_app; auto. }
    cbv zeta in L2, S2, U2.
    split; [congruence|]. split.
    + intros c0 i [<-|Hc0] Hi.
      * rewrite U2; [apply S1; auto|].
        intros Hin. eapply NoDup_app_disj; [exact ND| |exact Hin]. apply nth_In; auto.
      * apply S2; auto.
    + intros x Hx. rewrite U2, U1; auto; intros Hin; apply Hx; apply in_or_app; auto.
Qed.

(* every cell is hit by a predecessor (or is a fixed point): the outcome is onto, hence a permutation *)
Lemma cycles_Perm r n cs : length r = n ->
  (forall x, In x (concat cs) -> x < n) ->
  (forall c i, In c cs -> i < length c -> nth (nth i c 0) r 0 = nth ((i + 1) mod length c) c 0) ->
  (forall x, x < n -> ~ In x (concat cs) -> nth x r 0 = x) ->
  Perm r.
Proof.
  intros L Hlt S U. unfold Perm. apply Permutation_sym. apply NoDup_Permutation_bis.
  - apply seq_NoDup.
  - rewrite seq_length. lia.
  - intros y Hy. apply in_seq in Hy. rewrite L in Hy.
    destruct (in_dec Nat.eq_dec y (concat cs)) as [Hin|Hnin].
    + pose proof Hin as Hin'. apply in_concat in Hin' as (c & Hc & Hyc).
      apply In_nth with (d := 0) in Hyc as (i & Hi & E).
      set (j := if i =? 0 then length c - 1 else i - 1).
      assert (j < length c) as Hj by (unfold j; destruct (i =? 0); lia).
      assert ((j + 1) mod length c = i) as Hm.
      { unfold j. destruct (Nat.eqb_spec i 0) as [->|Hne].
        - replace (length c - 1 + 1) with (length c) by lia. apply Nat.mod_same. lia.
        - replace (i - 1 + 1) with i by lia. apply Nat.mod_small. lia. }
      pose proof (S c j Hc Hj) as Sj. rewrite Hm, E in Sj. rewrite <- Sj. apply nth_In.
      rewrite L. apply Hlt. apply in_concat. exists c. split; auto. apply nth_In; auto.
    + pose proof (U y ltac:(lia) Hnin) as E. rewrite <- E. apply nth_In. lia.
Qed.

(* ---------- from_cycles ---------- *)
Definition cycles_ok (n : nat) (cs : list (list Z)) : Prop :=
  NoDup (concat cs) /\ Forall (fun c => (0 <= c < Z.of_nat n)%Z) (concat cs).

Lemma cyc_step_ok n cyc pm i :
  (0 <= nth i cyc 0 < Z.of_nat n)%Z ->
  nth (Z.to_nat (nth i cyc 0%Z)) pm 0 = Z.to_nat (nth i cyc 0%Z) ->
  cyc_step n cyc (Ok pm) i =
    Ok (upd pm (Z.to_nat (nth i cyc 0%Z)) (Z.to_nat (nth ((i + 1) mod length cyc) cyc 0%Z))).
Proof.
  intros [H1 H2] H3. unfold cyc_step, bind. cbv zeta.
  rewrite (proj2 (Z.leb_le _ _) H1), (proj2 (Z.ltb_lt _ _) H2). cbn [andb].
  rewrite H3, Nat.eqb_refl. reflexivity.
Qed.

Lemma nth_map_to_nat cyc i : nth i (map Z.to_nat cyc) 0 = Z.to_nat (nth i cyc 0%Z).
Proof. exact (map_nth Z.to_nat cyc 0%Z i). Qed.

Lemma cyc_fold_ok n cyc pm :
  (forall z, In z cyc -> (0 <= z < Z.of_nat n)%Z) ->
  NoDup (map Z.to_nat cyc) -> length pm = n ->
  (forall x, In x (map Z.to_nat cyc) -> nth x pm 0 = x) ->
  forall k, k <= length cyc ->
  fold_left (cyc_step n cyc) (seq 0 k) (Ok pm) = Ok (fold_left (wstep (map Z.to_nat cyc)) (seq 0 k) pm).
Proof.
  intros HR ND L Hid.
  assert (forall x, In x (map Z.to_nat cyc) -> x < length pm) as Hlt.
  { intros x Hx. apply in_map_iff in Hx as (z & <- & Hz). specialize (HR z Hz). lia. }
  induction k as [|k IH]; intros Hk.
  - reflexivity.
  - rewrite !seq_S, !fold_left_app. cbn [fold_left Nat.add]. rewrite IH by lia.
    destruct (wprefix (map Z.to_nat cyc) pm ND Hlt k) as [_ I2]; [rewrite map_length; lia|].
    cbv zeta in I2.
    set (r := fold_left _ (seq 0 k) pm) in *.
    assert (In (nth k (map Z.to_nat cyc) 0) (map Z.to_nat cyc)) as Hin.
    { apply nth_In. rewrite map_length. lia. }
    rewrite cyc_step_ok.
    + unfold wstep. rewrite map_length, !nth_map_to_nat. reflexivity.
    + apply HR. apply nth_In. lia.
    + rewrite <- nth_map_to_nat. rewrite I2; [apply Hid; exact Hin|].
      intros i Hi E. assert (i = k); [|lia].
      apply (proj1 (NoDup_nth (map Z.to_nat cyc) 0) ND); rewrite ?map_length; try lia.
Qed.

Lemma cycles_fold_ok n cs : forall pm,
  (forall z, In z (concat cs) -> (0 <= z < Z.of_nat n)%Z) ->
  NoDup (concat (map (map Z.to_nat) cs)) -> length pm = n ->
  (forall x, In x (concat (map (map Z.to_nat) cs)) -> nth x pm 0 = x) ->
  fold_left (cycle_step n) cs (Ok pm) = Ok (write_cycles (map (map Z.to_nat) cs) pm).
Proof.
  induction cs as [|cyc rest IH]; intros pm HR ND L Hid.
  - reflexivity.
  - cbn [map concat] in *. unfold write_cycles. cbn [fold_left].
    change (fold_left (fun pm0 c0 => write_cycle c0 pm0) (map (map Z.to_nat) rest)
              (write_cycle (map Z.to_nat cyc) pm))
      with (write_cycles (map (map Z.to_nat) rest) (write_cycle (map Z.to_nat cyc) pm)).
    assert (NoDup (map Z.to_nat cyc)) as NDc by (eapply NoDup_app_l; eauto).
    assert (forall x, In x (map Z.to_nat cyc) -> x < length pm) as Hlt.
    { intros x Hx. apply in_map_iff in Hx as (z & <- & Hz).
      specialize (HR z ltac:(apply in_or_app; auto)). lia. }
    unfold cycle_step at 2.
    rewrite (cyc_fold_ok n cyc pm) by
      (auto; try (intros; (apply HR || apply Hid); apply in_or_app; auto)).
    replace (fold_left (wstep (map Z.to_nat cyc)) (seq 0 (length cyc)) pm)
      with (write_cycle (map Z.to_nat cyc) pm) by (unfold write_cycle; rewrite map_length; reflexivity).
    destruct (write_cycle_spec (map Z.to_nat cyc) pm NDc Hlt) as (L1 & _ & U1). cbv zeta in L1, U1.
    apply IH.
    + intros z Hz. apply HR. apply in_or_app; auto.
    + eapply NoDup_app_r; eauto.
    + congruence.
    + intros x Hx. rewrite U1.
      * apply Hid. apply in_or_app; auto.
      * intros Hin. eapply NoDup_app_disj; [exact ND|exact Hin|exact Hx].
Qed.

Lemma from_cycles_core n cs :
  cycles_ok n cs ->
  exists perm, fold_left (cycle_step n) cs (Ok (seq 0 n)) = Ok perm /\ length perm = n /\ Perm perm /\
    (forall c i, In c cs -> i < length c ->
        nth (Z.to_nat (nth i c 0%Z)) perm 0 = Z.to_nat (nth ((i + 1) mod length c) c 0%Z)) /\
    (forall x, x < n -> ~ In (Z.of_nat x) (concat cs) -> nth x perm 0 = x).
Proof.
  intros [ND HF]. rewrite Forall_forall in HF.
  set (csn := map (map Z.to_nat) cs).
  assert (concat csn = map Z.to_nat (concat cs)) as Hcat by (symmetry; apply concat_map).
  assert (NoDup (concat csn)) as NDn.
  { rewrite Hcat. apply NoDup_map_inj; auto. intros x y Hx Hy E.
    apply Z2Nat.inj; auto; [apply (HF x Hx)|apply (HF y Hy)]. }
  assert (forall x, In x (concat csn) -> x < n) as Hlt.
  { intros x Hx. rewrite Hcat in Hx. apply in_map_iff in Hx as (z & <- & Hz).
    specialize (HF z Hz). lia. }
  rewrite (cycles_fold_ok n cs (seq 0 n)); auto.
  2: apply seq_length.
  2: { intros x Hx. apply seq_nth. apply Hlt. exact Hx. }
  fold csn. exists (write_cycles csn (seq 0 n)).
  destruct (write_cycles_spec csn (seq 0 n) NDn) as (L & S & U).
  { rewrite seq_length. exact Hlt. }
  cbv zeta in L, S, U. rewrite seq_length in L.
  assert (forall x, x < n -> ~ In x (concat csn) -> nth x (write_cycles csn (seq 0 n)) 0 = x) as U'.
  { intros x Hx Hn. rewrite U by exact Hn. apply seq_nth. exact Hx. }
  split; [reflexivity|]. split; [exact L|]. split; [|split].
  - apply (cycles_Perm _ n csn); auto.
  - intros c i Hc Hi.
    specialize (S (map Z.to_nat c) i (in_map _ _ _ Hc)). rewrite map_length in S.
    rewrite !nth_map_to_nat in S. apply S. exact Hi.
  - intros x Hx Hn. apply U'; auto. intros Hin. apply Hn.
    rewrite Hcat in Hin. apply in_map_iff in Hin as (z & E & Hz).
    specialize (HF z Hz). replace (Z.of_nat x) with z by lia. exact Hz.
Qed.

Theorem from_cycles_spec n cycles offset :
  let cs := map (map (fun x => (x - offset)%Z)) cycles in
  cycles_ok n cs ->
  exists perm, from_cycles n cycles offset = Ok perm /\ length perm = n /\ Perm perm /\
    (forall c i, In c cs -> i < length c ->
        nth (Z.to_nat (nth i c 0%Z)) perm 0 = Z.to_nat (nth ((i + 1) mod length c) c 0%Z)) /\
    (forall x, x < n -> ~ In (Z.of_nat x) (concat cs) -> nth x perm 0 = x).
Proof. intros cs H. exact (from_cycles_core n cs H). Qed.

(* ---- the failing direction: an out-of-range element makes the assertion fire ---- *)
Lemma cyc_fold_err n cyc l e : fold_left (cyc_step n cyc) l (Err e) = Err e.
Proof. induction l as [|a l IH]; [reflexivity|]. cbn [fold_left]. exact IH. Qed.

Lemma cycles_fold_err n cs e : fold_left (cycle_step n) cs (Err e) = Err e.
Proof.
  induction cs as [|c cs IH]; [reflexivity|]. cbn [fold_left]. unfold cycle_step at 2.
  rewrite cyc_fold_err. exact IH.
Qed.

Definition ok_or_assert (r : result (list nat)) : Prop :=
  match r with Ok _ => True | Err e => e = AssertionErr end.

Lemma cyc_step_ooa n cyc acc i : ok_or_assert acc -> ok_or_assert (cyc_step n cyc acc i).
Proof.
  intros H. destruct acc as [pm|e]; [|exact H]. unfold cyc_step, bind. cbv zeta.
  destruct (_ && _); [|reflexivity]. destruct (_ =? _); [exact I|reflexivity].
Qed.

Lemma cyc_fold_ooa n cyc l : forall acc, ok_or_assert acc -> ok_or_assert (fold_left (cyc_step n cyc) l acc).
Proof.
  induction l as [|a l IH]; intros acc H; [exact H|]. cbn [fold_left]. apply IH. apply cyc_step_ooa. exact H.
Qed.

Lemma cycles_fold_ooa n cs : forall acc, ok_or_assert acc -> ok_or_assert (fold_left (cycle_step n) cs acc).
Proof.
  induction cs as [|c cs IH]; intros acc H; [exact H|]. cbn [fold_left]. apply IH.
  unfold cycle_step. apply cyc_fold_ooa. exact H.
Qed.

Lemma cyc_step_Ok_inv n cyc acc i p :
  cyc_step n cyc acc i = Ok p -> (0 <= nth i cyc 0 < Z.of_nat n)%Z.
Proof.
  destruct acc as [pm|e]; unfold cyc_step, bind; cbv zeta; [|discriminate].
  destruct (0 <=? nth i cyc 0)%Z eqn:E1; destruct (nth i cyc 0 <? Z.of_nat n)%Z eqn:E2;
    cbn [andb]; try discriminate.
  intros _. apply Z.leb_le in E1. apply Z.ltb_lt in E2. lia.
Qed.

Lemma cyc_fold_Ok_inv n cyc l : forall acc p,
  fold_left (cyc_step n cyc) l acc = Ok p -> forall i, In i l -> (0 <= nth i cyc 0 < Z.of_nat n)%Z.
Proof.
  induction l as [|a l IH]; intros acc p H i Hi; [destruct Hi|].
  cbn [fold_left] in H. destruct Hi as [->|Hi].
  - destruct (cyc_step n cyc acc i) as [p'|e] eqn:E.
    + eapply cyc_step_Ok_inv; eauto.
    + rewrite cyc_fold_err in H. discriminate.
  - eapply IH; eauto.
Qed.

Lemma cycles_fold_Ok_inv n cs : forall acc p,
  fold_left (cycle_step n) cs acc = Ok p -> forall z, In z (concat cs) -> (0 <= z < Z.of_nat n)%Z.
Proof.
  induction cs as [|c cs IH]; intros acc p H z Hz; [destruct Hz|].
  cbn [fold_left concat] in *. apply in_app_or in Hz as [Hz|Hz].
  - destruct (cycle_step n acc c) as [p'|e] eqn:E.
    + apply In_nth with (d := 0%Z) in Hz as (i & Hi & <-).
      unfold cycle_step in E. eapply cyc_fold_Ok_inv; [exact E|]. apply in_seq. lia.
    + rewrite cycles_fold_err in H. discriminate.
  - eapply IH; eauto.
Qed.

Theorem from_cycles_out_of_range n cycles offset :
  Exists (fun c => ~ (0 <= c - offset < Z.of_nat n)%Z) (concat cycles) ->
  from_cycles n cycles offset = Err AssertionErr.
Proof.
  intros HE. apply Exists_exists in HE as (z & Hz & Hbad).
  unfold from_cycles.
  pose proof (cycles_fold_ooa n (map (map (fun x => (x - offset)%Z)) cycles) (Ok (seq 0 n)) I) as Hooa.
  destruct (fold_left _ _ _) as [p|e] eqn:E.
  - exfalso. apply Hbad. eapply cycles_fold_Ok_inv; [exact E|].
    rewrite <- concat_map. apply in_map_iff. exists z. split; auto.
  - simpl in Hooa. subst e. reflexivity.
Qed.

(* ---------- partition_to_permutation ---------- *)
Definition chunk (k : nat) (lens elements : list nat) : list nat :=
  firstn (nth k lens 0) (skipn (fold_right Nat.add 0 (firstn k lens)) elements).

Fixpoint chunks (lens elements : list nat) : list (list nat) :=
  match lens with
  | [] => []
  | s :: rest => firstn s elements :: chunks rest (skipn s elements)
  end.

Lemma chunks_length lens : forall elements, length (chunks lens elements) = length lens.
Proof. induction lens as [|s rest IH]; intros el; cbn [chunks length]; auto. Qed.

Lemma p2p_loop_chunks lens : forall elements pm,
  fold_right Nat.add 0 lens <= length elements ->
  p2p_loop lens elements pm = write_cycles (chunks lens elements) pm.
Proof.
  induction lens as [|s rest IH]; intros el pm H; [reflexivity|].
  cbn [fold_right] in H. cbn [p2p_loop chunks]. unfold write_cycles. cbn [fold_left].
  change (fold_left (fun pm0 c0 => write_cycle c0 pm0) (chunks rest (skipn s el))
            (write_cycle (firstn s el) pm))
    with (write_cycles (chunks rest (skipn s el)) (write_cycle (firstn s el) pm)).
  cbv zeta. rewrite IH by (rewrite skipn_length; lia).
  f_equal. unfold write_cycle, wstep. rewrite firstn_length_le by lia. reflexivity.
Qed.

Lemma concat_chunks lens : forall elements,
  fold_right Nat.add 0 lens = length elements -> concat (chunks lens elements) = elements.
Proof.
  induction lens as [|s rest IH]; intros el H; cbn [fold_right chunks concat] in *.
  - destruct el; [reflexivity|discriminate].
  - rewrite IH by (rewrite skipn_length; lia). apply firstn_skipn.
Qed.

Lemma nth_chunks lens : forall elements k, k < length lens ->
  nth k (chunks lens elements) [] = chunk k lens elements.
Proof.
  induction lens as [|s rest IH]; intros el k Hk; cbn [length] in Hk; [lia|].
  destruct k as [|k]; unfold chunk; cbn [chunks nth firstn fold_right].
  - reflexivity.
  - rewrite IH by lia. unfold chunk. rewrite skipn_add. reflexivity.
Qed.

Lemma prefix_sum_le lens : forall k, k < length lens ->
  fold_right Nat.add 0 (firstn k lens) + nth k lens 0 <= fold_right Nat.add 0 lens.
Proof.
  induction lens as [|s rest IH]; intros k Hk; cbn [length] in Hk; [lia|].
  destruct k as [|k]; cbn [firstn fold_right nth].
  - lia.
  - specialize (IH k ltac:(lia)). lia.
Qed.

Lemma chunk_length lens elements k :
  fold_right Nat.add 0 lens <= length elements -> k < length lens ->
  length (chunk k lens elements) = nth k lens 0.
Proof.
  intros H Hk. unfold chunk. apply firstn_length_le. rewrite skipn_length.
  pose proof (prefix_sum_le lens k Hk). lia.
Qed.

Theorem partition_to_permutation_spec lens elements :
  Forall (fun k => 1 <= k) lens ->
  let n := fold_right Nat.add 0 lens in
  Permutation elements (seq 0 n) ->
  exists perm, partition_to_permutation lens elements = Ok perm /\ length perm = n /\ Perm perm /\
    (forall k, k < length lens ->
       let c := chunk k lens elements in
       length c = nth k lens 0 /\
       forall i, i < length c -> nth (nth i c 0) perm 0 = nth ((i + 1) mod length c) c 0).
Proof.
  intros HF n HP.
  assert (forallb (fun k => 1 <=? k) lens = true) as Hfb.
  { apply forallb_forall. rewrite Forall_forall in HF. intros x Hx. apply Nat.leb_le. apply HF. exact Hx. }
  assert (length elements = n) as Hlen.
  { rewrite (Permutation_length HP). apply seq_length. }
  assert (NoDup elements) as ND.
  { eapply Permutation_NoDup; [apply Permutation_sym; exact HP|apply seq_NoDup]. }
  assert (forall x, In x elements <-> x < n) as Hin.
  { intros x. split; intros Hx.
    - eapply Permutation_in in Hx; [|exact HP]. apply in_seq in Hx. lia.
    - eapply Permutation_in; [apply Permutation_sym; exact HP|]. apply in_seq. lia. }
  unfold partition_to_permutation. rewrite Hfb. fold n.
  rewrite p2p_loop_chunks by (fold n; lia).
  set (cs := chunks lens elements).
  assert (concat cs = elements) as Hcat by (apply concat_chunks; fold n; lia).
  destruct (write_cycles_spec cs (repeat 0 n)) as (L & S & U).
  { rewrite Hcat. exact ND. }
  { intros x Hx. rewrite repeat_length. apply Hin. rewrite <- Hcat. exact Hx. }
  cbv zeta in L, S, U. rewrite repeat_length in L.
  eexists. split; [reflexivity|]. split; [exact L|]. split.
  - apply (cycles_Perm _ n cs); auto.
    + intros x Hx. apply Hin. rewrite <- Hcat. exact Hx.
    + intros x Hx Hn. exfalso. apply Hn. rewrite Hcat. apply Hin. exact Hx.
  - intros k Hk. set (c := chunk k lens elements). split.
    + apply chunk_length; auto. fold n. lia.
    + intros i Hi. apply S; auto. unfold c. rewrite <- nth_chunks by exact Hk.
      apply nth_In. unfold cs. rewrite chunks_length. exact Hk.
Qed.

Print Assumptions from_cycles_spec.
Print Assumptions from_cycles_out_of_range.
Print Assumptions partition_to_permutation_spec.
