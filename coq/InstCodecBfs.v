(** E6 (second file) - what InstCodec.v buys: the BFS of the library, which works on ENCODED rows
    (bfs_algo.py: encode_states, get_neighbors by the generated routines, make_hashes of the code rows,
    get_unique_states on code rows, decode_states only when a layer is stored), computes exactly the
    image under [encode] of what the abstract model [bfs (impl_of d)] computes on decoded states.

    Part 1  sort / dedup / split commute with a key-preserving map.
    Part 2  a general transport theorem: if [phi] maps the states of an implementation G to the states
            of an implementation E, commuting with the generators and the hashes (and the identity-hash
            conventions agree), then every graph-level primitive and the whole BFS of E on [map phi starts]
            is the [phi]-image of that of G:
              get_neighbors, hashes, get_unique_states, _apply_mask, expand_plain (one plain BFS step),
              batch_step / expand_batched (one batched BFS step), bfs_iter, bfs_init, bfs_finish, bfs.
    Part 3  the encoded implementation [enc_impl d] (states = code rows, generators = generated routines /
            gather, hash = hash of the row, unword h = [h]); its primitives are the literal Python ones
            ([get_unique_states_encoded] = torch.unique on the flattened one-word rows); InstCodec.v supplies
            the hypotheses of Part 2 for phi = encode, so [bfs_encoded_step] and [bfs_encoded] are the
            images of the abstract ones, and decoding the stored layers gives the abstract result itself.
    Part 4  non-vacuity on lrx5 and big24. *)
From Coq Require Import ZArith List Bool Arith Lia Permutation Sorted.
From V Require Import Base BaseProofs W64 Tensor TensorProofs Perm Codec CodecProofs CodecExtra Hash Matrix
                      Graph GraphProofs GraphImpl Bfs BfsStep BfsProofs BfsRun PathRun InstPerm InstBfs InstCodec.
From V.gen Require Import Consts.
Import ListNotations.
Local Open Scope Z_scope.

(* ------------------------------------------------------------------ *)
(** * Part 1: list primitives commute with a key-preserving map *)

Section SortMap.
  Context {A B : Type} (f : A -> B) (key : A -> Z) (key' : B -> Z).
  Hypothesis Hkey : forall a, key' (f a) = key a.

  Lemma merge_map l1 : forall l2, merge key' (map f l1) (map f l2) = map f (merge key l1 l2).
  Proof.
    induction l1 as [|a t1 IH1]; intros l2.
    - cbn [map]. rewrite !merge_nil_l. reflexivity.
    - induction l2 as [|b t2 IH2].
      + cbn [map]. rewrite !merge_nil_r. reflexivity.
      + cbn [map]. rewrite !merge_cons, !Hkey. destruct (key a <=? key b).
        * cbn [map]. f_equal. apply (IH1 (b :: t2)).
        * cbn [map]. f_equal. exact IH2.
  Qed.

  Lemma msort_fuel_map fuel : forall l, msort_fuel key' fuel (map f l) = map f (msort_fuel key fuel l).
  Proof.
    induction fuel as [|fu IH]; intros l; [reflexivity|].
    destruct l as [|a [|b t]]; [reflexivity | reflexivity |].
    change (map f (a :: b :: t)) with (f a :: f b :: map f t).
    rewrite !msort_fuel_S.
    change (f a :: f b :: map f t) with (map f (a :: b :: t)).
    rewrite map_length, firstn_map, skipn_map, !IH. apply merge_map.
  Qed.

  Lemma stable_sort_map l : stable_sort key' (map f l) = map f (stable_sort key l).
  Proof. unfold stable_sort. rewrite map_length. apply msort_fuel_map. Qed.

  Lemma skip_aux_map r : forall p, skip_aux key' (f p) (map f r) = map f (skip_aux key p r).
  Proof.
    induction r as [|b r IH]; intros p; [reflexivity|].
    cbn [map]. rewrite !skip_aux_cons, !Hkey. destruct (key b =? key p).
    - apply IH.
    - cbn [map]. f_equal. apply IH.
  Qed.

  Lemma dedup_adjacent_map l : dedup_adjacent key' (map f l) = map f (dedup_adjacent key l).
  Proof.
    destruct l as [|a t]; [reflexivity|]. cbn [map]. rewrite !dedup_cons. cbn [map]. f_equal. apply skip_aux_map.
  Qed.
End SortMap.

Lemma combine_map_l {A B C} (f : A -> B) (l : list A) (hs : list C) :
  combine (map f l) hs = map (fun p => (f (fst p), snd p)) (combine l hs).
Proof.
  revert hs. induction l as [|a l IH]; intros [|h hs]; cbn [map combine]; try reflexivity.
  cbn [fst snd]. f_equal. apply IH.
Qed.

Lemma split_sizes_map {A B} (f : A -> B) sizes : forall l,
  split_sizes sizes (map f l) = map (map f) (split_sizes sizes l).
Proof.
  induction sizes as [|s rest IH]; intros l; cbn [split_sizes map]; [reflexivity|].
  rewrite firstn_map, skipn_map, IH. reflexivity.
Qed.

Lemma tensor_split_map {A B} (f : A -> B) k l : tensor_split k (map f l) = map (map f) (tensor_split k l).
Proof. unfold tensor_split. rewrite map_length. apply split_sizes_map. Qed.

Lemma mask_select_incl {A} (l : list A) : forall m x, In x (mask_select l m) -> In x l.
Proof.
  induction l as [|a l IH]; intros [|b m] x Hx; cbn [mask_select] in Hx; try contradiction.
  destruct b.
  - destruct Hx as [<- | Hx]; [left; reflexivity | right; apply (IH m x Hx)].
  - right. apply (IH m x Hx).
Qed.

Lemma in_split_sizes {A} sizes : forall (l b : list A) x, In b (split_sizes sizes l) -> In x b -> In x l.
Proof.
  induction sizes as [|s rest IH]; intros l b x Hb Hx; cbn [split_sizes] in Hb; [contradiction|].
  destruct Hb as [<- | Hb].
  - rewrite <- (firstn_skipn s l). apply in_app_iff. left. exact Hx.
  - rewrite <- (firstn_skipn s l). apply in_app_iff. right. apply (IH _ b x Hb Hx).
Qed.

Lemma in_tensor_split {A} k (l b : list A) x : In b (tensor_split k l) -> In x b -> In x l.
Proof. unfold tensor_split. apply in_split_sizes. Qed.

Lemma Forall2_in_r {A B} (R : A -> B -> Prop) l1 l2 b : Forall2 R l1 l2 -> In b l2 -> exists a, In a l1 /\ R a b.
Proof.
  intros H. induction H as [|x y l1 l2 Hxy _ IH]; intros Hb; [contradiction|].
  destruct Hb as [<- | Hb].
  - exists x. split; [left; reflexivity | exact Hxy].
  - destruct (IH Hb) as (a & Ha & Hab). exists a. split; [right; exact Ha | exact Hab].
Qed.

Lemma Forall2_len {A B} (R : A -> B -> Prop) l1 l2 : Forall2 R l1 l2 -> length l1 = length l2.
Proof. intros H. induction H; cbn [length]; [reflexivity | f_equal; assumption]. Qed.

(* destructuring-free forms of the BFS building blocks *)
Lemma expand_plain_eq G st :
  expand_plain G st =
  (apply_mask G (fst (get_unique_states G (get_neighbors G (layer1 st)) (hashes G (get_neighbors G (layer1 st)))))
                (snd (get_unique_states G (get_neighbors G (layer1 st)) (hashes G (get_neighbors G (layer1 st)))))
                (remove_seen (seen st)
                   (snd (get_unique_states G (get_neighbors G (layer1 st)) (hashes G (get_neighbors G (layer1 st)))))),
   hashes G (get_neighbors G (layer1 st))).
Proof.
  unfold expand_plain.
  destruct (get_unique_states G (get_neighbors G (layer1 st)) (hashes G (get_neighbors G (layer1 st)))) as [u uh].
  reflexivity.
Qed.

Definition batch_mask (seen_hs : list (list Z)) (hss : list (list Z)) (uh : list Z) : list bool :=
  fold_left (fun m other => map (fun '(x, h) => x && negb (isin_ss1 other h)) (combine m uh)) hss
            (remove_seen seen_hs uh).

Lemma batch_step_eq' G seen_hs bs hss b :
  batch_step G seen_hs (bs, hss) b =
  let gu := get_unique_states G (get_neighbors G b) (hashes G (get_neighbors G b)) in
  let am := apply_mask G (fst gu) (snd gu) (batch_mask seen_hs hss (snd gu)) in
  (bs ++ [fst am], hss ++ [snd am]).
Proof.
  unfold batch_step, batch_mask.
  destruct (get_unique_states G (get_neighbors G b) (hashes G (get_neighbors G b))) as [u uh]. cbn [fst snd].
  destruct (apply_mask G u uh _) as [u' uh']. reflexivity.
Qed.

Definition num_batches (cfg : bfs_cfg) (st : bfs_st) : nat :=
  Z.to_nat ((lenZ (layer1_h st) + batch_size cfg - 1) / batch_size cfg).

Lemma expand_batched_eq G cfg st :
  expand_batched G cfg st =
  let r := fold_left (batch_step G (seen st)) (tensor_split (num_batches cfg st) (layer1 st)) ([], []) in
  let l2h := sort_z (concat (snd r)) in
  (if is_identity G then map (unword G) l2h else concat (fst r), l2h).
Proof.
  unfold expand_batched, num_batches.
  destruct (fold_left (batch_step G (seen st)) _ ([], [])) as [bs hss]. reflexivity.
Qed.

(* ------------------------------------------------------------------ *)
(** * Part 2: transport of the graph-level primitives and of the BFS along a coding *)

Definition map_layers (phi : state -> state) (l : list (nat * list state)) : list (nat * list state) :=
  map (fun kl => (fst kl, map phi (snd kl))) l.

Definition st_map (phi : state -> state) (st : bfs_st) : bfs_st :=
  {| it := it st; layer1 := map phi (layer1 st); layer1_h := layer1_h st; seen := seen st;
     sizes_rev := sizes_rev st; stored_rev := map_layers phi (stored_rev st); all_h_rev := all_h_rev st;
     e_starts_rev := e_starts_rev st; e_ends_rev := e_ends_rev st; trace_rev := trace_rev st |}.

Definition out_map (phi : state -> state) (o : bfs_out) : bfs_out :=
  {| completed := completed o; sizes := sizes o; layers := map_layers phi (layers o);
     layer_hashes := layer_hashes o; edges := edges o; callback_trace := callback_trace o |}.

Definition result_map {A B} (f : A -> B) (r : result A) : result B :=
  match r with Ok a => Ok (f a) | Err e => Err e end.

Section Morph.
  Variables G E : impl.                 (* G: the abstract (decoded) implementation; E: the encoded one *)
  Variable phi : state -> state.        (* the coding *)
  Variable U : state -> Prop.           (* the universe *)

  Hypothesis Hacts :
    Forall2 (fun f g => forall s, U s -> f (phi s) = phi (g s) /\ U (g s)) (acts E) (acts G).
  Hypothesis Hhash : forall s, hashf E (phi s) = hashf G s.
  Hypothesis Hid : is_identity E = is_identity G.
  Hypothesis Hun : is_identity G = true -> forall a, U a ->
    unword G (hashf G a) = a /\ unword E (hashf G a) = phi a.
  Hypothesis Hinv : inv_closed E = inv_closed G.

  Definition AllU (l : list state) : Prop := forall s, In s l -> U s.

  Lemma AllU_app l1 l2 : AllU l1 -> AllU l2 -> AllU (l1 ++ l2).
  Proof. intros H1 H2 s Hs. apply in_app_iff in Hs as [Hs | Hs]; auto. Qed.

  (** ** get_neighbors *)
  Theorem m_neighbors l : AllU l -> get_neighbors E (map phi l) = map phi (get_neighbors G l).
  Proof.
    intros HU. unfold get_neighbors. apply (flat_map_commute phi U); [|exact HU].
    apply (Forall2_weaken (fun f g => forall s, U s -> f (phi s) = phi (g s) /\ U (g s))); [|exact Hacts].
    intros f g H s Hs. apply (H s Hs).
  Qed.

  Lemma m_neighbors_U l : AllU l -> AllU (get_neighbors G l).
  Proof.
    intros HU t Ht. unfold get_neighbors in Ht. apply in_flat_map in Ht as (g & Hg & Ht).
    apply in_map_iff in Ht as (x & <- & Hx). destruct (Forall2_in_r _ _ _ g Hacts Hg) as (f & _ & Hfg).
    apply (Hfg x (HU x Hx)).
  Qed.

  Lemma m_n_gens : n_gens E = n_gens G.
  Proof. unfold n_gens. apply (Forall2_len _ _ _ Hacts). Qed.

  (** ** hashes *)
  Theorem m_hashes l : hashes E (map phi l) = hashes G l.
  Proof. unfold hashes. rewrite map_map. apply map_ext. exact Hhash. Qed.

  (** ** get_unique_states *)
  Theorem m_unique l : AllU l ->
    get_unique_states E (map phi l) (hashes G l)
    = (map phi (fst (get_unique_states G l (hashes G l))), snd (get_unique_states G l (hashes G l)))
    /\ AllU (fst (get_unique_states G l (hashes G l))).
  Proof.
    intros HU. unfold get_unique_states. rewrite Hid. destruct (is_identity G) eqn:Eid.
    - cbn [fst snd].
      assert (Hh : forall h, In h (unique_sorted (hashes G l)) -> exists a, U a /\ h = hashf G a).
      { intros h Hh. apply (proj2 (unique_sorted_spec (hashes G l))) in Hh. unfold hashes in Hh.
        apply in_map_iff in Hh as (a & <- & Ha). exists a. split; [apply HU, Ha | reflexivity]. }
      split.
      + f_equal. rewrite map_map. apply map_ext_in. intros h Hin. destruct (Hh h Hin) as (a & Ha & ->).
        destruct (Hun eq_refl a Ha) as [H1 H2]. rewrite H1, H2. reflexivity.
      + intros t Ht. apply in_map_iff in Ht as (h & <- & Hin). destruct (Hh h Hin) as (a & Ha & ->).
        destruct (Hun eq_refl a Ha) as [H1 _]. rewrite H1. exact Ha.
    - cbn [fst snd]. rewrite combine_map_l.
      rewrite (stable_sort_map (fun p : state * Z => (phi (fst p), snd p)) snd snd) by reflexivity.
      rewrite (dedup_adjacent_map (fun p : state * Z => (phi (fst p), snd p)) snd snd) by reflexivity.
      split.
      + rewrite !map_map. cbn [fst snd]. rewrite <- (map_map fst phi). reflexivity.
      + intros t Ht. apply in_map_iff in Ht as (p & <- & Hp). apply dedup_adjacent_incl in Hp.
        apply (Permutation_in _ (stable_sort_perm snd _)) in Hp. destruct p as [s h]. apply in_combine_l in Hp.
        apply HU, Hp.
  Qed.

  (** ** _apply_mask *)
  Theorem m_apply_mask u hs m :
    apply_mask E (map phi u) hs m = (map phi (fst (apply_mask G u hs m)), snd (apply_mask G u hs m)).
  Proof.
    unfold apply_mask. cbn [fst snd]. rewrite Hid, mask_select_map, m_hashes. reflexivity.
  Qed.

  Lemma m_apply_mask_U u hs m : AllU u -> AllU (fst (apply_mask G u hs m)).
  Proof. intros HU s Hs. unfold apply_mask in Hs. cbn [fst] in Hs. apply HU. apply (mask_select_incl u m s Hs). Qed.

  Lemma m_apply_mask_hashes u hs m : is_identity G = true -> AllU u ->
    forall h, In h (snd (apply_mask G u hs m)) -> exists a, U a /\ h = hashf G a.
  Proof.
    intros Eid HU h Hh. unfold apply_mask in Hh. cbn [snd] in Hh. rewrite Eid in Hh. unfold hashes in Hh.
    apply in_map_iff in Hh as (a & <- & Ha). exists a. split; [|reflexivity]. apply HU. apply (mask_select_incl u m a Ha).
  Qed.

  (** ** one plain BFS expansion (neighbours, hashes, de-duplication, seen-mask) *)
  Theorem m_expand_plain st : AllU (layer1 st) ->
    expand_plain E (st_map phi st)
    = (map phi (fst (fst (expand_plain G st))), snd (fst (expand_plain G st)), snd (expand_plain G st))
    /\ AllU (fst (fst (expand_plain G st))).
  Proof.
    intros HU. rewrite !expand_plain_eq. cbn [st_map layer1 seen fst snd].
    pose proof (m_neighbors_U _ HU) as HN.
    rewrite (m_neighbors _ HU), m_hashes.
    destruct (m_unique _ HN) as [Eu HUu]. rewrite Eu. cbn [fst snd]. rewrite m_apply_mask. split; [reflexivity|].
    apply m_apply_mask_U. exact HUu.
  Qed.

  (** ** one batched BFS expansion *)
  Definition HOK (hss : list (list Z)) : Prop :=
    is_identity G = true -> forall h, In h (concat hss) -> exists a, U a /\ h = hashf G a.

  Lemma m_batch_step sn bs hss b : AllU b ->
    batch_step E sn (map (map phi) bs, hss) (map phi b)
    = (map (map phi) (fst (batch_step G sn (bs, hss) b)), snd (batch_step G sn (bs, hss) b)).
  Proof.
    intros HU. rewrite !batch_step_eq'. cbv zeta. cbn [fst snd].
    pose proof (m_neighbors_U _ HU) as HN.
    rewrite (m_neighbors _ HU), m_hashes. destruct (m_unique _ HN) as [Eu _]. rewrite Eu. cbn [fst snd].
    rewrite m_apply_mask. cbn [fst snd]. rewrite map_app. reflexivity.
  Qed.

  Lemma m_batch_step_inv sn bs hss b : AllU b -> AllU (concat bs) -> HOK hss ->
    AllU (concat (fst (batch_step G sn (bs, hss) b))) /\ HOK (snd (batch_step G sn (bs, hss) b)).
  Proof.
    intros HU Hbs Hh. rewrite batch_step_eq'. cbv zeta. cbn [fst snd].
    pose proof (m_neighbors_U _ HU) as HN. destruct (m_unique _ HN) as [_ HUu].
    split.
    - rewrite concat_app. cbn [concat]. rewrite app_nil_r. apply AllU_app; [exact Hbs|].
      apply m_apply_mask_U. exact HUu.
    - intros Eid h Hin. rewrite concat_app in Hin. cbn [concat] in Hin. rewrite app_nil_r in Hin.
      apply in_app_iff in Hin as [Hin | Hin]; [apply (Hh Eid h Hin)|].
      apply (m_apply_mask_hashes _ _ _ Eid HUu h Hin).
  Qed.

  Lemma m_fold_batches sn batches : forall bs hss,
    (forall b, In b batches -> AllU b) -> AllU (concat bs) -> HOK hss ->
    fold_left (batch_step E sn) (map (map phi) batches) (map (map phi) bs, hss)
    = (map (map phi) (fst (fold_left (batch_step G sn) batches (bs, hss))),
       snd (fold_left (batch_step G sn) batches (bs, hss)))
    /\ AllU (concat (fst (fold_left (batch_step G sn) batches (bs, hss))))
    /\ HOK (snd (fold_left (batch_step G sn) batches (bs, hss))).
  Proof.
    induction batches as [|b batches IH]; intros bs hss Hb Hbs Hh.
    - cbn [map fold_left fst snd]. auto.
    - cbn [map fold_left]. rewrite (m_batch_step sn bs hss b) by (apply Hb; left; reflexivity).
      destruct (m_batch_step_inv sn bs hss b (Hb b (or_introl eq_refl)) Hbs Hh) as [H1 H2].
      destruct (batch_step G sn (bs, hss) b) as [bs' hss'] eqn:Eb. cbn [fst snd] in *.
      apply IH; [intros b' Hb'; apply Hb; right; exact Hb' | exact H1 | exact H2].
  Qed.

  Theorem m_expand_batched cfg cfg_e st : batch_size cfg_e = batch_size cfg -> AllU (layer1 st) ->
    expand_batched E cfg_e (st_map phi st)
    = (map phi (fst (expand_batched G cfg st)), snd (expand_batched G cfg st))
    /\ AllU (fst (expand_batched G cfg st)).
  Proof.
    intros Hb HU. rewrite !expand_batched_eq. cbv zeta.
    assert (num_batches cfg_e (st_map phi st) = num_batches cfg st) as -> by (unfold num_batches; cbn [st_map layer1_h]; rewrite Hb; reflexivity).
    cbn [st_map layer1 seen]. rewrite tensor_split_map.
    destruct (m_fold_batches (seen st) (tensor_split (num_batches cfg st) (layer1 st)) [] [])
      as (Ef & HUf & Hhf).
    { intros b Hb' s Hs. apply HU. apply (in_tensor_split _ _ b s Hb' Hs). }
    { intros s []. }
    { intros _ h []. }
    cbn [map] in Ef. rewrite Ef. cbn [fst snd].
    set (r := fold_left (batch_step G (seen st)) (tensor_split (num_batches cfg st) (layer1 st)) ([], [])) in *.
    rewrite Hid. destruct (is_identity G) eqn:Eid.
    - assert (Hh : forall h, In h (sort_z (concat (snd r))) -> exists a, U a /\ h = hashf G a).
      { intros h Hin. apply (Permutation_in _ (sort_z_perm _)) in Hin. apply (Hhf Eid h Hin). }
      split.
      + f_equal. rewrite map_map. apply map_ext_in. intros h Hin. destruct (Hh h Hin) as (a & Ha & ->).
        destruct (Hun eq_refl a Ha) as [H1 H2]. rewrite H1, H2. reflexivity.
      + intros t Ht. apply in_map_iff in Ht as (h & <- & Hin). destruct (Hh h Hin) as (a & Ha & ->).
        destruct (Hun eq_refl a Ha) as [H1 _]. rewrite H1. exact Ha.
    - split; [|exact HUf]. f_equal. symmetry. apply concat_map.
  Qed.

  (** ** one iteration of the BFS loop, the loop, and the whole BFS *)
  Variables cfg cfg_e : bfs_cfg.        (* cfg drives G, cfg_e drives E: same numbers, stop callbacks related by phi *)
  Hypothesis Hc_batch : batch_size cfg_e = batch_size cfg.
  Hypothesis Hc_store : max_store cfg_e = max_store cfg.
  Hypothesis Hc_explore : max_explore cfg_e = max_explore cfg.
  Hypothesis Hc_diam : max_diameter cfg_e = max_diameter cfg.
  Hypothesis Hc_edges : ret_edges cfg_e = ret_edges cfg.
  Hypothesis Hc_hashes : ret_hashes cfg_e = ret_hashes cfg.
  Hypothesis Hc_nobatch : no_batching cfg_e = no_batching cfg.
  Hypothesis Hc_stop :
    match stop cfg_e, stop cfg with
    | None, None => True
    | Some fe, Some f => forall i l h, AllU l -> fe i (map phi l) h = f i l h
    | _, _ => False
    end.

  Definition SInv (st : bfs_st) : Prop :=
    AllU (layer1 st) /\ forall kl, In kl (stored_rev st) -> AllU (snd kl).

  Definition iter_map (r : bfs_st + bfs_st * bool) : bfs_st + bfs_st * bool :=
    match r with inl st => inl (st_map phi st) | inr (st, b) => inr (st_map phi st, b) end.
  Definition iter_inv (r : bfs_st + bfs_st * bool) : Prop :=
    match r with inl st => SInv st | inr (st, _) => SInv st end.

  Lemma lenZ_map {A B} (f : A -> B) l : lenZ (map f l) = lenZ l.
  Proof. unfold lenZ. rewrite map_length. reflexivity. Qed.

  Lemma m_mk_break st : mk_break cfg_e (st_map phi st) = st_map phi (mk_break cfg st).
  Proof. unfold mk_break, hashes_pushed, st_map. cbn. rewrite Hc_hashes. reflexivity. Qed.

  Lemma m_mk_next l2 l2h st :
    mk_next E cfg_e (map phi l2) l2h (st_map phi st) = st_map phi (mk_next G cfg l2 l2h st).
  Proof.
    unfold mk_next, hashes_pushed, next_seen, st_map. cbn [it layer1 layer1_h seen sizes_rev stored_rev all_h_rev e_starts_rev e_ends_rev trace_rev].
    rewrite Hinv, Hc_hashes, Hc_store, lenZ_map, map_length.
    destruct (lenZ l2 <=? max_store cfg); reflexivity.
  Qed.

  Lemma m_with_trace st t : with_trace (st_map phi st) t = st_map phi (with_trace st t).
  Proof. reflexivity. Qed.

  Lemma m_edge_st st nbh : edge_st E (st_map phi st) nbh = st_map phi (edge_st G st nbh).
  Proof. unfold edge_st, st_map. cbn. rewrite m_n_gens. reflexivity. Qed.

  Lemma SInv_mk_break st : SInv st -> SInv (mk_break cfg st).
  Proof. intros H. exact H. Qed.
  Lemma SInv_edge_st st nbh : SInv st -> SInv (edge_st G st nbh).
  Proof. intros H. exact H. Qed.
  Lemma SInv_with_trace st t : SInv st -> SInv (with_trace st t).
  Proof. intros H. exact H. Qed.
  Lemma SInv_mk_next l2 l2h st : SInv st -> AllU l2 -> SInv (mk_next G cfg l2 l2h st).
  Proof.
    intros [H1 H2] Hl2. split; [exact Hl2|]. unfold mk_next. cbn [stored_rev].
    destruct (lenZ l2 <=? max_store cfg); [|exact H2].
    intros kl [<- | Hkl]; [exact Hl2 | apply H2, Hkl].
  Qed.

  Lemma m_iter_cont l2 l2h st : SInv st -> AllU l2 ->
    iter_cont E cfg_e (map phi l2) l2h (st_map phi st) = iter_map (iter_cont G cfg l2 l2h st)
    /\ iter_inv (iter_cont G cfg l2 l2h st).
  Proof.
    intros Hst Hl2. unfold iter_cont. rewrite Hc_explore, lenZ_map, m_mk_next.
    pose proof (SInv_mk_next l2 l2h st Hst Hl2) as Hn.
    destruct (max_explore cfg <=? lenZ l2); [split; [reflexivity | exact Hn]|].
    destruct (stop cfg_e) as [fe|], (stop cfg) as [f|]; try contradiction.
    - cbn [st_map it]. rewrite (Hc_stop (it st) l2 l2h Hl2).
      destruct (f (it st) l2 l2h); (split; [reflexivity | exact Hn]).
    - split; [reflexivity | exact Hn].
  Qed.

  Lemma m_iter_tail l2 l2h st : SInv st -> AllU l2 ->
    iter_tail E cfg_e (map phi l2) l2h (st_map phi st) = iter_map (iter_tail G cfg l2 l2h st)
    /\ iter_inv (iter_tail G cfg l2 l2h st).
  Proof.
    intros Hst Hl2. destruct l2 as [|a l2].
    - cbn [map iter_tail iter_map iter_inv]. rewrite m_mk_break. split; [reflexivity | exact Hst].
    - change (map phi (a :: l2)) with (phi a :: map phi l2). cbn [iter_tail].
      change (phi a :: map phi l2) with (map phi (a :: l2)). apply m_iter_cont; assumption.
  Qed.

  Lemma m_batched st : batched cfg_e (st_map phi st) = batched cfg st.
  Proof.
    unfold batched, do_batching. cbn [st_map layer1]. rewrite Hc_edges, Hc_nobatch, Hc_batch, lenZ_map. reflexivity.
  Qed.

  Theorem m_bfs_iter st : SInv st ->
    bfs_iter E cfg_e (st_map phi st) = iter_map (bfs_iter G cfg st) /\ iter_inv (bfs_iter G cfg st).
  Proof.
    intros Hst. rewrite !bfs_iter_eq, m_batched. destruct (batched cfg st).
    - destruct (m_expand_batched cfg cfg_e st Hc_batch (proj1 Hst)) as [Ee HU]. rewrite Ee. cbn [fst snd].
      apply m_iter_tail; assumption.
    - destruct (m_expand_plain st (proj1 Hst)) as [Ee HU]. rewrite Ee. cbn [fst snd]. rewrite Hc_edges.
      destruct (ret_edges cfg).
      + rewrite m_edge_st. apply m_iter_tail; [apply SInv_edge_st; exact Hst | exact HU].
      + apply m_iter_tail; assumption.
  Qed.

  Lemma m_loop n : forall st, SInv st ->
    loop_nat (bfs_iter E cfg_e) n (st_map phi st) = iter_map (loop_nat (bfs_iter G cfg) n st)
    /\ iter_inv (loop_nat (bfs_iter G cfg) n st).
  Proof.
    induction n as [|n IH]; intros st Hst; [split; [reflexivity | exact Hst]|].
    cbn [loop_nat]. destruct (m_bfs_iter st Hst) as [Ei Hi]. rewrite Ei.
    destruct (bfs_iter G cfg st) as [st1 | [st1 b]]; cbn [iter_map iter_inv] in *.
    - apply IH. exact Hi.
    - split; [reflexivity | exact Hi].
  Qed.

  Lemma m_bfs_init starts : AllU starts ->
    bfs_init E (map phi starts) = st_map phi (bfs_init G starts) /\ SInv (bfs_init G starts).
  Proof.
    intros HU. unfold bfs_init. rewrite m_hashes. destruct (m_unique starts HU) as [Eu HUu]. rewrite Eu.
    destruct (get_unique_states G starts (hashes G starts)) as [l1 l1h]. cbn [fst snd] in *.
    unfold st_map, map_layers. cbn. rewrite map_length. split; [reflexivity|].
    split; [exact HUu|]. cbn. intros kl [<- | []]. exact HUu.
  Qed.

  Lemma existsb_map_layers (q : nat -> bool) (l : list (nat * list state)) :
    existsb (fun '(k, _) => q k) (map_layers phi l) = existsb (fun '(k, _) => q k) l.
  Proof.
    induction l as [|[k x] l IH]; [reflexivity|]. cbn [map_layers map existsb fst snd].
    fold (map_layers phi l). rewrite IH. reflexivity.
  Qed.

  Lemma m_bfs_finish st b :
    bfs_finish cfg_e (st_map phi st) b = result_map (out_map phi) (bfs_finish cfg st b).
  Proof.
    unfold bfs_finish. cbn [st_map layer1 layer1_h sizes_rev stored_rev all_h_rev e_starts_rev e_ends_rev trace_rev].
    rewrite Hc_hashes, Hc_edges.
    assert (Hrev : rev (map_layers phi (stored_rev st)) = map_layers phi (rev (stored_rev st)))
      by (unfold map_layers; symmetry; apply map_rev).
    rewrite Hrev, (existsb_map_layers (fun k => (k =? length (rev (sizes_rev st)) - 1)%nat)).
    destruct (if ret_edges cfg then _ else _) as [e|er]; cbn [bind result_map]; [|reflexivity].
    f_equal. unfold out_map. cbn [completed sizes layers layer_hashes edges callback_trace]. f_equal.
    destruct (b && negb _); [|reflexivity].
    unfold map_layers. rewrite map_app. reflexivity.
  Qed.

  Lemma SInv_finish st b o : SInv st -> bfs_finish cfg st b = Ok o ->
    forall kl, In kl (layers o) -> AllU (snd kl).
  Proof.
    intros [H1 H2] Hf kl Hkl. unfold bfs_finish in Hf.
    destruct (if ret_edges cfg then _ else _) as [e|er]; cbn [bind] in Hf; [|discriminate].
    inversion Hf as [Ho]. subst o. cbn [layers] in Hkl.
    destruct (b && negb _).
    - apply in_app_iff in Hkl as [Hkl | [<- | []]]; [apply H2, in_rev, Hkl | exact H1].
    - apply H2, in_rev, Hkl.
  Qed.

  (** the whole BFS of E from the coded start states is the image of the BFS of G;
      every stored layer of G's result lies in the universe *)
  Theorem m_bfs starts : AllU starts ->
    bfs E cfg_e (map phi starts) = result_map (out_map phi) (bfs G cfg starts)
    /\ (forall o, bfs G cfg starts = Ok o -> forall kl, In kl (layers o) -> AllU (snd kl)).
  Proof.
    intros HU. unfold bfs. rewrite Hc_diam, !loop_N_nat.
    destruct (m_bfs_init starts HU) as [Ei Hi]. rewrite Ei.
    destruct (m_loop (N.to_nat (max_diameter cfg)) _ Hi) as [El Hl]. rewrite El.
    destruct (loop_nat (bfs_iter G cfg) (N.to_nat (max_diameter cfg)) (bfs_init G starts)) as [st | [st b]];
      cbn [iter_map iter_inv] in *.
    - split; [apply m_bfs_finish|]. intros o Ho. apply (SInv_finish st false o Hl Ho).
    - split; [apply m_bfs_finish|]. intros o Ho. apply (SInv_finish st b o Hl Ho).
  Qed.
End Morph.

(* ------------------------------------------------------------------ *)
(** * Part 3: the encoded implementation of a permutation description *)

(* CayleyGraph.get_unique_states(states, hashes) on internal rows, literally:
     if self.hasher.is_identity:
         unique_hashes = torch.unique(states.reshape(-1), sorted=True)
         return unique_hashes.reshape((-1, 1)), unique_hashes
     hashes_sorted, idx = torch.sort(hashes, stable=True); first occurrences; states[idx], hashes[idx] *)
Definition get_unique_states_encoded (d : gdesc) (rows : list (list Z)) (hs : list Z) : list (list Z) * list Z :=
  if hasher_is_identity (g_hasher d) then
    let u := unique_sorted (concat rows) in (map (fun h => [h]) u, u)
  else
    let srt := stable_sort snd (combine rows hs) in
    let u := dedup_adjacent snd srt in
    (map fst u, map snd u).

Section EncImpl.
  Variable steps : list mix_step.
  Variable mult : Z.
  Local Notation mk := (mk_impl steps mult).

  (* the CayleyGraph object as the algorithms see it: states are rows of the internal representation *)
  Definition enc_impl (d : gdesc) : impl :=
    {| acts := enc_acts d;
       hashf := make_hash steps mult (g_hasher d);
       is_identity := hasher_is_identity (g_hasher d);
       unword := fun h => [h];
       inv_closed := g_inv_closed d;
       central := encoded_row d (g_central d) |}.

  (* its graph-level primitives are the literal ones *)
  Lemma enc_impl_neighbors d rows : get_neighbors (enc_impl d) rows = get_neighbors_encoded d rows.
  Proof. reflexivity. Qed.
  Lemma enc_impl_hashes d rows : hashes (enc_impl d) rows = hash_rows steps mult d rows.
  Proof. reflexivity. Qed.

  Lemma concat_one_word (rows : list (list Z)) :
    Forall (fun r => length r = 1%nat) rows -> concat rows = map (fun r => nth 0 r 0) rows.
  Proof.
    induction 1 as [|r rows Hr _ IH]; [reflexivity|]. cbn [concat map]. rewrite IH.
    destruct r as [|a [|b t]]; cbn in Hr; try discriminate. reflexivity.
  Qed.

  Theorem enc_impl_unique d rows :
    (g_hasher d = HIdentity -> Forall (fun r => length r = 1%nat) rows) ->
    get_unique_states (enc_impl d) rows (hash_rows steps mult d rows)
    = get_unique_states_encoded d rows (hash_rows steps mult d rows).
  Proof.
    intros H1. unfold get_unique_states, get_unique_states_encoded. cbn [enc_impl is_identity unword].
    destruct (g_hasher d) eqn:Eh; cbn [hasher_is_identity]; try reflexivity.
    rewrite (concat_one_word rows (H1 eq_refl)). unfold hash_rows. rewrite Eh. reflexivity.
  Qed.

  (* ---- the hypotheses of Part 2, from well-formedness ---- *)
  Variable d : gdesc.
  Hypothesis Hwf : wf_perm_desc d.
  Hypothesis Hsw : g_hasher d = HIdentity -> single_word d.     (* hasher.py: is_identity iff one code word *)

  Local Notation enc := (encoded_row d).

  Lemma inst_acts :
    Forall2 (fun f g => forall s, Ustates d s -> f (enc s) = enc (g s) /\ Ustates d (g s))
            (acts (enc_impl d)) (acts (mk d)).
  Proof. exact (enc_acts_commute steps mult d Hwf). Qed.

  Lemma inst_hash s : hashf (enc_impl d) (enc s) = hashf (mk d) s.
  Proof. reflexivity. Qed.
  Lemma inst_id : is_identity (enc_impl d) = is_identity (mk d).
  Proof. reflexivity. Qed.
  Lemma inst_inv : inv_closed (enc_impl d) = inv_closed (mk d).
  Proof. reflexivity. Qed.

  Lemma is_identity_hasher : is_identity (mk d) = true -> g_hasher d = HIdentity.
  Proof. cbn [mk_impl is_identity]. destruct (g_hasher d); cbn; intros H; try discriminate; reflexivity. Qed.

  (* a one-word code row is [its hash] under the identity hasher *)
  Lemma one_word_row a : g_hasher d = HIdentity -> Ustates d a -> enc a = [hashf (mk d) a].
  Proof.
    intros Hh Ha. pose proof (Hsw Hh) as Hs. cbn [mk_impl hashf]. rewrite Hh. cbn [make_hash].
    apply list_len1. destruct (g_width d) as [w|] eqn:Hw.
    - rewrite (encoded_row_some d w a (wf_kind d Hwf) Hw), encode_length.
      apply single_word_length; assumption.
    - rewrite (encoded_row_none d a Hw). unfold single_word in Hs. rewrite Hw in Hs. rewrite <- Hs. apply Ha.
  Qed.

  Lemma inst_unword : is_identity (mk d) = true -> forall a, Ustates d a ->
    unword (mk d) (hashf (mk d) a) = a /\ unword (enc_impl d) (hashf (mk d) a) = enc a.
  Proof.
    intros Hi a Ha. pose proof (is_identity_hasher Hi) as Hh. split.
    - apply identity_unword; auto.
    - cbn [enc_impl unword]. symmetry. apply one_word_row; assumption.
  Qed.

  Local Notation AllUd := (AllU (Ustates d)).

  (** ** the three graph-level primitives commute with the coding *)
  Theorem encoded_get_neighbors sts : AllUd sts ->
    get_neighbors_encoded d (map enc sts) = map enc (get_neighbors (mk d) sts).
  Proof. intros HU. apply (encoded_neighbors_rows steps mult d sts Hwf HU). Qed.

  Theorem encoded_hashes sts : hash_rows steps mult d (map enc sts) = hashes (mk d) sts.
  Proof. apply hash_rows_encoded. Qed.

  Lemma enc_rows_one_word sts : AllUd sts -> g_hasher d = HIdentity ->
    Forall (fun r => length r = 1%nat) (map enc sts).
  Proof.
    intros HU Hh. apply Forall_forall. intros r Hr. apply in_map_iff in Hr as (s & <- & Hs).
    rewrite (one_word_row s Hh (HU s Hs)). reflexivity.
  Qed.

  Theorem encoded_get_unique_states sts : AllUd sts ->
    get_unique_states_encoded d (map enc sts) (hash_rows steps mult d (map enc sts))
    = (map enc (fst (get_unique_states (mk d) sts (hashes (mk d) sts))),
       snd (get_unique_states (mk d) sts (hashes (mk d) sts)))
    /\ AllUd (fst (get_unique_states (mk d) sts (hashes (mk d) sts))).
  Proof.
    intros HU. rewrite <- enc_impl_unique by (intros Hh; apply enc_rows_one_word; assumption).
    rewrite encoded_hashes.
    apply (m_unique (mk d) (enc_impl d) enc (Ustates d) inst_id inst_unword sts HU).
  Qed.

  (** ** one BFS expansion written on encoded rows (the non-batched branch of bfs_algo.py):
         neighbours by the routines, hashes of the code rows, get_unique_states on rows and hashes,
         _remove_seen_states, _apply_mask *)
  Definition bfs_encoded_step (rows : list (list Z)) (seen_hs : list (list Z)) : list (list Z) * list Z * list Z :=
    let nb := get_neighbors_encoded d rows in
    let nbh := hash_rows steps mult d nb in
    let gu := get_unique_states_encoded d nb nbh in
    let mask := remove_seen seen_hs (snd gu) in
    let ns := mask_select (fst gu) mask in
    (ns, if hasher_is_identity (g_hasher d) then hash_rows steps mult d ns else mask_select (snd gu) mask, nbh).

  Lemma bfs_encoded_step_is_enc_impl st : AllUd (layer1 st) ->
    bfs_encoded_step (map enc (layer1 st)) (seen st) = expand_plain (enc_impl d) (st_map enc st).
  Proof.
    intros HU. rewrite expand_plain_eq. unfold bfs_encoded_step. cbv zeta. cbn [st_map layer1 seen].
    rewrite !enc_impl_neighbors, !enc_impl_hashes.
    rewrite enc_impl_unique; [reflexivity|].
    intros Hh. pose proof (encoded_get_neighbors (layer1 st) HU) as En.
    refine (eq_ind_r (fun X => Forall (fun r : list Z => length r = 1%nat) X) _ En).
    apply enc_rows_one_word; [|exact Hh]. exact (neighbors_Ustates steps mult d _ Hwf HU).
  Qed.

  (* ... is the image under the coding of the abstract step of Bfs.v (expand_plain, specified in BfsStep.v) *)
  Theorem bfs_encoded_step_correct st : AllUd (layer1 st) ->
    bfs_encoded_step (map enc (layer1 st)) (seen st)
    = (map enc (fst (fst (expand_plain (mk d) st))), snd (fst (expand_plain (mk d) st)), snd (expand_plain (mk d) st))
    /\ AllUd (fst (fst (expand_plain (mk d) st))).
  Proof.
    intros HU. rewrite (bfs_encoded_step_is_enc_impl st HU).
    apply (m_expand_plain (mk d) (enc_impl d) enc (Ustates d) inst_acts inst_hash inst_id inst_unword st HU).
  Qed.

  (* the batched expansion too *)
  Theorem bfs_encoded_batched_step_correct cfg st : AllUd (layer1 st) ->
    expand_batched (enc_impl d) cfg (st_map enc st)
    = (map enc (fst (expand_batched (mk d) cfg st)), snd (expand_batched (mk d) cfg st))
    /\ AllUd (fst (expand_batched (mk d) cfg st)).
  Proof.
    intros HU.
    apply (m_expand_batched (mk d) (enc_impl d) enc (Ustates d) inst_acts inst_hash inst_id inst_unword cfg cfg st eq_refl HU).
  Qed.

  (** ** the whole BFS on encoded rows *)

  (* the configuration as the encoded run sees it: the stop callback receives ENCODED layers *)
  Definition cfg_enc (cfg : bfs_cfg) : bfs_cfg :=
    {| batch_size := batch_size cfg; max_store := max_store cfg; max_explore := max_explore cfg;
       max_diameter := max_diameter cfg; ret_edges := ret_edges cfg; ret_hashes := ret_hashes cfg;
       no_batching := no_batching cfg;
       stop := option_map (fun f i rows hs => f i (map (dec_row d) rows) hs) (stop cfg) |}.

  (* BfsAlgorithm.bfs: start_states are encoded, the loop runs on rows, stored layers are decoded *)
  Definition bfs_encoded (cfg : bfs_cfg) (starts : list state) : result bfs_out :=
    result_map (out_map (dec_row d)) (bfs (enc_impl d) (cfg_enc cfg) (map enc starts)).

  Lemma out_map_dec_enc o : (forall kl, In kl (layers o) -> AllUd (snd kl)) ->
    out_map (dec_row d) (out_map enc o) = o.
  Proof.
    intros H. destruct o as [c sz ly lh ed tr]. unfold out_map. cbn [completed sizes layers layer_hashes edges callback_trace] in *.
    f_equal. unfold map_layers. rewrite map_map. cbn [fst snd]. rewrite <- (map_id ly) at 2.
    apply map_ext_in. intros [k l] Hkl. cbn [fst snd]. f_equal. apply map_dec_enc; [exact Hwf|]. apply (H _ Hkl).
  Qed.

  (* the run on rows is the coded image of the abstract run ... *)
  Theorem bfs_on_rows cfg starts : AllUd starts ->
    bfs (enc_impl d) (cfg_enc cfg) (map enc starts) = result_map (out_map enc) (bfs (mk d) cfg starts)
    /\ (forall o, bfs (mk d) cfg starts = Ok o -> forall kl, In kl (layers o) -> AllUd (snd kl)).
  Proof.
    intros HU.
    apply (m_bfs (mk d) (enc_impl d) enc (Ustates d) inst_acts inst_hash inst_id inst_unword inst_inv
                 cfg (cfg_enc cfg) eq_refl eq_refl eq_refl eq_refl eq_refl eq_refl eq_refl); [|exact HU].
    cbn [cfg_enc stop]. destruct (stop cfg) as [f|]; cbn [option_map]; [|exact I].
    intros i l h Hl. f_equal. exact (map_dec_enc d l Hwf Hl).
  Qed.

  (* ... so the library's BFS (encode, run on rows, decode what is stored) IS the abstract BFS *)
  Theorem bfs_encoded_is_bfs cfg starts : AllUd starts -> bfs_encoded cfg starts = bfs (mk d) cfg starts.
  Proof.
    intros HU. unfold bfs_encoded. destruct (bfs_on_rows cfg starts HU) as [E HL]. rewrite E.
    destruct (bfs (mk d) cfg starts) as [o|e]; cbn [result_map]; [|reflexivity].
    f_equal. apply out_map_dec_enc. apply (HL o eq_refl).
  Qed.
End EncImpl.

(* ------------------------------------------------------------------ *)
(** * Part 4: what this buys - the end-to-end theorems are statements about the encoded computation *)

(* the library's BFS with the library's hash constants *)
Definition bfs_lib (d : gdesc) (cfg : bfs_cfg) (starts : list state) : result bfs_out :=
  bfs_encoded splitmix_steps hash_mult d cfg starts.

Theorem bfs_lib_is_model d cfg starts :
  wf_perm_desc d -> (g_hasher d = HIdentity -> single_word d) -> (forall s, In s starts -> Ustates d s) ->
  bfs_lib d cfg starts = bfs (impl_of d) cfg starts.
Proof. intros Hwf Hsw HU. apply (bfs_encoded_is_bfs splitmix_steps hash_mult d Hwf Hsw cfg starts HU). Qed.

(* the hasher rule "identity iff one code word" is forced by the absence of collisions (InstPerm.v) *)
Corollary bfs_lib_is_model_nocoll d cfg starts :
  wf_perm_desc d -> NoCollOn (impl_of d) (Ustates d) -> (forall s, In s starts -> Ustates d s) ->
  bfs_lib d cfg starts = bfs (impl_of d) cfg starts.
Proof.
  intros Hwf Hnc HU. apply bfs_lib_is_model; [exact Hwf | | exact HU].
  intros Hh. apply (identity_nocoll_single_word splitmix_steps hash_mult d Hwf Hh Hnc).
Qed.

(* C01 on the ENCODED computation: an exhaustive run of the encoded BFS reports exactly the distance classes of
   the permutation graph (InstBfs.bfs_perm_completed_correct transported) *)
Theorem bfs_lib_completed_correct : forall (d : gdesc) (cfg : bfs_cfg),
  wf_perm_desc d -> flag_sound d -> NoCollOn (impl_of d) (Ustates d) ->
  (1 <= batch_size cfg)%Z ->
  forall starts, (forall s, In s starts -> Ustates d s) -> starts <> [] ->
  forall o, bfs_lib d cfg starts = Ok o -> completed o = true ->
  let L := fun i => layer state st_eq_dec (acts (impl_of d)) starts i in
  let D := length (sizes o) in
  sizes o = map (fun i => length (L i)) (seq 0 D) /\ (forall i, (i < D)%nat -> L i <> []) /\
  (forall i, (D <= i)%nat -> L i = []) /\
  (forall k l, In (k, l) (layers o) -> NoDup l /\ set_eq l (L k)) /\
  (exists l, In ((D - 1)%nat, l) (layers o)) /\ (exists l, In (0%nat, l) (layers o)).
Proof.
  intros d cfg Hwf Hflag Hnc Hb starts HU Hne o Ho.
  rewrite (bfs_lib_is_model_nocoll d cfg starts Hwf Hnc HU) in Ho.
  exact (bfs_perm_completed_correct d cfg Hwf Hflag Hnc Hb starts HU Hne o Ho).
Qed.

(* identity hasher on one-word codes: no hypothesis about hashing at all *)
Theorem bfs_lib_identity_hash_unconditional : forall (d : gdesc) (cfg : bfs_cfg),
  wf_perm_desc d -> flag_sound d -> g_hasher d = HIdentity -> single_word d ->
  (1 <= batch_size cfg)%Z ->
  forall starts, (forall s, In s starts -> Ustates d s) -> starts <> [] ->
  forall o, bfs_lib d cfg starts = Ok o -> completed o = true ->
  let L := fun i => layer state st_eq_dec (acts (impl_of d)) starts i in
  let D := length (sizes o) in
  sizes o = map (fun i => length (L i)) (seq 0 D) /\ (forall i, (i < D)%nat -> L i <> []) /\
  (forall i, (D <= i)%nat -> L i = []) /\
  (forall k l, In (k, l) (layers o) -> NoDup l /\ set_eq l (L k)) /\
  (exists l, In ((D - 1)%nat, l) (layers o)) /\ (exists l, In (0%nat, l) (layers o)).
Proof.
  intros d cfg Hwf Hflag Hh Hsw Hb starts HU Hne o Ho.
  rewrite (bfs_lib_is_model d cfg starts Hwf (fun _ => Hsw) HU) in Ho.
  exact (bfs_perm_identity_hash_unconditional d cfg Hwf Hflag Hh Hsw Hb starts HU Hne o Ho).
Qed.

(* ------------------------------------------------------------------ *)
(** * Non-vacuity *)

Definition ex_cfg : bfs_cfg :=
  {| batch_size := 1048576; max_store := 1000; max_explore := 1000000000000; max_diameter := 1000000%N;
     ret_edges := false; ret_hashes := false; no_batching := false; stop := None |}.

(* a tiny batch size (the batched branch runs), all hashes returned, and a stop callback that looks at the layer *)
Definition ex_cfg2 : bfs_cfg :=
  {| batch_size := 2; max_store := 1000; max_explore := 1000000000000; max_diameter := 3%N;
     ret_edges := false; ret_hashes := true; no_batching := false;
     stop := Some (fun _ l _ => (8 <=? length l)%nat) |}.

Lemma lrx5_sw : g_hasher lrx5 = HIdentity -> single_word lrx5.
Proof. intros _. exact lrx5_single. Qed.
Lemma big24_sw : g_hasher big24 = HIdentity -> single_word big24.
Proof. intros H. discriminate. Qed.
Lemma lrx5_central_U : forall s, In s [g_central lrx5] -> Ustates lrx5 s.
Proof. intros s [<- | []]. apply (perm_central_U splitmix_steps hash_mult lrx5 lrx5_wf). Qed.
Lemma big24_starts_U : forall s, In s [g_central big24; big24_state] -> Ustates big24 s.
Proof.
  intros s [<- | [<- | []]]; [apply (perm_central_U splitmix_steps hash_mult big24 big24_wf) | exact big24_state_U].
Qed.

(* the encoded BFS of LRX_5 really runs (these are the numbers, and the code rows of layer 2, of the real library) *)
Example lrx5_bfs_lib_run :
  match bfs_lib lrx5 ex_cfg [g_central lrx5] with
  | Ok o => completed o = true /\ sizes o = [1; 3; 6; 10; 16; 24; 29; 21; 6; 3; 1]%nat
  | Err _ => False
  end /\
  match bfs (enc_impl splitmix_steps hash_mult lrx5) (cfg_enc lrx5 ex_cfg) [encoded_row lrx5 (g_central lrx5)] with
  | Ok o => nth 2 (layers o) (0%nat, []) = (2%nat, [[2250]; [4378]; [6352]; [8739]; [13324]; [13408]])
  | Err _ => False
  end.
Proof. vm_compute. repeat split; reflexivity. Qed.

Example lrx5_bfs_lib : bfs_lib lrx5 ex_cfg [g_central lrx5] = bfs (impl_of lrx5) ex_cfg [g_central lrx5].
Proof. apply (bfs_lib_is_model lrx5 ex_cfg _ lrx5_wf lrx5_sw lrx5_central_U). Qed.

(* the hypotheses of the unconditional end-to-end theorem hold, and so does its conclusion, for the encoded run *)
Example lrx5_bfs_lib_correct : forall o, bfs_lib lrx5 ex_cfg [g_central lrx5] = Ok o -> completed o = true ->
  sizes o = map (fun i => length (layer state st_eq_dec (acts (impl_of lrx5)) [g_central lrx5] i)) (seq 0 (length (sizes o))).
Proof.
  intros o Ho Hc.
  apply (bfs_lib_identity_hash_unconditional lrx5 ex_cfg lrx5_wf lrx5_flag eq_refl lrx5_single ltac:(cbn; lia)
           [g_central lrx5] lrx5_central_U ltac:(discriminate) o Ho Hc).
Qed.

(* one encoded BFS step from the start layer: the image of the abstract step *)
Example lrx5_step :
  let st := bfs_init (impl_of lrx5) [g_central lrx5] in
  bfs_encoded_step splitmix_steps hash_mult lrx5 (map (encoded_row lrx5) (layer1 st)) (seen st)
  = (map (encoded_row lrx5) (fst (fst (expand_plain (impl_of lrx5) st))),
     snd (fst (expand_plain (impl_of lrx5) st)), snd (expand_plain (impl_of lrx5) st)).
Proof.
  intros st. apply (bfs_encoded_step_correct splitmix_steps hash_mult lrx5 lrx5_wf lrx5_sw st).
  apply (proj2 (m_bfs_init (impl_of lrx5) (enc_impl splitmix_steps hash_mult lrx5) (encoded_row lrx5) (Ustates lrx5)
                  (inst_hash splitmix_steps hash_mult lrx5) (inst_id splitmix_steps hash_mult lrx5)
                  (inst_unword splitmix_steps hash_mult lrx5 lrx5_wf lrx5_sw) [g_central lrx5] lrx5_central_U)).
Qed.

Example lrx5_step_run :
  bfs_encoded_step splitmix_steps hash_mult lrx5 [encoded_row lrx5 (g_central lrx5)] [[18056]]
  = ([[2257]; [13380]; [18049]], [2257; 13380; 18049], [2257; 13380; 18049]).
Proof. vm_compute. reflexivity. Qed.

(* the three primitives on lrx5 (identity hasher: torch.unique on the flattened rows) *)
Example lrx5_unique :
  get_unique_states_encoded lrx5 [[13380]; [2257]; [13380]; [18049]; [2257]] [13380; 2257; 13380; 18049; 2257]
  = ([[2257]; [13380]; [18049]], [2257; 13380; 18049]).
Proof. vm_compute. reflexivity. Qed.

(* two code words, splitmix hasher, batched branch, stop callback on the (encoded) layer *)
Example big24_bfs_lib_run :
  match bfs_lib big24 ex_cfg2 [g_central big24; big24_state] with
  | Ok o => completed o = false /\ sizes o = [2; 4; 6; 10]%nat /\ callback_trace o = [1; 2; 3]%nat /\
            length (layer_hashes o) = 4%nat
  | Err _ => False
  end.
Proof. vm_compute. repeat split; reflexivity. Qed.

Example big24_bfs_lib :
  bfs_lib big24 ex_cfg2 [g_central big24; big24_state] = bfs (impl_of big24) ex_cfg2 [g_central big24; big24_state].
Proof. apply (bfs_lib_is_model big24 ex_cfg2 _ big24_wf big24_sw big24_starts_U). Qed.

Example big24_primitives :
  let sts := [g_central big24; big24_state] in
  get_neighbors_encoded big24 (map (encoded_row big24) sts) = map (encoded_row big24) (get_neighbors (impl_of big24) sts) /\
  hash_rows splitmix_steps hash_mult big24 (map (encoded_row big24) sts) = hashes (impl_of big24) sts /\
  get_unique_states_encoded big24 (map (encoded_row big24) sts) (hash_rows splitmix_steps hash_mult big24 (map (encoded_row big24) sts))
  = (map (encoded_row big24) (fst (get_unique_states (impl_of big24) sts (hashes (impl_of big24) sts))),
     snd (get_unique_states (impl_of big24) sts (hashes (impl_of big24) sts))).
Proof.
  intros sts. split; [|split].
  - apply (encoded_get_neighbors splitmix_steps hash_mult big24 big24_wf sts big24_starts_U).
  - apply (encoded_hashes splitmix_steps hash_mult big24 sts).
  - apply (encoded_get_unique_states splitmix_steps hash_mult big24 big24_wf big24_sw sts big24_starts_U).
Qed.

Print Assumptions m_neighbors.
Print Assumptions m_hashes.
Print Assumptions m_unique.
Print Assumptions m_apply_mask.
Print Assumptions m_expand_plain.
Print Assumptions m_expand_batched.
Print Assumptions m_bfs_iter.
Print Assumptions m_bfs.
Print Assumptions enc_impl_unique.
Print Assumptions encoded_get_neighbors.
Print Assumptions encoded_hashes.
Print Assumptions encoded_get_unique_states.
Print Assumptions bfs_encoded_step_correct.
Print Assumptions bfs_encoded_batched_step_correct.
Print Assumptions bfs_on_rows.
Print Assumptions bfs_encoded_is_bfs.
Print Assumptions bfs_lib_is_model.
Print Assumptions bfs_lib_completed_correct.
Print Assumptions bfs_lib_identity_hash_unconditional.
Print Assumptions lrx5_bfs_lib_run.
Print Assumptions big24_bfs_lib_run.
