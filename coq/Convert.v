(** Model of how user-supplied states reach the algorithms (CayleyGraph.encode_states,
    CayleyGraphDef.normalize_central_state): container -> int64 -> reshape(-1, state_size). *)
From Coq Require Import ZArith List Bool Arith Lia String Ascii.
From V Require Import Base.
Import ListNotations.
Open Scope Z_scope.

Inductive dtype := I8 | I16 | I32 | I64 | U8.

Definition dt_min (d : dtype) : Z :=
  match d with I8 => -128 | I16 => -32768 | I32 => -2147483648 | I64 => -9223372036854775808 | U8 => 0 end.
Definition dt_max (d : dtype) : Z :=
  match d with I8 => 127 | I16 => 32767 | I32 => 2147483647 | I64 => 9223372036854775807 | U8 => 255 end.
Definition dt_card (d : dtype) : Z := dt_max d - dt_min d + 1.

(* what an array of dtype d holds when asked to hold v (wrap-around of the narrow type) *)
Definition store_as (d : dtype) (v : Z) : Z := (v - dt_min d) mod dt_card d + dt_min d.
(* .to(torch.int64): sign / zero extension keeps the numerical value *)
Definition to_int64 (d : dtype) (x : Z) : Z := x.

(* the shapes in which ONE batch of states can be handed over *)
Inductive form :=
| Flat          (* a single state given flat:            [s_0, ..., s_{n-1}]            *)
| Rows          (* a batch of rows:                      [[...], [...]]                  *)
| Matrix (r : nat).   (* each state as an r x (size/r) matrix: [[[..],[..]], ...] or a single such matrix *)

(* the elements of a container in C order; all forms flatten to the same sequence *)
Definition flatten (batch : list (list Z)) : list Z := List.concat batch.

(* reshape((-1, state_size)) *)
Fixpoint chunks (fuel : nat) (size : nat) (l : list Z) : list (list Z) :=
  match fuel with
  | O => []
  | S f => match l with
           | [] => []
           | _ => firstn size l :: chunks f size (skipn size l)
           end
  end.

Definition normalize (d : dtype) (size : nat) (elements : list Z) : result (list (list Z)) :=
  if (size =? 0)%nat then Err RuntimeErr
  else if negb (List.length elements mod size =? 0)%nat then Err RuntimeErr         (* shape is invalid for input of size … *)
  else Ok (chunks (List.length elements) size (map (to_int64 d) elements)).

(* central state given as a string of digits: [int(x) for x in s] *)
Definition digit_val (c : ascii) : option Z :=
  let n := nat_of_ascii c in
  if ((48 <=? n) && (n <=? 57))%nat then Some (Z.of_nat (n - 48)) else None.
Fixpoint central_of_string (s : string) : result (list Z) :=
  match s with
  | EmptyString => Ok []
  | String c t => match digit_val c with
                  | None => Err ValueErr
                  | Some v => do r <- central_of_string t; Ok (v :: r)
                  end
  end.
