(** E3 - the beam-search theorems (C06) instantiated for the concrete graph implementation model.

    Part 1 (permutation graphs): for [env_of d inv_mats = Some e] with a well-formed permutation description [d]
    (exactly what AlgoRun.run_beam evaluates: [pe_G e], [pe_Ginv e], [pe_invmap e]) every structural hypothesis of the
    seven theorems of props/C06.v is PROVED; what remains is NoColl on [Ustates d] (nothing at all for the identity
    hasher on one-word codes, the [_unconditional] twins), the start state in [Ustates d] and the hypotheses about the
    run (the recorded selections are arbitrary).  Conclusions are stated on the mathematical object: the generators
    [acts (impl_of d)] and the central state [g_central d].

    Part 2 (matrix graphs): the same from [wf_matrix_core d] + [wf_inv_mats d inv_mats], with [NoCollMat d] on [Umat d]
    (nothing for 1 x 1 matrices with the identity hasher).

    The "unpruned" theorems of C06 ask for a beam wider than every duplicate-free list of states of the universe U.
    With U := Ustates d (resp. Umat d) that hypothesis is unsatisfiable for un-encoded descriptions (the universe is
    infinite) and astronomically large otherwise, so the instantiation uses the ORBIT of the start state instead
    ([orbit_*] lemmas, valid for every impl): the beam only has to be wider than the orbit; for permutation graphs
    "wider than n! + 1" suffices. *)
From Coq Require Import ZArith List Bool Arith Lia Factorial.
From V Require Import Base BaseProofs Tensor Perm PermProofs Codec Hash Matrix Graph GraphProofs GraphImpl Def DefProofs
                      Bfs BfsStep BfsProofs Paths PathsProofs Mitm MitmProofs MitmFind BfsRun PathRun Beam BeamProofs
                      BitmaskProofs AlgoRun InstPerm InstSmall InstBfs InstPaths InstShared InstMatrix InstMatrixBfs.
From V.gen Require Import Consts.
Import ListNotations.
Local Open Scope nat_scope.

(* ------------------------------------------------------------------ *)
(** * 0. The orbit of the start state as universe (any impl) *)

(* the states reachable from [start] *)
Definition Orbit (G : impl) (start t : state) : Prop := exists k, reach state (acts G) [start] k t.

(* "the beam is wider than the orbit": every duplicate-free list of reachable states is shorter than the beam *)
Definition wider_than_orbit (G : impl) (start : state) (width : nat) : Prop :=
  forall l : list state, NoDup l -> (forall t, In t l -> Orbit G start t) -> length l < width.

Lemma Orbit_start G start : Orbit G start start.
Proof. exists 0. constructor. left. reflexivity. Qed.

Lemma Orbit_closed G start : closed state (acts G) (Orbit G start).
Proof. intros g x Hg [k Hk]. exists (S k). constructor; assumption. Qed.

Lemma Orbit_dist G start t k : dist_is state (acts G) [start] t k -> Orbit G start t.
Proof. intros [Hr _]. exists k. exact Hr. Qed.

Lemma Orbit_in_closed G (U : state -> Prop) start t :
  closed state (acts G) U -> U start -> Orbit G start t -> U t.
Proof.
  intros Hcl Hs [k Hk]. apply (reach_in_closed state (acts G) U [start] k t Hcl); [|exact Hk].
  intros s [<- | []]. exact Hs.
Qed.

(* a duplicate-free enumeration of (a superset of) the orbit bounds it *)
Lemma wider_than_orbit_enum G start width (enum : list state) :
  (forall t, Orbit G start t -> In t enum) -> length enum < width -> wider_than_orbit G start width.
Proof.
  intros Hall Hlen l Hnd Hl. apply Nat.le_lt_trans with (length enum); [|exact Hlen].
  apply NoDup_incl_length; [exact Hnd|]. intros t Ht. apply Hall, Hl, Ht.
Qed.

(* C06_simple_unpruned_exact with the orbit as universe *)
Theorem orbit_simple_unpruned_exact (G Ginv : impl) (U : state -> Prop) :
  closed state (acts G) U ->
  (forall a b, U a -> U b -> hashf G a = hashf G b -> a = b) ->
  (is_identity G = true -> forall a, U a -> unword G (hashf G a) = a) ->
  forall start, U start ->
  forall inv_map width max_steps k,
  wider_than_orbit G start width ->
  dist_is state (acts G) [start] (central G) k -> k <= N.to_nat max_steps ->
  exists r, search_simple G Ginv inv_map width false None start max_steps [] = Ok r /\
            path_found r = true /\ path_length r = k.
Proof.
  intros Hcl Hnc Hid start Hs inv_map width max_steps k Hw Hd Hk.
  set (U' := fun t => U t /\ Orbit G start t).
  apply (@simple_unpruned_exact G Ginv U'); try assumption.
  - intros g x Hg [Hx Ho]. split; [apply Hcl; assumption | apply Orbit_closed; assumption].
  - intros a b [Ha _] [Hb _]. apply Hnc; assumption.
  - intros Hi a [Ha _]. apply Hid; assumption.
  - split; [exact Hs | apply Orbit_start].
  - pose proof (Orbit_dist G start _ k Hd) as Ho. split; [|exact Ho].
    apply (Orbit_in_closed G U start _ Hcl Hs Ho).
  - intros l Hnd Hl. apply Hw; [exact Hnd|]. intros t Ht. apply (Hl t Ht).
Qed.

(* C06_advanced_unpruned_exact with the orbit as universe *)
Theorem orbit_advanced_unpruned_exact (G : impl) (U : state -> Prop) :
  closed state (acts G) U ->
  (forall a b, U a -> U b -> hashf G a = hashf G b -> a = b) ->
  (is_identity G = true -> forall a, U a -> unword G (hashf G a) = a) ->
  forall start, U start ->
  forall width history max_steps k,
  wider_than_orbit G start width ->
  dist_is state (acts G) [start] (central G) k -> k <= N.to_nat max_steps ->
  exists r, search_advanced G width history start (central G) max_steps [] = Ok r /\
            path_found r = true /\ path_length r = k.
Proof.
  intros Hcl Hnc Hid start Hs width history max_steps k Hw Hd Hk.
  set (U' := fun t => U t /\ Orbit G start t).
  apply (@advanced_unpruned_exact G U'); try assumption.
  - intros g x Hg [Hx Ho]. split; [apply Hcl; assumption | apply Orbit_closed; assumption].
  - intros a b [Ha _] [Hb _]. apply Hnc; assumption.
  - intros Hi a [Ha _]. apply Hid; assumption.
  - split; [exact Hs | apply Orbit_start].
  - intros l Hnd Hl. apply Hw; [exact Hnd|]. intros t Ht. apply (Hl t Ht).
Qed.

(* ================================================================== *)
(** * Part 1. Permutation graphs *)

(* the orbit of a state under permutation generators has at most n! + 1 elements *)
Lemma rearr_count d q (l : list state) :
  NoDup l -> (forall t, In t l -> rearr d q t) -> length l <= fact (desc_n d) + 1.
Proof.
  intros Hnd Hl.
  set (Lall := q :: map (fun sigma => apply_perm 0%Z sigma q) (all_perms (desc_n d))).
  assert (Hlen : length Lall = fact (desc_n d) + 1).
  { unfold Lall. cbn [length]. rewrite map_length, all_perms_length. lia. }
  rewrite <- Hlen. apply NoDup_incl_length; [exact Hnd|].
  intros t Ht. destruct (Hl t Ht) as [-> | (sigma & Hs & Hls & ->)]; [left; reflexivity|].
  right. apply in_map_iff. exists sigma. split; [reflexivity|]. apply in_all_perms. auto.
Qed.

Lemma perm_orbit_rearr d start t : wf_perm_desc d -> Orbit (impl_of d) start t -> rearr d start t.
Proof.
  intros Hwf Ho.
  apply (Orbit_in_closed (impl_of d) (rearr d start) start t); [|left; reflexivity|exact Ho].
  apply (rearr_closed splitmix_steps hash_mult d start Hwf).
Qed.

Theorem perm_wider_than_orbit d start width :
  wf_perm_desc d -> fact (desc_n d) + 1 < width -> wider_than_orbit (impl_of d) start width.
Proof.
  intros Hwf Hw l Hnd Hl. apply Nat.le_lt_trans with (fact (desc_n d) + 1); [|exact Hw].
  apply (rearr_count d start l Hnd). intros t Ht. apply perm_orbit_rearr; [exact Hwf | apply Hl; exact Ht].
Qed.

(* the orbit only depends on the generators *)
Lemma wider_than_orbit_acts G G' start width :
  acts G = acts G' -> wider_than_orbit G start width -> wider_than_orbit G' start width.
Proof. intros E H l Hnd Hl. apply H; [exact Hnd|]. intros t Ht. unfold Orbit. rewrite E. apply Hl, Ht. Qed.

Section PermBeam.
  Variable d : gdesc.
  Variable inv_mats : list (list (list Z)).
  Variable e : path_env.
  Hypothesis Hwf : wf_perm_desc d.
  Hypothesis He : env_of d inv_mats = Some e.
  Hypothesis Hnc : NoCollOn (impl_of d) (Ustates d).

  (* C06_simple_sound_noball *)
  Theorem beam_perm_simple_sound_noball :
    forall start, Ustates d start ->
    forall (inv_map : option (list nat)) (width : nat) (return_path : bool) (max_steps : BinNums.N)
           (sels : list selection) (r : beam_result),
    search_simple (pe_G e) (pe_Ginv e) inv_map width return_path None start max_steps sels = Ok r ->
    path_found r = true ->
    reach state (acts (impl_of d)) [start] (path_length r) (g_central d) /\
    (forall p, bpath r = Some p ->
       length p = path_length r /\ run state (acts (impl_of d)) start p = Some (g_central d)).
  Proof.
    prep Hwf He Hnc. intros start Hs.
    rewrite <- (pe_G_acts d inv_mats e Hwf He), <- (pe_G_central d inv_mats e Hwf He).
    exact (@simple_sound_noball (pe_G e) (pe_Ginv e) (Ustates d) Hcl Hcli HncG HidG Hlen Hundo start Hs HcU).
  Qed.

  (* C06_simple_sound_ball: the inverse map is the one env_of computed, the graph is inverse closed *)
  Theorem beam_perm_simple_sound_ball :
    forall start, Ustates d start ->
    forall (m : list nat) (lh : list (list Z)) (ns width : nat) (return_path : bool) (max_steps : BinNums.N)
           (sels : list selection) (r : beam_result),
    pe_invmap e = Some m ->
    inv_closed (pe_G e) = true ->
    ball_ok (pe_G e) (central (pe_G e)) lh -> length lh = ns -> 1 <= ns ->
    search_simple (pe_G e) (pe_Ginv e) (Some m) width return_path (Some (lh, ns)) start max_steps sels = Ok r ->
    path_found r = true ->
    reach state (acts (impl_of d)) [start] (path_length r) (g_central d) /\
    (forall p, bpath r = Some p ->
       length p = path_length r /\ run state (acts (impl_of d)) start p = Some (g_central d)).
  Proof.
    prep Hwf He Hnc. intros start Hs m lh ns width return_path max_steps sels r Hm.
    rewrite <- (pe_G_acts d inv_mats e Hwf He), <- (pe_G_central d inv_mats e Hwf He).
    exact (@simple_sound_ball (pe_G e) (pe_Ginv e) (Ustates d) Hcl Hcli HncG HidG Hlen Hundo start Hs HcU
             m lh ns width return_path max_steps sels r (Hinv m Hm)).
  Qed.

  (* the same exactly as AlgoRun.run_beam evaluates it: the ball is computed by [ball_of] in the graph itself and
     the inverse map is [pe_invmap e] *)
  Theorem beam_perm_simple_sound_ball_e2e :
    forall start, Ustates d start ->
    forall (batch : Z) (depth : BinNums.N) (explore : Z) (lh : list (list Z)) (ns width : nat) (return_path : bool)
           (max_steps : BinNums.N) (sels : list selection) (r : beam_result),
    inv_closed (pe_G e) = true -> (1 <= batch)%Z ->
    ball_of (pe_G e) batch depth explore [g_central d] = Ok (lh, ns) ->
    search_simple (pe_G e) (pe_Ginv e) (pe_invmap e) width return_path (Some (lh, ns)) start max_steps sels = Ok r ->
    path_found r = true ->
    reach state (acts (impl_of d)) [start] (path_length r) (g_central d) /\
    (forall p, bpath r = Some p ->
       length p = path_length r /\ run state (acts (impl_of d)) start p = Some (g_central d)).
  Proof.
    intros start Hs batch depth explore lh ns width return_path max_steps sels r Hic Hb Hball.
    pose proof beam_perm_simple_sound_ball as Hthm.
    prep Hwf He Hnc. destruct (Hex Hic) as [m Hm]. rewrite Hm.
    rewrite <- (pe_G_central d inv_mats e Hwf He) in Hball.
    destruct (ball_of_ball_ok (pe_G e) (Ustates d) batch depth explore _ lh ns Hcl HncG HidG HsymG Hb HcU Hball)
      as (Hbk & Hl & Hn1).
    exact (Hthm start Hs m lh ns width return_path max_steps sels r Hm Hic Hbk Hl Hn1).
  Qed.

  (* C06_advanced_sound *)
  Theorem beam_perm_advanced_sound :
    forall start, Ustates d start ->
    forall (width history : nat) (max_steps : BinNums.N) (sels : list selection) (r : beam_result),
    search_advanced (pe_G e) width history start (g_central d) max_steps sels = Ok r ->
    path_found r = true ->
    reach state (acts (impl_of d)) [start] (path_length r) (g_central d).
  Proof.
    prep Hwf He Hnc. intros start Hs.
    rewrite <- (pe_G_acts d inv_mats e Hwf He), <- (pe_G_central d inv_mats e Hwf He).
    exact (@advanced_sound (pe_G e) (Ustates d) Hcl HncG HidG start Hs).
  Qed.

  (* C06_simple_noball_ge_dist *)
  Theorem beam_perm_simple_noball_ge_dist :
    forall start, Ustates d start ->
    forall (inv_map : option (list nat)) (width : nat) (return_path : bool) (max_steps : BinNums.N)
           (sels : list selection) (r : beam_result) (k : nat),
    search_simple (pe_G e) (pe_Ginv e) inv_map width return_path None start max_steps sels = Ok r ->
    path_found r = true ->
    dist_is state (acts (impl_of d)) [start] (g_central d) k -> k <= path_length r.
  Proof.
    prep Hwf He Hnc. intros start Hs.
    rewrite <- (pe_G_acts d inv_mats e Hwf He), <- (pe_G_central d inv_mats e Hwf He).
    exact (@simple_noball_ge_dist (pe_G e) (pe_Ginv e) (Ustates d) Hcl Hcli HncG HidG Hlen Hundo start Hs HcU).
  Qed.

  (* the two further corollaries of BeamProofs.v: with a ball, and in advanced mode *)
  Theorem beam_perm_simple_ball_ge_dist :
    forall start, Ustates d start ->
    forall (m : list nat) (lh : list (list Z)) (ns width : nat) (return_path : bool) (max_steps : BinNums.N)
           (sels : list selection) (r : beam_result) (k : nat),
    pe_invmap e = Some m -> inv_closed (pe_G e) = true ->
    ball_ok (pe_G e) (central (pe_G e)) lh -> length lh = ns -> 1 <= ns ->
    search_simple (pe_G e) (pe_Ginv e) (Some m) width return_path (Some (lh, ns)) start max_steps sels = Ok r ->
    path_found r = true ->
    dist_is state (acts (impl_of d)) [start] (g_central d) k -> k <= path_length r.
  Proof.
    prep Hwf He Hnc. intros start Hs m lh ns width return_path max_steps sels r k Hm.
    rewrite <- (pe_G_acts d inv_mats e Hwf He), <- (pe_G_central d inv_mats e Hwf He).
    exact (@simple_ball_ge_dist (pe_G e) (pe_Ginv e) (Ustates d) Hcl Hcli HncG HidG Hlen Hundo start Hs HcU
             m lh ns width return_path max_steps sels r k (Hinv m Hm)).
  Qed.

  Theorem beam_perm_advanced_ge_dist :
    forall start, Ustates d start ->
    forall (width history : nat) (max_steps : BinNums.N) (sels : list selection) (r : beam_result) (k : nat),
    search_advanced (pe_G e) width history start (g_central d) max_steps sels = Ok r ->
    path_found r = true ->
    dist_is state (acts (impl_of d)) [start] (g_central d) k -> k <= path_length r.
  Proof.
    prep Hwf He Hnc. intros start Hs.
    rewrite <- (pe_G_acts d inv_mats e Hwf He), <- (pe_G_central d inv_mats e Hwf He).
    exact (@advanced_ge_dist (pe_G e) (Ustates d) Hcl HncG HidG start Hs).
  Qed.

  (* C06_simple_total_noball *)
  Theorem beam_perm_simple_total_noball :
    forall start, Ustates d start ->
    forall (inv_map : option (list nat)) (width : nat) (return_path : bool) (max_steps : BinNums.N) (sels : list selection),
    1 <= width -> Forall (fun _ : selection => True) sels ->
    (exists r, search_simple (pe_G e) (pe_Ginv e) inv_map width return_path None start max_steps sels = Ok r) \/
    search_simple (pe_G e) (pe_Ginv e) inv_map width return_path None start max_steps sels = Err RuntimeErr.
  Proof.
    prep Hwf He Hnc. intros start Hs.
    exact (@simple_total_noball (pe_G e) (pe_Ginv e) (Ustates d) Hcl Hcli HncG HidG Hlen Hundo start Hs HcU).
  Qed.

  (* C06_simple_unpruned_exact: beam wider than the orbit of the start state *)
  Theorem beam_perm_simple_unpruned_exact :
    forall start, Ustates d start ->
    forall (inv_map : option (list nat)) (width : nat) (max_steps : BinNums.N) (k : nat),
    wider_than_orbit (impl_of d) start width ->
    dist_is state (acts (impl_of d)) [start] (g_central d) k -> k <= N.to_nat max_steps ->
    exists r, search_simple (pe_G e) (pe_Ginv e) inv_map width false None start max_steps [] = Ok r /\
              path_found r = true /\ path_length r = k.
  Proof.
    prep Hwf He Hnc. intros start Hs inv_map width max_steps k Hw.
    rewrite <- (pe_G_acts d inv_mats e Hwf He), <- (pe_G_central d inv_mats e Hwf He).
    apply (orbit_simple_unpruned_exact (pe_G e) (pe_Ginv e) (Ustates d) Hcl HncG HidG start Hs).
    apply (wider_than_orbit_acts (impl_of d)); [symmetry; apply (pe_G_acts d inv_mats e Hwf He) | exact Hw].
  Qed.

  (* ... in particular wider than n! + 1 *)
  Theorem beam_perm_simple_unpruned_exact_fact :
    forall start, Ustates d start ->
    forall (inv_map : option (list nat)) (width : nat) (max_steps : BinNums.N) (k : nat),
    fact (desc_n d) + 1 < width ->
    dist_is state (acts (impl_of d)) [start] (g_central d) k -> k <= N.to_nat max_steps ->
    exists r, search_simple (pe_G e) (pe_Ginv e) inv_map width false None start max_steps [] = Ok r /\
              path_found r = true /\ path_length r = k.
  Proof.
    intros start Hs inv_map width max_steps k Hw.
    apply beam_perm_simple_unpruned_exact; [exact Hs|]. apply perm_wider_than_orbit; assumption.
  Qed.

  (* C06_advanced_unpruned_exact, every history depth *)
  Theorem beam_perm_advanced_unpruned_exact :
    forall start, Ustates d start ->
    forall (width history : nat) (max_steps : BinNums.N) (k : nat),
    wider_than_orbit (impl_of d) start width ->
    dist_is state (acts (impl_of d)) [start] (g_central d) k -> k <= N.to_nat max_steps ->
    exists r, search_advanced (pe_G e) width history start (g_central d) max_steps [] = Ok r /\
              path_found r = true /\ path_length r = k.
  Proof.
    prep Hwf He Hnc. intros start Hs width history max_steps k Hw.
    rewrite <- (pe_G_acts d inv_mats e Hwf He), <- (pe_G_central d inv_mats e Hwf He).
    apply (orbit_advanced_unpruned_exact (pe_G e) (Ustates d) Hcl HncG HidG start Hs).
    apply (wider_than_orbit_acts (impl_of d)); [symmetry; apply (pe_G_acts d inv_mats e Hwf He) | exact Hw].
  Qed.

  Theorem beam_perm_advanced_unpruned_exact_fact :
    forall start, Ustates d start ->
    forall (width history : nat) (max_steps : BinNums.N) (k : nat),
    fact (desc_n d) + 1 < width ->
    dist_is state (acts (impl_of d)) [start] (g_central d) k -> k <= N.to_nat max_steps ->
    exists r, search_advanced (pe_G e) width history start (g_central d) max_steps [] = Ok r /\
              path_found r = true /\ path_length r = k.
  Proof.
    intros start Hs width history max_steps k Hw.
    apply beam_perm_advanced_unpruned_exact; [exact Hs|]. apply perm_wider_than_orbit; assumption.
  Qed.
End PermBeam.

(* ------------------------------------------------------------------ *)
(** * 1b. Identity hasher on one-word codes: NO hash hypothesis at all *)

Theorem beam_perm_simple_sound_noball_unconditional : forall d inv_mats e,
  wf_perm_desc d -> env_of d inv_mats = Some e -> g_hasher d = HIdentity -> single_word d ->
  forall start, Ustates d start ->
  forall (inv_map : option (list nat)) (width : nat) (return_path : bool) (max_steps : BinNums.N)
         (sels : list selection) (r : beam_result),
  search_simple (pe_G e) (pe_Ginv e) inv_map width return_path None start max_steps sels = Ok r ->
  path_found r = true ->
  reach state (acts (impl_of d)) [start] (path_length r) (g_central d) /\
  (forall p, bpath r = Some p ->
     length p = path_length r /\ run state (acts (impl_of d)) start p = Some (g_central d)).
Proof.
  intros d inv_mats e Hwf He Hh Hsw.
  exact (beam_perm_simple_sound_noball d inv_mats e Hwf He (proj1 (impl_of_identity_nocoll d Hwf Hh Hsw))).
Qed.

Theorem beam_perm_simple_sound_ball_unconditional : forall d inv_mats e,
  wf_perm_desc d -> env_of d inv_mats = Some e -> g_hasher d = HIdentity -> single_word d ->
  forall start, Ustates d start ->
  forall (m : list nat) (lh : list (list Z)) (ns width : nat) (return_path : bool) (max_steps : BinNums.N)
         (sels : list selection) (r : beam_result),
  pe_invmap e = Some m ->
  inv_closed (pe_G e) = true ->
  ball_ok (pe_G e) (central (pe_G e)) lh -> length lh = ns -> 1 <= ns ->
  search_simple (pe_G e) (pe_Ginv e) (Some m) width return_path (Some (lh, ns)) start max_steps sels = Ok r ->
  path_found r = true ->
  reach state (acts (impl_of d)) [start] (path_length r) (g_central d) /\
  (forall p, bpath r = Some p ->
     length p = path_length r /\ run state (acts (impl_of d)) start p = Some (g_central d)).
Proof.
  intros d inv_mats e Hwf He Hh Hsw.
  exact (beam_perm_simple_sound_ball d inv_mats e Hwf He (proj1 (impl_of_identity_nocoll d Hwf Hh Hsw))).
Qed.

Theorem beam_perm_simple_sound_ball_e2e_unconditional : forall d inv_mats e,
  wf_perm_desc d -> env_of d inv_mats = Some e -> g_hasher d = HIdentity -> single_word d ->
  forall start, Ustates d start ->
  forall (batch : Z) (depth : BinNums.N) (explore : Z) (lh : list (list Z)) (ns width : nat) (return_path : bool)
         (max_steps : BinNums.N) (sels : list selection) (r : beam_result),
  inv_closed (pe_G e) = true -> (1 <= batch)%Z ->
  ball_of (pe_G e) batch depth explore [g_central d] = Ok (lh, ns) ->
  search_simple (pe_G e) (pe_Ginv e) (pe_invmap e) width return_path (Some (lh, ns)) start max_steps sels = Ok r ->
  path_found r = true ->
  reach state (acts (impl_of d)) [start] (path_length r) (g_central d) /\
  (forall p, bpath r = Some p ->
     length p = path_length r /\ run state (acts (impl_of d)) start p = Some (g_central d)).
Proof.
  intros d inv_mats e Hwf He Hh Hsw.
  exact (beam_perm_simple_sound_ball_e2e d inv_mats e Hwf He (proj1 (impl_of_identity_nocoll d Hwf Hh Hsw))).
Qed.

Theorem beam_perm_advanced_sound_unconditional : forall d inv_mats e,
  wf_perm_desc d -> env_of d inv_mats = Some e -> g_hasher d = HIdentity -> single_word d ->
  forall start, Ustates d start ->
  forall (width history : nat) (max_steps : BinNums.N) (sels : list selection) (r : beam_result),
  search_advanced (pe_G e) width history start (g_central d) max_steps sels = Ok r ->
  path_found r = true ->
  reach state (acts (impl_of d)) [start] (path_length r) (g_central d).
Proof.
  intros d inv_mats e Hwf He Hh Hsw.
  exact (beam_perm_advanced_sound d inv_mats e Hwf He (proj1 (impl_of_identity_nocoll d Hwf Hh Hsw))).
Qed.

Theorem beam_perm_simple_noball_ge_dist_unconditional : forall d inv_mats e,
  wf_perm_desc d -> env_of d inv_mats = Some e -> g_hasher d = HIdentity -> single_word d ->
  forall start, Ustates d start ->
  forall (inv_map : option (list nat)) (width : nat) (return_path : bool) (max_steps : BinNums.N)
         (sels : list selection) (r : beam_result) (k : nat),
  search_simple (pe_G e) (pe_Ginv e) inv_map width return_path None start max_steps sels = Ok r ->
  path_found r = true ->
  dist_is state (acts (impl_of d)) [start] (g_central d) k -> k <= path_length r.
Proof.
  intros d inv_mats e Hwf He Hh Hsw.
  exact (beam_perm_simple_noball_ge_dist d inv_mats e Hwf He (proj1 (impl_of_identity_nocoll d Hwf Hh Hsw))).
Qed.

Theorem beam_perm_simple_ball_ge_dist_unconditional : forall d inv_mats e,
  wf_perm_desc d -> env_of d inv_mats = Some e -> g_hasher d = HIdentity -> single_word d ->
  forall start, Ustates d start ->
  forall (m : list nat) (lh : list (list Z)) (ns width : nat) (return_path : bool) (max_steps : BinNums.N)
         (sels : list selection) (r : beam_result) (k : nat),
  pe_invmap e = Some m -> inv_closed (pe_G e) = true ->
  ball_ok (pe_G e) (central (pe_G e)) lh -> length lh = ns -> 1 <= ns ->
  search_simple (pe_G e) (pe_Ginv e) (Some m) width return_path (Some (lh, ns)) start max_steps sels = Ok r ->
  path_found r = true ->
  dist_is state (acts (impl_of d)) [start] (g_central d) k -> k <= path_length r.
Proof.
  intros d inv_mats e Hwf He Hh Hsw.
  exact (beam_perm_simple_ball_ge_dist d inv_mats e Hwf He (proj1 (impl_of_identity_nocoll d Hwf Hh Hsw))).
Qed.

Theorem beam_perm_advanced_ge_dist_unconditional : forall d inv_mats e,
  wf_perm_desc d -> env_of d inv_mats = Some e -> g_hasher d = HIdentity -> single_word d ->
  forall start, Ustates d start ->
  forall (width history : nat) (max_steps : BinNums.N) (sels : list selection) (r : beam_result) (k : nat),
  search_advanced (pe_G e) width history start (g_central d) max_steps sels = Ok r ->
  path_found r = true ->
  dist_is state (acts (impl_of d)) [start] (g_central d) k -> k <= path_length r.
Proof.
  intros d inv_mats e Hwf He Hh Hsw.
  exact (beam_perm_advanced_ge_dist d inv_mats e Hwf He (proj1 (impl_of_identity_nocoll d Hwf Hh Hsw))).
Qed.

Theorem beam_perm_simple_total_noball_unconditional : forall d inv_mats e,
  wf_perm_desc d -> env_of d inv_mats = Some e -> g_hasher d = HIdentity -> single_word d ->
  forall start, Ustates d start ->
  forall (inv_map : option (list nat)) (width : nat) (return_path : bool) (max_steps : BinNums.N) (sels : list selection),
  1 <= width -> Forall (fun _ : selection => True) sels ->
  (exists r, search_simple (pe_G e) (pe_Ginv e) inv_map width return_path None start max_steps sels = Ok r) \/
  search_simple (pe_G e) (pe_Ginv e) inv_map width return_path None start max_steps sels = Err RuntimeErr.
Proof.
  intros d inv_mats e Hwf He Hh Hsw.
  exact (beam_perm_simple_total_noball d inv_mats e Hwf He (proj1 (impl_of_identity_nocoll d Hwf Hh Hsw))).
Qed.

Theorem beam_perm_simple_unpruned_exact_unconditional : forall d inv_mats e,
  wf_perm_desc d -> env_of d inv_mats = Some e -> g_hasher d = HIdentity -> single_word d ->
  forall start, Ustates d start ->
  forall (inv_map : option (list nat)) (width : nat) (max_steps : BinNums.N) (k : nat),
  wider_than_orbit (impl_of d) start width ->
  dist_is state (acts (impl_of d)) [start] (g_central d) k -> k <= N.to_nat max_steps ->
  exists r, search_simple (pe_G e) (pe_Ginv e) inv_map width false None start max_steps [] = Ok r /\
            path_found r = true /\ path_length r = k.
Proof.
  intros d inv_mats e Hwf He Hh Hsw.
  exact (beam_perm_simple_unpruned_exact d inv_mats e Hwf He (proj1 (impl_of_identity_nocoll d Hwf Hh Hsw))).
Qed.

Theorem beam_perm_simple_unpruned_exact_fact_unconditional : forall d inv_mats e,
  wf_perm_desc d -> env_of d inv_mats = Some e -> g_hasher d = HIdentity -> single_word d ->
  forall start, Ustates d start ->
  forall (inv_map : option (list nat)) (width : nat) (max_steps : BinNums.N) (k : nat),
  fact (desc_n d) + 1 < width ->
  dist_is state (acts (impl_of d)) [start] (g_central d) k -> k <= N.to_nat max_steps ->
  exists r, search_simple (pe_G e) (pe_Ginv e) inv_map width false None start max_steps [] = Ok r /\
            path_found r = true /\ path_length r = k.
Proof.
  intros d inv_mats e Hwf He Hh Hsw.
  exact (beam_perm_simple_unpruned_exact_fact d inv_mats e Hwf He (proj1 (impl_of_identity_nocoll d Hwf Hh Hsw))).
Qed.

Theorem beam_perm_advanced_unpruned_exact_unconditional : forall d inv_mats e,
  wf_perm_desc d -> env_of d inv_mats = Some e -> g_hasher d = HIdentity -> single_word d ->
  forall start, Ustates d start ->
  forall (width history : nat) (max_steps : BinNums.N) (k : nat),
  wider_than_orbit (impl_of d) start width ->
  dist_is state (acts (impl_of d)) [start] (g_central d) k -> k <= N.to_nat max_steps ->
  exists r, search_advanced (pe_G e) width history start (g_central d) max_steps [] = Ok r /\
            path_found r = true /\ path_length r = k.
Proof.
  intros d inv_mats e Hwf He Hh Hsw.
  exact (beam_perm_advanced_unpruned_exact d inv_mats e Hwf He (proj1 (impl_of_identity_nocoll d Hwf Hh Hsw))).
Qed.

Theorem beam_perm_advanced_unpruned_exact_fact_unconditional : forall d inv_mats e,
  wf_perm_desc d -> env_of d inv_mats = Some e -> g_hasher d = HIdentity -> single_word d ->
  forall start, Ustates d start ->
  forall (width history : nat) (max_steps : BinNums.N) (k : nat),
  fact (desc_n d) + 1 < width ->
  dist_is state (acts (impl_of d)) [start] (g_central d) k -> k <= N.to_nat max_steps ->
  exists r, search_advanced (pe_G e) width history start (g_central d) max_steps [] = Ok r /\
            path_found r = true /\ path_length r = k.
Proof.
  intros d inv_mats e Hwf He Hh Hsw.
  exact (beam_perm_advanced_unpruned_exact_fact d inv_mats e Hwf He (proj1 (impl_of_identity_nocoll d Hwf Hh Hsw))).
Qed.

(* ================================================================== *)
(** * Part 2. Matrix graphs *)

(* the flag env_of stores is is_some of the inverse map it stores (both kinds of graphs) *)
Lemma env_flag_invmap d im e :
  env_of d im = Some e -> inv_closed (pe_G e) = true -> exists mp, pe_invmap e = Some mp.
Proof.
  intros He. unfold env_of in He. destruct (inverted_kind (g_kind d) im) as [ik|]; [|discriminate].
  inversion He; subst e; clear He. cbn [pe_G pe_invmap]. unfold impl_of. cbn [inv_closed mk_impl with_flag g_inv_closed].
  destruct (kind_inverse_map (g_kind d)) as [mp|]; cbn [is_some]; [intros _; exists mp; reflexivity|discriminate].
Qed.

Lemma matrix_pe_G_acts d im e : env_of d im = Some e -> acts (pe_G e) = acts (impl_of d).
Proof. intros He. apply (env_of_shares_origin d im e He). Qed.
Lemma matrix_pe_G_central d im e : env_of d im = Some e -> central (pe_G e) = g_central d.
Proof. intros He. destruct (env_of_shares_origin d im e He) as (_ & _ & _ & H & _). exact H. Qed.

(* with a modulus the universe is finite: modulo^(n*m) states *)
Lemma flat_map_const_length {A B} (f : A -> list B) c (l : list A) :
  (forall x, In x l -> length (f x) = c) -> length (flat_map f l) = length l * c.
Proof.
  induction l as [|x t IH]; intros H; [reflexivity|].
  cbn [flat_map length]. rewrite app_length.
  rewrite IH by (intros y Hy; apply H; right; exact Hy).
  rewrite (H x) by (left; reflexivity). lia.
Qed.

Lemma all_vecs_length vals k : length (all_vecs vals k) = length vals ^ k.
Proof.
  induction k as [|k IH]; [reflexivity|].
  cbn [all_vecs]. rewrite (flat_map_const_length _ (length vals ^ k)).
  - rewrite Nat.pow_succ_r'. reflexivity.
  - intros v _. rewrite map_length. exact IH.
Qed.

Lemma residues_length modulo : length (residues modulo) = Z.to_nat modulo.
Proof. unfold residues. rewrite map_length, seq_length. reflexivity. Qed.

Theorem matrix_wider_than_orbit d modulo n m mats start width :
  wf_matrix_core d = true -> g_kind d = GMatrix modulo n m mats -> (0 < modulo)%Z -> Umat d start ->
  Z.to_nat modulo ^ (n * m) < width -> wider_than_orbit (impl_of d) start width.
Proof.
  intros Hwf Hk Hpos Hs Hw.
  apply (wider_than_orbit_enum (impl_of d) start width (all_vecs (residues modulo) (n * m))).
  - intros t Ho. pose proof (Orbit_in_closed (impl_of d) (Umat d) start t (matrix_closed d Hwf) Hs Ho) as Ht.
    unfold Umat in Ht. rewrite Hk in Ht. destruct Ht as [Hl HF].
    apply all_vecs_complete; [exact Hl|]. eapply Forall_impl; [|exact HF].
    intros v Hv. apply residues_complete. apply rng_mod in Hv; [exact Hv|lia].
  - rewrite all_vecs_length, residues_length. exact Hw.
Qed.

Section MatrixBeam.
  Variable d : gdesc.
  Variable inv_mats : list (list (list Z)).
  Variable e : path_env.
  Hypothesis Hwf : wf_matrix_core d = true.            (* the flag of d itself is irrelevant: env_of recomputes it *)
  Hypothesis Hinv : wf_inv_mats d inv_mats = true.
  Hypothesis He : env_of d inv_mats = Some e.
  Hypothesis NC : NoCollMat d.

  Let F : EnvFacts e (Umat d) := matrix_env_facts d inv_mats e Hwf Hinv He.
  Let NCG : forall a b, Umat d a -> Umat d b -> hashf (pe_G e) a = hashf (pe_G e) b -> a = b :=
    proj1 (env_of_nocoll d inv_mats e (Umat d) He NC).

  (* C06_simple_sound_noball *)
  Theorem beam_matrix_simple_sound_noball :
    forall start, Umat d start ->
    forall (inv_map : option (list nat)) (width : nat) (return_path : bool) (max_steps : BinNums.N)
           (sels : list selection) (r : beam_result),
    search_simple (pe_G e) (pe_Ginv e) inv_map width return_path None start max_steps sels = Ok r ->
    path_found r = true ->
    reach state (acts (impl_of d)) [start] (path_length r) (g_central d) /\
    (forall p, bpath r = Some p ->
       length p = path_length r /\ run state (acts (impl_of d)) start p = Some (g_central d)).
  Proof.
    intros start Hs. rewrite <- (matrix_pe_G_acts d inv_mats e He), <- (matrix_pe_G_central d inv_mats e He).
    exact (@simple_sound_noball (pe_G e) (pe_Ginv e) (Umat d) (ef_closed _ _ F) (ef_closed_inv _ _ F) NCG
             (ef_idok _ _ F) (ef_same_len _ _ F) (ef_inv_undo _ _ F) start Hs (ef_central_U _ _ F)).
  Qed.

  (* C06_simple_sound_ball *)
  Theorem beam_matrix_simple_sound_ball :
    forall start, Umat d start ->
    forall (mp : list nat) (lh : list (list Z)) (ns width : nat) (return_path : bool) (max_steps : BinNums.N)
           (sels : list selection) (r : beam_result),
    pe_invmap e = Some mp ->
    inv_closed (pe_G e) = true ->
    ball_ok (pe_G e) (central (pe_G e)) lh -> length lh = ns -> 1 <= ns ->
    search_simple (pe_G e) (pe_Ginv e) (Some mp) width return_path (Some (lh, ns)) start max_steps sels = Ok r ->
    path_found r = true ->
    reach state (acts (impl_of d)) [start] (path_length r) (g_central d) /\
    (forall p, bpath r = Some p ->
       length p = path_length r /\ run state (acts (impl_of d)) start p = Some (g_central d)).
  Proof.
    intros start Hs mp lh ns width return_path max_steps sels r Hm.
    rewrite <- (matrix_pe_G_acts d inv_mats e He), <- (matrix_pe_G_central d inv_mats e He).
    exact (@simple_sound_ball (pe_G e) (pe_Ginv e) (Umat d) (ef_closed _ _ F) (ef_closed_inv _ _ F) NCG
             (ef_idok _ _ F) (ef_same_len _ _ F) (ef_inv_undo _ _ F) start Hs (ef_central_U _ _ F)
             mp lh ns width return_path max_steps sels r (ef_invmap _ _ F mp Hm)).
  Qed.

  (* the same exactly as AlgoRun.run_beam evaluates it *)
  Theorem beam_matrix_simple_sound_ball_e2e :
    forall start, Umat d start ->
    forall (batch : Z) (depth : BinNums.N) (explore : Z) (lh : list (list Z)) (ns width : nat) (return_path : bool)
           (max_steps : BinNums.N) (sels : list selection) (r : beam_result),
    inv_closed (pe_G e) = true -> (1 <= batch)%Z ->
    ball_of (pe_G e) batch depth explore [g_central d] = Ok (lh, ns) ->
    search_simple (pe_G e) (pe_Ginv e) (pe_invmap e) width return_path (Some (lh, ns)) start max_steps sels = Ok r ->
    path_found r = true ->
    reach state (acts (impl_of d)) [start] (path_length r) (g_central d) /\
    (forall p, bpath r = Some p ->
       length p = path_length r /\ run state (acts (impl_of d)) start p = Some (g_central d)).
  Proof.
    intros start Hs batch depth explore lh ns width return_path max_steps sels r Hic Hb Hball.
    destruct (env_flag_invmap d inv_mats e He Hic) as [mp Hm]. rewrite Hm.
    rewrite <- (matrix_pe_G_central d inv_mats e He) in Hball.
    destruct (ball_of_ball_ok (pe_G e) (Umat d) batch depth explore _ lh ns (ef_closed _ _ F) NCG (ef_idok _ _ F)
                (ef_sym _ _ F) Hb (ef_central_U _ _ F) Hball) as (Hbk & Hl & Hn1).
    exact (beam_matrix_simple_sound_ball start Hs mp lh ns width return_path max_steps sels r Hm Hic Hbk Hl Hn1).
  Qed.

  (* C06_advanced_sound *)
  Theorem beam_matrix_advanced_sound :
    forall start, Umat d start ->
    forall (width history : nat) (max_steps : BinNums.N) (sels : list selection) (r : beam_result),
    search_advanced (pe_G e) width history start (g_central d) max_steps sels = Ok r ->
    path_found r = true ->
    reach state (acts (impl_of d)) [start] (path_length r) (g_central d).
  Proof.
    intros start Hs. rewrite <- (matrix_pe_G_acts d inv_mats e He), <- (matrix_pe_G_central d inv_mats e He).
    exact (@advanced_sound (pe_G e) (Umat d) (ef_closed _ _ F) NCG (ef_idok _ _ F) start Hs).
  Qed.

  (* C06_simple_noball_ge_dist *)
  Theorem beam_matrix_simple_noball_ge_dist :
    forall start, Umat d start ->
    forall (inv_map : option (list nat)) (width : nat) (return_path : bool) (max_steps : BinNums.N)
           (sels : list selection) (r : beam_result) (k : nat),
    search_simple (pe_G e) (pe_Ginv e) inv_map width return_path None start max_steps sels = Ok r ->
    path_found r = true ->
    dist_is state (acts (impl_of d)) [start] (g_central d) k -> k <= path_length r.
  Proof.
    intros start Hs. rewrite <- (matrix_pe_G_acts d inv_mats e He), <- (matrix_pe_G_central d inv_mats e He).
    exact (@simple_noball_ge_dist (pe_G e) (pe_Ginv e) (Umat d) (ef_closed _ _ F) (ef_closed_inv _ _ F) NCG
             (ef_idok _ _ F) (ef_same_len _ _ F) (ef_inv_undo _ _ F) start Hs (ef_central_U _ _ F)).
  Qed.

  Theorem beam_matrix_simple_ball_ge_dist :
    forall start, Umat d start ->
    forall (mp : list nat) (lh : list (list Z)) (ns width : nat) (return_path : bool) (max_steps : BinNums.N)
           (sels : list selection) (r : beam_result) (k : nat),
    pe_invmap e = Some mp -> inv_closed (pe_G e) = true ->
    ball_ok (pe_G e) (central (pe_G e)) lh -> length lh = ns -> 1 <= ns ->
    search_simple (pe_G e) (pe_Ginv e) (Some mp) width return_path (Some (lh, ns)) start max_steps sels = Ok r ->
    path_found r = true ->
    dist_is state (acts (impl_of d)) [start] (g_central d) k -> k <= path_length r.
  Proof.
    intros start Hs mp lh ns width return_path max_steps sels r k Hm.
    rewrite <- (matrix_pe_G_acts d inv_mats e He), <- (matrix_pe_G_central d inv_mats e He).
    exact (@simple_ball_ge_dist (pe_G e) (pe_Ginv e) (Umat d) (ef_closed _ _ F) (ef_closed_inv _ _ F) NCG
             (ef_idok _ _ F) (ef_same_len _ _ F) (ef_inv_undo _ _ F) start Hs (ef_central_U _ _ F)
             mp lh ns width return_path max_steps sels r k (ef_invmap _ _ F mp Hm)).
  Qed.

  Theorem beam_matrix_advanced_ge_dist :
    forall start, Umat d start ->
    forall (width history : nat) (max_steps : BinNums.N) (sels : list selection) (r : beam_result) (k : nat),
    search_advanced (pe_G e) width history start (g_central d) max_steps sels = Ok r ->
    path_found r = true ->
    dist_is state (acts (impl_of d)) [start] (g_central d) k -> k <= path_length r.
  Proof.
    intros start Hs. rewrite <- (matrix_pe_G_acts d inv_mats e He), <- (matrix_pe_G_central d inv_mats e He).
    exact (@advanced_ge_dist (pe_G e) (Umat d) (ef_closed _ _ F) NCG (ef_idok _ _ F) start Hs).
  Qed.

  (* C06_simple_total_noball *)
  Theorem beam_matrix_simple_total_noball :
    forall start, Umat d start ->
    forall (inv_map : option (list nat)) (width : nat) (return_path : bool) (max_steps : BinNums.N)
           (sels : list selection),
    1 <= width -> Forall (fun _ : selection => True) sels ->
    (exists r, search_simple (pe_G e) (pe_Ginv e) inv_map width return_path None start max_steps sels = Ok r) \/
    search_simple (pe_G e) (pe_Ginv e) inv_map width return_path None start max_steps sels = Err RuntimeErr.
  Proof.
    intros start Hs.
    exact (@simple_total_noball (pe_G e) (pe_Ginv e) (Umat d) (ef_closed _ _ F) (ef_closed_inv _ _ F) NCG
             (ef_idok _ _ F) (ef_same_len _ _ F) (ef_inv_undo _ _ F) start Hs (ef_central_U _ _ F)).
  Qed.

  (* C06_simple_unpruned_exact: beam wider than the orbit of the start state *)
  Theorem beam_matrix_simple_unpruned_exact :
    forall start, Umat d start ->
    forall (inv_map : option (list nat)) (width : nat) (max_steps : BinNums.N) (k : nat),
    wider_than_orbit (impl_of d) start width ->
    dist_is state (acts (impl_of d)) [start] (g_central d) k -> k <= N.to_nat max_steps ->
    exists r, search_simple (pe_G e) (pe_Ginv e) inv_map width false None start max_steps [] = Ok r /\
              path_found r = true /\ path_length r = k.
  Proof.
    intros start Hs inv_map width max_steps k Hw.
    rewrite <- (matrix_pe_G_acts d inv_mats e He), <- (matrix_pe_G_central d inv_mats e He).
    apply (orbit_simple_unpruned_exact (pe_G e) (pe_Ginv e) (Umat d) (ef_closed _ _ F) NCG (ef_idok _ _ F) start Hs).
    apply (wider_than_orbit_acts (impl_of d)); [symmetry; apply (matrix_pe_G_acts d inv_mats e He) | exact Hw].
  Qed.

  (* C06_advanced_unpruned_exact, every history depth *)
  Theorem beam_matrix_advanced_unpruned_exact :
    forall start, Umat d start ->
    forall (width history : nat) (max_steps : BinNums.N) (k : nat),
    wider_than_orbit (impl_of d) start width ->
    dist_is state (acts (impl_of d)) [start] (g_central d) k -> k <= N.to_nat max_steps ->
    exists r, search_advanced (pe_G e) width history start (g_central d) max_steps [] = Ok r /\
              path_found r = true /\ path_length r = k.
  Proof.
    intros start Hs width history max_steps k Hw.
    rewrite <- (matrix_pe_G_acts d inv_mats e He), <- (matrix_pe_G_central d inv_mats e He).
    apply (orbit_advanced_unpruned_exact (pe_G e) (Umat d) (ef_closed _ _ F) NCG (ef_idok _ _ F) start Hs).
    apply (wider_than_orbit_acts (impl_of d)); [symmetry; apply (matrix_pe_G_acts d inv_mats e He) | exact Hw].
  Qed.
End MatrixBeam.

(* ------------------------------------------------------------------ *)
(** * 2b. Identity hasher (1 x 1 matrices, one-word states): NO hash hypothesis at all *)

Theorem beam_matrix_simple_sound_noball_unconditional : forall d inv_mats e,
  wf_matrix_core d = true -> wf_inv_mats d inv_mats = true -> env_of d inv_mats = Some e ->
  is_identity (impl_of d) = true ->
  forall start, Umat d start ->
  forall (inv_map : option (list nat)) (width : nat) (return_path : bool) (max_steps : BinNums.N)
         (sels : list selection) (r : beam_result),
  search_simple (pe_G e) (pe_Ginv e) inv_map width return_path None start max_steps sels = Ok r ->
  path_found r = true ->
  reach state (acts (impl_of d)) [start] (path_length r) (g_central d) /\
  (forall p, bpath r = Some p ->
     length p = path_length r /\ run state (acts (impl_of d)) start p = Some (g_central d)).
Proof.
  intros d inv_mats e Hwf Hinv He Hid.
  exact (beam_matrix_simple_sound_noball d inv_mats e Hwf Hinv He (matrix_identity_nocoll d Hwf Hid)).
Qed.

Theorem beam_matrix_simple_sound_ball_unconditional : forall d inv_mats e,
  wf_matrix_core d = true -> wf_inv_mats d inv_mats = true -> env_of d inv_mats = Some e ->
  is_identity (impl_of d) = true ->
  forall start, Umat d start ->
  forall (mp : list nat) (lh : list (list Z)) (ns width : nat) (return_path : bool) (max_steps : BinNums.N)
         (sels : list selection) (r : beam_result),
  pe_invmap e = Some mp ->
  inv_closed (pe_G e) = true ->
  ball_ok (pe_G e) (central (pe_G e)) lh -> length lh = ns -> 1 <= ns ->
  search_simple (pe_G e) (pe_Ginv e) (Some mp) width return_path (Some (lh, ns)) start max_steps sels = Ok r ->
  path_found r = true ->
  reach state (acts (impl_of d)) [start] (path_length r) (g_central d) /\
  (forall p, bpath r = Some p ->
     length p = path_length r /\ run state (acts (impl_of d)) start p = Some (g_central d)).
Proof.
  intros d inv_mats e Hwf Hinv He Hid.
  exact (beam_matrix_simple_sound_ball d inv_mats e Hwf Hinv He (matrix_identity_nocoll d Hwf Hid)).
Qed.

Theorem beam_matrix_simple_sound_ball_e2e_unconditional : forall d inv_mats e,
  wf_matrix_core d = true -> wf_inv_mats d inv_mats = true -> env_of d inv_mats = Some e ->
  is_identity (impl_of d) = true ->
  forall start, Umat d start ->
  forall (batch : Z) (depth : BinNums.N) (explore : Z) (lh : list (list Z)) (ns width : nat) (return_path : bool)
         (max_steps : BinNums.N) (sels : list selection) (r : beam_result),
  inv_closed (pe_G e) = true -> (1 <= batch)%Z ->
  ball_of (pe_G e) batch depth explore [g_central d] = Ok (lh, ns) ->
  search_simple (pe_G e) (pe_Ginv e) (pe_invmap e) width return_path (Some (lh, ns)) start max_steps sels = Ok r ->
  path_found r = true ->
  reach state (acts (impl_of d)) [start] (path_length r) (g_central d) /\
  (forall p, bpath r = Some p ->
     length p = path_length r /\ run state (acts (impl_of d)) start p = Some (g_central d)).
Proof.
  intros d inv_mats e Hwf Hinv He Hid.
  exact (beam_matrix_simple_sound_ball_e2e d inv_mats e Hwf Hinv He (matrix_identity_nocoll d Hwf Hid)).
Qed.

Theorem beam_matrix_advanced_sound_unconditional : forall d inv_mats e,
  wf_matrix_core d = true -> wf_inv_mats d inv_mats = true -> env_of d inv_mats = Some e ->
  is_identity (impl_of d) = true ->
  forall start, Umat d start ->
  forall (width history : nat) (max_steps : BinNums.N) (sels : list selection) (r : beam_result),
  search_advanced (pe_G e) width history start (g_central d) max_steps sels = Ok r ->
  path_found r = true ->
  reach state (acts (impl_of d)) [start] (path_length r) (g_central d).
Proof.
  intros d inv_mats e Hwf Hinv He Hid.
  exact (beam_matrix_advanced_sound d inv_mats e Hwf Hinv He (matrix_identity_nocoll d Hwf Hid)).
Qed.

Theorem beam_matrix_simple_noball_ge_dist_unconditional : forall d inv_mats e,
  wf_matrix_core d = true -> wf_inv_mats d inv_mats = true -> env_of d inv_mats = Some e ->
  is_identity (impl_of d) = true ->
  forall start, Umat d start ->
  forall (inv_map : option (list nat)) (width : nat) (return_path : bool) (max_steps : BinNums.N)
         (sels : list selection) (r : beam_result) (k : nat),
  search_simple (pe_G e) (pe_Ginv e) inv_map width return_path None start max_steps sels = Ok r ->
  path_found r = true ->
  dist_is state (acts (impl_of d)) [start] (g_central d) k -> k <= path_length r.
Proof.
  intros d inv_mats e Hwf Hinv He Hid.
  exact (beam_matrix_simple_noball_ge_dist d inv_mats e Hwf Hinv He (matrix_identity_nocoll d Hwf Hid)).
Qed.

Theorem beam_matrix_simple_ball_ge_dist_unconditional : forall d inv_mats e,
  wf_matrix_core d = true -> wf_inv_mats d inv_mats = true -> env_of d inv_mats = Some e ->
  is_identity (impl_of d) = true ->
  forall start, Umat d start ->
  forall (mp : list nat) (lh : list (list Z)) (ns width : nat) (return_path : bool) (max_steps : BinNums.N)
         (sels : list selection) (r : beam_result) (k : nat),
  pe_invmap e = Some mp -> inv_closed (pe_G e) = true ->
  ball_ok (pe_G e) (central (pe_G e)) lh -> length lh = ns -> 1 <= ns ->
  search_simple (pe_G e) (pe_Ginv e) (Some mp) width return_path (Some (lh, ns)) start max_steps sels = Ok r ->
  path_found r = true ->
  dist_is state (acts (impl_of d)) [start] (g_central d) k -> k <= path_length r.
Proof.
  intros d inv_mats e Hwf Hinv He Hid.
  exact (beam_matrix_simple_ball_ge_dist d inv_mats e Hwf Hinv He (matrix_identity_nocoll d Hwf Hid)).
Qed.

Theorem beam_matrix_advanced_ge_dist_unconditional : forall d inv_mats e,
  wf_matrix_core d = true -> wf_inv_mats d inv_mats = true -> env_of d inv_mats = Some e ->
  is_identity (impl_of d) = true ->
  forall start, Umat d start ->
  forall (width history : nat) (max_steps : BinNums.N) (sels : list selection) (r : beam_result) (k : nat),
  search_advanced (pe_G e) width history start (g_central d) max_steps sels = Ok r ->
  path_found r = true ->
  dist_is state (acts (impl_of d)) [start] (g_central d) k -> k <= path_length r.
Proof.
  intros d inv_mats e Hwf Hinv He Hid.
  exact (beam_matrix_advanced_ge_dist d inv_mats e Hwf Hinv He (matrix_identity_nocoll d Hwf Hid)).
Qed.

Theorem beam_matrix_simple_total_noball_unconditional : forall d inv_mats e,
  wf_matrix_core d = true -> wf_inv_mats d inv_mats = true -> env_of d inv_mats = Some e ->
  is_identity (impl_of d) = true ->
  forall start, Umat d start ->
  forall (inv_map : option (list nat)) (width : nat) (return_path : bool) (max_steps : BinNums.N)
         (sels : list selection),
  1 <= width -> Forall (fun _ : selection => True) sels ->
  (exists r, search_simple (pe_G e) (pe_Ginv e) inv_map width return_path None start max_steps sels = Ok r) \/
  search_simple (pe_G e) (pe_Ginv e) inv_map width return_path None start max_steps sels = Err RuntimeErr.
Proof.
  intros d inv_mats e Hwf Hinv He Hid.
  exact (beam_matrix_simple_total_noball d inv_mats e Hwf Hinv He (matrix_identity_nocoll d Hwf Hid)).
Qed.

Theorem beam_matrix_simple_unpruned_exact_unconditional : forall d inv_mats e,
  wf_matrix_core d = true -> wf_inv_mats d inv_mats = true -> env_of d inv_mats = Some e ->
  is_identity (impl_of d) = true ->
  forall start, Umat d start ->
  forall (inv_map : option (list nat)) (width : nat) (max_steps : BinNums.N) (k : nat),
  wider_than_orbit (impl_of d) start width ->
  dist_is state (acts (impl_of d)) [start] (g_central d) k -> k <= N.to_nat max_steps ->
  exists r, search_simple (pe_G e) (pe_Ginv e) inv_map width false None start max_steps [] = Ok r /\
            path_found r = true /\ path_length r = k.
Proof.
  intros d inv_mats e Hwf Hinv He Hid.
  exact (beam_matrix_simple_unpruned_exact d inv_mats e Hwf Hinv He (matrix_identity_nocoll d Hwf Hid)).
Qed.

Theorem beam_matrix_advanced_unpruned_exact_unconditional : forall d inv_mats e,
  wf_matrix_core d = true -> wf_inv_mats d inv_mats = true -> env_of d inv_mats = Some e ->
  is_identity (impl_of d) = true ->
  forall start, Umat d start ->
  forall (width history : nat) (max_steps : BinNums.N) (k : nat),
  wider_than_orbit (impl_of d) start width ->
  dist_is state (acts (impl_of d)) [start] (g_central d) k -> k <= N.to_nat max_steps ->
  exists r, search_advanced (pe_G e) width history start (g_central d) max_steps [] = Ok r /\
            path_found r = true /\ path_length r = k.
Proof.
  intros d inv_mats e Hwf Hinv He Hid.
  exact (beam_matrix_advanced_unpruned_exact d inv_mats e Hwf Hinv He (matrix_identity_nocoll d Hwf Hid)).
Qed.

(* ================================================================== *)
(** * Part 3. Non-vacuity *)

Local Open Scope Z_scope.

(* reading off a computed run (the comparison AlgoRun.check_beam_case makes) *)
Definition beam_view (x : result beam_result) : result (bool * nat * option (list nat)) :=
  do r <- x; Ok (path_found r, path_length r, bpath r).

Lemma beam_run_is (x : result beam_result) f l p :
  beam_res_eqb (beam_view x) (Ok (f, l, p)) = true ->
  exists r, x = Ok r /\ path_found r = f /\ path_length r = l /\ bpath r = p.
Proof.
  destruct x as [r|er]; cbn; [|discriminate]. intros H.
  apply andb_true_iff in H as [H H3]. apply andb_true_iff in H as [H1 H2].
  apply Bool.eqb_prop in H1. apply Nat.eqb_eq in H2.
  exists r. repeat split; try assumption.
  destruct (bpath r) as [q|], p as [p|]; cbn in H3; try discriminate; [|reflexivity].
  apply PermProofs.list_eqb_nat_true in H3. subst q. reflexivity.
Qed.

(* distances by computing the reference layers *)
Lemma dist_by_layer (G : impl) (s t : state) (k : nat) :
  mem state st_eq_dec t (layer state st_eq_dec (acts G) [s] k) = true -> dist_is state (acts G) [s] t k.
Proof. intros H. apply ref_layers_dist with (eq_dec := st_eq_dec). apply mem_true_iff in H. exact H. Qed.

(* ---- LRX(5): width 3, identity hasher, one code word, inverse closed: NOTHING is assumed ---- *)

Definition lrx5_env_c : path_env :=
  {| pe_G := impl_of (desc_fwd lrx5); pe_Ginv := impl_of (desc_inv lrx5);
     pe_invmap := perm_inverse_map (desc_perms lrx5); pe_flag_ok := true |}.

Lemma lrx5_env_eq e : env_of lrx5 [] = Some e -> e = lrx5_env_c.
Proof. intros He. unfold env_of in He. cbn in He. inversion He. reflexivity. Qed.

Definition lrx5_s0 : state := [3; 1; 4; 0; 2].
Example lrx5_s0_U : Ustates lrx5 lrx5_s0.
Proof. apply Ustatesb_spec. vm_compute. reflexivity. Qed.

(* a recorded oracle: the predictor scored everything 0 and argsort kept the first two candidates *)
Definition lrx5_sels2 : list selection :=
  [ ([0; 0; 0], [0; 1]%nat); ([0; 0; 0; 0; 0], [0; 1]%nat); ([0; 0; 0; 0; 0; 0], [0; 1]%nat);
    ([0; 0; 0; 0; 0; 0], [0; 1]%nat); ([0; 0; 0; 0; 0; 0], [0; 1]%nat) ].

(* pruned simple search, beam width 2: the model finds X,R,X,R, and by the unconditional theorem this IS a walk of
   4 edges to the identity in the graph *)
Example lrx5_beam_pruned : forall e, env_of lrx5 [] = Some e ->
  exists r, search_simple (pe_G e) (pe_Ginv e) (pe_invmap e) 2 true None lrx5_s0 30 lrx5_sels2 = Ok r /\
    path_found r = true /\ path_length r = 4%nat /\ bpath r = Some [2; 1; 2; 1]%nat /\
    reach state (acts (impl_of lrx5)) [lrx5_s0] 4 (g_central lrx5) /\
    run state (acts (impl_of lrx5)) lrx5_s0 [2; 1; 2; 1]%nat = Some (g_central lrx5).
Proof.
  intros e He. pose proof (lrx5_env_eq e He) as E.
  destruct (beam_run_is (search_simple (pe_G e) (pe_Ginv e) (pe_invmap e) 2 true None lrx5_s0 30 lrx5_sels2)
              true 4%nat (Some [2; 1; 2; 1]%nat)) as (r & Hr & Hf & Hl & Hp).
  { rewrite E. vm_compute. reflexivity. }
  exists r. split; [exact Hr|]. split; [exact Hf|]. split; [exact Hl|]. split; [exact Hp|].
  destruct (beam_perm_simple_sound_noball_unconditional lrx5 [] e lrx5_wf He eq_refl lrx5_single lrx5_s0 lrx5_s0_U
              _ _ _ _ _ r Hr Hf) as [H1 H2].
  rewrite Hl in H1. split; [exact H1|]. destruct (H2 _ Hp) as [_ H3]. exact H3.
Qed.

(* the same with a pre-computed ball of depth 2, exactly as run_beam evaluates it *)
Example lrx5_beam_ball : forall e, env_of lrx5 [] = Some e ->
  exists lh ns r,
    ball_of (pe_G e) 1048576 2%N 1000000 [g_central lrx5] = Ok (lh, ns) /\
    search_simple (pe_G e) (pe_Ginv e) (pe_invmap e) 2 true (Some (lh, ns)) lrx5_s0 30 lrx5_sels2 = Ok r /\
    path_found r = true /\ path_length r = 4%nat /\
    reach state (acts (impl_of lrx5)) [lrx5_s0] 4 (g_central lrx5).
Proof.
  intros e He. pose proof (lrx5_env_eq e He) as E.
  destruct (ball_of (pe_G e) 1048576 2%N 1000000 [g_central lrx5]) as [[lh ns]|er] eqn:Eb.
  2:{ exfalso. assert (H : match ball_of (pe_G e) 1048576 2%N 1000000 [g_central lrx5] with Ok _ => true | Err _ => false end = true)
        by (rewrite E; vm_compute; reflexivity).
      rewrite Eb in H. discriminate. }
  assert (H : match ball_of (pe_G e) 1048576 2%N 1000000 [g_central lrx5] with
              | Ok ball => beam_res_eqb (beam_view (search_simple (pe_G e) (pe_Ginv e) (pe_invmap e) 2 true (Some ball)
                                                      lrx5_s0 30 lrx5_sels2)) (Ok (true, 4%nat, Some [2; 1; 2; 1]%nat))
              | Err _ => false end = true) by (rewrite E; vm_compute; reflexivity).
  rewrite Eb in H. destruct (beam_run_is _ _ _ _ H) as (r & Hr & Hf & Hl & Hp).
  exists lh, ns, r. split; [reflexivity|]. split; [exact Hr|]. split; [exact Hf|]. split; [exact Hl|].
  assert (Hic : inv_closed (pe_G e) = true) by (rewrite E; reflexivity).
  destruct (beam_perm_simple_sound_ball_e2e_unconditional lrx5 [] e lrx5_wf He eq_refl lrx5_single lrx5_s0 lrx5_s0_U
              1048576 2%N 1000000 lh ns 2%nat true 30%N lrx5_sels2 r Hic ltac:(lia) Eb Hr Hf) as [H1 _].
  rewrite Hl in H1. exact H1.
Qed.

Example lrx5_s0_dist : dist_is state (acts (impl_of lrx5)) [lrx5_s0] (g_central lrx5) 4.
Proof. apply dist_by_layer. vm_compute. reflexivity. Qed.

(* unpruned: 5! + 1 = 121 < 200.  For EVERY inverse map, every budget >= 4 and (advanced mode) every history depth the
   search succeeds with exactly the distance 4 - a statement no single computation gives *)
Example lrx5_beam_unpruned : forall e, env_of lrx5 [] = Some e ->
  (forall inv_map max_steps, (4 <= N.to_nat max_steps)%nat ->
     exists r, search_simple (pe_G e) (pe_Ginv e) inv_map 200 false None lrx5_s0 max_steps [] = Ok r /\
               path_found r = true /\ path_length r = 4%nat) /\
  (forall history max_steps, (4 <= N.to_nat max_steps)%nat ->
     exists r, search_advanced (pe_G e) 200 history lrx5_s0 (g_central lrx5) max_steps [] = Ok r /\
               path_found r = true /\ path_length r = 4%nat).
Proof.
  intros e He.
  assert (Hw : (fact (desc_n lrx5) + 1 < 200)%nat) by (vm_compute; lia).
  split.
  - intros inv_map max_steps Hm.
    exact (beam_perm_simple_unpruned_exact_fact_unconditional lrx5 [] e lrx5_wf He eq_refl lrx5_single lrx5_s0 lrx5_s0_U
             inv_map 200%nat max_steps 4%nat Hw lrx5_s0_dist Hm).
  - intros history max_steps Hm.
    exact (beam_perm_advanced_unpruned_exact_fact_unconditional lrx5 [] e lrx5_wf He eq_refl lrx5_single lrx5_s0 lrx5_s0_U
             200%nat history max_steps 4%nat Hw lrx5_s0_dist Hm).
Qed.

(* and the computed run agrees *)
Example lrx5_beam_unpruned_run :
  beam_view (search_simple (pe_G lrx5_env_c) (pe_Ginv lrx5_env_c) (pe_invmap lrx5_env_c) 200 false None lrx5_s0 30 [])
  = Ok (true, 4%nat, None).
Proof. vm_compute. reflexivity. Qed.

(* advanced mode, pruned to 3 states, no history: found after 4 steps; hence a walk of 4 edges exists and 4 is at
   least the distance *)
Definition lrx5_sels3 : list selection :=
  [ ([0; 0; 0; 0; 0; 0; 0], [0; 1; 2]%nat); ([0; 0; 0; 0; 0; 0; 0; 0], [0; 1; 2]%nat);
    ([0; 0; 0; 0; 0; 0; 0; 0; 0], [0; 1; 2]%nat) ].

Example lrx5_beam_advanced : forall e, env_of lrx5 [] = Some e ->
  exists r, search_advanced (pe_G e) 3 0 lrx5_s0 (g_central lrx5) 30 lrx5_sels3 = Ok r /\
    path_found r = true /\ path_length r = 4%nat /\
    reach state (acts (impl_of lrx5)) [lrx5_s0] 4 (g_central lrx5).
Proof.
  intros e He. pose proof (lrx5_env_eq e He) as E.
  destruct (beam_run_is (search_advanced (pe_G e) 3 0 lrx5_s0 (g_central lrx5) 30 lrx5_sels3) true 4%nat None)
    as (r & Hr & Hf & Hl & Hp).
  { rewrite E. vm_compute. reflexivity. }
  exists r. split; [exact Hr|]. split; [exact Hf|]. split; [exact Hl|].
  pose proof (beam_perm_advanced_sound_unconditional lrx5 [] e lrx5_wf He eq_refl lrx5_single lrx5_s0 lrx5_s0_U
                _ _ _ _ r Hr Hf) as H1.
  rewrite Hl in H1. exact H1.
Qed.

(* the two-word splitmix description: every hypothesis but NoColl is satisfied, NoColl is the one genuine assumption *)
Example big24_beam_instance : forall e, env_of big24 [] = Some e ->
  NoCollOn (impl_of big24) (Ustates big24) ->
  forall width return_path max_steps sels r,
  search_simple (pe_G e) (pe_Ginv e) (pe_invmap e) width return_path None (g_central big24) max_steps sels = Ok r ->
  path_found r = true ->
  reach state (acts (impl_of big24)) [g_central big24] (path_length r) (g_central big24).
Proof.
  intros e He Hnc width return_path max_steps sels r Hr Hf.
  apply (beam_perm_simple_sound_noball big24 [] e big24_wf He Hnc (g_central big24)
           (perm_central_U splitmix_steps hash_mult big24 big24_wf) _ _ _ _ _ r Hr Hf).
Qed.

(* ---- matrix graphs: Heisenberg generators mod 5 on column vectors, dot-product hash, NoColl by enumeration ---- *)

(* what env_of returns, for any description *)
Lemma env_of_some_eq d im e ik : inverted_kind (g_kind d) im = Some ik -> env_of d im = Some e ->
  e = {| pe_G := impl_of (with_flag d (g_kind d)); pe_Ginv := impl_of (with_flag d ik);
         pe_invmap := kind_inverse_map (g_kind d);
         pe_flag_ok := Bool.eqb (g_inv_closed d) (is_some (kind_inverse_map (g_kind d))) |}.
Proof. intros Hik He. unfold env_of in He. rewrite Hik in He. inversion He. reflexivity. Qed.

Definition heisv_env_c : path_env :=
  {| pe_G := impl_of (with_flag heisv_desc (g_kind heisv_desc));
     pe_Ginv := impl_of (with_flag heisv_desc (GMatrix 5 3 1 heisv_inv));
     pe_invmap := kind_inverse_map (g_kind heisv_desc);
     pe_flag_ok := Bool.eqb (g_inv_closed heisv_desc) (is_some (kind_inverse_map (g_kind heisv_desc))) |}.

Lemma heisv_env_eq e : env_of heisv_desc heisv_inv = Some e -> e = heisv_env_c.
Proof.
  intros He. exact (env_of_some_eq heisv_desc heisv_inv e _ heisv_inverted He).
Qed.

Definition heisv_v0 : state := [2; 3; 1].
Example heisv_v0_U : Umat heisv_desc heisv_v0.
Proof. split; [reflexivity|]. apply forallb_rngb. vm_compute. reflexivity. Qed.
Example heisv_v0_dist : dist_is state (acts (impl_of heisv_desc)) [heisv_v0] (g_central heisv_desc) 3.
Proof. apply dist_by_layer. vm_compute. reflexivity. Qed.
Example heisv_wider : wider_than_orbit (impl_of heisv_desc) heisv_v0 126.
Proof.
  apply (matrix_wider_than_orbit heisv_desc 5 3 1 [heis_x; heis_y] heisv_v0 126
           (wf_matrix_desc_core _ heisv_wf) eq_refl ltac:(lia) heisv_v0_U).
  vm_compute. lia.
Qed.

Example heisv_beam : forall e, env_of heisv_desc heisv_inv = Some e ->
  (* the computed run: found, 3 steps, path x, y, y *)
  (exists r, search_simple (pe_G e) (pe_Ginv e) (pe_invmap e) 126 true None heisv_v0 30 [] = Ok r /\
     path_found r = true /\ path_length r = 3%nat /\ bpath r = Some [0; 1; 1]%nat /\
     run state (acts (impl_of heisv_desc)) heisv_v0 [0; 1; 1]%nat = Some (g_central heisv_desc)) /\
  (* and for every inverse map / budget / history depth, by the theorems *)
  (forall inv_map max_steps, (3 <= N.to_nat max_steps)%nat ->
     exists r, search_simple (pe_G e) (pe_Ginv e) inv_map 126 false None heisv_v0 max_steps [] = Ok r /\
               path_found r = true /\ path_length r = 3%nat) /\
  (forall history max_steps, (3 <= N.to_nat max_steps)%nat ->
     exists r, search_advanced (pe_G e) 126 history heisv_v0 (g_central heisv_desc) max_steps [] = Ok r /\
               path_found r = true /\ path_length r = 3%nat).
Proof.
  intros e He. pose proof (heisv_env_eq e He) as E.
  pose proof (wf_matrix_desc_core _ heisv_wf) as Hc.
  split; [|split].
  - destruct (beam_run_is (search_simple (pe_G e) (pe_Ginv e) (pe_invmap e) 126 true None heisv_v0 30 [])
                true 3%nat (Some [0; 1; 1]%nat)) as (r & Hr & Hf & Hl & Hp).
    { rewrite E. vm_compute. reflexivity. }
    exists r. split; [exact Hr|]. split; [exact Hf|]. split; [exact Hl|]. split; [exact Hp|].
    destruct (beam_matrix_simple_sound_noball heisv_desc heisv_inv e Hc heisv_inv_wf He heisv_nocoll heisv_v0 heisv_v0_U
                _ _ _ _ _ r Hr Hf) as [_ H2].
    destruct (H2 _ Hp) as [_ H3]. exact H3.
  - intros inv_map max_steps Hm.
    exact (beam_matrix_simple_unpruned_exact heisv_desc heisv_inv e Hc heisv_inv_wf He heisv_nocoll heisv_v0 heisv_v0_U
             inv_map 126%nat max_steps 3%nat heisv_wider heisv_v0_dist Hm).
  - intros history max_steps Hm.
    exact (beam_matrix_advanced_unpruned_exact heisv_desc heisv_inv e Hc heisv_inv_wf He heisv_nocoll heisv_v0 heisv_v0_U
             126%nat history max_steps 3%nat heisv_wider heisv_v0_dist Hm).
Qed.

(* ---- 1 x 1 matrices with the identity hasher (multiplication by 2 in Z/5): unconditional ---- *)

Definition mul2_inv : list (list (list Z)) := [[[3]]].
Example mul2_inv_wf : wf_inv_mats mul2_desc mul2_inv = true. Proof. vm_compute. reflexivity. Qed.
Example mul2_env : exists e, env_of mul2_desc mul2_inv = Some e.
Proof. unfold env_of. assert (E : inverted_kind (g_kind mul2_desc) mul2_inv = Some (GMatrix 5 1 1 mul2_inv)) by (vm_compute; reflexivity).
       rewrite E. eexists. reflexivity. Qed.
Example mul2_start_U : Umat mul2_desc [4].
Proof. split; [reflexivity|]. apply forallb_rngb. vm_compute. reflexivity. Qed.
Example mul2_dist : dist_is state (acts (impl_of mul2_desc)) [[4]] (g_central mul2_desc) 2.
Proof. apply dist_by_layer. vm_compute. reflexivity. Qed.

Example mul2_beam_unconditional : forall e, env_of mul2_desc mul2_inv = Some e ->
  forall inv_map max_steps, (2 <= N.to_nat max_steps)%nat ->
  exists r, search_simple (pe_G e) (pe_Ginv e) inv_map 6 false None [4] max_steps [] = Ok r /\
            path_found r = true /\ path_length r = 2%nat.
Proof.
  intros e He inv_map max_steps Hm.
  pose proof (wf_matrix_desc_core _ mul2_wf) as Hc.
  apply (beam_matrix_simple_unpruned_exact_unconditional mul2_desc mul2_inv e Hc mul2_inv_wf He eq_refl [4] mul2_start_U
           inv_map 6%nat max_steps 2%nat); [|exact mul2_dist|exact Hm].
  apply (matrix_wider_than_orbit mul2_desc 5 1 1 [[[2]]] [4] 6 Hc eq_refl ltac:(lia) mul2_start_U).
  vm_compute. lia.
Qed.


(* the remaining corollaries on the same runs: a reported length is at least the distance; without a ball the only
   failure is an inconsistent recording *)
Example lrx5_beam_more : forall e, env_of lrx5 [] = Some e ->
  (forall inv_map width return_path max_steps sels r,
     search_simple (pe_G e) (pe_Ginv e) inv_map width return_path None lrx5_s0 max_steps sels = Ok r ->
     path_found r = true -> (4 <= path_length r)%nat) /\
  (forall width history max_steps sels r,
     search_advanced (pe_G e) width history lrx5_s0 (g_central lrx5) max_steps sels = Ok r ->
     path_found r = true -> (4 <= path_length r)%nat) /\
  (forall inv_map width return_path max_steps sels, (1 <= width)%nat ->
     (exists r, search_simple (pe_G e) (pe_Ginv e) inv_map width return_path None lrx5_s0 max_steps sels = Ok r) \/
     search_simple (pe_G e) (pe_Ginv e) inv_map width return_path None lrx5_s0 max_steps sels = Err RuntimeErr).
Proof.
  intros e He. split; [|split].
  - intros inv_map width return_path max_steps sels r Hr Hf.
    exact (beam_perm_simple_noball_ge_dist_unconditional lrx5 [] e lrx5_wf He eq_refl lrx5_single lrx5_s0 lrx5_s0_U
             inv_map width return_path max_steps sels r 4%nat Hr Hf lrx5_s0_dist).
  - intros width history max_steps sels r Hr Hf.
    exact (beam_perm_advanced_ge_dist_unconditional lrx5 [] e lrx5_wf He eq_refl lrx5_single lrx5_s0 lrx5_s0_U
             width history max_steps sels r 4%nat Hr Hf lrx5_s0_dist).
  - intros inv_map width return_path max_steps sels Hw.
    apply (beam_perm_simple_total_noball_unconditional lrx5 [] e lrx5_wf He eq_refl lrx5_single lrx5_s0 lrx5_s0_U
             inv_map width return_path max_steps sels Hw).
    apply Forall_forall. intros x _. exact I.
Qed.

(* ---- the inverse-closed Heisenberg vectors (x, y, x^-1, y^-1): search with a pre-computed ball, as run_beam does ---- *)
Definition heisv_ic_desc : gdesc :=
  {| g_kind := GMatrix 5 3 1 [heis_x; heis_y; heis_xi; heis_yi]; g_central := [0; 0; 1]; g_width := None;
     g_hasher := HDot [314159265358979; -271828182845904; 161803398874989]; g_inv_closed := true |}.
Definition heisv_ic_inv : list (list (list Z)) := [heis_xi; heis_yi; heis_x; heis_y].
Example heisv_ic_wf : wf_matrix_desc heisv_ic_desc = true. Proof. vm_compute. reflexivity. Qed.
Example heisv_ic_inv_wf : wf_inv_mats heisv_ic_desc heisv_ic_inv = true. Proof. vm_compute. reflexivity. Qed.
Example heisv_ic_nocoll : NoCollMat heisv_ic_desc.
Proof. apply nocoll_check_sound. vm_compute. reflexivity. Qed.
Example heisv_ic_inverted : inverted_kind (g_kind heisv_ic_desc) heisv_ic_inv = Some (GMatrix 5 3 1 heisv_ic_inv).
Proof. vm_compute. reflexivity. Qed.

Definition heisv_ic_env_c : path_env :=
  {| pe_G := impl_of (with_flag heisv_ic_desc (g_kind heisv_ic_desc));
     pe_Ginv := impl_of (with_flag heisv_ic_desc (GMatrix 5 3 1 heisv_ic_inv));
     pe_invmap := kind_inverse_map (g_kind heisv_ic_desc);
     pe_flag_ok := Bool.eqb (g_inv_closed heisv_ic_desc) (is_some (kind_inverse_map (g_kind heisv_ic_desc))) |}.
Lemma heisv_ic_env_eq e : env_of heisv_ic_desc heisv_ic_inv = Some e -> e = heisv_ic_env_c.
Proof.
  intros He. exact (env_of_some_eq heisv_ic_desc heisv_ic_inv e _ heisv_ic_inverted He).
Qed.
Example heisv_ic_v0_U : Umat heisv_ic_desc heisv_v0.
Proof. split; [reflexivity|]. apply forallb_rngb. vm_compute. reflexivity. Qed.

Example heisv_ic_beam_ball : forall e, env_of heisv_ic_desc heisv_ic_inv = Some e ->
  exists lh ns r,
    ball_of (pe_G e) 1048576 2%N 1000000 [g_central heisv_ic_desc] = Ok (lh, ns) /\
    search_simple (pe_G e) (pe_Ginv e) (pe_invmap e) 126 true (Some (lh, ns)) heisv_v0 30 [] = Ok r /\
    path_found r = true /\ path_length r = 3%nat /\ bpath r = Some [0; 1; 1]%nat /\
    run state (acts (impl_of heisv_ic_desc)) heisv_v0 [0; 1; 1]%nat = Some (g_central heisv_ic_desc).
Proof.
  intros e He. pose proof (heisv_ic_env_eq e He) as E.
  destruct (ball_of (pe_G e) 1048576 2%N 1000000 [g_central heisv_ic_desc]) as [[lh ns]|er] eqn:Eb.
  2:{ exfalso. assert (H : match ball_of (pe_G e) 1048576 2%N 1000000 [g_central heisv_ic_desc] with
                           | Ok _ => true | Err _ => false end = true) by (rewrite E; vm_compute; reflexivity).
      rewrite Eb in H. discriminate. }
  assert (H : match ball_of (pe_G e) 1048576 2%N 1000000 [g_central heisv_ic_desc] with
              | Ok ball => beam_res_eqb (beam_view (search_simple (pe_G e) (pe_Ginv e) (pe_invmap e) 126 true (Some ball)
                                                      heisv_v0 30 [])) (Ok (true, 3%nat, Some [0; 1; 1]%nat))
              | Err _ => false end = true) by (rewrite E; vm_compute; reflexivity).
  rewrite Eb in H. destruct (beam_run_is _ _ _ _ H) as (r & Hr & Hf & Hl & Hp).
  exists lh, ns, r. split; [reflexivity|]. split; [exact Hr|]. split; [exact Hf|]. split; [exact Hl|]. split; [exact Hp|].
  assert (Hic : inv_closed (pe_G e) = true) by (rewrite E; reflexivity).
  destruct (beam_matrix_simple_sound_ball_e2e heisv_ic_desc heisv_ic_inv e (wf_matrix_desc_core _ heisv_ic_wf)
              heisv_ic_inv_wf He heisv_ic_nocoll heisv_v0 heisv_ic_v0_U
              1048576 2%N 1000000 lh ns 126%nat true 30%N [] r Hic ltac:(lia) Eb Hr Hf) as [_ H2].
  destruct (H2 _ Hp) as [_ H3]. exact H3.
Qed.

Print Assumptions orbit_simple_unpruned_exact.
Print Assumptions orbit_advanced_unpruned_exact.
Print Assumptions perm_wider_than_orbit.
Print Assumptions matrix_wider_than_orbit.
Print Assumptions beam_perm_simple_sound_noball.
Print Assumptions beam_perm_simple_sound_ball.
Print Assumptions beam_perm_simple_sound_ball_e2e.
Print Assumptions beam_perm_advanced_sound.
Print Assumptions beam_perm_simple_noball_ge_dist.
Print Assumptions beam_perm_simple_ball_ge_dist.
Print Assumptions beam_perm_advanced_ge_dist.
Print Assumptions beam_perm_simple_total_noball.
Print Assumptions beam_perm_simple_unpruned_exact.
Print Assumptions beam_perm_simple_unpruned_exact_fact.
Print Assumptions beam_perm_advanced_unpruned_exact.
Print Assumptions beam_perm_advanced_unpruned_exact_fact.
Print Assumptions beam_perm_simple_sound_noball_unconditional.
Print Assumptions beam_perm_simple_sound_ball_unconditional.
Print Assumptions beam_perm_simple_sound_ball_e2e_unconditional.
Print Assumptions beam_perm_advanced_sound_unconditional.
Print Assumptions beam_perm_simple_noball_ge_dist_unconditional.
Print Assumptions beam_perm_simple_ball_ge_dist_unconditional.
Print Assumptions beam_perm_advanced_ge_dist_unconditional.
Print Assumptions beam_perm_simple_total_noball_unconditional.
Print Assumptions beam_perm_simple_unpruned_exact_unconditional.
Print Assumptions beam_perm_simple_unpruned_exact_fact_unconditional.
Print Assumptions beam_perm_advanced_unpruned_exact_unconditional.
Print Assumptions beam_perm_advanced_unpruned_exact_fact_unconditional.
Print Assumptions beam_matrix_simple_sound_noball.
Print Assumptions beam_matrix_simple_sound_ball.
Print Assumptions beam_matrix_simple_sound_ball_e2e.
Print Assumptions beam_matrix_advanced_sound.
Print Assumptions beam_matrix_simple_noball_ge_dist.
Print Assumptions beam_matrix_simple_ball_ge_dist.
Print Assumptions beam_matrix_advanced_ge_dist.
Print Assumptions beam_matrix_simple_total_noball.
Print Assumptions beam_matrix_simple_unpruned_exact.
Print Assumptions beam_matrix_advanced_unpruned_exact.
Print Assumptions beam_matrix_simple_sound_noball_unconditional.
Print Assumptions beam_matrix_simple_sound_ball_unconditional.
Print Assumptions beam_matrix_simple_sound_ball_e2e_unconditional.
Print Assumptions beam_matrix_advanced_sound_unconditional.
Print Assumptions beam_matrix_simple_noball_ge_dist_unconditional.
Print Assumptions beam_matrix_simple_ball_ge_dist_unconditional.
Print Assumptions beam_matrix_advanced_ge_dist_unconditional.
Print Assumptions beam_matrix_simple_total_noball_unconditional.
Print Assumptions beam_matrix_simple_unpruned_exact_unconditional.
Print Assumptions beam_matrix_advanced_unpruned_exact_unconditional.
Print Assumptions lrx5_beam_pruned.
Print Assumptions lrx5_beam_ball.
Print Assumptions lrx5_beam_unpruned.
Print Assumptions lrx5_beam_advanced.
Print Assumptions heisv_beam.
Print Assumptions mul2_beam_unconditional.
Print Assumptions lrx5_beam_more.
Print Assumptions heisv_ic_beam_ball.
