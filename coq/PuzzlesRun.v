(** Checkers used by harness/p16.py: the observed outputs of the implementation are turned into
    literals and compared with the models of Gap.v / Puzzles.v INSIDE Coq.  Expected integers are
    binary ([Z]) so that large literals stay small; the model's [nat] results are converted. *)
From Coq Require Import ZArith List Bool Arith Lia String Ascii.
From V Require Import Base Perm Def Gap Puzzles.
Import ListNotations.

(* ---------- a cheaper test for "is a permutation of 0..n-1" (proved equal to is_perm in GapProofs) ---------- *)
Fixpoint mark (marks : list bool) (v : nat) : option (list bool) :=
  match marks, v with
  | [], _ => None
  | b :: t, O => if b then None else Some (true :: t)
  | b :: t, S v' => match mark t v' with Some t' => Some (b :: t') | None => None end
  end.

Fixpoint mark_all (marks : list bool) (p : list nat) : bool :=
  match p with
  | [] => true
  | v :: t => match mark marks v with Some m => mark_all m t | None => false end
  end.

Definition is_perm_fast (p : list nat) : bool := mark_all (repeat false (List.length p)) p.

(* ---------- GAP loader ---------- *)

(* the moved points of a permutation as (index, image) pairs, in increasing index order *)
Fixpoint moved_from (k : nat) (kz : Z) (p : list nat) : list (Z * Z) :=
  match p with
  | [] => []
  | v :: t => if Nat.eqb k v then moved_from (S k) (kz + 1)%Z t
              else (kz, Z.of_nat v) :: moved_from (S k) (kz + 1)%Z t
  end.
Definition moved (p : list nat) : list (Z * Z) := moved_from 0 0%Z p.

Definition zpair_eqb (a b : Z * Z) : bool := Z.eqb (fst a) (fst b) && Z.eqb (snd a) (snd b).

Record gap_expect := mk_gap_expect {
  ge_names : list string;
  ge_n : Z;
  ge_moved : list (list (Z * Z));     (* per generator: its moved points; with ge_n this determines it *)
  ge_central : list Z }.

Record gap_case := mk_gap_case {
  gc_file : string;                   (* file name given to load_puzzle_from_file *)
  gc_text : string;                   (* the text Python read from that file *)
  gc_expect : result gap_expect }.

Definition gap_matches (g : gap_puzzle) (e : gap_expect) : bool :=
  list_eqb String.eqb (gp_names g) (ge_names e)
  && Z.eqb (Z.of_nat (gp_n g)) (ge_n e)
  && forallb (fun p => Nat.eqb (List.length p) (gp_n g)) (gp_gens g)
  && list_eqb (list_eqb zpair_eqb) (map moved (gp_gens g)) (ge_moved e)
  && z_list_eqb (gp_central g) (ge_central e).

Definition check_gap (c : gap_case) : bool :=
  match load_puzzle_from_file_with is_perm_fast (gc_file c) (gc_text c), gc_expect c with
  | Ok g, Ok e => gap_matches g e
  | Err a, Err b => err_eqb a b && negb (err_eqb a RuntimeErr)   (* RuntimeErr = "not modelled": fail closed *)
  | _, _ => false
  end.

(* _cycle_str_to_list and _central_state_from_ip on their own *)
Definition check_cycle_str (c : string * result (list (list Z))) : bool :=
  result_eqb z_list2_eqb (cycle_str_to_list (chars_of_string (fst c))) (snd c).

Definition check_central (c : Z * list (list Z) * result (list Z)) : bool :=
  match c with (n, ip, r) => result_eqb z_list_eqb (central_state_from_ip (Z.to_nat n) ip) r end.

(* ---------- generated puzzles ---------- *)
Record xpuzzle := mk_xpuzzle {
  x_gens : list (list Z);
  x_names : list string;
  x_central : list Z;
  x_name : string }.

Definition to_z (l : list nat) : list Z := map Z.of_nat l.

Definition puzzle_matches (p : puzzle) (x : xpuzzle) : bool :=
  z_list2_eqb (map to_z (pz_gens p)) (x_gens x)
  && list_eqb String.eqb (pz_names p) (x_names x)
  && z_list_eqb (to_z (pz_central p)) (x_central x)
  && String.eqb (pz_name p) (x_name x).

Definition result_matches {A B} (m : A -> B -> bool) (r : result A) (x : result B) : bool :=
  match r, x with
  | Ok a, Ok b => m a b
  | Err e, Err f => err_eqb e f
  | _, _ => false
  end.

Fixpoint list_match {A B} (m : A -> B -> bool) (l1 : list A) (l2 : list B) : bool :=
  match l1, l2 with
  | [], [] => true
  | a :: t1, b :: t2 => m a b && list_match m t1 t2
  | _, _ => false
  end.

Definition named_eqb (a : string * list nat) (b : string * list Z) : bool :=
  String.eqb (fst a) (fst b) && z_list_eqb (to_z (snd a)) (snd b).

(* Puzzles.rubik_cube(size, metric) *)
Definition check_cube (c : Z * string * result xpuzzle) : bool :=
  match c with (size, metric, x) => result_matches puzzle_matches (rubik_cube size metric) x end.

(* generate_cube_permutations_oneline(n) *)
Definition check_cube_moves (c : Z * result (list (string * list Z))) : bool :=
  match c with (n, x) =>
    result_matches (list_match named_eqb)
      (if (n <? 0)%Z then Err AssertionErr else cube_moves (Z.to_nat n)) x end.

Definition check_named (f : nat -> result (list (string * list nat))) (c : Z * result (list (string * list Z))) : bool :=
  match c with (n, x) => result_matches (list_match named_eqb) (f (Z.to_nat n)) x end.

(* hungarian_rings_permutations *)
Definition zl_pair_eqb (a b : list Z * list Z) : bool := z_list_eqb (fst a) (fst b) && z_list_eqb (snd a) (snd b).
Definition check_ring_perms (c : Z * Z * Z * Z * Z * result (list Z * list Z)) : bool :=
  match c with (ls, li, rs, ri, step, x) =>
    result_eqb zl_pair_eqb (hungarian_rings_permutations ls li rs ri step) x end.

Definition check_ring_gens (c : Z * Z * Z * Z * result (list (list Z) * list string)) : bool :=
  match c with (ls, li, rs, ri, x) =>
    result_eqb (fun a b => z_list2_eqb (fst a) (fst b) && list_eqb String.eqb (snd a) (snd b))
               (hungarian_rings_generators ls li rs ri) x end.

Definition check_ring_puzzle (c : Z * Z * Z * Z * result xpuzzle) : bool :=
  match c with (ls, li, rs, ri, x) => result_matches puzzle_matches (hungarian_rings ls li rs ri) x end.

Definition check_right_ring (c : Z * Z * Z * Z * Z * result (list Z)) : bool :=
  match c with (ls, li, rs, ri, full, x) => result_eqb z_list_eqb (create_right_ring ls li rs ri full) x end.

Definition check_shift (c : list Z * Z * list Z) : bool :=
  match c with (items, step, x) => z_list_eqb (circular_shift items step) x end.

Definition z4_eqb (a b : Z * Z * Z * Z) : bool :=
  match a, b with (a1, a2, a3, a4), (b1, b2, b3, b4) => Z.eqb a1 b1 && Z.eqb a2 b2 && Z.eqb a3 b3 && Z.eqb a4 b4 end.
Definition check_santa (c : Z * result (Z * Z * Z * Z)) : bool :=
  result_eqb z4_eqb (get_santa_parameters_from_n (fst c)) (snd c).

(* globe *)
Definition check_globe (c : Z * Z * result xpuzzle) : bool :=
  match c with (a, b, x) => result_matches puzzle_matches (globe_puzzle (Z.to_nat a) (Z.to_nat b)) x end.

Definition check_globe_gens (c : Z * Z * list (string * list Z)) : bool :=
  match c with (a, b, x) => list_match named_eqb (globe_gens (Z.to_nat a) (Z.to_nat b)) x end.
