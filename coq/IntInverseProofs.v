(** Verification of the exact integer-matrix inverse [IntInverse.integer_inverse]
    (Gauss-Jordan over the rationals, the fallback of MatrixGenerator.inv):
    soundness, completeness, and the corollary for the library operation [DefRun.mat_inv_fb]. *)
From Coq Require Import ZArith List Bool Arith Lia QArith Qcanon.
From V Require Import Base W64 W64Proofs Matrix MatrixProofs PermProofs Def DefProofs DefRun IntInverse.
(* MathComp-based facts, used by qualified name only (this file stays in stdlib style):
   MatrixMC: a right inverse for [mat_mul 0] is a left inverse (ring Z/2^64);
   IntInverseMC: the same over Z, and uniqueness of the inverse over Z *)
From V Require MatrixMC IntInverseMC.
Import ListNotations.

(* ================================================================== *)
(** * 1. Rationals: the embedding Z -> Qc, boolean equality *)

Local Open Scope Qc_scope.

Lemma Z2Qc_this z : this (Z2Qc z) = inject_Z z.
Proof. unfold Z2Qc. cbn [this Q2Qc]. apply Qred_identity. cbn. apply Z.gcd_1_r. Qed.

Lemma Z2Qc_inj a b : Z2Qc a = Z2Qc b -> a = b.
Proof. unfold Z2Qc. intros H. apply Q2Qc_eq_iff in H. apply inject_Z_injective. exact H. Qed.

Lemma Z2Qc_0 : Z2Qc 0 = 0. Proof. apply Qc_is_canon. reflexivity. Qed.
Lemma Z2Qc_1 : Z2Qc 1 = 1. Proof. apply Qc_is_canon. reflexivity. Qed.

Lemma Z2Qc_add a b : Z2Qc (a + b) = Z2Qc a + Z2Qc b.
Proof.
  apply Qc_is_canon. unfold Qcplus. cbn [this Q2Qc]. rewrite !Qred_correct.
  fold (Z2Qc a) (Z2Qc b). rewrite !Z2Qc_this. rewrite inject_Z_plus. reflexivity.
Qed.

Lemma Z2Qc_mul a b : Z2Qc (a * b) = Z2Qc a * Z2Qc b.
Proof.
  apply Qc_is_canon. unfold Qcmult. cbn [this Q2Qc]. rewrite !Qred_correct.
  fold (Z2Qc a) (Z2Qc b). rewrite !Z2Qc_this. rewrite inject_Z_mult. reflexivity.
Qed.

Lemma Qc_eq_bool_iff x y : Qc_eq_bool x y = true <-> x = y.
Proof.
  split; [apply Qc_eq_bool_correct|]. intros ->. unfold Qc_eq_bool. destruct (Qc_eq_dec y y) as [_|N]; [reflexivity|].
  exfalso. apply N. reflexivity.
Qed.

Lemma Qc_nonzero_iff x : negb (Qc_eq_bool x 0) = true <-> x <> 0.
Proof.
  destruct (Qc_eq_bool x 0) eqn:E; cbn [negb].
  - apply Qc_eq_bool_iff in E. split; [discriminate|]. intros N. contradiction.
  - split; [|reflexivity]. intros _ H. apply Qc_eq_bool_iff in H. congruence.
Qed.

(* a reduced fraction with denominator 1 is the image of its numerator *)
Lemma Qc_den1 (v : Qc) : Qden (this v) = 1%positive -> v = Z2Qc (Qnum (this v)).
Proof.
  intros H. apply Qc_is_canon. rewrite Z2Qc_this. destruct v as [[a d] Hc]. cbn [this Qnum Qden] in *. subst d.
  reflexivity.
Qed.

(* ================================================================== *)
(** * 2. Finite sums over Qc *)

Fixpoint qsum (f : nat -> Qc) (n : nat) : Qc :=
  match n with O => 0 | S k => qsum f k + f k end.

Lemma qsum_ext f g n : (forall j, (j < n)%nat -> f j = g j) -> qsum f n = qsum g n.
Proof.
  induction n as [|n IH]; intros H; cbn [qsum]; [reflexivity|].
  rewrite IH, H by (intros; try apply H; lia). reflexivity.
Qed.

Lemma qsum_zero f n : (forall j, (j < n)%nat -> f j = 0) -> qsum f n = 0.
Proof.
  induction n as [|n IH]; intros H; cbn [qsum]; [reflexivity|].
  rewrite IH, H by (intros; try apply H; lia). ring.
Qed.

Lemma qsum_add f g n : qsum (fun j => f j + g j) n = qsum f n + qsum g n.
Proof. induction n as [|n IH]; cbn [qsum]; [ring|]. rewrite IH. ring. Qed.

Lemma qsum_scale c f n : qsum (fun j => c * f j) n = c * qsum f n.
Proof. induction n as [|n IH]; cbn [qsum]; [ring|]. rewrite IH. ring. Qed.

Lemma qsum_scale_r c f n : qsum (fun j => f j * c) n = qsum f n * c.
Proof. induction n as [|n IH]; cbn [qsum]; [ring|]. rewrite IH. ring. Qed.

Lemma qsum_sub_scale c f g n : qsum (fun j => f j - c * g j) n = qsum f n - c * qsum g n.
Proof. induction n as [|n IH]; cbn [qsum]; [ring|]. rewrite IH. ring. Qed.

Lemma qsum_swap (f : nat -> nat -> Qc) n m :
  qsum (fun k => qsum (fun l => f k l) m) n = qsum (fun l => qsum (fun k => f k l) n) m.
Proof.
  induction n as [|n IH]; cbn [qsum].
  - symmetry. apply qsum_zero. reflexivity.
  - rewrite IH. rewrite <- qsum_add. reflexivity.
Qed.

Definition qdelta (i j : nat) : Qc := if (i =? j)%nat then 1 else 0.

Lemma qsum_delta_l r g n : qsum (fun j => qdelta r j * g j) n = if (r <? n)%nat then g r else 0.
Proof.
  induction n as [|n IH]; cbn [qsum]; [reflexivity|]. rewrite IH. unfold qdelta.
  destruct (Nat.eqb_spec r n) as [->|N].
  - rewrite Nat.ltb_irrefl. replace (n <? S n)%nat with true by (symmetry; apply Nat.ltb_lt; lia). ring.
  - destruct (Nat.ltb_spec r n) as [L|L].
    + replace (r <? S n)%nat with true by (symmetry; apply Nat.ltb_lt; lia). ring.
    + replace (r <? S n)%nat with false by (symmetry; apply Nat.ltb_ge; lia). ring.
Qed.

Lemma qsum_delta_r r g n : qsum (fun j => g j * qdelta j r) n = if (r <? n)%nat then g r else 0.
Proof.
  rewrite <- qsum_delta_l. apply qsum_ext. intros j _. unfold qdelta. rewrite Nat.eqb_sym. ring.
Qed.

(* a sum whose terms vanish from index m on *)
Lemma qsum_trunc f m n : (m <= n)%nat -> (forall j, (m <= j < n)%nat -> f j = 0) -> qsum f n = qsum f m.
Proof.
  intros Hmn. induction n as [|n IH]; intros H.
  - replace m with O by lia. reflexivity.
  - destruct (Nat.eq_dec m (S n)) as [->|N]; [reflexivity|]. cbn [qsum].
    rewrite IH by (try lia; intros; apply H; lia). rewrite H by lia. ring.
Qed.

(* sums of embedded integers *)
Lemma Z2Qc_zsum (F : nat -> Z) n : Z2Qc (zsum (map F (seq 0 n))) = qsum (fun j => Z2Qc (F j)) n.
Proof.
  induction n as [|n IH]; cbn [qsum]; [exact Z2Qc_0|].
  rewrite seq_S, map_app. cbn [map]. unfold zsum in *. rewrite fold_left_app. cbn [fold_left plus].
  rewrite Z2Qc_add, IH. reflexivity.
Qed.

(* ================================================================== *)
(** * 3. The list operations of one Gauss-Jordan step, entry by entry *)

Definition shape (n w : nat) (rows : list (list Qc)) : Prop :=
  length rows = n /\ forall r, (r < n)%nat -> length (nth r rows []) = w.

Lemma find_seq_some (f : nat -> bool) len : forall s p,
  find f (seq s len) = Some p ->
  (s <= p < s + len)%nat /\ f p = true /\ forall r, (s <= r < p)%nat -> f r = false.
Proof.
  induction len as [|len IH]; intros s p; cbn [seq find]; [discriminate|].
  destruct (f s) eqn:E.
  - intros H. inversion H; subst. split; [lia|]. split; [exact E|]. intros r Hr. lia.
  - intros H. apply IH in H as (H1 & H2 & H3). split; [lia|]. split; [exact H2|].
    intros r Hr. destruct (Nat.eq_dec r s) as [->|N]; [exact E|]. apply H3. lia.
Qed.

Lemma find_seq_none (f : nat -> bool) s len :
  find f (seq s len) = None -> forall r, (s <= r < s + len)%nat -> f r = false.
Proof. intros H r Hr. apply (find_none f _ H). apply in_seq. exact Hr. Qed.

Lemma find_pivot_some n c rows p :
  find_pivot n c rows = Some p ->
  (c <= p < n)%nat /\ qentry rows p c <> 0 /\ forall r, (c <= r < p)%nat -> qentry rows r c = 0.
Proof.
  unfold find_pivot. intros H. apply find_seq_some in H as (H1 & H2 & H3). split; [lia|]. split.
  - apply Qc_nonzero_iff. exact H2.
  - intros r Hr. specialize (H3 r Hr). destruct (Qc_eq_bool (qentry rows r c) 0) eqn:E; [|discriminate].
    apply Qc_eq_bool_iff. exact E.
Qed.

Lemma find_pivot_none n c rows :
  find_pivot n c rows = None -> forall r, (c <= r < n)%nat -> qentry rows r c = 0.
Proof.
  unfold find_pivot. intros H r Hr. pose proof (find_seq_none _ _ _ H r ltac:(lia)) as E.
  cbv beta in E. destruct (Qc_eq_bool (qentry rows r c) 0) eqn:E'; [|discriminate E]. apply Qc_eq_bool_iff. exact E'.
Qed.

(* the converse: a non-zero entry at or below the diagonal is found *)
Lemma find_pivot_exists n c rows r :
  (c <= r < n)%nat -> qentry rows r c <> 0 -> exists p, find_pivot n c rows = Some p.
Proof.
  intros Hr Hnz. destruct (find_pivot n c rows) as [p|] eqn:E; [eauto|].
  exfalso. apply Hnz. eapply find_pivot_none; eauto.
Qed.

Lemma nth_upd {A} (l : list A) i j v d : (i < length l)%nat ->
  nth j (upd l i v) d = if (j =? i)%nat then v else nth j l d.
Proof.
  intros Hi. destruct (Nat.eqb_spec j i) as [->|N].
  - apply nth_upd_same. exact Hi.
  - apply nth_upd_other. congruence.
Qed.

Lemma swap_rows_length c p rows : length (swap_rows c p rows) = length rows.
Proof. unfold swap_rows. rewrite !upd_length. reflexivity. Qed.

Lemma swap_rows_nth c p rows r : (c < length rows)%nat -> (p < length rows)%nat ->
  nth r (swap_rows c p rows) [] =
  if (r =? p)%nat then nth c rows [] else if (r =? c)%nat then nth p rows [] else nth r rows [].
Proof.
  intros Hc Hp. unfold swap_rows. rewrite nth_upd by (rewrite upd_length; exact Hp).
  rewrite nth_upd by exact Hc. reflexivity.
Qed.

Lemma scale_row_length c rows : length (scale_row c rows) = length rows.
Proof. unfold scale_row. apply upd_length. Qed.

Lemma scale_row_nth c rows r : (c < length rows)%nat ->
  nth r (scale_row c rows) [] =
  if (r =? c)%nat then map (fun v => v / qentry rows c c) (nth c rows []) else nth r rows [].
Proof. intros Hc. unfold scale_row. rewrite nth_upd by exact Hc. reflexivity. Qed.

Lemma nth_scale p row j : nth j (map (fun v => v / p) row) 0 = nth j row 0 / p.
Proof.
  destruct (Nat.lt_ge_cases j (length row)) as [L|L].
  - rewrite (nth_indep _ 0 (0 / p)) by (rewrite map_length; exact L).
    apply (map_nth (fun v => v / p)).
  - rewrite !nth_overflow by (try rewrite map_length; exact L). unfold Qcdiv. ring.
Qed.

Lemma sub_row_length f x y : length x = length y -> length (sub_row f x y) = length x.
Proof. intros H. unfold sub_row. rewrite map_length, combine_length. lia. Qed.

Lemma nth_sub_row f x y j : length x = length y ->
  nth j (sub_row f x y) 0 = nth j x 0 - f * nth j y 0.
Proof.
  intros H. unfold sub_row. destruct (Nat.lt_ge_cases j (length x)) as [L|L].
  - rewrite (nth_indep _ 0 ((fun xy => fst xy - f * snd xy) (0, 0))) by (rewrite map_length, combine_length; lia).
    rewrite (map_nth (fun xy => fst xy - f * snd xy)). rewrite combine_nth by exact H. reflexivity.
  - rewrite !nth_overflow by (try rewrite map_length, combine_length; lia). ring.
Qed.

(* row r after the elimination loop, as a function of the rows before it *)
Definition elim_row (c : nat) (rows : list (list Qc)) (r : nat) : list Qc :=
  if negb (r =? c)%nat && negb (Qc_eq_bool (qentry rows r c) 0)
  then sub_row (qentry rows r c) (nth r rows []) (nth c rows [])
  else nth r rows [].

Lemma elim_row_pivot c rows : elim_row c rows c = nth c rows [].
Proof. unfold elim_row. rewrite Nat.eqb_refl. reflexivity. Qed.

Lemma eliminate_prefix c rows k : (k <= length rows)%nat ->
  length (fold_left (elim_one c) (seq 0 k) rows) = length rows /\
  forall r, nth r (fold_left (elim_one c) (seq 0 k) rows) [] =
            if (r <? k)%nat then elim_row c rows r else nth r rows [].
Proof.
  induction k as [|k IH]; intros Hk.
  - cbn [seq fold_left]. split; [reflexivity|]. intros r. reflexivity.
  - destruct (IH ltac:(lia)) as [IL IN]. rewrite seq_S, fold_left_app. cbn [fold_left plus].
    set (E := fold_left (elim_one c) (seq 0 k) rows) in *.
    assert (Ek : nth k E [] = nth k rows []) by (rewrite IN, Nat.ltb_irrefl; reflexivity).
    assert (Ec : nth c E [] = nth c rows []).
    { rewrite IN. destruct (c <? k)%nat; [apply elim_row_pivot|reflexivity]. }
    assert (Eq : qentry E k c = qentry rows k c) by (unfold qentry; rewrite Ek; reflexivity).
    unfold elim_one. rewrite Eq, Ek, Ec.
    destruct (negb (k =? c)%nat && negb (Qc_eq_bool (qentry rows k c) 0)) eqn:Cond.
    + split; [rewrite upd_length; exact IL|]. intros r. rewrite nth_upd by lia.
      destruct (Nat.eqb_spec r k) as [->|N].
      * replace (k <? S k)%nat with true by (symmetry; apply Nat.ltb_lt; lia).
        unfold elim_row. rewrite Cond. reflexivity.
      * rewrite IN. destruct (Nat.ltb_spec r k) as [L|L].
        -- replace (r <? S k)%nat with true by (symmetry; apply Nat.ltb_lt; lia). reflexivity.
        -- replace (r <? S k)%nat with false by (symmetry; apply Nat.ltb_ge; lia). reflexivity.
    + split; [exact IL|]. intros r. rewrite IN.
      destruct (Nat.eqb_spec r k) as [->|N].
      * rewrite Nat.ltb_irrefl. replace (k <? S k)%nat with true by (symmetry; apply Nat.ltb_lt; lia).
        unfold elim_row. rewrite Cond. reflexivity.
      * destruct (Nat.ltb_spec r k) as [L|L].
        -- replace (r <? S k)%nat with true by (symmetry; apply Nat.ltb_lt; lia). reflexivity.
        -- replace (r <? S k)%nat with false by (symmetry; apply Nat.ltb_ge; lia). reflexivity.
Qed.

Lemma eliminate_length n c rows : length rows = n -> length (eliminate n c rows) = n.
Proof. intros H. unfold eliminate. rewrite (proj1 (eliminate_prefix c rows n ltac:(lia))). exact H. Qed.

Lemma eliminate_nth n c rows r : length rows = n -> (r < n)%nat ->
  nth r (eliminate n c rows) [] = elim_row c rows r.
Proof.
  intros H Hr. unfold eliminate. rewrite (proj2 (eliminate_prefix c rows n ltac:(lia))).
  replace (r <? n)%nat with true by (symmetry; apply Nat.ltb_lt; lia). reflexivity.
Qed.

(* entries of an eliminated row: the test "factor != 0" is only an optimisation *)
Lemma elim_row_entry c rows r j : length (nth r rows []) = length (nth c rows []) ->
  nth j (elim_row c rows r) 0 =
  if (r =? c)%nat then qentry rows c j else qentry rows r j - qentry rows r c * qentry rows c j.
Proof.
  intros HL. unfold elim_row. destruct (Nat.eqb_spec r c) as [->|N]; cbn [negb andb]; [reflexivity|].
  destruct (Qc_eq_bool (qentry rows r c) 0) eqn:E; cbn [negb].
  - apply Qc_eq_bool_iff in E. rewrite E. unfold qentry. ring.
  - rewrite nth_sub_row by exact HL. reflexivity.
Qed.

Lemma elim_row_length c rows r : length (nth r rows []) = length (nth c rows []) ->
  length (elim_row c rows r) = length (nth r rows []).
Proof.
  intros HL. unfold elim_row. destruct (negb (r =? c)%nat && negb (Qc_eq_bool (qentry rows r c) 0)); [|reflexivity].
  apply sub_row_length. exact HL.
Qed.

(* ================================================================== *)
(** * 4. One step of the main loop, entry by entry *)

Definition step_entry (rows : list (list Qc)) (c p r j : nat) : Qc :=
  let piv := fun j => qentry rows p j / qentry rows p c in
  if (r =? c)%nat then piv j
  else let old := qentry rows (if (r =? p)%nat then c else r) in old j - old c * piv j.

Lemma gj_step_spec n w rows c rows' :
  shape n w rows -> (c < n)%nat -> gj_step n rows c = Some rows' ->
  exists p, (c <= p < n)%nat /\ qentry rows p c <> 0 /\
            (forall r, (c <= r < p)%nat -> qentry rows r c = 0) /\
            shape n w rows' /\
            forall r j, (r < n)%nat -> qentry rows' r j = step_entry rows c p r j.
Proof.
  intros [HL HW] Hc. unfold gj_step. destruct (find_pivot n c rows) as [p|] eqn:Ep; [|discriminate].
  intros H. inversion H as [H']. clear H. apply find_pivot_some in Ep as (Hp & Hnz & Hz).
  exists p. split; [exact Hp|]. split; [exact Hnz|]. split; [exact Hz|].
  set (r1 := swap_rows c p rows). set (r2 := scale_row c r1).
  assert (L1 : length r1 = n) by (unfold r1; rewrite swap_rows_length; exact HL).
  assert (L2 : length r2 = n) by (unfold r2; rewrite scale_row_length; exact L1).
  assert (N1 : forall r, nth r r1 [] = if (r =? p)%nat then nth c rows [] else if (r =? c)%nat then nth p rows [] else nth r rows []).
  { intros r. unfold r1. apply swap_rows_nth; lia. }
  assert (N1c : nth c r1 [] = nth p rows []).
  { rewrite N1, Nat.eqb_refl. destruct (Nat.eqb_spec c p) as [->|_]; reflexivity. }
  assert (Q1 : qentry r1 c c = qentry rows p c) by (unfold qentry; rewrite N1c; reflexivity).
  assert (N2 : forall r, nth r r2 [] = if (r =? c)%nat then map (fun v => v / qentry rows p c) (nth p rows [])
                                        else if (r =? p)%nat then nth c rows [] else nth r rows []).
  { intros r. unfold r2. rewrite scale_row_nth by lia. rewrite Q1, N1c, N1.
    destruct (Nat.eqb_spec r c) as [->|N]; [reflexivity|]. reflexivity. }
  assert (W2 : forall r, (r < n)%nat -> length (nth r r2 []) = w).
  { intros r Hr. rewrite N2. destruct (r =? c)%nat; [rewrite map_length; apply HW; lia|].
    destruct (r =? p)%nat; apply HW; lia. }
  assert (E2 : forall r j, (r < n)%nat -> qentry r2 r j =
            if (r =? c)%nat then qentry rows p j / qentry rows p c
            else qentry rows (if (r =? p)%nat then c else r) j).
  { intros r j Hr. unfold qentry at 1. rewrite N2. destruct (r =? c)%nat; [apply nth_scale|].
    destruct (r =? p)%nat; reflexivity. }
  split.
  - split; [apply eliminate_length; exact L2|]. intros r Hr. rewrite eliminate_nth by assumption.
    rewrite elim_row_length by (rewrite !W2 by lia; reflexivity). apply W2. exact Hr.
  - intros r j Hr. unfold qentry at 1. rewrite eliminate_nth by assumption.
    rewrite elim_row_entry by (rewrite !W2 by lia; reflexivity).
    unfold step_entry. rewrite !E2 by lia. rewrite Nat.eqb_refl.
    destruct (Nat.eqb_spec r c) as [->|N]; [reflexivity|].
    replace (qentry rows p c / qentry rows p c) with 1 by (field; exact Hnz). ring.
Qed.

(* ================================================================== *)
(** * 5. Invariants of a step *)

Definition rowf (rows : list (list Qc)) (r : nat) : nat -> Qc := fun j => qentry rows r j.

(* predicates on rows that define a linear subspace *)
Record linear_pred (P : (nat -> Qc) -> Prop) : Prop := {
  lp_ext : forall f g, (forall j, f j = g j) -> P f -> P g;
  lp_scale : forall c f, P f -> P (fun j => c * f j);
  lp_sub : forall c f g, P f -> P g -> P (fun j => f j - c * g j) }.

Lemma step_entry_pivot rows c p j : step_entry rows c p c j = qentry rows p j / qentry rows p c.
Proof. unfold step_entry. rewrite Nat.eqb_refl. reflexivity. Qed.

(* row operations keep every row inside a linear subspace ... *)
Lemma step_forward P n rows rows' c p :
  linear_pred P -> (c < n)%nat -> (c <= p < n)%nat ->
  (forall r j, (r < n)%nat -> qentry rows' r j = step_entry rows c p r j) ->
  (forall r, (r < n)%nat -> P (rowf rows r)) -> forall r, (r < n)%nat -> P (rowf rows' r).
Proof.
  intros LP Hc Hp HE HP.
  assert (Ppiv : P (fun j => qentry rows p j / qentry rows p c)).
  { apply (lp_ext P LP (fun j => / qentry rows p c * rowf rows p j)).
    - intros j. unfold rowf, Qcdiv. ring.
    - apply (lp_scale P LP). apply HP. lia. }
  intros r Hr. apply (lp_ext P LP (fun j => step_entry rows c p r j)); [intros j; unfold rowf; symmetry; apply HE; exact Hr|].
  unfold step_entry. destruct (Nat.eqb_spec r c) as [->|N]; [exact Ppiv|]. cbv zeta.
  apply (lp_sub P LP _ (rowf rows (if (r =? p)%nat then c else r))); [|exact Ppiv].
  apply HP. destruct (r =? p)%nat; lia.
Qed.

(* ... and they are reversible: the old rows are linear combinations of the new ones *)
Lemma step_backward P n rows rows' c p :
  linear_pred P -> (c < n)%nat -> (c <= p < n)%nat -> qentry rows p c <> 0 ->
  (forall r j, (r < n)%nat -> qentry rows' r j = step_entry rows c p r j) ->
  (forall r, (r < n)%nat -> P (rowf rows' r)) -> forall r, (r < n)%nat -> P (rowf rows r).
Proof.
  intros LP Hc Hp Hnz HE HP.
  assert (Pc : P (rowf rows' c)) by (apply HP; exact Hc).
  assert (Ec : forall j, rowf rows' c j = qentry rows p j / qentry rows p c).
  { intros j. unfold rowf. rewrite HE by exact Hc. apply step_entry_pivot. }
  assert (Key : forall r' r, (r' < n)%nat -> r' <> c -> (if (r' =? p)%nat then c else r') = r -> P (rowf rows r)).
  { intros r' r Hr' Nc Er.
    apply (lp_ext P LP (fun j => rowf rows' r' j - (- qentry rows r c) * rowf rows' c j)).
    - intros j. rewrite Ec. unfold rowf at 1. rewrite HE by exact Hr'. unfold step_entry.
      destruct (Nat.eqb_spec r' c) as [E|_]; [contradiction|]. cbv zeta. rewrite Er. unfold rowf. ring.
    - apply (lp_sub P LP); [apply HP; exact Hr'|exact Pc]. }
  intros r Hr. destruct (Nat.eq_dec r p) as [->|Np].
  - apply (lp_ext P LP (fun j => qentry rows p c * rowf rows' c j)).
    + intros j. rewrite Ec. unfold rowf. field. exact Hnz.
    + apply (lp_scale P LP). exact Pc.
  - destruct (Nat.eq_dec r c) as [->|Nc].
    + apply (Key p c); [lia|congruence|]. rewrite Nat.eqb_refl. reflexivity.
    + apply (Key r r); [lia|exact Nc|]. destruct (Nat.eqb_spec r p) as [E|_]; [contradiction|reflexivity].
Qed.

(* the first c columns of the left half are those of the identity *)
Definition ident_cols (n c : nat) (rows : list (list Qc)) : Prop :=
  forall r j, (r < n)%nat -> (j < c)%nat -> qentry rows r j = qdelta r j.

Lemma qdelta_same i : qdelta i i = 1. Proof. unfold qdelta. rewrite Nat.eqb_refl. reflexivity. Qed.
Lemma qdelta_diff i j : i <> j -> qdelta i j = 0.
Proof. intros N. unfold qdelta. destruct (Nat.eqb_spec i j) as [E|_]; [contradiction|reflexivity]. Qed.

Lemma step_ident n rows rows' c p :
  (c < n)%nat -> (c <= p < n)%nat -> qentry rows p c <> 0 ->
  (forall r j, (r < n)%nat -> qentry rows' r j = step_entry rows c p r j) ->
  ident_cols n c rows -> ident_cols n (S c) rows'.
Proof.
  intros Hc Hp Hnz HE HI r j Hr Hj. rewrite HE by exact Hr. unfold step_entry.
  destruct (Nat.eq_dec j c) as [->|Nj].
  - (* the pivot column *)
    destruct (Nat.eqb_spec r c) as [->|N].
    + rewrite qdelta_same. field. exact Hnz.
    + cbv zeta. rewrite qdelta_diff by exact N. field. exact Hnz.
  - (* an earlier column: the pivot row has a zero there *)
    assert (Hj' : (j < c)%nat) by lia.
    assert (Zp : qentry rows p j = 0) by (rewrite HI by lia; apply qdelta_diff; lia).
    rewrite Zp. destruct (Nat.eqb_spec r c) as [->|N].
    + rewrite qdelta_diff by lia. unfold Qcdiv. ring.
    + cbv zeta. destruct (Nat.eqb_spec r p) as [->|Np].
      * rewrite HI by lia. rewrite !qdelta_diff by lia. unfold Qcdiv. ring.
      * rewrite HI by lia. unfold Qcdiv. ring.
Qed.

(* the left half has a trivial kernel *)
Definition kills (n : nat) (v : nat -> Qc) (f : nat -> Qc) : Prop := qsum (fun j => f j * v j) n = 0.

Lemma kills_linear n v : linear_pred (kills n v).
Proof.
  unfold kills. split.
  - intros f g H Hf. rewrite <- Hf. apply qsum_ext. intros j _. rewrite H. reflexivity.
  - intros c f Hf. rewrite (qsum_ext _ (fun j => c * (f j * v j))) by (intros; ring).
    rewrite qsum_scale, Hf. ring.
  - intros c f g Hf Hg. rewrite (qsum_ext _ (fun j => f j * v j - c * (g j * v j))) by (intros; ring).
    rewrite qsum_sub_scale, Hf, Hg. ring.
Qed.

Definition left_injective (n : nat) (rows : list (list Qc)) : Prop :=
  forall v : nat -> Qc, (forall r, (r < n)%nat -> kills n v (rowf rows r)) -> forall j, (j < n)%nat -> v j = 0.

Lemma step_injective n rows rows' c p :
  (c < n)%nat -> (c <= p < n)%nat -> qentry rows p c <> 0 ->
  (forall r j, (r < n)%nat -> qentry rows' r j = step_entry rows c p r j) ->
  left_injective n rows -> left_injective n rows'.
Proof.
  intros Hc Hp Hnz HE HI v Hv. apply HI.
  apply (step_backward (kills n v) n rows rows' c p (kills_linear n v) Hc Hp Hnz HE Hv).
Qed.

(* with a trivial kernel and the identity in the first c columns, column c cannot vanish on and
   below the diagonal: otherwise  e_c - sum_(k<c) A[k][c] e_k  would be in the kernel *)
Lemma pivot_exists n rows c :
  (c < n)%nat -> ident_cols n c rows -> left_injective n rows ->
  exists r, (c <= r < n)%nat /\ qentry rows r c <> 0.
Proof.
  intros Hc HI HInj.
  destruct (find_pivot n c rows) as [p|] eqn:E.
  - apply find_pivot_some in E as (H1 & H2 & _). eauto.
  - exfalso. pose proof (find_pivot_none n c rows E) as HZ.
    set (v := fun j => if (j <? c)%nat then - qentry rows j c else if (j =? c)%nat then 1 else 0).
    assert (Hv : forall r, (r < n)%nat -> kills n v (rowf rows r)).
    { intros r Hr. unfold kills.
      rewrite (qsum_trunc _ (S c) n) by
        (try lia; intros j Hj; unfold v;
         replace (j <? c)%nat with false by (symmetry; apply Nat.ltb_ge; lia);
         replace (j =? c)%nat with false by (symmetry; apply Nat.eqb_neq; lia); ring).
      cbn [qsum].
      rewrite (qsum_ext _ (fun j => qdelta r j * (- qentry rows j c))).
      2:{ intros j Hj. unfold v, rowf. replace (j <? c)%nat with true by (symmetry; apply Nat.ltb_lt; lia).
          rewrite HI by lia. reflexivity. }
      rewrite qsum_delta_l. unfold v, rowf. rewrite Nat.ltb_irrefl, Nat.eqb_refl.
      destruct (Nat.ltb_spec r c) as [L|L]; [ring|]. rewrite HZ by lia. ring. }
    specialize (HInj v Hv c Hc). unfold v in HInj. rewrite Nat.ltb_irrefl, Nat.eqb_refl in HInj.
    revert HInj. apply Q_apart_0_1.
Qed.

(* ================================================================== *)
(** * 6. The main loop *)

Definition gj_F (n : nat) (acc : option (list (list Qc))) (col : nat) : option (list (list Qc)) :=
  match acc with Some rs => gj_step n rs col | None => None end.

Definition gj_upto (n : nat) (rows : list (list Qc)) (k : nat) : option (list (list Qc)) :=
  fold_left (gj_F n) (seq 0 k) (Some rows).

Lemma gj_loop_upto n rows : gj_loop n rows = gj_upto n rows n.
Proof. reflexivity. Qed.

Lemma gj_upto_S n rows k : gj_upto n rows (S k) = gj_F n (gj_upto n rows k) k.
Proof. unfold gj_upto. rewrite seq_S, fold_left_app. reflexivity. Qed.

(* all invariants at once; the loop can only fail when the left half has a non-trivial kernel *)
Lemma gj_upto_inv n w rows k : (k <= n)%nat -> shape n w rows ->
  match gj_upto n rows k with
  | Some rk => shape n w rk /\ ident_cols n k rk /\
               (forall P, linear_pred P -> (forall r, (r < n)%nat -> P (rowf rows r)) ->
                          forall r, (r < n)%nat -> P (rowf rk r)) /\
               (left_injective n rows -> left_injective n rk)
  | None => ~ left_injective n rows
  end.
Proof.
  intros Hk HS. induction k as [|k IH].
  - cbn. split; [exact HS|]. split; [intros r j _ Hj; lia|]. split; [intros P _ H; exact H|]. auto.
  - specialize (IH ltac:(lia)). rewrite gj_upto_S. destruct (gj_upto n rows k) as [rk|]; cbn [gj_F]; [|exact IH].
    destruct IH as (Sk & Ik & Pk & Jk).
    destruct (gj_step n rk k) as [rk'|] eqn:E.
    + destruct (gj_step_spec n w rk k rk' Sk ltac:(lia) E) as (p & Hp & Hnz & _ & Sk' & HE).
      split; [exact Sk'|]. split; [apply (step_ident n rk rk' k p); auto; lia|]. split.
      * intros P LP HP. apply (step_forward P n rk rk' k p LP ltac:(lia) Hp HE). apply Pk; assumption.
      * intros HJ. apply (step_injective n rk rk' k p ltac:(lia) Hp Hnz HE). apply Jk. exact HJ.
    + intros HJ. destruct (pivot_exists n rk k ltac:(lia) Ik (Jk HJ)) as (r & Hr & Hnz).
      destruct (find_pivot_exists n k rk r Hr Hnz) as (p & Ep). unfold gj_step in E. rewrite Ep in E. discriminate.
Qed.

(* ================================================================== *)
(** * 7. The augmented matrix [M | I] and the final extraction *)

Local Open Scope Z_scope.

Definition square (n : nat) (M : list (list Z)) : Prop :=
  length M = n /\ Forall (fun row => length row = n) M.

Lemma square_row n M r : square n M -> (r < n)%nat -> length (nth r M []) = n.
Proof. intros [HL HF] Hr. apply (proj1 (Forall_nth _ M) HF). lia. Qed.

Lemma square_intro n M : length M = n -> (forall r, (r < n)%nat -> length (nth r M []) = n) -> square n M.
Proof.
  intros HL H. split; [exact HL|]. apply Forall_nth. intros i d Hi.
  rewrite (nth_indep _ d []) by exact Hi. apply H. lia.
Qed.

(* n x n list matrices are determined by their entries *)
Lemma list_ext {A} (d : A) (l1 l2 : list A) :
  length l1 = length l2 -> (forall i, (i < length l1)%nat -> nth i l1 d = nth i l2 d) -> l1 = l2.
Proof.
  revert l2. induction l1 as [|a l1 IH]; intros [|b l2] HL H; try discriminate; [reflexivity|].
  f_equal.
  - apply (H O). cbn. lia.
  - apply IH; [cbn in HL; lia|]. intros i Hi. apply (H (S i)). cbn. lia.
Qed.

Lemma square_ext n A B : square n A -> square n B ->
  (forall i k, (i < n)%nat -> (k < n)%nat -> mentry A i k = mentry B i k) -> A = B.
Proof.
  intros SA SB H. apply (list_ext []); [destruct SA, SB; congruence|].
  intros i Hi. assert (Hi' : (i < n)%nat) by (destruct SA; lia).
  apply (list_ext 0); [rewrite !(square_row n) by assumption; reflexivity|].
  intros k Hk. rewrite (square_row n) in Hk by assumption. apply H; assumption.
Qed.

Lemma Z2Qc_delta i k : Z2Qc (delta i k) = qdelta i k.
Proof. unfold delta, qdelta. destruct (i =? k)%nat; [exact Z2Qc_1|exact Z2Qc_0]. Qed.

Lemma Z2Qc_dotZ n a b i k :
  Z2Qc (dotZ n a b i k) = qsum (fun j => (Z2Qc (a i j) * Z2Qc (b j k))%Qc) n.
Proof.
  unfold dotZ. rewrite Z2Qc_zsum. apply qsum_ext. intros j _. apply Z2Qc_mul.
Qed.

Lemma nth_seq_map {A} (F : nat -> A) n j d : (j < n)%nat -> nth j (map F (seq 0 n)) d = F j.
Proof.
  intros Hj. rewrite (nth_indep _ d (F O)) by (rewrite map_length, seq_length; exact Hj).
  rewrite (map_nth F (seq 0 n) O j). rewrite seq_nth by exact Hj. reflexivity.
Qed.

Lemma aug_init_row n M i : (i < n)%nat ->
  nth i (aug_init n M) [] =
  map Z2Qc (nth i M []) ++ map (fun j => if (i =? j)%nat then 1%Qc else 0%Qc) (seq 0 n).
Proof. intros Hi. unfold aug_init. rewrite nth_seq_map by exact Hi. reflexivity. Qed.

Lemma aug_init_shape n M : square n M -> shape n (n + n) (aug_init n M).
Proof.
  intros SM. split.
  - unfold aug_init. rewrite map_length, seq_length. reflexivity.
  - intros r Hr. rewrite aug_init_row by exact Hr. rewrite app_length, !map_length, seq_length.
    rewrite (square_row n) by assumption. reflexivity.
Qed.

Lemma aug_init_left n M i j : square n M -> (i < n)%nat -> (j < n)%nat ->
  qentry (aug_init n M) i j = Z2Qc (mentry M i j).
Proof.
  intros SM Hi Hj. unfold qentry. rewrite aug_init_row by exact Hi.
  rewrite app_nth1 by (rewrite map_length, (square_row n) by assumption; exact Hj).
  rewrite (nth_indep _ 0%Qc (Z2Qc 0)) by (rewrite map_length, (square_row n) by assumption; exact Hj).
  rewrite map_nth. reflexivity.
Qed.

Lemma aug_init_right n M i j : square n M -> (i < n)%nat -> (j < n)%nat ->
  qentry (aug_init n M) i (n + j) = qdelta i j.
Proof.
  intros SM Hi Hj. unfold qentry. rewrite aug_init_row by exact Hi.
  rewrite app_nth2 by (rewrite map_length, (square_row n) by assumption; lia).
  rewrite map_length, (square_row n) by assumption. replace (n + j - n)%nat with j by lia.
  rewrite nth_seq_map by exact Hj. reflexivity.
Qed.

(* the soundness invariant: left half = right half * M *)
Definition right_times (n : nat) (M : list (list Z)) (f : nat -> Qc) : Prop :=
  forall j, (j < n)%nat -> f j = qsum (fun k => (f (n + k)%nat * Z2Qc (mentry M k j))%Qc) n.

Lemma right_times_linear n M : linear_pred (right_times n M).
Proof.
  unfold right_times. split.
  - intros f g H Hf j Hj. rewrite <- H, (Hf j Hj). apply qsum_ext. intros k _. rewrite H. reflexivity.
  - intros c f Hf j Hj. rewrite (Hf j Hj), <- qsum_scale. apply qsum_ext. intros k _. ring.
  - intros c f g Hf Hg j Hj. rewrite (Hf j Hj), (Hg j Hj), <- qsum_sub_scale. apply qsum_ext. intros k _. ring.
Qed.

Lemma aug_init_right_times n M : square n M ->
  forall r, (r < n)%nat -> right_times n M (rowf (aug_init n M) r).
Proof.
  intros SM r Hr j Hj. unfold rowf. rewrite aug_init_left by assumption.
  rewrite (qsum_ext _ (fun k => (qdelta r k * Z2Qc (mentry M k j))%Qc))
    by (intros k Hk; rewrite aug_init_right by assumption; reflexivity).
  rewrite qsum_delta_l. replace (r <? n)%nat with true by (symmetry; apply Nat.ltb_lt; exact Hr). reflexivity.
Qed.

(* a left inverse of M over Z makes the kernel of M over Q trivial *)
Lemma aug_init_injective n M R : square n M ->
  (forall i k, (i < n)%nat -> (k < n)%nat -> dotZ n (mentry R) (mentry M) i k = delta i k) ->
  left_injective n (aug_init n M).
Proof.
  intros SM HRM v Hv j Hj.
  assert (E : v j = qsum (fun k => (qsum (fun l => (Z2Qc (mentry R j l) * Z2Qc (mentry M l k))%Qc) n * v k)%Qc) n).
  { rewrite (qsum_ext _ (fun k => (qdelta j k * v k)%Qc)).
    - rewrite qsum_delta_l. replace (j <? n)%nat with true by (symmetry; apply Nat.ltb_lt; exact Hj). reflexivity.
    - intros k Hk. rewrite <- Z2Qc_dotZ, HRM by assumption. rewrite Z2Qc_delta. reflexivity. }
  rewrite E.
  rewrite (qsum_ext _ (fun k => qsum (fun l => (Z2Qc (mentry R j l) * (Z2Qc (mentry M l k) * v k))%Qc) n)).
  2:{ intros k _. rewrite <- qsum_scale_r. apply qsum_ext. intros l _. ring. }
  rewrite qsum_swap. apply qsum_zero. intros l Hl. rewrite qsum_scale.
  specialize (Hv l Hl). unfold kills, rowf in Hv.
  rewrite (qsum_ext _ (fun k => (qentry (aug_init n M) l k * v k)%Qc))
    by (intros k Hk; rewrite aug_init_left by assumption; reflexivity).
  rewrite Hv. ring.
Qed.

Lemma nth_skipn {A} n : forall (l : list A) k d, nth k (skipn n l) d = nth (n + k) l d.
Proof.
  induction n as [|n IH]; intros l k d; [reflexivity|]. destruct l as [|a l]; cbn [skipn plus nth].
  - destruct k; reflexivity.
  - apply IH.
Qed.

Lemma existsb_false_nth {A} (f : A -> bool) l d :
  existsb f l = false <-> forall i, (i < length l)%nat -> f (nth i l d) = false.
Proof.
  split.
  - intros H i Hi. apply existsb_nth; assumption.
  - intros H. destruct (existsb f l) eqn:E; [|reflexivity]. apply existsb_exists in E as (x & Hx & Fx).
    destruct (In_nth l x d Hx) as (i & Hi & Ei). rewrite <- Ei, H in Fx by exact Hi. discriminate.
Qed.

Lemma bad_entry_false v : bad_entry v = false <-> Qden (this v) = 1%positive /\ Z.abs (Qnum (this v)) < two63.
Proof.
  unfold bad_entry. rewrite orb_false_iff, negb_false_iff, Pos.eqb_eq, Z.leb_gt. reflexivity.
Qed.

Lemma bad_entry_Z2Qc z : Z.abs z < two63 -> bad_entry (Z2Qc z) = false.
Proof. intros H. apply bad_entry_false. rewrite Z2Qc_this. cbn [inject_Z Qden Qnum]. auto. Qed.

(* the right half of the final rows *)
Definition right_half (n : nat) (rows : list (list Qc)) : list (list Qc) := map (skipn n) rows.

Lemma right_half_entry n w rows r k : shape n w rows -> (r < n)%nat ->
  nth k (nth r (right_half n rows) []) 0%Qc = qentry rows r (n + k).
Proof.
  intros [HL _] Hr. unfold right_half, qentry.
  rewrite (nth_indep _ [] (skipn n [])) by (rewrite map_length; lia).
  rewrite map_nth. apply nth_skipn.
Qed.

Lemma right_half_shape n rows : shape n (n + n) rows ->
  length (right_half n rows) = n /\ forall r, (r < n)%nat -> length (nth r (right_half n rows) []) = n.
Proof.
  intros [HL HW]. unfold right_half. split; [rewrite map_length; exact HL|]. intros r Hr.
  rewrite (nth_indep _ [] (skipn n [])) by (rewrite map_length; lia).
  rewrite map_nth, skipn_length, HW by exact Hr. lia.
Qed.

(* what [integer_inverse] returns, in terms of the final rows of the loop *)
Lemma integer_inverse_some n M R :
  integer_inverse n M = Some R <->
  exists rows, gj_loop n (aug_init n M) = Some rows /\
               existsb (existsb bad_entry) (right_half n rows) = false /\
               R = map (map (fun v => Qnum (this v))) (right_half n rows).
Proof.
  unfold integer_inverse. fold (right_half n). destruct (gj_loop n (aug_init n M)) as [rows|].
  - fold (right_half n rows). destruct (existsb (existsb bad_entry) (right_half n rows)) eqn:E.
    + split; [discriminate|]. intros (rows' & H1 & H2 & _). inversion H1; subst. congruence.
    + split.
      * intros H. inversion H; subst. exists rows. auto.
      * intros (rows' & H1 & _ & H3). inversion H1; subst. reflexivity.
  - split; [discriminate|]. intros (rows' & H1 & _). discriminate.
Qed.

(* ================================================================== *)
(** * 8. Exact products of integer matrices *)

(* the product over unbounded Z (no int64 wrap) *)
Definition zmat_mul (n : nat) (A B : list (list Z)) : list (list Z) :=
  map (fun i => map (fun k => dotZ n (mentry A) (mentry B) i k) (seq 0 n)) (seq 0 n).

Lemma zmat_mul_eye_iff n A B :
  zmat_mul n A B = eye n <->
  forall i k, (i < n)%nat -> (k < n)%nat -> dotZ n (mentry A) (mentry B) i k = delta i k.
Proof. unfold zmat_mul, eye. apply map2_seq_eq_iff. Qed.

(* the library product with modulo 0 is the exact product wrapped to int64, entry by entry:
   the sum of products is formed exactly and wrapped once *)
Lemma mat_mul0_wrap n A B : mat_mul 0 n A B = map (map wrap) (zmat_mul n A B).
Proof.
  unfold mat_mul, zmat_mul. rewrite map_map. apply map_ext. intros i. rewrite map_map. apply map_ext. intros k.
  rewrite dot_mod_zero, map_map. reflexivity.
Qed.

Lemma wrap_eye n : map (map wrap) (eye n) = eye n.
Proof.
  unfold eye. rewrite map_map. apply map_ext. intros i. rewrite map_map. apply map_ext. intros k.
  destruct (i =? k)%nat; reflexivity.
Qed.

(* an exact identity product is an identity product for the library, without any bound *)
Lemma zmat_mul_eye_mat_mul0 n A B : zmat_mul n A B = eye n -> mat_mul 0 n A B = eye n.
Proof. intros H. rewrite mat_mul0_wrap, H. apply wrap_eye. Qed.

(* conversely, when no entry of the exact product overflows *)
Lemma mat_mul0_exact n A B :
  (forall i k, (i < n)%nat -> (k < n)%nat -> in64 (dotZ n (mentry A) (mentry B) i k)) ->
  mat_mul 0 n A B = zmat_mul n A B.
Proof.
  intros H. rewrite mat_mul0_wrap. unfold zmat_mul. rewrite map_map. apply map_ext_in. intros i Hi.
  rewrite map_map. apply map_ext_in. intros k Hk. apply in_seq in Hi, Hk. apply wrap_id. apply H; lia.
Qed.

(* a concrete sufficient bound: |A| <= a, |B| <= b entrywise and n*a*b < 2^63 *)
Lemma zsum_abs_bound (F : nat -> Z) n c :
  (forall j, (j < n)%nat -> Z.abs (F j) <= c) -> Z.abs (zsum (map F (seq 0 n))) <= Z.of_nat n * c.
Proof.
  induction n as [|n IH]; intros H; [cbn; lia|].
  rewrite seq_S, map_app. cbn [map]. unfold zsum in *. rewrite fold_left_app. cbn [fold_left plus].
  specialize (IH ltac:(intros; apply H; lia)). specialize (H n ltac:(lia)). lia.
Qed.

Lemma dotZ_in64 n A B a b :
  (forall i k, (i < n)%nat -> (k < n)%nat -> Z.abs (mentry A i k) <= a) ->
  (forall i k, (i < n)%nat -> (k < n)%nat -> Z.abs (mentry B i k) <= b) ->
  Z.of_nat n * (a * b) < two63 ->
  forall i k, (i < n)%nat -> (k < n)%nat -> in64 (dotZ n (mentry A) (mentry B) i k).
Proof.
  intros HA HB Hn i k Hi Hk. unfold dotZ.
  assert (Z.abs (zsum (map (fun j => mentry A i j * mentry B j k) (seq 0 n))) <= Z.of_nat n * (a * b)) as Hb.
  { apply zsum_abs_bound. intros j Hj. rewrite Z.abs_mul.
    specialize (HA i j Hi Hj). specialize (HB j k Hj Hk).
    apply Z.mul_le_mono_nonneg; auto using Z.abs_nonneg. }
  unfold in64. lia.
Qed.

(* ================================================================== *)
(** * 9. Soundness (B) *)

(* the final rows of a successful run: [I | B] with B * M = I over the rationals *)
Lemma gj_loop_final n M rows : square n M -> gj_loop n (aug_init n M) = Some rows ->
  shape n (n + n) rows /\
  forall r j, (r < n)%nat -> (j < n)%nat ->
    qsum (fun k => (qentry rows r (n + k) * Z2Qc (mentry M k j))%Qc) n = qdelta r j.
Proof.
  intros SM E. pose proof (gj_upto_inv n (n + n) (aug_init n M) n (le_n n) (aug_init_shape n M SM)) as H.
  rewrite <- gj_loop_upto, E in H. destruct H as (Sh & Id & HP & _). split; [exact Sh|].
  intros r j Hr Hj.
  pose proof (HP _ (right_times_linear n M) (aug_init_right_times n M SM) r Hr j Hj) as H.
  unfold rowf in H. rewrite <- H. apply Id; assumption.
Qed.

(* entries of the returned matrix *)
Lemma result_entries n rows R :
  shape n (n + n) rows ->
  existsb (existsb bad_entry) (right_half n rows) = false ->
  R = map (map (fun v => Qnum (this v))) (right_half n rows) ->
  square n R /\
  forall r k, (r < n)%nat -> (k < n)%nat ->
    qentry rows r (n + k) = Z2Qc (mentry R r k) /\ Z.abs (mentry R r k) < two63.
Proof.
  intros Sh Hb ->. destruct (right_half_shape n rows Sh) as [HL HW].
  assert (Row : forall r, (r < n)%nat ->
            nth r (map (map (fun v => Qnum (this v))) (right_half n rows)) [] =
            map (fun v => Qnum (this v)) (nth r (right_half n rows) [])).
  { intros r Hr. rewrite (nth_indep _ [] (map (fun v => Qnum (this v)) [])) by (rewrite map_length; lia).
    apply map_nth. }
  split.
  - apply square_intro; [rewrite map_length; exact HL|]. intros r Hr. rewrite Row, map_length by exact Hr.
    apply HW. exact Hr.
  - intros r k Hr Hk. unfold mentry. rewrite Row by exact Hr.
    rewrite (nth_indep _ 0 ((fun v => Qnum (this v)) 0%Qc)) by (rewrite map_length, HW by exact Hr; exact Hk).
    rewrite (map_nth (fun v => Qnum (this v))). rewrite (right_half_entry n (n + n)) by assumption.
    pose proof (proj1 (existsb_false_nth _ _ []) Hb r ltac:(lia)) as Hrow.
    pose proof (proj1 (existsb_false_nth _ _ 0%Qc) Hrow k ltac:(rewrite HW by exact Hr; exact Hk)) as He.
    rewrite (right_half_entry n (n + n)) in He by assumption.
    apply bad_entry_false in He as [Hd Hn]. split; [apply Qc_den1; exact Hd|exact Hn].
Qed.

Theorem integer_inverse_sound n M R :
  square n M -> integer_inverse n M = Some R ->
  square n R /\
  (forall i k, (i < n)%nat -> (k < n)%nat -> Z.abs (mentry R i k) < two63) /\
  zmat_mul n M R = eye n /\ zmat_mul n R M = eye n.
Proof.
  intros SM H. apply integer_inverse_some in H as (rows & EL & Hb & ER).
  destruct (gj_loop_final n M rows SM EL) as (Sh & HBM).
  destruct (result_entries n rows R Sh Hb ER) as (SR & HR).
  assert (RM : forall i k, (i < n)%nat -> (k < n)%nat -> dotZ n (mentry R) (mentry M) i k = delta i k).
  { intros i k Hi Hk. apply Z2Qc_inj. rewrite Z2Qc_dotZ, Z2Qc_delta, <- (HBM i k Hi Hk).
    apply qsum_ext. intros j Hj. rewrite (proj1 (HR i j Hi Hj)). reflexivity. }
  split; [exact SR|]. split; [intros i k Hi Hk; apply HR; assumption|]. split.
  - apply zmat_mul_eye_iff. apply IntInverseMC.Z_right_inverse_is_left. exact RM.
  - apply zmat_mul_eye_iff. exact RM.
Qed.

(* the same for the library's own product (int64 with wrap): no bound is needed in this direction *)
Corollary integer_inverse_sound_mat_mul n M R :
  square n M -> integer_inverse n M = Some R ->
  mat_mul 0 n M R = eye n /\ mat_mul 0 n R M = eye n /\ is_inverse_to 0 n M R = true.
Proof.
  intros SM H. destruct (integer_inverse_sound n M R SM H) as (_ & _ & H1 & H2).
  apply zmat_mul_eye_mat_mul0 in H1, H2. split; [exact H1|]. split; [exact H2|].
  unfold is_inverse_to. rewrite H1, H2. rewrite (proj2 (mat_eqb_true (eye n) (eye n)) eq_refl). reflexivity.
Qed.

(* ================================================================== *)
(** * 10. Completeness (C) *)

Theorem integer_inverse_complete n M R :
  square n M -> square n R ->
  (forall i k, (i < n)%nat -> (k < n)%nat -> Z.abs (mentry R i k) < two63) ->
  zmat_mul n M R = eye n ->
  integer_inverse n M = Some R.
Proof.
  intros SM SR HB HMR0. pose proof (proj1 (zmat_mul_eye_iff n M R) HMR0) as HMR.
  pose proof (@IntInverseMC.Z_right_inverse_is_left n _ _ HMR) as HRM.
  (* the loop does not get stuck *)
  pose proof (gj_upto_inv n (n + n) (aug_init n M) n (le_n n) (aug_init_shape n M SM)) as H.
  rewrite <- gj_loop_upto in H. destruct (gj_loop n (aug_init n M)) as [rows|] eqn:EL.
  2:{ exfalso. apply H. apply (aug_init_injective n M R SM HRM). }
  clear H. destruct (gj_loop_final n M rows SM EL) as (Sh & HBM).
  (* B = B * (M * R) = (B * M) * R = R *)
  assert (BR : forall r j, (r < n)%nat -> (j < n)%nat -> qentry rows r (n + j) = Z2Qc (mentry R r j)).
  { intros r j Hr Hj.
    transitivity (qsum (fun k => (qentry rows r (n + k) * qsum (fun l => (Z2Qc (mentry M k l) * Z2Qc (mentry R l j))%Qc) n)%Qc) n).
    - rewrite (qsum_ext _ (fun k => (qentry rows r (n + k) * qdelta k j)%Qc)).
      + rewrite qsum_delta_r. replace (j <? n)%nat with true by (symmetry; apply Nat.ltb_lt; exact Hj). reflexivity.
      + intros k Hk. rewrite <- Z2Qc_dotZ, HMR, Z2Qc_delta by assumption. reflexivity.
    - rewrite (qsum_ext _ (fun k => qsum (fun l => (qentry rows r (n + k) * Z2Qc (mentry M k l) * Z2Qc (mentry R l j))%Qc) n)).
      2:{ intros k _. rewrite <- qsum_scale. apply qsum_ext. intros l _. ring. }
      rewrite qsum_swap.
      rewrite (qsum_ext _ (fun l => (qdelta r l * Z2Qc (mentry R l j))%Qc)).
      + rewrite qsum_delta_l. replace (r <? n)%nat with true by (symmetry; apply Nat.ltb_lt; exact Hr). reflexivity.
      + intros l Hl. rewrite qsum_scale_r, HBM by assumption. reflexivity. }
  destruct (right_half_shape n rows Sh) as [HL HW].
  apply integer_inverse_some. exists rows. split; [exact EL|].
  assert (Hbad : existsb (existsb bad_entry) (right_half n rows) = false).
  { apply (existsb_false_nth _ _ []). intros r Hr. rewrite HL in Hr.
    apply (existsb_false_nth _ _ 0%Qc). intros k Hk. rewrite HW in Hk by exact Hr.
    rewrite (right_half_entry n (n + n)), BR by assumption. apply bad_entry_Z2Qc. apply HB; assumption. }
  split; [exact Hbad|].
  destruct (result_entries n rows _ Sh Hbad eq_refl) as (SR' & HR').
  apply (square_ext n); [exact SR|exact SR'|]. intros i k Hi Hk. apply Z2Qc_inj.
  rewrite <- BR by assumption. apply HR'; assumption.
Qed.

(* soundness and completeness together: [integer_inverse] decides whether M has an inverse with
   int64-sized integer entries, and returns it *)
Corollary integer_inverse_spec n M R : square n M ->
  (integer_inverse n M = Some R <->
   square n R /\ (forall i k, (i < n)%nat -> (k < n)%nat -> Z.abs (mentry R i k) < two63) /\
   zmat_mul n M R = eye n).
Proof.
  intros SM. split.
  - intros H. destruct (integer_inverse_sound n M R SM H) as (H1 & H2 & H3 & _). auto.
  - intros (H1 & H2 & H3). apply integer_inverse_complete; assumption.
Qed.

Corollary integer_inverse_none n M : square n M -> integer_inverse n M = None ->
  forall R, square n R -> (forall i k, (i < n)%nat -> (k < n)%nat -> Z.abs (mentry R i k) < two63) ->
            zmat_mul n M R <> eye n.
Proof.
  intros SM HN R SR HB H. rewrite (integer_inverse_complete n M R SM SR HB H) in HN. discriminate.
Qed.

(* ================================================================== *)
(** * 11. The library operation MatrixGenerator.inv with the exact fallback (D) *)

(* M has an int64-sized integer inverse R.  Whatever the floating-point candidate is, inv succeeds
   and returns a two-sided inverse for the library's product; it is the candidate if that passed
   the (wrapping) product check, and R otherwise.  No bound on the entries of M is needed: the
   int64 product check of M * R cannot fail, because [dot_mod 0] forms the sum of products exactly
   and wraps once, and wrap (delta i k) = delta i k. *)
Theorem mat_inv_fb_integer_inverse n M R cand :
  square n M -> square n R ->
  (forall i k, (i < n)%nat -> (k < n)%nat -> Z.abs (mentry R i k) < two63) ->
  zmat_mul n M R = eye n ->
  exists R', mat_inv_fb 0 n M cand (integer_inverse n M) = Ok R' /\
             (R' = cand \/ R' = R) /\
             mat_mul 0 n M R' = eye n /\ mat_mul 0 n R' M = eye n /\ is_inverse_to 0 n M R' = true.
Proof.
  intros SM SR HB HMR. rewrite (integer_inverse_complete n M R SM SR HB HMR).
  unfold mat_inv_fb. destruct (mat_inv 0 n M cand) as [r|e] eqn:E.
  - exists r. split; [reflexivity|].
    destruct (mat_inv_sound_mod0 n M cand r E) as [-> _].
    destruct (@MatrixMC.mat_inv_two_sided_mod0 n M cand cand E) as (H1 & H2 & H3). auto.
  - assert (ER : mat_inv 0 n M R = Ok R).
    { unfold mat_inv. rewrite (zmat_mul_eye_mat_mul0 n M R HMR).
      rewrite (proj2 (mat_eqb_true (eye n) (eye n)) eq_refl). reflexivity. }
    exists R. split; [exact ER|]. split; [auto|].
    destruct (@MatrixMC.mat_inv_two_sided_mod0 n M R R ER) as (H1 & H2 & H3). auto.
Qed.

(* if moreover the product check of the candidate does not overflow (every entry of the exact
   product M * cand fits int64), the result is the exact inverse R itself *)
Theorem mat_inv_fb_integer_inverse_exact n M R cand :
  square n M -> square n R ->
  (forall i k, (i < n)%nat -> (k < n)%nat -> Z.abs (mentry R i k) < two63) ->
  zmat_mul n M R = eye n ->
  square n cand ->
  (forall i k, (i < n)%nat -> (k < n)%nat -> in64 (dotZ n (mentry M) (mentry cand) i k)) ->
  mat_inv_fb 0 n M cand (integer_inverse n M) = Ok R /\
  zmat_mul n M R = eye n /\ zmat_mul n R M = eye n.
Proof.
  intros SM SR HB HMR SC HC.
  assert (HRM : zmat_mul n R M = eye n).
  { apply zmat_mul_eye_iff. apply IntInverseMC.Z_right_inverse_is_left. apply zmat_mul_eye_iff. exact HMR. }
  split; [|auto].
  destruct (mat_inv_fb_integer_inverse n M R cand SM SR HB HMR) as (R' & E & [->| ->] & H1 & _); [|exact E].
  rewrite E. f_equal. rewrite (mat_mul0_exact n M cand HC) in H1.
  apply (square_ext n); [exact SC|exact SR|].
  apply (@IntInverseMC.Z_right_inverse_unique n (mentry M)); apply zmat_mul_eye_iff; assumption.
Qed.

(* the same under a concrete entry bound: |M| <= a, |cand| <= b, n * a * b < 2^63 *)
Corollary mat_inv_fb_integer_inverse_bounded n M R cand a b :
  square n M -> square n R ->
  (forall i k, (i < n)%nat -> (k < n)%nat -> Z.abs (mentry R i k) < two63) ->
  zmat_mul n M R = eye n ->
  square n cand ->
  (forall i k, (i < n)%nat -> (k < n)%nat -> Z.abs (mentry M i k) <= a) ->
  (forall i k, (i < n)%nat -> (k < n)%nat -> Z.abs (mentry cand i k) <= b) ->
  Z.of_nat n * (a * b) < two63 ->
  mat_inv_fb 0 n M cand (integer_inverse n M) = Ok R.
Proof.
  intros SM SR HB HMR SC HA HC Hn.
  apply (mat_inv_fb_integer_inverse_exact n M R cand SM SR HB HMR SC). apply (dotZ_in64 n M cand a b); assumption.
Qed.

(* from the side of the model: whenever the exact fallback produces a matrix, inv cannot fail *)
Corollary mat_inv_fb_fallback_some n M R cand :
  square n M -> integer_inverse n M = Some R ->
  exists R', mat_inv_fb 0 n M cand (Some R) = Ok R' /\ (R' = cand \/ R' = R) /\
             mat_mul 0 n M R' = eye n /\ mat_mul 0 n R' M = eye n.
Proof.
  intros SM H. destruct (integer_inverse_sound n M R SM H) as (SR & HB & HMR & _).
  destruct (mat_inv_fb_integer_inverse n M R cand SM SR HB HMR) as (R' & E & Hor & H1 & H2 & _).
  rewrite H in E. eauto.
Qed.

(* ================================================================== *)
(** * 12. Boolean forms of the hypotheses, and non-vacuity examples *)

Definition square_b (n : nat) (M : list (list Z)) : bool :=
  (length M =? n)%nat && forallb (fun row => (length row =? n)%nat) M.

Lemma square_b_true n M : square_b n M = true <-> square n M.
Proof.
  unfold square_b, square. rewrite andb_true_iff, Nat.eqb_eq, forallb_forall, Forall_forall.
  split; intros [H1 H2]; (split; [exact H1|]); intros x Hx; apply Nat.eqb_eq; auto.
Qed.

Definition all_entries_b (n : nat) (p : Z -> bool) (M : list (list Z)) : bool :=
  forallb (fun i => forallb (fun k => p (mentry M i k)) (seq 0 n)) (seq 0 n).

Lemma all_entries_b_true n p M :
  all_entries_b n p M = true <-> forall i k, (i < n)%nat -> (k < n)%nat -> p (mentry M i k) = true.
Proof.
  unfold all_entries_b. rewrite forallb_forall. split.
  - intros H i k Hi Hk. specialize (H i ltac:(apply in_seq; lia)). rewrite forallb_forall in H.
    apply H. apply in_seq. lia.
  - intros H i Hi. apply forallb_forall. intros k Hk. apply in_seq in Hi, Hk. apply H; lia.
Qed.

Lemma entries_lt_b n c M :
  all_entries_b n (fun z => Z.abs z <? c) M = true ->
  forall i k, (i < n)%nat -> (k < n)%nat -> Z.abs (mentry M i k) < c.
Proof. intros H i k Hi Hk. apply Z.ltb_lt. apply (proj1 (all_entries_b_true n _ M) H); assumption. Qed.

Lemma entries_le_b n c M :
  all_entries_b n (fun z => Z.abs z <=? c) M = true ->
  forall i k, (i < n)%nat -> (k < n)%nat -> Z.abs (mentry M i k) <= c.
Proof. intros H i k Hi Hk. apply Z.leb_le. apply (proj1 (all_entries_b_true n _ M) H); assumption. Qed.

Definition exM : list (list Z) :=
  [[2048;0;1024;-2047];[-2047;2048;1024;2047];[2047;1;2049;-2045];[-6146;2;-3071;6143]].
Definition exR : list (list Z) :=
  [[12891197441;-4196351;-2048;4297064448];[6288389;-2047;-1;2096129];
   [-12582919;4096;2;-4194305];[12891200513;-4196352;-2048;4297065472]].
(* what rint(np.linalg.inv(M)) may look like when float64 loses the low digits *)
Definition exCand : list (list Z) :=
  [[12891197440;-4196351;-2048;4297064448];[6288389;-2047;-1;2096129];
   [-12582919;4096;2;-4194305];[12891200512;-4196352;-2048;4297065472]].

(* hypotheses of soundness *)
Example ex_sound_hyps : square 4 exM /\ integer_inverse 4 exM = Some exR.
Proof. split; [apply square_b_true; reflexivity|vm_compute; reflexivity]. Qed.

(* hypotheses of completeness and of (D) *)
Example ex_complete_hyps :
  square 4 exM /\ square 4 exR /\
  (forall i k, (i < 4)%nat -> (k < 4)%nat -> Z.abs (mentry exR i k) < two63) /\
  zmat_mul 4 exM exR = eye 4.
Proof.
  split; [apply square_b_true; reflexivity|]. split; [apply square_b_true; reflexivity|].
  split; [apply entries_lt_b; vm_compute; reflexivity|vm_compute; reflexivity].
Qed.

(* hypotheses of the bounded form of (D), with a wrong floating-point candidate: the fallback is
   what makes inv succeed here *)
Example ex_bounded_hyps :
  square 4 exCand /\
  (forall i k, (i < 4)%nat -> (k < 4)%nat -> Z.abs (mentry exM i k) <= 6146) /\
  (forall i k, (i < 4)%nat -> (k < 4)%nat -> Z.abs (mentry exCand i k) <= 12891200513) /\
  Z.of_nat 4 * (6146 * 12891200513) < two63 /\
  mat_inv 0 4 exM exCand = Err AssertionErr /\
  mat_inv_fb 0 4 exM exCand (integer_inverse 4 exM) = Ok exR.
Proof.
  split; [apply square_b_true; reflexivity|].
  split; [apply entries_le_b; vm_compute; reflexivity|].
  split; [apply entries_le_b; vm_compute; reflexivity|].
  split; [reflexivity|]. split; vm_compute; reflexivity.
Qed.

(* hypotheses of [integer_inverse_none] *)
Example ex_none_hyps : square 2 [[2;0];[0;1]] /\ integer_inverse 2 [[2;0];[0;1]] = None.
Proof. split; [apply square_b_true; reflexivity|vm_compute; reflexivity]. Qed.

(* hypotheses of the internal lemmas: a linear predicate, and an injective left half *)
Example ex_linear : linear_pred (right_times 4 exM) /\ left_injective 4 (aug_init 4 exM).
Proof.
  split; [apply right_times_linear|]. apply (aug_init_injective 4 exM exR).
  - apply square_b_true; reflexivity.
  - apply zmat_mul_eye_iff. vm_compute. reflexivity.
Qed.

(* ================================================================== *)
(** * 13. Meaning of the differential check *)

Lemma check_integer_inverse_true M r :
  check_integer_inverse (M, r) = true <-> integer_inverse (length M) M = r.
Proof.
  unfold check_integer_inverse. cbn [fst snd]. destruct (integer_inverse (length M) M) as [a|], r as [b|]; cbn [option_eqb].
  - fold mat_eqb. rewrite mat_eqb_true. split; [intros ->; reflexivity|intros H; inversion H; reflexivity].
  - split; discriminate.
  - split; discriminate.
  - split; reflexivity.
Qed.

(* a recorded implementation output that passes the check is, on a square matrix, exactly the
   int64-sized two-sided integer inverse (Some), or a proof that there is none (None) *)
Theorem check_integer_inverse_meaning M r :
  square (length M) M -> check_integer_inverse (M, r) = true ->
  match r with
  | Some R => square (length M) R /\ zmat_mul (length M) M R = eye (length M) /\ zmat_mul (length M) R M = eye (length M)
  | None => forall R, square (length M) R ->
              (forall i k, (i < length M)%nat -> (k < length M)%nat -> Z.abs (mentry R i k) < two63) ->
              zmat_mul (length M) M R <> eye (length M)
  end.
Proof.
  intros SM H. apply check_integer_inverse_true in H. destruct r as [R|].
  - destruct (integer_inverse_sound _ M R SM H) as (H1 & _ & H2 & H3). auto.
  - apply integer_inverse_none; assumption.
Qed.

Example ex_check_meaning_hyps : square (length exM) exM /\ check_integer_inverse (exM, Some exR) = true.
Proof. split; [apply square_b_true; reflexivity|vm_compute; reflexivity]. Qed.

Print Assumptions integer_inverse_sound.
Print Assumptions check_integer_inverse_meaning.
Print Assumptions integer_inverse_sound_mat_mul.
Print Assumptions integer_inverse_complete.
Print Assumptions integer_inverse_spec.
Print Assumptions integer_inverse_none.
Print Assumptions mat_inv_fb_integer_inverse.
Print Assumptions mat_inv_fb_integer_inverse_exact.
Print Assumptions mat_inv_fb_integer_inverse_bounded.
Print Assumptions mat_inv_fb_fallback_some.
Print Assumptions mat_mul0_wrap.
Print Assumptions mat_mul0_exact.
