(** The abstract graph hypotheses, discharged for the concrete MATRIX-graph implementation model
    [impl_of d], [g_kind d = GMatrix modulo n m mats].

    Two arithmetic modes, as in MatrixGenerator: a modulus 2 <= modulo <= 2^31 (entries in [0, modulo),
    lemmas named [_mod]) and modulo = 0 (int64 wrap-around, entries in the int64 range, lemmas named
    [_wrap]).  The graph-level theorems cover both through [rng modulo]. *)
From Coq Require Import ZArith List Bool Arith Lia.
From V Require Import Base W64 W64Proofs Tensor Hash Matrix MatrixProofs Graph GraphImpl Def DefProofs
                      Bfs BfsRun Paths PathRun MatrixMC InstShared.
Import ListNotations.
Open Scope Z_scope.

(* ------------------------------------------------------------------ *)
(** * 1. Ranges, well-formed matrices *)

(* the values a state / matrix entry may take in the given mode *)
Definition rng (modulo v : Z) : Prop := if modulo =? 0 then in64 v else 0 <= v < modulo.
Definition rngb (modulo v : Z) : bool :=
  if modulo =? 0 then (- two63 <=? v) && (v <? two63) else (0 <=? v) && (v <? modulo).

Lemma rngb_spec modulo v : rngb modulo v = true <-> rng modulo v.
Proof.
  unfold rngb, rng, in64. destruct (modulo =? 0); rewrite andb_true_iff, Z.leb_le, Z.ltb_lt; reflexivity.
Qed.

Lemma rng_mod modulo v : modulo <> 0 -> (rng modulo v <-> 0 <= v < modulo).
Proof. intros H. unfold rng. apply Z.eqb_neq in H. rewrite H. reflexivity. Qed.
Lemma rng_wrap v : rng 0 v <-> in64 v.
Proof. reflexivity. Qed.

Lemma forallb_rngb modulo l : forallb (rngb modulo) l = true <-> Forall (rng modulo) l.
Proof.
  rewrite forallb_forall, Forall_forall. split; intros H x Hx; apply rngb_spec, H, Hx.
Qed.

(* the modulus is one MatrixGenerator accepts (and, with a modulus, the dimension is below 2^32 so that a
   sum of n reduced products cannot overflow) *)
Definition ModOk (modulo : Z) (n : nat) : Prop :=
  modulo = 0 \/ (2 <= modulo <= 2 ^ 31 /\ Z.of_nat n < 2 ^ 32).
Definition mod_okb (modulo : Z) (n : nat) : bool :=
  (modulo =? 0) || ((2 <=? modulo) && (modulo <=? 2 ^ 31) && (Z.of_nat n <? 2 ^ 32)).
Lemma mod_okb_spec modulo n : mod_okb modulo n = true <-> ModOk modulo n.
Proof.
  unfold mod_okb, ModOk. rewrite orb_true_iff, !andb_true_iff, Z.eqb_eq, !Z.leb_le, Z.ltb_lt. tauto.
Qed.
Lemma ModOk_sign modulo n : ModOk modulo n -> modulo = 0 \/ 0 < modulo.
Proof. intros [H | [H _]]; [left; exact H | right; lia]. Qed.

(* an n x n matrix with entries in range *)
Definition MatOk (modulo : Z) (n : nat) (M : list (list Z)) : Prop :=
  length M = n /\ forall row, In row M -> length row = n /\ Forall (rng modulo) row.
Definition wf_mat (modulo : Z) (n : nat) (M : list (list Z)) : bool :=
  (length M =? n)%nat && forallb (fun row => (length row =? n)%nat && forallb (rngb modulo) row) M.
Lemma wf_mat_spec modulo n M : wf_mat modulo n M = true <-> MatOk modulo n M.
Proof.
  unfold wf_mat, MatOk. rewrite andb_true_iff, Nat.eqb_eq, forallb_forall.
  split; intros [H1 H2]; (split; [exact H1|]); intros row Hrow; specialize (H2 row Hrow).
  - apply andb_true_iff in H2 as [Ha Hb]. apply Nat.eqb_eq in Ha. apply forallb_rngb in Hb. auto.
  - destruct H2 as [Ha Hb]. apply andb_true_iff. rewrite Nat.eqb_eq, forallb_rngb. auto.
Qed.
Lemma forallb_wf_mat modulo n mats :
  forallb (wf_mat modulo n) mats = true <-> forall M, In M mats -> MatOk modulo n M.
Proof. rewrite forallb_forall. split; intros H M HM; apply wf_mat_spec, H, HM. Qed.

Lemma Forall_nth_rng (P : Z -> Prop) l j : Forall P l -> (j < length l)%nat -> P (nth j l 0).
Proof. intros H Hj. rewrite Forall_forall in H. apply H. apply nth_In. exact Hj. Qed.

Lemma MatOk_entry modulo n M r c :
  MatOk modulo n M -> (r < n)%nat -> (c < n)%nat -> rng modulo (mentry M r c).
Proof.
  intros [HL HR] Hr Hc. unfold mentry.
  assert (In (nth r M []) M) as Hin by (apply nth_In; lia).
  destruct (HR _ Hin) as [Hlen HF]. apply Forall_nth_rng; [exact HF|lia].
Qed.

(* ------------------------------------------------------------------ *)
(** * 2. The action keeps entries in range (no hypothesis on the operands at all) *)

Lemma dot_mod_rng modulo terms : modulo = 0 \/ 0 < modulo -> rng modulo (dot_mod modulo terms).
Proof.
  intros [-> | Hpos]; unfold dot_mod, rng.
  - cbn [Z.ltb Z.compare Z.eqb]. apply wrap_in64.
  - assert (modulo =? 0 = false) as -> by (apply Z.eqb_neq; lia).
    assert (0 <? modulo = true) as -> by (apply Z.ltb_lt; exact Hpos).
    apply Z.mod_pos_bound. exact Hpos.
Qed.

Lemma mat_apply_rng modulo n m M S :
  modulo = 0 \/ 0 < modulo -> Forall (rng modulo) (mat_apply modulo n m M S).
Proof.
  intros Hm. apply Forall_forall. intros v Hv. unfold mat_apply in Hv.
  apply in_flat_map in Hv as (i & _ & Hv). apply in_map_iff in Hv as (k & <- & _).
  apply dot_mod_rng. exact Hm.
Qed.

Lemma mat_apply_rng_mod modulo n m M S :
  0 < modulo -> Forall (fun v => 0 <= v < modulo) (mat_apply modulo n m M S).
Proof.
  intros Hm. eapply Forall_impl; [|apply mat_apply_rng; right; exact Hm].
  intros v Hv. apply rng_mod in Hv; [exact Hv|lia].
Qed.
Lemma mat_apply_rng_wrap n m M S : Forall in64 (mat_apply 0 n m M S).
Proof. apply (mat_apply_rng 0 n m M S). left. reflexivity. Qed.

(* the states of a matrix graph: flat n*m lists with entries in range *)
Definition UmatP (modulo : Z) (n m : nat) (s : state) : Prop :=
  length s = (n * m)%nat /\ Forall (rng modulo) s.

Lemma mat_apply_UmatP modulo n m M S :
  modulo = 0 \/ 0 < modulo -> UmatP modulo n m (mat_apply modulo n m M S).
Proof. intros Hm. split; [apply mat_apply_length|apply mat_apply_rng; exact Hm]. Qed.

(* ------------------------------------------------------------------ *)
(** * 3. A two-sided inverse (the check [is_inverse_to]) undoes the action *)

Lemma is_inverse_to_products modulo n A B :
  is_inverse_to modulo n A B = true -> mat_mul modulo n A B = eye n /\ mat_mul modulo n B A = eye n.
Proof.
  unfold is_inverse_to. rewrite andb_true_iff, !mat_eqb_true. tauto.
Qed.
Lemma is_inverse_to_sym modulo n A B : is_inverse_to modulo n A B = is_inverse_to modulo n B A.
Proof. unfold is_inverse_to. apply andb_comm. Qed.

Theorem mat_undo_mod modulo n m M M' S :
  2 <= modulo <= 2 ^ 31 -> Z.of_nat n < 2 ^ 32 ->
  MatOk modulo n M -> MatOk modulo n M' ->
  is_inverse_to modulo n M M' = true ->
  length S = (n * m)%nat -> Forall (fun v => 0 <= v < modulo) S ->
  mat_apply modulo n m M' (mat_apply modulo n m M S) = S /\
  mat_apply modulo n m M (mat_apply modulo n m M' S) = S.
Proof.
  intros Hm Hn HM HM' Hinv HL HS.
  apply is_inverse_to_products in Hinv as [H1 H2].
  assert (modulo <> 0) as Hne by lia.
  assert (forall X, MatOk modulo n X ->
            forall r c0, (r < n)%nat -> (c0 < n)%nat -> 0 <= mentry X r c0 < modulo) as HE.
  { intros X HX r c0 Hr Hc. apply (rng_mod modulo _ Hne). apply (MatOk_entry modulo n X r c0); assumption. }
  assert (forall j, (j < n * m)%nat -> 0 <= nth j S 0 < modulo) as HS'.
  { intros j Hj. apply (Forall_nth_rng (fun v => 0 <= v < modulo)); [exact HS|lia]. }
  split.
  - apply (@mat_apply_mod_undo modulo Hm n m M M' S Hn (HE M HM) (HE M' HM') H2 HL). exact HS'.
  - apply (@mat_apply_mod_undo modulo Hm n m M' M S Hn (HE M' HM') (HE M HM) H1 HL). exact HS'.
Qed.

(* modulo 0: no condition on the matrices beyond the product check *)
Theorem mat_undo_wrap n m M M' S :
  is_inverse_to 0 n M M' = true ->
  length S = (n * m)%nat -> Forall in64 S ->
  mat_apply 0 n m M' (mat_apply 0 n m M S) = S /\ mat_apply 0 n m M (mat_apply 0 n m M' S) = S.
Proof.
  intros Hinv HL HS. apply is_inverse_to_products in Hinv as [H1 H2].
  assert (forall idx, (idx < n * m)%nat -> in64 (nth idx S 0)) as HS'.
  { intros j Hj. apply (Forall_nth_rng in64); [exact HS|lia]. }
  split.
  - apply (@mat_apply0_undo n m M M' S H2 HL). exact HS'.
  - apply (@mat_apply0_undo n m M' M S H1 HL). exact HS'.
Qed.

(* both modes *)
Theorem mat_undo modulo n m M M' S :
  ModOk modulo n -> MatOk modulo n M -> MatOk modulo n M' ->
  is_inverse_to modulo n M M' = true -> UmatP modulo n m S ->
  mat_apply modulo n m M' (mat_apply modulo n m M S) = S /\
  mat_apply modulo n m M (mat_apply modulo n m M' S) = S.
Proof.
  intros [-> | [Hm Hn]] HM HM' Hinv [HL HS].
  - apply mat_undo_wrap; assumption.
  - apply mat_undo_mod; try assumption.
    eapply Forall_impl; [|exact HS]. intros v Hv. apply rng_mod in Hv; [exact Hv|lia].
Qed.

(* ------------------------------------------------------------------ *)
(** * 4. Lists of generators *)

Lemma nth_error_map_some {A B} (f : A -> B) l i g :
  nth_error (map f l) i = Some g -> exists a, nth_error l i = Some a /\ g = f a.
Proof.
  rewrite nth_error_map. destruct (nth_error l i) as [a|]; cbn [option_map]; intros H; inversion H.
  exists a. auto.
Qed.

Lemma forallb_combine_nth {A B} (f : A * B -> bool) (l1 : list A) : forall (l2 : list B) i a b,
  forallb f (combine l1 l2) = true -> nth_error l1 i = Some a -> nth_error l2 i = Some b -> f (a, b) = true.
Proof.
  induction l1 as [|x l1 IH]; intros l2 i a b Hf Ha Hb.
  - destruct i; discriminate Ha.
  - destruct l2 as [|y l2]; [destruct i; discriminate Hb|].
    cbn [combine forallb] in Hf. apply andb_true_iff in Hf as [Hxy Hf].
    destruct i as [|i]; cbn [nth_error] in Ha, Hb.
    + inversion Ha; inversion Hb; subst. exact Hxy.
    + eapply IH; eauto.
Qed.

(* (a) closure *)
Lemma closed_P modulo n m mats :
  modulo = 0 \/ 0 < modulo -> closed state (map (mat_apply modulo n m) mats) (UmatP modulo n m).
Proof.
  intros Hm g x Hg _. apply in_map_iff in Hg as (M & <- & _). apply mat_apply_UmatP. exact Hm.
Qed.

(* (b) generator i of the inverted list undoes generator i, and conversely *)
Lemma undo_P modulo n m mats im :
  ModOk modulo n ->
  (forall M, In M mats -> MatOk modulo n M) -> (forall M, In M im -> MatOk modulo n M) ->
  forallb (fun '(A, B) => is_inverse_to modulo n A B) (combine mats im) = true ->
  forall i g gi x,
    nth_error (map (mat_apply modulo n m) mats) i = Some g ->
    nth_error (map (mat_apply modulo n m) im) i = Some gi ->
    UmatP modulo n m x -> g (gi x) = x /\ gi (g x) = x.
Proof.
  intros Hmod HM HI Hall i g gi x Hg Hgi Hx.
  apply nth_error_map_some in Hg as (M & HMi & ->). apply nth_error_map_some in Hgi as (M' & HIi & ->).
  pose proof (forallb_combine_nth _ _ _ _ _ _ Hall HMi HIi) as Hinv. cbn beta iota in Hinv.
  apply nth_error_In in HMi. apply nth_error_In in HIi.
  destruct (mat_undo modulo n m M M' x Hmod (HM _ HMi) (HI _ HIi) Hinv Hx) as [H1 H2].
  split; assumption.
Qed.

(* (c) the inverse map (generators_inverse_map): entry i names a generator undoing generator i *)
Lemma inverse_map_entry modulo n mats mp i M :
  matrix_inverse_map modulo n mats = Some mp -> nth_error mats i = Some M ->
  exists M', nth_error mats (nth i mp 0%nat) = Some M' /\ is_inverse_to modulo n M M' = true.
Proof.
  unfold matrix_inverse_map. intros Hs HMi.
  apply sequence_some in Hs as [Hlen Hnth]. rewrite map_length in Hlen, Hnth.
  assert (i < length mats)%nat as Hi by (apply nth_error_Some; congruence).
  specialize (Hnth i Hi). rewrite nth_error_map, HMi in Hnth. cbn [option_map] in Hnth.
  inversion Hnth as [Hli]; clear Hnth.
  assert (nth_error mp i = Some (nth i mp 0%nat)) as E by (apply nth_error_nth'; lia).
  rewrite E in Hli. apply last_index_some in Hli as (_ & M' & HM' & Hf). exists M'. auto.
Qed.

Lemma invmap_P modulo n m mats mp :
  ModOk modulo n -> (forall M, In M mats -> MatOk modulo n M) ->
  matrix_inverse_map modulo n mats = Some mp ->
  forall i g, nth_error (map (mat_apply modulo n m) mats) i = Some g ->
    exists g', nth_error (map (mat_apply modulo n m) mats) (nth i mp 0%nat) = Some g' /\
               forall x, UmatP modulo n m x -> g' (g x) = x.
Proof.
  intros Hmod HM Hmp i g Hg. apply nth_error_map_some in Hg as (M & HMi & ->).
  destruct (inverse_map_entry modulo n mats mp i M Hmp HMi) as (M' & HM' & Hinv).
  exists (mat_apply modulo n m M'). split.
  - rewrite nth_error_map, HM'. reflexivity.
  - intros x Hx. apply nth_error_In in HMi. apply nth_error_In in HM'.
    apply (mat_undo modulo n m M M' x Hmod (HM _ HMi) (HM _ HM') Hinv Hx).
Qed.

Lemma symmetric_P modulo n m mats mp :
  ModOk modulo n -> (forall M, In M mats -> MatOk modulo n M) ->
  matrix_inverse_map modulo n mats = Some mp ->
  symmetric_on state (map (mat_apply modulo n m) mats) (UmatP modulo n m).
Proof.
  intros Hmod HM Hmp g x Hg Hx. apply In_nth_error in Hg as (i & Hi).
  destruct (invmap_P modulo n m mats mp Hmod HM Hmp i g Hi) as (g' & Hg' & Hun).
  exists g'. split; [eapply nth_error_In; exact Hg'|apply Hun; exact Hx].
Qed.

(* ------------------------------------------------------------------ *)
(** * 5. Well-formed matrix descriptions *)

Definition is_none {A} (o : option A) : bool := match o with None => true | Some _ => false end.

(* everything MatrixGenerator / CayleyGraph validate or establish for a matrix graph, except the flag *)
Definition wf_matrix_core (d : gdesc) : bool :=
  match g_kind d with
  | GMatrix modulo n m mats =>
      (0 <? n)%nat && (0 <? m)%nat && mod_okb modulo n
      && negb (length mats =? 0)%nat && forallb (wf_mat modulo n) mats
      && is_none (g_width d)
      && (length (g_central d) =? n * m)%nat && forallb (rngb modulo) (g_central d)
      && (negb (hasher_is_identity (g_hasher d)) || (n * m =? 1)%nat)
  | GPerm _ => false
  end.

(* the stored flag generators_inverse_closed says what the generators say *)
Definition flag_okb (d : gdesc) : bool :=
  implb (g_inv_closed d) (is_some (kind_inverse_map (g_kind d))).

Definition wf_matrix_desc (d : gdesc) : bool := wf_matrix_core d && flag_okb d.

Record WfMatrix (d : gdesc) (modulo : Z) (n m : nat) (mats : list (list (list Z))) : Prop := {
  wf_kind : g_kind d = GMatrix modulo n m mats;
  wf_n : (0 < n)%nat;
  wf_m : (0 < m)%nat;
  wf_modulo : ModOk modulo n;                              (* 0, or 2 <= modulo <= 2^31 (and n < 2^32) *)
  wf_nonempty : mats <> [];
  wf_mats : forall M, In M mats -> MatOk modulo n M;       (* n x n, entries in range *)
  wf_width : g_width d = None;                             (* matrix graphs are never bit-encoded *)
  wf_central_len : length (g_central d) = (n * m)%nat;
  wf_central_rng : Forall (rng modulo) (g_central d);
  wf_hasher : hasher_is_identity (g_hasher d) = true -> (n * m = 1)%nat   (* identity hash only for one-word states *)
}.

Lemma wf_matrix_core_spec d :
  wf_matrix_core d = true <-> exists modulo n m mats, WfMatrix d modulo n m mats.
Proof.
  unfold wf_matrix_core. split.
  - destruct (g_kind d) as [perms | modulo n m mats] eqn:Hk; [discriminate|].
    rewrite !andb_true_iff. intros [[[[[[[[H1 H2] H3] H4] H5] H6] H7] H8] H9].
    exists modulo, n, m, mats. constructor.
    + exact Hk.
    + apply Nat.ltb_lt. exact H1.
    + apply Nat.ltb_lt. exact H2.
    + apply mod_okb_spec. exact H3.
    + intros ->. discriminate H4.
    + apply forallb_wf_mat. exact H5.
    + destruct (g_width d); [discriminate H6|reflexivity].
    + apply Nat.eqb_eq. exact H7.
    + apply forallb_rngb. exact H8.
    + intros Hid. rewrite Hid in H9. cbn [negb orb] in H9. apply Nat.eqb_eq. exact H9.
  - intros (modulo & n & m & mats & [Hk H1 H2 H3 H4 H5 H6 H7 H8 H9]). rewrite Hk.
    rewrite !andb_true_iff. repeat split.
    + apply Nat.ltb_lt. exact H1.
    + apply Nat.ltb_lt. exact H2.
    + apply mod_okb_spec. exact H3.
    + destruct mats; [congruence|reflexivity].
    + apply forallb_wf_mat. exact H5.
    + rewrite H6. reflexivity.
    + apply Nat.eqb_eq. exact H7.
    + apply forallb_rngb. exact H8.
    + destruct (hasher_is_identity (g_hasher d)); [|reflexivity]. cbn [negb orb].
      apply Nat.eqb_eq. apply H9. reflexivity.
Qed.

Lemma flag_okb_spec d :
  flag_okb d = true <-> (g_inv_closed d = true -> is_some (kind_inverse_map (g_kind d)) = true).
Proof. unfold flag_okb. destruct (g_inv_closed d), (is_some _); cbn; intuition congruence. Qed.

Theorem wf_matrix_desc_spec d :
  wf_matrix_desc d = true <->
  (exists modulo n m mats, WfMatrix d modulo n m mats) /\
  (g_inv_closed d = true -> is_some (kind_inverse_map (g_kind d)) = true).
Proof. unfold wf_matrix_desc. rewrite andb_true_iff, wf_matrix_core_spec, flag_okb_spec. reflexivity. Qed.

Lemma wf_matrix_desc_core d : wf_matrix_desc d = true -> wf_matrix_core d = true.
Proof. unfold wf_matrix_desc. intros H. apply andb_true_iff in H. tauto. Qed.

(* the states of the graph described by d *)
Definition Umat (d : gdesc) : state -> Prop :=
  match g_kind d with
  | GMatrix modulo n m _ => UmatP modulo n m
  | GPerm _ => fun _ => False
  end.

(* the form the task statement gives, with a modulus *)
Lemma Umat_mod d modulo n m mats s :
  g_kind d = GMatrix modulo n m mats -> modulo <> 0 ->
  (Umat d s <-> length s = (n * m)%nat /\ Forall (fun v => 0 <= v < modulo) s).
Proof.
  intros Hk Hne. unfold Umat, UmatP. rewrite Hk.
  split; intros [H1 H2]; (split; [exact H1|]); eapply Forall_impl; try exact H2;
    intros v Hv; apply (rng_mod modulo v Hne); exact Hv.
Qed.
Lemma Umat_wrap d n m mats s :
  g_kind d = GMatrix 0 n m mats -> (Umat d s <-> length s = (n * m)%nat /\ Forall in64 s).
Proof. intros Hk. unfold Umat, UmatP. rewrite Hk. reflexivity. Qed.

Lemma acts_matrix d modulo n m mats :
  g_kind d = GMatrix modulo n m mats -> acts (impl_of d) = map (mat_apply modulo n m) mats.
Proof. intros Hk. unfold impl_of. cbn [acts mk_impl]. rewrite Hk. reflexivity. Qed.

(* ------------------------------------------------------------------ *)
(** * 6. The hypotheses of the abstract theorems, for [impl_of d] *)

(* (a) *)
Theorem matrix_closed d :
  wf_matrix_core d = true -> closed state (acts (impl_of d)) (Umat d).
Proof.
  intros H. apply wf_matrix_core_spec in H as (modulo & n & m & mats & W).
  rewrite (acts_matrix d _ _ _ _ (wf_kind _ _ _ _ _ W)). unfold Umat. rewrite (wf_kind _ _ _ _ _ W).
  apply closed_P. apply (ModOk_sign modulo n). exact (wf_modulo _ _ _ _ _ W).
Qed.

Theorem matrix_central_U d : wf_matrix_core d = true -> Umat d (central (impl_of d)).
Proof.
  intros H. apply wf_matrix_core_spec in H as (modulo & n & m & mats & W).
  unfold Umat. rewrite (wf_kind _ _ _ _ _ W). unfold impl_of. cbn [central mk_impl].
  split; [exact (wf_central_len _ _ _ _ _ W)|exact (wf_central_rng _ _ _ _ _ W)].
Qed.

(* the identity hash is only used for one-word states, where it can be undone *)
Theorem matrix_unword d :
  wf_matrix_core d = true -> is_identity (impl_of d) = true ->
  forall a, Umat d a -> unword (impl_of d) (hashf (impl_of d) a) = a.
Proof.
  intros H Hid a Ha. apply wf_matrix_core_spec in H as (modulo & n & m & mats & W).
  unfold Umat in Ha. rewrite (wf_kind _ _ _ _ _ W) in Ha. destruct Ha as [Hlen _].
  unfold impl_of in *. cbn [is_identity mk_impl] in Hid.
  rewrite (wf_hasher _ _ _ _ _ W Hid) in Hlen.
  cbn [unword hashf mk_impl]. unfold encoded_row. rewrite (wf_kind _ _ _ _ _ W). cbn beta iota.
  destruct (g_hasher d); try discriminate Hid. cbn [make_hash].
  destruct a as [|v [|w a]]; try discriminate Hlen. reflexivity.
Qed.

(* ... and then it cannot collide *)
Theorem matrix_identity_nocoll d :
  wf_matrix_core d = true -> is_identity (impl_of d) = true ->
  forall a b, Umat d a -> Umat d b -> hashf (impl_of d) a = hashf (impl_of d) b -> a = b.
Proof.
  intros H Hid a b Ha Hb E.
  rewrite <- (matrix_unword d H Hid a Ha), <- (matrix_unword d H Hid b Hb), E. reflexivity.
Qed.

(* (c) with the inverse map at hand *)
Theorem matrix_symmetric_map d modulo n m mats mp :
  wf_matrix_core d = true -> g_kind d = GMatrix modulo n m mats ->
  matrix_inverse_map modulo n mats = Some mp ->
  symmetric_on state (acts (impl_of d)) (Umat d).
Proof.
  intros H Hk Hmp. apply wf_matrix_core_spec in H as (modulo' & n' & m' & mats' & W).
  pose proof (wf_kind _ _ _ _ _ W) as Hk'. rewrite Hk in Hk'. inversion Hk'; subst modulo' n' m' mats'.
  rewrite (acts_matrix d _ _ _ _ Hk). unfold Umat. rewrite Hk.
  apply (symmetric_P modulo n m mats mp); [exact (wf_modulo _ _ _ _ _ W)|exact (wf_mats _ _ _ _ _ W)|exact Hmp].
Qed.

(* (c) as the abstract theorems ask for it *)
Theorem matrix_symmetric d :
  wf_matrix_desc d = true -> inv_closed (impl_of d) = true -> symmetric_on state (acts (impl_of d)) (Umat d).
Proof.
  intros H Hic. apply wf_matrix_desc_spec in H as [(modulo & n & m & mats & W) Hflag].
  unfold impl_of in Hic. cbn [inv_closed mk_impl] in Hic. specialize (Hflag Hic).
  pose proof (wf_kind _ _ _ _ _ W) as Hk. rewrite Hk in Hflag. cbn [kind_inverse_map] in Hflag.
  destruct (matrix_inverse_map modulo n mats) as [mp|] eqn:Hmp; [|discriminate Hflag].
  apply (matrix_symmetric_map d modulo n m mats mp); auto.
  apply wf_matrix_core_spec. exists modulo, n, m, mats. exact W.
Qed.

(* the inverse map is sound (what [revert_path] needs, MitmFind.invmap_ok) *)
Theorem matrix_invmap_sound d mp :
  wf_matrix_core d = true -> kind_inverse_map (g_kind d) = Some mp ->
  forall i g, nth_error (acts (impl_of d)) i = Some g ->
    exists g', nth_error (acts (impl_of d)) (nth i mp 0%nat) = Some g' /\ forall x, Umat d x -> g' (g x) = x.
Proof.
  intros H Hmp. apply wf_matrix_core_spec in H as (modulo & n & m & mats & W).
  pose proof (wf_kind _ _ _ _ _ W) as Hk. rewrite Hk in Hmp. cbn [kind_inverse_map] in Hmp.
  rewrite (acts_matrix d _ _ _ _ Hk). unfold Umat. rewrite Hk.
  apply (invmap_P modulo n m mats mp); [exact (wf_modulo _ _ _ _ _ W)|exact (wf_mats _ _ _ _ _ W)|exact Hmp].
Qed.

(* ------------------------------------------------------------------ *)
(** * 7. The inverted copy *)

(* the inverse matrices are MatrixGenerators of the same modulus: n x n, entries in range.  (This is NOT implied
   by the product check in [inverted_kind]; the constructor of MatrixGenerator asserts it.) *)
Definition wf_inv_mats (d : gdesc) (inv_mats : list (list (list Z))) : bool :=
  match g_kind d with
  | GMatrix modulo n _ _ => forallb (wf_mat modulo n) inv_mats
  | GPerm _ => false
  end.

Lemma inverted_kind_matrix modulo n m mats im ik :
  inverted_kind (GMatrix modulo n m mats) im = Some ik ->
  ik = GMatrix modulo n m im /\ length mats = length im /\
  forallb (fun '(A, B) => is_inverse_to modulo n A B) (combine mats im) = true.
Proof.
  cbn [inverted_kind]. destruct ((length mats =? length im)%nat) eqn:E1; cbn [andb]; [|discriminate].
  destruct (forallb _ (combine mats im)) eqn:E2; [|discriminate].
  intros H. inversion H. apply Nat.eqb_eq in E1. auto.
Qed.

Lemma with_flag_core d k :
  wf_matrix_desc (with_flag d k) = wf_matrix_core (with_flag d k).
Proof.
  unfold wf_matrix_desc, flag_okb, with_flag. cbn [g_inv_closed g_kind].
  destruct (is_some (kind_inverse_map k)); cbn [implb]; apply andb_true_r.
Qed.

(* the graph itself, with the flag recomputed: well formed as soon as the core is *)
Theorem wf_with_flag_self d : wf_matrix_core d = true -> wf_matrix_desc (with_flag d (g_kind d)) = true.
Proof. intros H. rewrite with_flag_core. exact H. Qed.

Lemma Umat_with_flag_self d : Umat (with_flag d (g_kind d)) = Umat d.
Proof. reflexivity. Qed.

Theorem wf_with_flag_inverted d im ik :
  wf_matrix_core d = true -> wf_inv_mats d im = true -> inverted_kind (g_kind d) im = Some ik ->
  wf_matrix_desc (with_flag d ik) = true /\ Umat (with_flag d ik) = Umat d.
Proof.
  intros H Him Hik. apply wf_matrix_core_spec in H as (modulo & n & m & mats & W).
  pose proof (wf_kind _ _ _ _ _ W) as Hk. unfold wf_inv_mats in Him. rewrite Hk in Him, Hik.
  apply inverted_kind_matrix in Hik as (-> & Hlen & _).
  split.
  - rewrite with_flag_core. apply wf_matrix_core_spec. exists modulo, n, m, im.
    destruct W as [_ H1 H2 H3 H4 H5 H6 H7 H8 H9].
    constructor; cbn [with_flag g_kind g_width g_central g_hasher]; auto.
    + intros ->. destruct mats; [congruence|discriminate Hlen].
    + apply forallb_wf_mat. exact Him.
  - unfold Umat. cbn [with_flag g_kind]. rewrite Hk. reflexivity.
Qed.

(* (b): generator i of the inverted copy undoes generator i of the graph, and conversely *)
Theorem matrix_inverted_undo d im ik :
  wf_matrix_core d = true -> wf_inv_mats d im = true -> inverted_kind (g_kind d) im = Some ik ->
  forall i g gi x,
    nth_error (acts (impl_of d)) i = Some g -> nth_error (acts (impl_of (with_flag d ik))) i = Some gi ->
    Umat d x -> g (gi x) = x /\ gi (g x) = x.
Proof.
  intros H Him Hik. apply wf_matrix_core_spec in H as (modulo & n & m & mats & W).
  pose proof (wf_kind _ _ _ _ _ W) as Hk. unfold wf_inv_mats in Him. rewrite Hk in Him, Hik.
  apply inverted_kind_matrix in Hik as (-> & Hlen & Hall).
  rewrite (acts_matrix d _ _ _ _ Hk).
  rewrite (acts_matrix (with_flag d (GMatrix modulo n m im)) modulo n m im eq_refl).
  unfold Umat. rewrite Hk.
  apply (undo_P modulo n m mats im); [exact (wf_modulo _ _ _ _ _ W)|exact (wf_mats _ _ _ _ _ W)| |exact Hall].
  apply forallb_wf_mat. exact Him.
Qed.

(* the statement of the task, spelled out on matrices *)
Corollary matrix_inverted_undo_mats d modulo n m mats im :
  wf_matrix_core d = true -> wf_inv_mats d im = true -> g_kind d = GMatrix modulo n m mats ->
  inverted_kind (g_kind d) im = Some (GMatrix modulo n m im) ->
  forall i M Minv x, nth_error mats i = Some M -> nth_error im i = Some Minv -> Umat d x ->
    mat_apply modulo n m M (mat_apply modulo n m Minv x) = x /\
    mat_apply modulo n m Minv (mat_apply modulo n m M x) = x.
Proof.
  intros H Him Hk Hik i M Minv x HM HMi Hx.
  apply (matrix_inverted_undo d im _ H Him Hik i (mat_apply modulo n m M) (mat_apply modulo n m Minv) x); auto.
  - rewrite (acts_matrix d _ _ _ _ Hk), nth_error_map, HM. reflexivity.
  - rewrite (acts_matrix (with_flag d (GMatrix modulo n m im)) modulo n m im eq_refl), nth_error_map, HMi. reflexivity.
Qed.

(* ------------------------------------------------------------------ *)
(** * 8. Everything the path theorems ask of [env_of d inv_mats] *)

Record EnvFacts (e : path_env) (U : state -> Prop) : Prop := {
  ef_closed : closed state (acts (pe_G e)) U;
  ef_closed_inv : closed state (acts (pe_Ginv e)) U;
  ef_same_hash : forall s, hashf (pe_Ginv e) s = hashf (pe_G e) s;
  ef_same_len : length (acts (pe_Ginv e)) = length (acts (pe_G e));
  ef_inv_undo : forall i g gi x, nth_error (acts (pe_G e)) i = Some g -> nth_error (acts (pe_Ginv e)) i = Some gi ->
                                 U x -> g (gi x) = x /\ gi (g x) = x;
  ef_idok : is_identity (pe_G e) = true -> forall a, U a -> unword (pe_G e) (hashf (pe_G e) a) = a;
  ef_idok_inv : is_identity (pe_Ginv e) = true -> forall a, U a -> unword (pe_Ginv e) (hashf (pe_Ginv e) a) = a;
  ef_sym : inv_closed (pe_G e) = true -> symmetric_on state (acts (pe_G e)) U;
  ef_sym_inv : inv_closed (pe_Ginv e) = true -> symmetric_on state (acts (pe_Ginv e)) U;
  ef_same_central : central (pe_Ginv e) = central (pe_G e);
  ef_central_U : U (central (pe_G e));
  ef_invmap : forall mp, pe_invmap e = Some mp ->
     forall i g, nth_error (acts (pe_G e)) i = Some g ->
       exists g', nth_error (acts (pe_G e)) (nth i mp 0%nat) = Some g' /\ forall x, U x -> g' (g x) = x
}.

Theorem matrix_env_facts d im e :
  wf_matrix_core d = true -> wf_inv_mats d im = true -> env_of d im = Some e -> EnvFacts e (Umat d).
Proof.
  intros H Him He.
  pose proof (env_of_shares d im e He) as (Sh & Sc & Sid & Sun & Slen).
  unfold env_of in He. destruct (inverted_kind (g_kind d) im) as [ik|] eqn:Hik; [|discriminate].
  inversion He; subst e; clear He. cbn [pe_G pe_Ginv pe_invmap] in *.
  pose proof (wf_with_flag_self d H) as W1.
  destruct (wf_with_flag_inverted d im ik H Him Hik) as [W2 HU2].
  set (d1 := with_flag d (g_kind d)) in *. set (d2 := with_flag d ik) in *.
  assert (Umat d1 = Umat d) as HU1 by reflexivity.
  pose proof (wf_matrix_desc_core _ W1) as C1. pose proof (wf_matrix_desc_core _ W2) as C2.
  constructor.
  - rewrite <- HU1. apply matrix_closed. exact C1.
  - rewrite <- HU2. apply matrix_closed. exact C2.
  - exact Sh.
  - exact Slen.
  - intros i g gi x Hg Hgi Hx. apply (matrix_inverted_undo d im ik H Him Hik i g gi x); auto.
  - rewrite <- HU1. apply matrix_unword. exact C1.
  - rewrite <- HU2. apply matrix_unword. exact C2.
  - rewrite <- HU1. apply matrix_symmetric. exact W1.
  - rewrite <- HU2. apply matrix_symmetric. exact W2.
  - exact Sc.
  - rewrite <- HU1. apply matrix_central_U. exact C1.
  - intros mp Hmp. rewrite <- HU1. apply (matrix_invmap_sound d1 mp C1). exact Hmp.
Qed.

(* ------------------------------------------------------------------ *)
(** * 9. Non-vacuity: Heisenberg-type generators mod 5 and their inverses *)

Definition heis_x : list (list Z) := [[1;1;0];[0;1;0];[0;0;1]].
Definition heis_y : list (list Z) := [[1;0;0];[0;1;1];[0;0;1]].
Definition heis_xi : list (list Z) := [[1;4;0];[0;1;0];[0;0;1]].
Definition heis_yi : list (list Z) := [[1;0;0];[0;1;4];[0;0;1]].
Definition eye3_flat : list Z := [1;0;0; 0;1;0; 0;0;1].
Definition heis_vec : list Z := [3; -7; 11; 13; -17; 19; 23; -29; 31].

(* directed: x, y only (not inverse closed) *)
Definition heis_desc : gdesc :=
  {| g_kind := GMatrix 5 3 3 [heis_x; heis_y]; g_central := eye3_flat; g_width := None;
     g_hasher := HDot heis_vec; g_inv_closed := false |}.
(* inverse closed: x, y, x^-1, y^-1 *)
Definition heis_desc_ic : gdesc :=
  {| g_kind := GMatrix 5 3 3 [heis_x; heis_y; heis_xi; heis_yi]; g_central := eye3_flat; g_width := None;
     g_hasher := HDot heis_vec; g_inv_closed := true |}.
(* modulo 0 (int64), with the integer inverses *)
Definition heis_xi0 : list (list Z) := [[1;-1;0];[0;1;0];[0;0;1]].
Definition heis_yi0 : list (list Z) := [[1;0;0];[0;1;-1];[0;0;1]].
Definition heis_desc0 : gdesc :=
  {| g_kind := GMatrix 0 3 3 [heis_x; heis_y]; g_central := eye3_flat; g_width := None;
     g_hasher := HDot heis_vec; g_inv_closed := false |}.

Example heis_wf : wf_matrix_desc heis_desc = true. Proof. vm_compute. reflexivity. Qed.
Example heis_ic_wf : wf_matrix_desc heis_desc_ic = true. Proof. vm_compute. reflexivity. Qed.
Example heis0_wf : wf_matrix_desc heis_desc0 = true. Proof. vm_compute. reflexivity. Qed.
Example heis_inv_wf : wf_inv_mats heis_desc [heis_xi; heis_yi] = true. Proof. vm_compute. reflexivity. Qed.
Example heis0_inv_wf : wf_inv_mats heis_desc0 [heis_xi0; heis_yi0] = true. Proof. vm_compute. reflexivity. Qed.
Example heis_ic_flag : inv_closed (impl_of heis_desc_ic) = true. Proof. reflexivity. Qed.
Example heis_ic_map : matrix_inverse_map 5 3 [heis_x; heis_y; heis_xi; heis_yi] = Some [2;3;0;1]%nat.
Proof. vm_compute. reflexivity. Qed.

Example heis_inverted :
  inverted_kind (g_kind heis_desc) [heis_xi; heis_yi] = Some (GMatrix 5 3 3 [heis_xi; heis_yi]).
Proof. vm_compute. reflexivity. Qed.
Example heis0_inverted :
  inverted_kind (g_kind heis_desc0) [heis_xi0; heis_yi0] = Some (GMatrix 0 3 3 [heis_xi0; heis_yi0]).
Proof. vm_compute. reflexivity. Qed.

Example heis_env : exists e, env_of heis_desc [heis_xi; heis_yi] = Some e.
Proof. unfold env_of. rewrite heis_inverted. eexists. reflexivity. Qed.

(* a wrong "inverse" is rejected: the hypothesis of (b) is a real condition *)
Example heis_env_bad : env_of heis_desc [heis_x; heis_yi] = None.
Proof. vm_compute. reflexivity. Qed.

(* the shared-hash corollary, instantiated *)
Example heis_shared_hash e :
  env_of heis_desc [heis_xi; heis_yi] = Some e ->
  (forall s, hashf (pe_Ginv e) s = hashf (pe_G e) s) /\ central (pe_Ginv e) = central (pe_G e) /\
  is_identity (pe_Ginv e) = is_identity (pe_G e).
Proof.
  intros He. destruct (env_of_shares _ _ _ He) as (H1 & H2 & H3 & _). auto.
Qed.

Example heis_env_facts e :
  env_of heis_desc [heis_xi; heis_yi] = Some e -> EnvFacts e (Umat heis_desc).
Proof. apply matrix_env_facts; [exact (wf_matrix_desc_core _ heis_wf)|exact heis_inv_wf]. Qed.

Example heis_state_U : Umat heis_desc [1;2;3; 0;1;4; 0;0;1].
Proof. split; [reflexivity|]. repeat constructor; cbn; lia. Qed.

(* (b) on a concrete state: x^-1 (x s) = s, computed *)
Example heis_undo_computed :
  mat_apply 5 3 3 heis_xi (mat_apply 5 3 3 heis_x [1;2;3; 0;1;4; 0;0;1]) = [1;2;3; 0;1;4; 0;0;1].
Proof. vm_compute. reflexivity. Qed.

(* [wf_inv_mats] is needed: an out-of-range "inverse" can pass the two-sided product check of [inverted_kind]
   and still fail to undo the generator (4 * (2^62+2) overflows int64 before the reduction mod 5) *)
Definition big_b : Z := 4611686018427387906.       (* 2^62 + 2, congruent to 1 mod 5 *)
Example inv_range_needed :
  (inverted_kind (GMatrix 5 1 1 [[[1]]]) [[[big_b]]] = Some (GMatrix 5 1 1 [[[big_b]]])) /\
  UmatP 5 1 1 [4] /\
  (mat_apply 5 1 1 [[big_b]] (mat_apply 5 1 1 [[1]] [4]) <> [4]).
Proof.
  split; [vm_compute; reflexivity|]. split.
  - split; [reflexivity|]. apply forallb_rngb. vm_compute. reflexivity.
  - vm_compute. discriminate.
Qed.

Print Assumptions mat_undo_mod.
Print Assumptions mat_undo_wrap.
Print Assumptions mat_undo.
Print Assumptions wf_matrix_desc_spec.
Print Assumptions matrix_closed.
Print Assumptions matrix_central_U.
Print Assumptions matrix_unword.
Print Assumptions matrix_identity_nocoll.
Print Assumptions matrix_symmetric_map.
Print Assumptions matrix_symmetric.
Print Assumptions matrix_invmap_sound.
Print Assumptions wf_with_flag_inverted.
Print Assumptions matrix_inverted_undo.
Print Assumptions matrix_inverted_undo_mats.
Print Assumptions matrix_env_facts.
