(** Model of BeamSearchAlgorithm (algo/beam_search.py): simple and advanced modes.
    The pruning step torch.argsort(scores)[:beam_width] is an ORACLE: the recorded selection is an
    argument, and the model only checks that it is a valid selection for the recorded scores. *)
From Coq Require Import ZArith List Bool Arith Lia.
From V Require Import Base W64 Tensor GraphImpl Def Paths.
Import ListNotations.
Open Scope Z_scope.

Record beam_result := { path_found : bool; path_length : nat; bpath : option (list nat) }.

(* one recorded pruning event: the scores the predictor returned and the indices argsort selected *)
Definition selection := (list Z * list nat)%type.

Definition gather {A} (d : A) (l : list A) (idx : list nat) : list A := map (fun i => nth i l d) idx.

(* idx must be what SOME argsort could return: distinct, in range, beam_width of them, scores along idx
   non-decreasing, every unselected score >= the largest selected one *)
Fixpoint nodup_nat (l : list nat) : bool :=
  match l with [] => true | a :: t => negb (existsb (Nat.eqb a) t) && nodup_nat t end.
Definition valid_selection (n : nat) (width : nat) (sel : selection) : bool :=
  let '(scores, idx) := sel in
  (length scores =? n)%nat && (length idx =? Nat.min width n)%nat && nodup_nat idx
  && forallb (fun i => (i <? n)%nat) idx
  && is_sorted (gather 0 scores idx)
  && (let mx := last (gather 0 scores idx) 0 in
      forallb (fun i => existsb (Nat.eqb i) idx || (mx <=? nth i scores 0)) (seq 0 n)).

Section Simple.
  Variable G Ginv : impl.
  Variable inv_map : option (list nat).
  Variable beam_width : nat.
  Variable return_path : bool.
  (* bfs_result_for_mitm: None, or (layers_hashes, len(layer_sizes)) *)
  Variable ball : option (list (list Z) * nat).

  Definition bfs_layers (central_hash : Z) : list (list Z) :=
    match ball with Some (lh, _) => lh | None => [[central_hash]] end.

  (* _check_path_found: first j with any(isin_via_searchsorted(layer_j, hashes)) *)
  Fixpoint check_found (layers_h : list (list Z)) (hs : list Z) (j : nat) : option nat :=
    match layers_h with
    | [] => None
    | l :: rest => if existsb (fun b => b) (isin_ss l hs) then Some j else check_found rest hs (S j)
    end.

  Record sst := { s_i : nat; s_layer : list state; s_layer_h : list Z; s_all_h : list (list Z); s_sels : list selection }.

  Definition restore_found (st : sst) (l2 : list state) (l2h : list Z) (j : nat) (central_hash : Z)
    : result (option (list nat)) :=
    if negb return_path then Ok None
    else if (j =? 0)%nat then
      do p <- restore_path G Ginv (s_all_h st) (central G); Ok (Some p)
    else
      match ball with
      | None => Err AssertionErr
      | Some (lh, ns) =>
          let mask := isin_ss l2h (nth j lh []) in
          match first_true mask with
          | None => Err AssertionErr
          | Some k =>
              let middle := nth k l2 [] in
              do p1 <- restore_path G Ginv (s_all_h st) middle;
              do p2 <- find_path_from G Ginv inv_map lh ns middle;
              match p2 with None => Err AssertionErr | Some p2 => Ok (Some (p1 ++ p2)) end
          end
      end.

  Definition simple_iter (central_hash : Z) (st : sst) : sst + result beam_result :=
    let nb := get_neighbors G (s_layer st) in
    let '(l2, l2h) := get_unique_states G nb (hashes G nb) in
    match check_found (bfs_layers central_hash) l2h 0 with
    | Some j =>
        inr (do p <- restore_found st l2 l2h j central_hash;
             match p with
             | Some pp => if (length pp =? s_i st + j + 1)%nat
                          then Ok {| path_found := true; path_length := (s_i st + j + 1)%nat; bpath := p |}
                          else Err AssertionErr          (* BeamSearchResult.__post_init__ *)
             | None => Ok {| path_found := true; path_length := (s_i st + j + 1)%nat; bpath := None |}
             end)
    | None =>
        if (beam_width <=? length l2)%nat then
          match s_sels st with
          | [] => inr (Err RuntimeErr)                     (* oracle exhausted: the recording is inconsistent *)
          | sel :: rest =>
              if valid_selection (length l2) beam_width sel then
                let idx := snd sel in
                let l2' := gather [] l2 idx in let l2h' := gather 0 l2h idx in
                inl {| s_i := S (s_i st); s_layer := l2'; s_layer_h := l2h';
                       s_all_h := if return_path then s_all_h st ++ [l2h'] else s_all_h st; s_sels := rest |}
              else inr (Err RuntimeErr)
          end
        else
          inl {| s_i := S (s_i st); s_layer := l2; s_layer_h := l2h;
                 s_all_h := if return_path then s_all_h st ++ [l2h] else s_all_h st; s_sels := s_sels st |}
    end.

  Definition search_simple (start : state) (max_steps : N) (sels : list selection) : result beam_result :=
    let '(l1, l1h) := get_unique_states G [start] (hashes G [start]) in
    let central_hash := hashf G (central G) in
    if central_hash =? nth 0 l1h 0 then Ok {| path_found := true; path_length := 0; bpath := Some [] |}
    else
      match loop_N (simple_iter central_hash) max_steps
                   {| s_i := 0; s_layer := l1; s_layer_h := l1h; s_all_h := [l1h]; s_sels := sels |} with
      | inl _ => Ok {| path_found := false; path_length := 0; bpath := None |}
      | inr r => r
      end.
End Simple.

Section Advanced.
  Variable G : impl.
  Variable beam_width : nat.
  Variable history_depth : nat.

  Definition state_eqb := z_list_eqb.

  (* vec_hashes_current: history_depth columns, each of beam_width * n_generators rows *)
  Record ast := { a_step : nat; a_beam : list state; a_cols : list (list Z); a_idx : nat; a_sels : list selection }.

  (* column[:len(new)] = new *)
  Definition overwrite_prefix (col new : list Z) : list Z := new ++ skipn (length new) col.

  Definition adv_iter (dest : state) (st : ast) : ast + result beam_result :=
    let i_step := a_step st in
    let nb := get_neighbors G (a_beam st) in
    let '(new, _) := get_unique_states G nb (hashes G nb) in
    if existsb (state_eqb dest) new then
      inr (Ok {| path_found := true; path_length := i_step; bpath := None |})
    else
      let filtered : option (list state * list (list Z) * nat) :=
        if (0 <? history_depth)%nat then
          let hn := hashes G new in
          let mask := map negb (isin hn (concat (a_cols st))) in
          if existsb (fun b => b) mask then
            let idx := (S (a_idx st) mod history_depth)%nat in
            Some (mask_select new mask, upd (a_cols st) idx (overwrite_prefix (nth idx (a_cols st) []) hn), idx)
          else None
        else Some (new, a_cols st, a_idx st) in
      match filtered with
      | None => inr (Ok {| path_found := false; path_length := i_step; bpath := None |})
      | Some (new, cols, idx) =>
          if (beam_width <? length new)%nat then
            match a_sels st with
            | [] => inr (Err RuntimeErr)
            | sel :: rest =>
                if valid_selection (length new) beam_width sel
                then inl {| a_step := S i_step; a_beam := gather [] new (snd sel); a_cols := cols; a_idx := idx; a_sels := rest |}
                else inr (Err RuntimeErr)
            end
          else inl {| a_step := S i_step; a_beam := new; a_cols := cols; a_idx := idx; a_sels := a_sels st |}
      end.

  Definition search_advanced (start dest : state) (max_steps : N) (sels : list selection) : result beam_result :=
    if state_eqb start dest then Ok {| path_found := true; path_length := 0; bpath := Some [] |}
    else
      let h0 := hashf G start in
      let cols := repeat (repeat h0 (beam_width * n_gens G)) history_depth in
      match loop_N (adv_iter dest) max_steps {| a_step := 1; a_beam := [start]; a_cols := cols; a_idx := 0; a_sels := sels |} with
      | inl _ => Ok {| path_found := false; path_length := N.to_nat max_steps; bpath := None |}
      | inr r => r
      end.
End Advanced.
