(** E1 - the layer-size bounds ("small") of the path theorems hold outright for permutation graphs on at most
    14 symbols: every state reachable from q is q itself or a rearrangement [apply_perm 0 sigma q] by a
    permutation sigma of n symbols, and there are n! <= 14! < 10^12 of those. *)
From Coq Require Import ZArith List Bool Arith Lia Sorting.Permutation Factorial.
From V Require Import Base Perm PermProofs BitmaskProofs Hash Graph GraphProofs GraphImpl Def BfsStep BfsRun PathRun InstPerm.
From V.gen Require Import Consts.
Import ListNotations.
Local Open Scope nat_scope.

(* n! without unary numerals *)
Fixpoint zfact (n : nat) : Z :=
  match n with O => 1%Z | S m => (Z.of_nat (S m) * zfact m)%Z end.

Lemma fact_zfact n : Z.of_nat (fact n) = zfact n.
Proof.
  induction n as [|n IH]; [reflexivity|].
  change (fact (S n)) with (S n * fact n). rewrite Nat2Z.inj_mul, IH. reflexivity.
Qed.

Lemma fact_14_bound n : n <= 14 -> (Z.of_nat (fact n) + 1 < 1000000000000)%Z.
Proof.
  intros Hn. assert (Z.of_nat (fact n) <= zfact 14)%Z as H.
  { rewrite <- fact_zfact. apply Nat2Z.inj_le. apply fact_le. exact Hn. }
  assert (zfact 14 = 87178291200%Z) as E by (vm_compute; reflexivity).
  rewrite E in H. lia.
Qed.

(* the permutations of n symbols, as the model enumerates them *)
Lemma in_all_perms n sigma : In sigma (all_perms n) <-> Perm sigma /\ length sigma = n.
Proof.
  unfold all_perms. rewrite perms_In_iff. unfold Perm. split.
  - intros H. pose proof (Permutation_length H) as Hl. rewrite seq_length in Hl. subst n.
    split; [apply Permutation_sym; exact H | reflexivity].
  - intros [H <-]. apply Permutation_sym. exact H.
Qed.

Lemma all_perms_length n : length (all_perms n) = fact n.
Proof. unfold all_perms. rewrite perms_length, seq_length. reflexivity. Qed.

Section Small.
  Variable steps : list mix_step.
  Variable mult : Z.

  (* every reachable state is a rearrangement of the start state *)
  Definition rearr (d : gdesc) (q t : state) : Prop :=
    t = q \/ exists sigma, Perm sigma /\ length sigma = desc_n d /\ t = apply_perm 0%Z sigma q.

  Lemma rearr_closed d q : wf_perm_desc d -> closed state (acts (mk_impl steps mult d)) (rearr d q).
  Proof.
    intros Hwf g x Hg Hx. destruct (perm_acts_in steps mult d g Hwf Hg) as (p & Hp & ->).
    destruct (wf_perm_in d p Hwf Hp) as [HP Hl]. right. destruct Hx as [-> | (sigma & Hs & Hls & ->)].
    - exists p. auto.
    - exists (compose p sigma). split; [|split].
      + apply compose_is_perm; auto. lia.
      + unfold compose. rewrite apply_perm_length. exact Hl.
      + symmetry. apply apply_compose. apply Forall_forall. intros i Hi.
        rewrite Hls, <- Hl. apply (Perm_In p i HP). exact Hi.
  Qed.

  Theorem perm_layer_le_fact d q k : wf_perm_desc d ->
    length (layer state st_eq_dec (acts (mk_impl steps mult d)) [q] k) <= fact (desc_n d) + 1.
  Proof.
    intros Hwf.
    set (Lall := q :: map (fun sigma => apply_perm 0%Z sigma q) (all_perms (desc_n d))).
    assert (Hlen : length Lall = fact (desc_n d) + 1).
    { unfold Lall. cbn [length]. rewrite map_length, all_perms_length. lia. }
    rewrite <- Hlen. apply NoDup_incl_length; [apply layer_NoDup|].
    intros t Ht.
    assert (Hr : rearr d q t).
    { apply (layer_in_closed state st_eq_dec (acts (mk_impl steps mult d)) (rearr d q) [q] k t).
      - apply rearr_closed. exact Hwf.
      - intros s [<- | []]. left. reflexivity.
      - exact Ht. }
    destruct Hr as [-> | (sigma & Hs & Hls & ->)]; [left; reflexivity|].
    right. apply in_map_iff. exists sigma. split; [reflexivity|]. apply in_all_perms. auto.
  Qed.

  (* the hypothesis [small] of MitmProofs / MitmFind, for at most 14 symbols *)
  Theorem perm_small d : wf_perm_desc d -> desc_n d <= 14 ->
    forall q k, (Z.of_nat (length (layer state st_eq_dec (acts (mk_impl steps mult d)) [q] k)) < 1000000000000)%Z.
  Proof.
    intros Hwf Hn q k. pose proof (perm_layer_le_fact d q k Hwf) as H. pose proof (fact_14_bound _ Hn) as Hb.
    apply Nat2Z.inj_le in H. rewrite Nat2Z.inj_add in H. change (Z.of_nat 1) with 1%Z in H. lia.
  Qed.
End Small.

(* both graphs of the path environment *)
Theorem perm_env_small d inv_mats e : wf_perm_desc d -> env_of d inv_mats = Some e -> desc_n d <= 14 ->
  (forall q k, (Z.of_nat (length (layer state st_eq_dec (acts (pe_G e)) [q] k)) < 1000000000000)%Z) /\
  (forall q k, (Z.of_nat (length (layer state st_eq_dec (acts (pe_Ginv e)) [q] k)) < 1000000000000)%Z).
Proof.
  intros Hwf He Hn. pose proof (wf_kind d Hwf) as Hk. unfold env_of in He. rewrite Hk in He. cbn in He.
  inversion He as [He']. cbn [pe_G pe_Ginv]. unfold impl_of. split.
  - apply perm_small; [|exact Hn]. rewrite <- Hk. apply with_flag_self_wf. exact Hwf.
  - apply perm_small; [|exact Hn]. apply with_flag_inverted_wf. exact Hwf.
Qed.

Example lrx5_small : forall q k,
  (Z.of_nat (length (layer state st_eq_dec (acts (impl_of lrx5)) [q] k)) < 1000000000000)%Z.
Proof. apply perm_small; [exact lrx5_wf | vm_compute; lia]. Qed.

Print Assumptions perm_small.
Print Assumptions perm_env_small.
