(** Model of cayleypy/hasher.py. The xorshift/multiply steps of _splitmix64 and the fold
    multiplier come from the generated file gen/Consts.v (translator T1). *)
From Coq Require Import ZArith List Bool Arith Lia.
From V Require Import Base W64.
Import ListNotations.
Open Scope Z_scope.

Inductive mix_step := XorSar (k : Z) | XorShr (k : Z) | MulC (c : Z).

Definition run_step (x : Z) (s : mix_step) : Z :=
  match s with
  | XorSar k => w_xor x (w_sar x k)          (* x ^ (x >> k) on signed int64: arithmetic shift *)
  | XorShr k => w_xor x (wrap (w_shr x k))   (* logical shift *)
  | MulC c => w_mul x c
  end.
Definition run_steps (steps : list mix_step) (x : Z) : Z := fold_left run_step steps x.

(* _hash_splitmix64: h = seed; for each word: h ^= splitmix(x_i); h = h * mult *)
Definition hash_words (steps : list mix_step) (mult : Z) (seed : Z) (ws : list Z) : Z :=
  fold_left (fun h x => w_mul (w_xor h (run_steps steps x)) mult) ws seed.

(* dot-product hash: (states @ vec_hasher), int64 wrap-around *)
Definition hash_dot (vec : list Z) (s : list Z) : Z :=
  wrap (fold_left Z.add (map (fun '(a, b) => a * b) (combine s vec)) 0).

Inductive hasher :=
| HIdentity                        (* one-word states: the word itself *)
| HSplitmix (seed : Z)             (* bit-encoded states of several words *)
| HDot (vec : list Z).             (* un-encoded states: random dot product *)

Definition make_hash (steps : list mix_step) (mult : Z) (h : hasher) (row : list Z) : Z :=
  match h with
  | HIdentity => nth 0 row 0
  | HSplitmix seed => hash_words steps mult seed row
  | HDot vec => hash_dot vec row
  end.
