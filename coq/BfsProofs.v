(** Correctness of the BFS model (Bfs.v) against the abstract layers of Graph.v. *)
From Coq Require Import ZArith List Bool Arith Lia Permutation Sorted.
From V Require Import Base BaseProofs Tensor TensorProofs Graph GraphProofs GraphImpl Bfs BfsStep.
Import ListNotations.
Local Open Scope nat_scope.

(* ------------------------------------------------------------------ *)
(** * A readable form of one loop iteration *)

Section IterForm.
  Variable G : impl.
  Variable cfg : bfs_cfg.

  Definition hashes_pushed (st : bfs_st) : list (list Z) :=
    if ret_hashes cfg then layer1_h st :: all_h_rev st else all_h_rev st.

  (* state at the "layer2 is empty" break *)
  Definition mk_break (st : bfs_st) : bfs_st :=
    {| it := it st; layer1 := layer1 st; layer1_h := layer1_h st; seen := seen st;
       sizes_rev := sizes_rev st; stored_rev := stored_rev st; all_h_rev := hashes_pushed st;
       e_starts_rev := e_starts_rev st; e_ends_rev := e_ends_rev st; trace_rev := trace_rev st |}.

  Definition next_seen (l2h : list Z) (st : bfs_st) : list (list Z) :=
    if inv_closed G then last2 (seen st ++ [l2h]) else seen st ++ [l2h].

  (* state after accepting the new layer *)
  Definition mk_next (l2 : list state) (l2h : list Z) (st : bfs_st) : bfs_st :=
    {| it := S (it st); layer1 := l2; layer1_h := l2h; seen := next_seen l2h st;
       sizes_rev := length l2 :: sizes_rev st;
       stored_rev := if (lenZ l2 <=? max_store cfg)%Z then (it st, l2) :: stored_rev st else stored_rev st;
       all_h_rev := hashes_pushed st; e_starts_rev := e_starts_rev st; e_ends_rev := e_ends_rev st;
       trace_rev := trace_rev st |}.

  Definition with_trace (st' : bfs_st) (t : nat) : bfs_st :=
    {| it := it st'; layer1 := layer1 st'; layer1_h := layer1_h st'; seen := seen st';
       sizes_rev := sizes_rev st'; stored_rev := stored_rev st'; all_h_rev := all_h_rev st';
       e_starts_rev := e_starts_rev st'; e_ends_rev := e_ends_rev st';
       trace_rev := t :: trace_rev st' |}.

  Definition iter_cont (l2 : list state) (l2h : list Z) (st : bfs_st) : bfs_st + (bfs_st * bool) :=
    if (max_explore cfg <=? lenZ l2)%Z then inr (mk_next l2 l2h st, false)
    else match stop cfg with
         | None => inl (mk_next l2 l2h st)
         | Some f => if f (it st) l2 l2h then inr (with_trace (mk_next l2 l2h st) (it st), false)
                     else inl (with_trace (mk_next l2 l2h st) (it st))
         end.

  Definition iter_tail (l2 : list state) (l2h : list Z) (st : bfs_st) : bfs_st + (bfs_st * bool) :=
    match l2 with
    | [] => inr (mk_break st, true)
    | _ :: _ => iter_cont l2 l2h st
    end.

  Definition edge_st (st : bfs_st) (nbh : list Z) : bfs_st :=
    {| it := it st; layer1 := layer1 st; layer1_h := layer1_h st; seen := seen st;
       sizes_rev := sizes_rev st; stored_rev := stored_rev st; all_h_rev := all_h_rev st;
       e_starts_rev := repeat_list (layer1_h st) (n_gens G) :: e_starts_rev st;
       e_ends_rev := nbh :: e_ends_rev st; trace_rev := trace_rev st |}.

  Definition batched (st : bfs_st) : bool :=
    do_batching cfg && (batch_size cfg <? lenZ (layer1 st))%Z.

  Lemma bfs_iter_eq st :
    bfs_iter G cfg st =
    if batched st then
      iter_tail (fst (expand_batched G cfg st)) (snd (expand_batched G cfg st)) st
    else
      iter_tail (fst (fst (expand_plain G st))) (snd (fst (expand_plain G st)))
                (if ret_edges cfg then edge_st st (snd (expand_plain G st)) else st).
  Proof.
    unfold bfs_iter, batched.
    destruct (do_batching cfg && (batch_size cfg <? lenZ (layer1 st))%Z).
    - destruct (expand_batched G cfg st) as [l2 l2h]. cbn [fst snd].
      destruct l2; reflexivity.
    - destruct (expand_plain G st) as [[l2 l2h] nbh]. cbn [fst snd].
      destruct l2; reflexivity.
  Qed.
End IterForm.

Lemma nonempty_in {A} (l : list A) : l <> [] -> exists a, In a l.
Proof. destruct l as [|a l]; [congruence|]. intros _. exists a. simpl; auto. Qed.

Ltac prj := cbn [it layer1 layer1_h seen sizes_rev stored_rev all_h_rev trace_rev
                 mk_break mk_next with_trace edge_st] in *.

(* ------------------------------------------------------------------ *)
(** * Correctness *)

Section BfsCorrect.
  Variable G : impl.
  Variable cfg : bfs_cfg.
  Variable U : state -> Prop.                         (* the states a run can touch *)
  Hypothesis U_closed : closed state (acts G) U.
  Hypothesis NoColl : forall a b, U a -> U b -> hashf G a = hashf G b -> a = b.
  Hypothesis IdOK : is_identity G = true -> forall a, U a -> unword G (hashf G a) = a.
  Hypothesis Sym : inv_closed G = true -> symmetric_on state (acts G) U.
  Hypothesis batch_pos : (1 <= batch_size cfg)%Z.
  Variable starts : list state.
  Hypothesis starts_U : forall s, In s starts -> U s.
  Hypothesis starts_ne : starts <> [].
  Notation L i := (layer state st_eq_dec (acts G) starts i).
  Local Notation hf := (hashf G).
  Local Notation maxd := (N.to_nat (max_diameter cfg)).

  (** ** Good layers *)

  Definition good (j : nat) (sts : list state) (hs : list Z) : Prop :=
    NoDup sts /\ set_eq sts (L j) /\ StronglySorted Z.lt hs /\ Permutation hs (map hf sts).

  (* a strictly sorted hash list that is the hash image of layer j *)
  Definition HL (j : nat) (lay : list Z) : Prop :=
    StronglySorted Z.lt lay /\ length lay = length (L j) /\
    forall h, In h lay <-> exists t, In t (L j) /\ hf t = h.

  Lemma L_U j t : In t (L j) -> U t.
  Proof. apply layer_in_closed; auto. Qed.

  Lemma good_length j sts hs : good j sts hs -> length sts = length (L j).
  Proof.
    intros (Hnd & Hset & _ & _). apply Permutation_length.
    apply NoDup_Permutation; auto. apply layer_NoDup.
  Qed.

  Lemma good_HL j sts hs : good j sts hs -> HL j hs.
  Proof.
    intros Hg. pose proof (good_length _ _ _ Hg) as Hlen.
    destruct Hg as (Hnd & Hset & Hs & Hp). split; [exact Hs|]. split.
    - rewrite (Permutation_length Hp), map_length. exact Hlen.
    - intros h. split.
      + intros Hh. apply (Permutation_in _ Hp) in Hh. apply in_map_iff in Hh.
        destruct Hh as (t & <- & Ht). exists t. split; auto. apply Hset. exact Ht.
      + intros (t & Ht & <-). apply (Permutation_in _ (Permutation_sym Hp)).
        apply in_map. apply Hset. exact Ht.
  Qed.

  Lemma good_nonempty j sts hs : good j sts hs -> sts <> [] -> L j <> [].
  Proof.
    intros (_ & Hset & _) Hne He. destruct sts as [|a sts]; [congruence|].
    assert (In a (L j)) by (apply Hset; simpl; auto). rewrite He in H. destruct H.
  Qed.

  Lemma good_empty j hs : good j [] hs -> L j = [].
  Proof.
    intros (_ & Hset & _). destruct (L j) as [|a l] eqn:E; auto.
    assert (In a []) by (apply Hset; simpl; auto). destruct H.
  Qed.

  (** ** The remembered hash layers *)

  Definition SeenInv (i : nat) (sn : list (list Z)) : Prop :=
    length sn <= i /\
    (forall k, k < length sn -> HL (i - length sn + k) (nth k sn [])) /\
    length sn = (if inv_closed G then Nat.min i 2 else i).

  Lemma SeenInv_in i sn lay : SeenInv i sn -> In lay sn -> exists j, j < i /\ HL j lay.
  Proof.
    intros (Hle & Hnth & _) Hin. apply (In_nth _ _ []) in Hin. destruct Hin as (k & Hk & <-).
    exists (i - length sn + k). split; [lia | apply Hnth; exact Hk].
  Qed.

  Lemma SeenInv_cover i sn j :
    SeenInv i sn -> j < i -> i - j <= length sn -> exists lay, In lay sn /\ HL j lay.
  Proof.
    intros (Hle & Hnth & _) Hj Hc. exists (nth (j - (i - length sn)) sn []). split.
    - apply nth_In. lia.
    - replace j with (i - length sn + (j - (i - length sn))) at 1 by lia. apply Hnth. lia.
  Qed.

  Lemma SeenInv_sorted i sn lay : SeenInv i sn -> In lay sn -> sortedZ lay.
  Proof.
    intros H Hin. destruct (SeenInv_in _ _ _ H Hin) as (j & _ & Hs & _). apply SSlt_le. exact Hs.
  Qed.

  Lemma SeenInv_next i sn x :
    SeenInv i sn -> HL i x ->
    SeenInv (S i) (if inv_closed G then last2 (sn ++ [x]) else sn ++ [x]).
  Proof.
    intros (Hle & Hnth & Hlen) Hx.
    assert (Happ : length (sn ++ [x]) = S (length sn)) by (rewrite app_length; simpl; lia).
    assert (Hn' : forall k, k < S (length sn) -> HL (S i - S (length sn) + k) (nth k (sn ++ [x]) [])).
    { intros k Hk. destruct (Nat.eq_dec k (length sn)) as [-> | Hne].
      - rewrite app_nth2 by lia. rewrite Nat.sub_diag. simpl nth.
        replace (S i - S (length sn) + length sn) with i by lia. exact Hx.
      - rewrite app_nth1 by lia. replace (S i - S (length sn) + k) with (i - length sn + k) by lia.
        apply Hnth. lia. }
    unfold SeenInv. destruct (inv_closed G).
    - unfold last2. rewrite Happ.
      assert (Hl2 : length (skipn (S (length sn) - 2) (sn ++ [x])) = S (length sn) - (S (length sn) - 2)).
      { rewrite skipn_length, Happ. reflexivity. }
      unfold SeenInv. rewrite Hl2. cbv iota in Hlen |- *. split; [lia|]. split; [|lia].
      intros k Hk. rewrite nth_skipn_add.
      replace (S i - (S (length sn) - (S (length sn) - 2)) + k)
        with (S i - S (length sn) + (S (length sn) - 2 + k)) by lia.
      apply Hn'. lia.
    - unfold SeenInv. rewrite Happ. cbv iota in Hlen |- *. split; [lia|]. split; [exact Hn' | lia].
  Qed.

  (** ** One expansion yields the next true layer *)

  Lemma nbrs_layer l1 i0 t :
    set_eq l1 (L i0) -> (In t (get_neighbors G l1) <-> In t (N state (acts G) (L i0))).
  Proof.
    intros Hset. rewrite get_neighbors_spec, N_spec.
    split; intros (x & g & Hx & Hg & ->); exists x, g; repeat split; auto; apply Hset; auto.
  Qed.

  Lemma N_layer_U i0 t : In t (N state (acts G) (L i0)) -> U t.
  Proof.
    intros H. apply N_spec in H. destruct H as (x & g & Hx & Hg & ->).
    apply U_closed; auto. eapply L_U; eauto.
  Qed.

  Lemma step_good i0 l1 sn l2 l2h :
    set_eq l1 (L i0) -> SeenInv (S i0) sn ->
    NoDup l2 -> Permutation l2h (map hf l2) -> StronglySorted Z.lt l2h ->
    (forall t, In t l2 <->
       In t (get_neighbors G l1) /\ forall lay, In lay sn -> ~ In (hf t) lay) ->
    good (S i0) l2 l2h.
  Proof.
    intros Hl1 Hsn Hnd Hp Hs Hset. split; [exact Hnd|]. split; [|split; assumption].
    intros t. rewrite Hset, layer_succ_spec, (nbrs_layer l1 i0 t Hl1). split.
    - intros [HN Hns]. split; [exact HN|]. intros Hseen.
      assert (Hex : exists j, j < S i0 /\ S i0 - j <= length sn /\ In t (L j)).
      { destruct Hsn as (_ & _ & Hlen). destruct (inv_closed G) eqn:Einv.
        - destruct (window2 state st_eq_dec (acts G) U starts i0 t (Sym eq_refl) U_closed starts_U HN Hseen)
            as [Hin | (j & -> & Hin)].
          + exists i0. repeat split; auto; lia.
          + exists j. repeat split; auto; lia.
        - apply seen_upto_spec in Hseen. destruct Hseen as (k & Hk & Hin).
          exists k. repeat split; auto; lia. }
      destruct Hex as (j & Hj & Hc & Hin).
      destruct (SeenInv_cover _ _ j Hsn Hj Hc) as (lay & Hlay & _ & _ & Himg).
      apply (Hns lay Hlay). apply Himg. exists t. auto.
    - intros [HN Hns]. split; [exact HN|]. intros lay Hlay Hin.
      destruct (SeenInv_in _ _ _ Hsn Hlay) as (j & Hj & _ & _ & Himg).
      apply Himg in Hin. destruct Hin as (t' & Ht' & Heq).
      assert (t' = t).
      { apply NoColl; auto; [eapply L_U; eauto | eapply N_layer_U; eauto]. }
      subst t'. apply Hns. apply seen_upto_spec. exists j. split; [lia | exact Ht'].
  Qed.

  (** ** The loop invariant *)

  Definition HashList (n : nat) (hl : list (list Z)) : Prop :=
    length hl = n /\ forall j, j < n -> HL j (nth j hl []).

  Lemma HashList_snoc n hl x : HashList n hl -> HL n x -> HashList (S n) (hl ++ [x]).
  Proof.
    intros [Hlen Hn] Hx. split; [rewrite app_length; simpl; lia|].
    intros j Hj. destruct (Nat.eq_dec j n) as [-> | Hne].
    - rewrite app_nth2 by lia. rewrite Hlen, Nat.sub_diag. exact Hx.
    - rewrite app_nth1 by lia. apply Hn. lia.
  Qed.

  Record Core (st : bfs_st) : Prop := {
    c_pos : 1 <= it st;
    c_layer : good (it st - 1) (layer1 st) (layer1_h st);
    c_ne : forall j, j < it st -> L j <> [];
    c_seen : SeenInv (it st) (seen st);
    c_sizes : rev (sizes_rev st) = map (fun j => length (L j)) (seq 0 (it st));
    c_stored1 : forall k l, In (k, l) (stored_rev st) -> k < it st /\ NoDup l /\ set_eq l (L k);
    c_stored2 : NoDup (map fst (stored_rev st));
    c_stored3 : forall k, k < it st ->
        ((exists l, In (k, l) (stored_rev st)) <->
         k = 0 \/ (Z.of_nat (length (L k)) <= max_store cfg)%Z);
  }.

  Definition HashesUpto (st : bfs_st) (n : nat) : Prop :=
    if ret_hashes cfg then HashList n (rev (all_h_rev st)) else all_h_rev st = [].

  Definition explore_ok (m : nat) : Prop :=
    forall j, 1 <= j -> j <= m -> (Z.of_nat (length (L j)) < max_explore cfg)%Z.

  Definition TraceIs (st : bfs_st) (m : nat) : Prop :=
    rev (trace_rev st) = seq 1 (match stop cfg with None => 0 | Some _ => m end).

  Definition Inv (st : bfs_st) : Prop :=
    Core st /\ HashesUpto st (it st - 1) /\ TraceIs st (it st - 1) /\ explore_ok (it st - 1).

  Definition BreakT (st : bfs_st) : Prop :=
    Core st /\ HashesUpto st (it st) /\ TraceIs st (it st - 1) /\ explore_ok (it st - 1) /\
    L (it st) = [].

  Definition BreakF (st : bfs_st) : Prop :=
    Core st /\ HashesUpto st (it st - 1) /\ explore_ok (it st - 2) /\
    ((TraceIs st (it st - 2) /\ (max_explore cfg <= Z.of_nat (length (L (it st - 1))))%Z) \/
     (TraceIs st (it st - 1) /\
      exists f, stop cfg = Some f /\ f (it st - 1) (layer1 st) (layer1_h st) = true)).

  Definition Post (i : nat) (r : bfs_st + bfs_st * bool) : Prop :=
    match r with
    | inl st' => Inv st' /\ it st' = S i
    | inr (st', true) => BreakT st' /\ it st' = i
    | inr (st', false) => BreakF st' /\ it st' = S i
    end.

  (** ** Initial state *)

  Lemma L0_in t : In t (L 0) <-> In t starts.
  Proof. rewrite layer_0. apply nodup_In. Qed.

  Lemma L0_ne : L 0 <> [].
  Proof.
    destruct (nonempty_in starts starts_ne) as [s Hs]. intros He.
    assert (In s (L 0)) by (apply L0_in; exact Hs). rewrite He in H. destruct H.
  Qed.

  Lemma init_inv : Inv (bfs_init G starts) /\ it (bfs_init G starts) = 1.
  Proof.
    unfold bfs_init.
    destruct (get_unique_states G starts (hashes G starts)) as [l1 l1h] eqn:E.
    apply (gus_spec G U NoColl IdOK) in E; [|exact starts_U].
    destruct E as (Hnd & Hin & Hal & Hs).
    assert (Hg : good 0 l1 l1h).
    { split; [exact Hnd|]. split; [|split; [exact Hs | rewrite Hal; reflexivity]].
      intros t. rewrite Hin, L0_in. reflexivity. }
    split; [|reflexivity]. split; [|split; [|split]].
    - constructor; prj.
      + lia.
      + exact Hg.
      + intros j Hj. assert (j = 0) by lia. subst j. apply L0_ne.
      + unfold SeenInv. simpl length. split; [lia|]. split.
        * intros k Hk. assert (k = 0) by lia. subst k. simpl. eapply good_HL; eauto.
        * destruct (inv_closed G); reflexivity.
      + simpl. rewrite (good_length _ _ _ Hg). reflexivity.
      + intros k l [H | []]. inversion H; subst k l. split; [lia|]. destruct Hg as (? & ? & _). auto.
      + simpl. constructor; [intros [] | constructor].
      + intros k Hk. assert (k = 0) by lia. subst k. split; [auto|].
        intros _. exists l1. simpl. auto.
    - unfold HashesUpto. prj. destruct (ret_hashes cfg); [|reflexivity].
      split; [reflexivity|]. intros j Hj. simpl in Hj. lia.
    - unfold TraceIs. prj. simpl. destruct (stop cfg); reflexivity.
    - intros j H1 H2. prj. simpl in H2. lia.
  Qed.

  (** ** One iteration preserves the invariant *)

  Lemma core_with_trace st t : Core st -> Core (with_trace st t).
  Proof. intros [H1 H2 H3 H4 H5 H6 H7 H8]. constructor; prj; assumption. Qed.

  Lemma core_mk_break st : Core st -> Core (mk_break cfg st).
  Proof. intros [H1 H2 H3 H4 H5 H6 H7 H8]. constructor; prj; assumption. Qed.

  Lemma core_edge_st st nbh : Core st -> Core (edge_st G st nbh).
  Proof. intros [H1 H2 H3 H4 H5 H6 H7 H8]. constructor; prj; assumption. Qed.

  Lemma inv_edge_st st nbh : Inv st -> Inv (edge_st G st nbh).
  Proof.
    intros (Hc & Hh & Ht & He). split; [apply core_edge_st; exact Hc|].
    unfold HashesUpto, TraceIs in *. prj. auto.
  Qed.

  Lemma core_next st l2 l2h :
    Core st -> good (it st) l2 l2h -> l2 <> [] -> Core (mk_next G cfg l2 l2h st).
  Proof.
    intros Hc Hg Hne. pose proof (good_length _ _ _ Hg) as Hlen.
    destruct Hc as [H1 H2 H3 H4 H5 H6 H7 H8]. constructor; prj.
    - lia.
    - replace (S (it st) - 1) with (it st) by lia. exact Hg.
    - intros j Hj. destruct (Nat.eq_dec j (it st)) as [-> | Hn].
      + eapply good_nonempty; eauto.
      + apply H3. lia.
    - unfold next_seen. apply SeenInv_next; auto. eapply good_HL; eauto.
    - simpl rev. rewrite H5, seq_S, map_app. simpl. rewrite Hlen. reflexivity.
    - intros k l Hin.
      assert (Hcase : (it st, l2) = (k, l) \/ In (k, l) (stored_rev st)).
      { revert Hin. destruct (lenZ l2 <=? max_store cfg)%Z; simpl; tauto. }
      destruct Hcase as [Heq | Hold].
      + inversion Heq; subst k l. split; [lia|]. destruct Hg as (? & ? & _). auto.
      + destruct (H6 k l Hold) as (? & ? & ?). split; [lia | split; assumption].
    - destruct (lenZ l2 <=? max_store cfg)%Z; [|exact H7]. simpl. constructor; [|exact H7].
      intros Hin. apply in_map_iff in Hin. destruct Hin as ([k l] & Hk & Hin). simpl in Hk. subst k.
      apply H6 in Hin. lia.
    - intros k Hk. unfold lenZ. rewrite Hlen.
      destruct (Z.leb_spec (Z.of_nat (length (L (it st)))) (max_store cfg)) as [Hb | Hb].
      + destruct (Nat.eq_dec k (it st)) as [-> | Hn].
        * split; [auto|]. intros _. exists l2. simpl; auto.
        * rewrite <- H8 by lia. split; intros (l & Hin).
          -- destruct Hin as [Heq | Hin]; [inversion Heq; lia | eauto].
          -- exists l. simpl; auto.
      + destruct (Nat.eq_dec k (it st)) as [-> | Hn].
        * split.
          -- intros (l & Hin). apply H6 in Hin. lia.
          -- intros [Hk0 | Hle]; lia.
        * apply H8. lia.
  Qed.

  Lemma hashes_pushed_ok st n :
    HL n (layer1_h st) -> HashesUpto st n ->
    if ret_hashes cfg then HashList (S n) (rev (hashes_pushed cfg st)) else hashes_pushed cfg st = [].
  Proof.
    unfold HashesUpto, hashes_pushed. intros Hx Hh. destruct (ret_hashes cfg); [|exact Hh].
    simpl rev. apply HashList_snoc; auto.
  Qed.

  Lemma iter_cont_post st l2 l2h :
    Inv st -> good (it st) l2 l2h -> l2 <> [] -> Post (it st) (iter_cont G cfg l2 l2h st).
  Proof.
    intros (Hc & Hh & Ht & He) Hg Hne.
    pose proof (core_next st l2 l2h Hc Hg Hne) as Hc'.
    pose proof (good_length _ _ _ Hg) as Hlen.
    pose proof (c_pos _ Hc) as Hpos.
    assert (Hh' : HashesUpto (mk_next G cfg l2 l2h st) (S (it st) - 1)).
    { unfold HashesUpto. prj. replace (S (it st) - 1) with (S (it st - 1)) by lia.
      apply hashes_pushed_ok; auto. eapply good_HL. apply (c_layer _ Hc). }
    assert (He2 : explore_ok (S (it st) - 2)).
    { replace (S (it st) - 2) with (it st - 1) by lia. exact He. }
    unfold iter_cont, Post.
    destruct (Z.leb_spec (max_explore cfg) (lenZ l2)) as [Hb | Hb].
    - (* max_layer_size_to_explore reached *)
      split; [|reflexivity]. split; [exact Hc'|]. prj. split; [exact Hh'|]. split; [exact He2|].
      left. split.
      + unfold TraceIs in *. prj. replace (S (it st) - 2) with (it st - 1) by lia. exact Ht.
      + replace (S (it st) - 1) with (it st) by lia. unfold lenZ in Hb. rewrite Hlen in Hb. exact Hb.
    - assert (He' : explore_ok (S (it st) - 1)).
      { intros j Hj1 Hj2. destruct (Nat.eq_dec j (it st)) as [-> | Hn].
        - unfold lenZ in Hb. rewrite Hlen in Hb. exact Hb.
        - apply He; lia. }
      destruct (stop cfg) as [f|] eqn:Estop.
      + assert (Hc'' : Core (with_trace (mk_next G cfg l2 l2h st) (it st)))
          by (apply core_with_trace; exact Hc').
        assert (Hh'' : HashesUpto (with_trace (mk_next G cfg l2 l2h st) (it st)) (S (it st) - 1)).
        { unfold HashesUpto in *. prj. exact Hh'. }
        assert (Ht'' : TraceIs (with_trace (mk_next G cfg l2 l2h st) (it st)) (S (it st) - 1)).
        { unfold TraceIs in *. prj. rewrite Estop in *. simpl rev. rewrite Ht.
          replace (S (it st) - 1) with (S (it st - 1)) by lia. rewrite seq_S.
          replace (1 + (it st - 1)) with (it st) by lia. reflexivity. }
        destruct (f (it st) l2 l2h) eqn:Ef.
        * split; [|reflexivity]. split; [exact Hc''|]. prj. split; [exact Hh''|]. split; [exact He2|].
          right. split; [exact Ht''|]. exists f. split; [exact Estop|].
          replace (S (it st) - 1) with (it st) by lia. exact Ef.
        * split; [|reflexivity]. split; [exact Hc''|]. prj. split; [exact Hh''|]. split; [exact Ht''|].
          exact He'.
      + split; [|reflexivity]. split; [exact Hc'|]. prj. split; [exact Hh'|]. split; [|exact He'].
        unfold TraceIs in *. prj. rewrite Estop in *. exact Ht.
  Qed.

  Lemma iter_tail_post st l2 l2h :
    Inv st -> good (it st) l2 l2h -> Post (it st) (iter_tail G cfg l2 l2h st).
  Proof.
    intros Hinv Hg. unfold iter_tail. destruct l2 as [|a l2'] eqn:El2.
    - destruct Hinv as (Hc & Hh & Ht & He). pose proof (c_pos _ Hc) as Hpos.
      unfold Post. split; [|reflexivity]. split; [apply core_mk_break; exact Hc|]. prj.
      split; [|split; [|split]].
      + unfold HashesUpto. prj.
        assert (HH : HL (it st - 1) (layer1_h st)) by (eapply good_HL; apply (c_layer _ Hc)).
        pose proof (hashes_pushed_ok st (it st - 1) HH Hh) as HP.
        replace (S (it st - 1)) with (it st) in HP by lia. exact HP.
      + unfold TraceIs in *. prj. exact Ht.
      + exact He.
      + eapply good_empty; eauto.
    - rewrite <- El2 in *. apply iter_cont_post; auto. rewrite El2. discriminate.
  Qed.

  (** ** The expansions compute the next true layer *)

  Lemma inv_layer1_U st : Core st -> forall s, In s (layer1 st) -> U s.
  Proof.
    intros Hc s Hs. destruct (c_layer _ Hc) as (_ & Hset & _). apply Hset in Hs.
    eapply L_U; eauto.
  Qed.

  Lemma inv_seen_sorted st : Core st -> forall lay, In lay (seen st) -> sortedZ lay.
  Proof. intros Hc lay Hl. eapply SeenInv_sorted; [apply (c_seen _ Hc) | exact Hl]. Qed.

  Lemma expand_plain_good st :
    Core st -> good (it st) (fst (fst (expand_plain G st))) (snd (fst (expand_plain G st))).
  Proof.
    intros Hc. destruct (expand_plain G st) as [[l2 l2h] nbh] eqn:E. cbn [fst snd].
    apply (expand_plain_spec G U U_closed NoColl IdOK) in E;
      [|apply inv_layer1_U; exact Hc | apply inv_seen_sorted; exact Hc].
    destruct E as (Hnd & Hal & Hs & Hset).
    pose proof (c_pos _ Hc) as Hpos. pose proof (c_seen _ Hc) as Hsn.
    destruct (c_layer _ Hc) as (_ & Hl1 & _).
    replace (it st) with (S (it st - 1)) in Hsn |- * by lia.
    eapply step_good; eauto. rewrite Hal. reflexivity.
  Qed.

  Lemma expand_batched_good st :
    Core st -> batched cfg st = true ->
    good (it st) (fst (expand_batched G cfg st)) (snd (expand_batched G cfg st)).
  Proof.
    intros Hc Hb. destruct (expand_batched G cfg st) as [l2 l2h] eqn:E. cbn [fst snd].
    pose proof (c_pos _ Hc) as Hpos. pose proof (c_seen _ Hc) as Hsn.
    destruct (c_layer _ Hc) as (_ & Hl1 & _ & Hperm).
    apply (expand_batched_spec G U U_closed NoColl IdOK) in E;
      [|apply inv_layer1_U; exact Hc | apply inv_seen_sorted; exact Hc |].
    - destruct E as (Hnd & Hal & Hs & Hset).
      replace (it st) with (S (it st - 1)) in Hsn |- * by lia.
      eapply step_good; eauto.
    - unfold batched in Hb. apply andb_true_iff in Hb. destruct Hb as [_ Hb].
      apply Z.ltb_lt in Hb. unfold lenZ in *.
      rewrite (Permutation_length Hperm), map_length.
      assert (1 <= (Z.of_nat (length (layer1 st)) + batch_size cfg - 1) / batch_size cfg)%Z.
      { apply Z.div_le_lower_bound; lia. }
      lia.
  Qed.

  Lemma bfs_iter_post st : Inv st -> Post (it st) (bfs_iter G cfg st).
  Proof.
    intros Hinv. rewrite bfs_iter_eq. destruct (batched cfg st) eqn:Eb.
    - apply iter_tail_post; auto. apply expand_batched_good; auto. apply Hinv.
    - pose proof (expand_plain_good st (proj1 Hinv)) as Hg.
      destruct (ret_edges cfg).
      + apply (iter_tail_post (edge_st G st (snd (expand_plain G st)))).
        * apply inv_edge_st. exact Hinv.
        * exact Hg.
      + apply iter_tail_post; auto.
  Qed.

  (** ** The whole loop *)

  Definition LoopPost (i : nat) (n : nat) (r : bfs_st + bfs_st * bool) : Prop :=
    match r with
    | inl st' => Inv st' /\ it st' = i + n
    | inr (st', true) => BreakT st' /\ it st' < i + n
    | inr (st', false) => BreakF st' /\ it st' <= i + n
    end.

  Lemma loop_post n : forall st, Inv st -> LoopPost (it st) n (loop_nat (bfs_iter G cfg) n st).
  Proof.
    induction n as [|n IH]; intros st Hinv.
    - simpl. split; [exact Hinv | lia].
    - cbn [loop_nat]. pose proof (bfs_iter_post st Hinv) as HP.
      destruct (bfs_iter G cfg st) as [st1 | [st1 [|]]]; unfold Post in HP.
      + destruct HP as [H1 H2]. specialize (IH st1 H1). rewrite H2 in IH.
        destruct (loop_nat (bfs_iter G cfg) n st1) as [st2 | [st2 [|]]]; unfold LoopPost in *;
          (split; [tauto | lia]).
      + unfold LoopPost. split; [tauto | lia].
      + unfold LoopPost. split; [tauto | lia].
  Qed.

  (** ** The result record *)

  Lemma bfs_finish_fields st b o :
    bfs_finish cfg st b = Ok o ->
    completed o = b /\ sizes o = rev (sizes_rev st) /\
    layers o = (if b && negb (existsb (fun '(k, _) => k =? length (rev (sizes_rev st)) - 1)
                                      (rev (stored_rev st)))
                then rev (stored_rev st) ++ [(length (rev (sizes_rev st)) - 1, layer1 st)]
                else rev (stored_rev st)) /\
    layer_hashes o = rev (if ret_hashes cfg && negb b then layer1_h st :: all_h_rev st
                          else all_h_rev st) /\
    callback_trace o = rev (trace_rev st).
  Proof.
    unfold bfs_finish. cbv zeta.
    match goal with |- bind ?X _ = _ -> _ => destruct X as [e|e] end; simpl bind; intros H.
    - inversion H; subst o; clear H. cbn [completed sizes layers layer_hashes callback_trace].
      repeat split; reflexivity.
    - discriminate.
  Qed.

  Lemma bfs_finish_true_ok st : exists o, bfs_finish cfg st true = Ok o /\ completed o = true.
  Proof.
    unfold bfs_finish. cbv zeta.
    destruct (ret_edges cfg); [destruct (e_starts_rev st); [|destruct (e_ends_rev st)]|];
      simpl bind; eexists; split; reflexivity.
  Qed.

  (** ** Final states *)

  Definition TraceSome (st : bfs_st) : Prop :=
    exists m, m <= it st - 1 /\ rev (trace_rev st) = seq 1 m.

  Definition FinF (st : bfs_st) : Prop :=
    Core st /\ HashesUpto st (it st - 1) /\ explore_ok (it st - 2) /\ TraceSome st /\
    it st - 1 <= maxd /\
    (it st - 1 = maxd \/
     (max_explore cfg <= Z.of_nat (length (L (it st - 1))))%Z \/
     exists f, stop cfg = Some f /\ f (it st - 1) (layer1 st) (layer1_h st) = true).

  Definition FinT (st : bfs_st) : Prop :=
    Core st /\ HashesUpto st (it st) /\ explore_ok (it st - 1) /\ TraceSome st /\
    it st - 1 <= maxd /\ L (it st) = [].

  Lemma TraceIs_some st m : TraceIs st m -> m <= it st - 1 -> TraceSome st.
  Proof.
    unfold TraceIs, TraceSome. intros H Hm. destruct (stop cfg).
    - exists m. auto.
    - exists 0. split; [lia | exact H].
  Qed.

  Lemma loop_final :
    match loop_N (bfs_iter G cfg) (max_diameter cfg) (bfs_init G starts) with
    | inl st => FinF st
    | inr (st, true) => FinT st
    | inr (st, false) => FinF st
    end.
  Proof.
    rewrite loop_N_nat. destruct init_inv as [Hinv Hit].
    pose proof (loop_post maxd _ Hinv) as HP. rewrite Hit in HP.
    destruct (loop_nat (bfs_iter G cfg) maxd (bfs_init G starts)) as [st | [st [|]]];
      unfold LoopPost in HP.
    - destruct HP as [(Hc & Hh & Ht & He) Hi]. split; [exact Hc|]. split; [exact Hh|]. split.
      { intros j H1 H2. apply He; lia. }
      split; [eapply TraceIs_some; eauto|]. split; [lia|]. left. lia.
    - destruct HP as [(Hc & Hh & Ht & He & HL0) Hi]. split; [exact Hc|]. split; [exact Hh|].
      split; [exact He|]. split; [eapply TraceIs_some; eauto|]. split; [lia | exact HL0].
    - destruct HP as [(Hc & Hh & He & Hd) Hi]. split; [exact Hc|]. split; [exact Hh|].
      split; [exact He|]. split; [|split; [lia|]].
      + destruct Hd as [[Ht _] | [Ht _]]; eapply TraceIs_some; eauto; lia.
      + destruct Hd as [[_ Hm] | [_ Hf]]; auto.
  Qed.

  (** ** The documented contract *)

  Definition prefix_spec (o : bfs_out) : Prop :=
    let D := length (sizes o) in
    1 <= D /\
    sizes o = map (fun i => length (L i)) (seq 0 D) /\
    (forall i, i < D -> L i <> []) /\
    (D - 1 <= N.to_nat (max_diameter cfg))%nat /\
    (completed o = true -> L D = []) /\
    (completed o = false ->
        (D - 1 = N.to_nat (max_diameter cfg))%nat
        \/ (max_explore cfg <= Z.of_nat (length (L (D - 1))))%Z
        \/ (exists f l lh, stop cfg = Some f /\ f (D - 1)%nat l lh = true /\ set_eq l (L (D - 1)))) /\
    (forall j, (1 <= j)%nat -> (j < D - 1)%nat -> (Z.of_nat (length (L j)) < max_explore cfg)%Z) /\
    (forall k l, In (k, l) (layers o) -> (k < D)%nat /\ NoDup l /\ set_eq l (L k)) /\
    NoDup (map fst (layers o)) /\
    (forall k, (k < D)%nat ->
        ((exists l, In (k, l) (layers o)) <->
         k = 0%nat \/ (Z.of_nat (length (L k)) <= max_store cfg)%Z \/ (completed o = true /\ k = (D - 1)%nat))) /\
    (ret_hashes cfg = false -> layer_hashes o = []) /\
    (ret_hashes cfg = true -> length (layer_hashes o) = D /\
        forall i, (i < D)%nat ->
          let hs := nth i (layer_hashes o) [] in
          StronglySorted Z.lt hs /\ length hs = length (L i) /\
          (forall h, In h hs <-> exists t, In t (L i) /\ hashf G t = h)) /\
    callback_trace o = seq 1 (length (callback_trace o)) /\ (length (callback_trace o) <= D - 1)%nat.

  Lemma core_D st : Core st -> length (rev (sizes_rev st)) = it st.
  Proof. intros Hc. rewrite (c_sizes _ Hc), map_length, seq_length. reflexivity. Qed.

  Lemma finish_false st o : FinF st -> bfs_finish cfg st false = Ok o -> prefix_spec o.
  Proof.
    intros (Hc & Hh & He & (m & Hm & Htr) & Hd & Hwhy) Hfin.
    apply bfs_finish_fields in Hfin. destruct Hfin as (Hcomp & Hsz & Hlay & Hlh & Hct).
    cbn [andb negb] in Hlay, Hlh. rewrite andb_true_r in Hlh.
    pose proof (core_D st Hc) as HD. pose proof (c_pos _ Hc) as Hpos.
    unfold prefix_spec. rewrite Hsz, HD, Hcomp, Hlay, Hlh, Hct. cbv zeta.
    split; [exact Hpos|]. split; [apply (c_sizes _ Hc)|]. split; [apply (c_ne _ Hc)|].
    split; [exact Hd|]. split; [discriminate|]. split.
    { intros _. destruct Hwhy as [H | [H | (f & Hf & Hft)]]; auto.
      right. right. exists f, (layer1 st), (layer1_h st). split; [exact Hf|]. split; [exact Hft|].
      destruct (c_layer _ Hc) as (_ & Hset & _). exact Hset. }
    split. { intros j H1 H2. apply He; lia. }
    split. { intros k l Hin. apply in_rev in Hin. apply (c_stored1 _ Hc). exact Hin. }
    split. { rewrite map_rev. apply NoDup_rev. apply (c_stored2 _ Hc). }
    split.
    { intros k Hk. pose proof (c_stored3 _ Hc k Hk) as H3. split.
      - intros (l & Hin). apply in_rev in Hin.
        assert (Hex : exists l, In (k, l) (stored_rev st)) by eauto. apply H3 in Hex. tauto.
      - intros Hor. assert (Hor' : k = 0 \/ (Z.of_nat (length (L k)) <= max_store cfg)%Z).
        { destruct Hor as [H | [H | [Hx _]]]; [auto | auto | discriminate]. }
        apply H3 in Hor'. destruct Hor' as (l & Hin). exists l. apply in_rev in Hin. exact Hin. }
    unfold HashesUpto in Hh. split.
    { intros Hr. rewrite Hr in *. rewrite Hh. reflexivity. }
    split.
    { intros Hr. rewrite Hr in *. simpl rev.
      assert (HH : HL (it st - 1) (layer1_h st)) by (eapply good_HL; apply (c_layer _ Hc)).
      pose proof (HashList_snoc _ _ _ Hh HH) as HS.
      replace (S (it st - 1)) with (it st) in HS by lia. exact HS. }
    rewrite Htr, seq_length. split; [reflexivity | exact Hm].
  Qed.

  Lemma existsb_key (stored : list (nat * list state)) (n : nat) :
    existsb (fun '(k, _) => k =? n) stored = true <-> In n (map fst stored).
  Proof.
    rewrite existsb_exists, in_map_iff. split.
    - intros ([k l] & Hin & Hk). apply Nat.eqb_eq in Hk. subst k. exists (n, l). auto.
    - intros ([k l] & Hk & Hin). simpl in Hk. subst k. exists (n, l). split; auto.
      apply Nat.eqb_refl.
  Qed.

  Lemma finish_true st o : FinT st -> bfs_finish cfg st true = Ok o -> prefix_spec o.
  Proof.
    intros (Hc & Hh & He & (m & Hm & Htr) & Hd & Hempty) Hfin.
    apply bfs_finish_fields in Hfin. destruct Hfin as (Hcomp & Hsz & Hlay & Hlh & Hct).
    cbn [andb negb] in Hlay, Hlh. rewrite andb_false_r in Hlh.
    pose proof (core_D st Hc) as HD. pose proof (c_pos _ Hc) as Hpos.
    rewrite HD in Hlay.
    destruct (c_layer _ Hc) as (Hnd1 & Hset1 & _).
    unfold prefix_spec. rewrite Hsz, HD, Hcomp, Hlh, Hct. cbv zeta.
    split; [exact Hpos|]. split; [apply (c_sizes _ Hc)|]. split; [apply (c_ne _ Hc)|].
    split; [exact Hd|]. split; [intros _; exact Hempty|]. split; [discriminate|].
    split. { intros j H1 H2. apply He; lia. }
    (* the stored layers *)
    assert (Hlayers :
      (forall k l, In (k, l) (layers o) -> k < it st /\ NoDup l /\ set_eq l (L k)) /\
      NoDup (map fst (layers o)) /\
      (forall k, k < it st ->
        ((exists l, In (k, l) (layers o)) <->
         k = 0 \/ (Z.of_nat (length (L k)) <= max_store cfg)%Z \/ (true = true /\ k = it st - 1)))).
    { rewrite Hlay.
      destruct (existsb (fun '(k, _) => k =? it st - 1) (rev (stored_rev st))) eqn:Eex; cbn [negb].
      - apply existsb_key in Eex. rewrite map_rev, <- in_rev in Eex.
        split; [|split].
        + intros k l Hin. apply in_rev in Hin. apply (c_stored1 _ Hc). exact Hin.
        + rewrite map_rev. apply NoDup_rev. apply (c_stored2 _ Hc).
        + intros k Hk. pose proof (c_stored3 _ Hc k Hk) as H3. split.
          * intros (l & Hin). apply in_rev in Hin.
            assert (Hex : exists l, In (k, l) (stored_rev st)) by eauto. apply H3 in Hex. tauto.
          * intros Hor.
            assert (Hex : exists l, In (k, l) (stored_rev st)).
            { destruct Hor as [H | [H | [_ H]]]; [apply H3; auto | apply H3; auto |].
              subst k. apply in_map_iff in Eex. destruct Eex as ([k l] & Hk' & Hin).
              simpl in Hk'. subst k. eauto. }
            destruct Hex as (l & Hin). exists l. apply in_rev in Hin. exact Hin.
      - assert (Hnot : ~ In (it st - 1) (map fst (stored_rev st))).
        { intros Hin. rewrite in_rev, <- map_rev in Hin. apply existsb_key in Hin. congruence. }
        split; [|split].
        + intros k l Hin. apply in_app_iff in Hin. destruct Hin as [Hin | [Heq | []]].
          * apply in_rev in Hin. apply (c_stored1 _ Hc). exact Hin.
          * inversion Heq; subst k l. split; [lia | split; assumption].
        + rewrite map_app, map_rev. simpl map. apply NoDup_app_intro.
          * apply NoDup_rev. apply (c_stored2 _ Hc).
          * constructor; [intros [] | constructor].
          * intros t Ht1 [<- | []]. apply in_rev in Ht1. contradiction.
        + intros k Hk. pose proof (c_stored3 _ Hc k Hk) as H3. split.
          * intros (l & Hin). apply in_app_iff in Hin. destruct Hin as [Hin | [Heq | []]].
            -- apply in_rev in Hin.
               assert (Hex : exists l, In (k, l) (stored_rev st)) by eauto. apply H3 in Hex. tauto.
            -- inversion Heq. auto.
          * intros [H | [H | [_ H]]].
            -- destruct (proj2 H3 (or_introl H)) as (l & Hin). exists l.
               apply in_app_iff. left. apply in_rev in Hin. exact Hin.
            -- destruct (proj2 H3 (or_intror H)) as (l & Hin). exists l.
               apply in_app_iff. left. apply in_rev in Hin. exact Hin.
            -- subst k. exists (layer1 st). apply in_app_iff. right. simpl. auto. }
    destruct Hlayers as (HA & HB & HC).
    split; [exact HA|]. split; [exact HB|]. split; [exact HC|].
    unfold HashesUpto in Hh. split.
    { intros Hr. rewrite Hr in *. rewrite Hh. reflexivity. }
    split.
    { intros Hr. rewrite Hr in *. exact Hh. }
    rewrite Htr, seq_length. split; [reflexivity | exact Hm].
  Qed.

  (** ** Main theorems *)

  Lemma bfs_prefix_aux o : bfs G cfg starts = Ok o -> prefix_spec o.
  Proof.
    unfold bfs. pose proof loop_final as HF.
    destruct (loop_N (bfs_iter G cfg) (max_diameter cfg) (bfs_init G starts)) as [st | [st [|]]].
    - apply finish_false. exact HF.
    - apply finish_true. exact HF.
    - apply finish_false. exact HF.
  Qed.

  (* C09: whatever the limits, the result is the documented prefix of the true layers *)
  Theorem bfs_prefix o : bfs G cfg starts = Ok o ->
    let D := length (sizes o) in
    1 <= D /\
    sizes o = map (fun i => length (L i)) (seq 0 D) /\
    (forall i, i < D -> L i <> []) /\
    (D - 1 <= N.to_nat (max_diameter cfg))%nat /\
    (completed o = true -> L D = []) /\
    (completed o = false ->
        (D - 1 = N.to_nat (max_diameter cfg))%nat
        \/ (max_explore cfg <= Z.of_nat (length (L (D - 1))))%Z
        \/ (exists f l lh, stop cfg = Some f /\ f (D - 1)%nat l lh = true /\ set_eq l (L (D - 1)))) /\
    (forall j, (1 <= j)%nat -> (j < D - 1)%nat -> (Z.of_nat (length (L j)) < max_explore cfg)%Z) /\
    (* stored layers are the true layers, stored exactly per the threshold rule *)
    (forall k l, In (k, l) (layers o) -> (k < D)%nat /\ NoDup l /\ set_eq l (L k)) /\
    NoDup (map fst (layers o)) /\
    (forall k, (k < D)%nat ->
        ((exists l, In (k, l) (layers o)) <->
         k = 0%nat \/ (Z.of_nat (length (L k)) <= max_store cfg)%Z \/ (completed o = true /\ k = (D - 1)%nat))) /\
    (* per-layer hashes: one strictly sorted list per reported layer, the hashes of exactly that layer *)
    (ret_hashes cfg = false -> layer_hashes o = []) /\
    (ret_hashes cfg = true -> length (layer_hashes o) = D /\
        forall i, (i < D)%nat ->
          let hs := nth i (layer_hashes o) [] in
          StronglySorted Z.lt hs /\ length hs = length (L i) /\
          (forall h, In h hs <-> exists t, In t (L i) /\ hashf G t = h)) /\
    (* the callback is called on layers 1,2,... in order, once each *)
    callback_trace o = seq 1 (length (callback_trace o)) /\ (length (callback_trace o) <= D - 1)%nat.
  Proof. exact (bfs_prefix_aux o). Qed.

  (* C01: an exhaustive run *)
  Corollary bfs_completed_correct o : bfs G cfg starts = Ok o -> completed o = true ->
    let D := length (sizes o) in
    sizes o = map (fun i => length (L i)) (seq 0 D) /\ (forall i, (i < D)%nat -> L i <> []) /\
    (forall i, (D <= i)%nat -> L i = []) /\                         (* nothing lies beyond: D-1 is the eccentricity *)
    (forall k l, In (k, l) (layers o) -> NoDup l /\ set_eq l (L k)) /\
    (exists l, In ((D - 1)%nat, l) (layers o)) /\ (exists l, In (0%nat, l) (layers o)).
  Proof.
    intros Hb Hcomp. pose proof (bfs_prefix o Hb) as HP. cbv zeta in *.
    destruct HP as (H1 & H2 & H3 & _ & H5 & _ & _ & H8 & _ & H10 & _).
    split; [exact H2|]. split; [exact H3|]. split.
    { intros i Hi. eapply empty_layer_stays; [apply H5; exact Hcomp | exact Hi]. }
    split. { intros k l Hin. apply H8 in Hin. tauto. }
    split.
    - apply H10; [lia|]. right. right. auto.
    - apply H10; [lia|]. left. reflexivity.
  Qed.

  (* C01: termination with completion when no limit can fire *)
  Theorem bfs_completes :
    stop cfg = None -> (forall i, (Z.of_nat (length (L i)) < max_explore cfg)%Z) ->
    (exists d, (d <= N.to_nat (max_diameter cfg))%nat /\ L d = []) ->
    exists o, bfs G cfg starts = Ok o /\ completed o = true.
  Proof.
    intros Hstop Hexp (d & Hd & Hempty). unfold bfs. pose proof loop_final as HF.
    destruct (loop_N (bfs_iter G cfg) (max_diameter cfg) (bfs_init G starts)) as [st | [st [|]]].
    - exfalso. destruct HF as (Hc & _ & _ & _ & Hle & Hwhy).
      pose proof (c_pos _ Hc) as Hpos.
      destruct Hwhy as [H | [H | (f & Hf & _)]].
      + apply (c_ne _ Hc (it st - 1)); [lia|].
        eapply empty_layer_stays; [exact Hempty | lia].
      + specialize (Hexp (it st - 1)). lia.
      + congruence.
    - apply bfs_finish_true_ok.
    - exfalso. destruct HF as (Hc & _ & _ & _ & Hle & Hwhy).
      pose proof (c_pos _ Hc) as Hpos.
      destruct Hwhy as [H | [H | (f & Hf & _)]].
      + apply (c_ne _ Hc (it st - 1)); [lia|].
        eapply empty_layer_stays; [exact Hempty | lia].
      + specialize (Hexp (it st - 1)). lia.
      + congruence.
  Qed.
End BfsCorrect.

(* C01: the answer does not depend on the internal configuration (hash, batch size, options): two runs
   on instances with the same generator actions that both complete report the same sizes and the
   same layer sets *)
Theorem bfs_config_independent G1 G2 cfg1 cfg2 U starts o1 o2 :
  acts G1 = acts G2 ->
  (* the Section hypotheses for (G1, cfg1, U) *)
  closed state (acts G1) U ->
  (forall a b, U a -> U b -> hashf G1 a = hashf G1 b -> a = b) ->
  (is_identity G1 = true -> forall a, U a -> unword G1 (hashf G1 a) = a) ->
  (inv_closed G1 = true -> symmetric_on state (acts G1) U) ->
  (1 <= batch_size cfg1)%Z ->
  (* the Section hypotheses for (G2, cfg2, U) *)
  closed state (acts G2) U ->
  (forall a b, U a -> U b -> hashf G2 a = hashf G2 b -> a = b) ->
  (is_identity G2 = true -> forall a, U a -> unword G2 (hashf G2 a) = a) ->
  (inv_closed G2 = true -> symmetric_on state (acts G2) U) ->
  (1 <= batch_size cfg2)%Z ->
  (forall s, In s starts -> U s) -> starts <> [] ->
  bfs G1 cfg1 starts = Ok o1 -> bfs G2 cfg2 starts = Ok o2 ->
  completed o1 = true -> completed o2 = true ->
  sizes o1 = sizes o2 /\
  forall k l1 l2, In (k, l1) (layers o1) -> In (k, l2) (layers o2) -> set_eq l1 l2.
Proof.
  intros Hacts C1 N1 I1 S1 B1 C2 N2 I2 S2 B2 HU Hne R1 R2 K1 K2.
  pose proof (bfs_completed_correct G1 cfg1 U C1 N1 I1 S1 B1 starts HU Hne o1 R1 K1) as P1.
  pose proof (bfs_completed_correct G2 cfg2 U C2 N2 I2 S2 B2 starts HU Hne o2 R2 K2) as P2.
  pose proof (bfs_prefix G1 cfg1 U C1 N1 I1 S1 B1 starts HU Hne o1 R1) as Q1.
  pose proof (bfs_prefix G2 cfg2 U C2 N2 I2 S2 B2 starts HU Hne o2 R2) as Q2.
  cbv zeta in *. rewrite <- Hacts in *.
  destruct Q1 as (D1pos & _). destruct Q2 as (D2pos & _).
  destruct P1 as (Hs1 & Hn1 & He1 & Hl1 & _). destruct P2 as (Hs2 & Hn2 & He2 & Hl2 & _).
  assert (HD : length (sizes o1) = length (sizes o2)).
  { destruct (lt_eq_lt_dec (length (sizes o1)) (length (sizes o2))) as [[Hlt | Heq] | Hgt]; auto.
    - exfalso. apply (Hn2 (length (sizes o1)) Hlt). apply He1. lia.
    - exfalso. apply (Hn1 (length (sizes o2)) Hgt). apply He2. lia. }
  split.
  - rewrite Hs1, Hs2, HD. reflexivity.
  - intros k l1 l2 H1 H2 t. destruct (Hl1 k l1 H1) as [_ E1]. destruct (Hl2 k l2 H2) as [_ E2].
    rewrite (E1 t), (E2 t). reflexivity.
Qed.

Print Assumptions bfs_prefix.
Print Assumptions bfs_completed_correct.
Print Assumptions bfs_completes.
Print Assumptions bfs_config_independent.
