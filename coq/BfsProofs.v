(** Correctness of the BFS model (Bfs.v) against the abstract layers of Graph.v. *)
From Coq Require Import ZArith List Bool Arith Lia Permutation Sorted.
From V Require Import Base BaseProofs Tensor TensorProofs Graph GraphProofs GraphImpl Bfs BfsStep.
Import ListNotations.
Local Open Scope nat_scope.

(* ------------------------------------------------------------------ *)
(** * A readable form of one loop iteration *)

Section IterForm.
  Variable G : impl.
  Variable cfg : bfs_cfg.

  Definition hashes_pushed (st : bfs_st) : list (list Z) :=
    if ret_hashes cfg then layer1_h st :: all_h_rev st else all_h_rev st.

  (* state at the "layer2 is empty" break *)
  Definition mk_break (st : bfs_st) : bfs_st :=
    {| it := it st; layer1 := layer1 st; layer1_h := layer1_h st; seen := seen st;
       sizes_rev := sizes_rev st; stored_rev := stored_rev st; all_h_rev := hashes_pushed st;
       e_starts_rev := e_starts_rev st; e_ends_rev := e_ends_rev st; trace_rev := trace_rev st |}.

  Definition next_seen (l2h : list Z) (st : bfs_st) : list (list Z) :=
    if inv_closed G then last2 (seen st ++ [l2h]) else seen st ++ [l2h].

  (* state after accepting the new layer *)
  Definition mk_next (l2 : list state) (l2h : list Z) (st : bfs_st) : bfs_st :=
    {| it := S (it st); layer1 := l2; layer1_h := l2h; seen := next_seen l2h st;
       sizes_rev := length l2 :: sizes_rev st;
       stored_rev := if (lenZ l2 <=? max_store cfg)%Z then (it st, l2) :: stored_rev st else stored_rev st;
       all_h_rev := hashes_pushed st; e_starts_rev := e_starts_rev st; e_ends_rev := e_ends_rev st;
       trace_rev := trace_rev st |}.

  Definition with_trace (st' : bfs_st) (t : nat) : bfs_st :=
    {| it := it st'; layer1 := layer1 st'; layer1_h := layer1_h st'; seen := seen st';
       sizes_rev := sizes_rev st'; stored_rev := stored_rev st'; all_h_rev := all_h_rev st';
       e_starts_rev := e_starts_rev st'; e_ends_rev := e_ends_rev st';
       trace_rev := t :: trace_rev st' |}.

  Definition iter_cont (l2 : list state) (l2h : list Z) (st : bfs_st) : bfs_st + (bfs_st * bool) :=
    if (max_explore cfg <=? lenZ l2)%Z then inr (mk_next l2 l2h st, false)
    else match stop cfg with
         | None => inl (mk_next l2 l2h st)
         | Some f => if f (it st) l2 l2h then inr (with_trace (mk_next l2 l2h st) (it st), false)
                     else inl (with_trace (mk_next l2 l2h st) (it st))
         end.

  Definition iter_tail (l2 : list state) (l2h : list Z) (st : bfs_st) : bfs_st + (bfs_st * bool) :=
    match l2 with
    | [] => inr (mk_break st, true)
    | _ :: _ => iter_cont l2 l2h st
    end.

  Definition edge_st (st : bfs_st) (nbh : list Z) : bfs_st :=
    {| it := it st; layer1 := layer1 st; layer1_h := layer1_h st; seen := seen st;
       sizes_rev := sizes_rev st; stored_rev := stored_rev st; all_h_rev := all_h_rev st;
       e_starts_rev := repeat_list (layer1_h st) (n_gens G) :: e_starts_rev st;
       e_ends_rev := nbh :: e_ends_rev st; trace_rev := trace_rev st |}.

  Definition batched (st : bfs_st) : bool :=
    do_batching cfg && (batch_size cfg <? lenZ (layer1 st))%Z.

  Lemma bfs_iter_eq st :
    bfs_iter G cfg st =
    if batched st then
      iter_tail (fst (expand_batched G cfg st)) (snd (expand_batched G cfg st)) st
    else
      iter_tail (fst (fst (expand_plain G st))) (snd (fst (expand_plain G st)))
                (if ret_edges cfg then edge_st st (snd (expand_plain G st)) else st).
  Proof.
    unfold bfs_iter, batched.
    destruct (do_batching cfg && (batch_size cfg <? lenZ (layer1 st))%Z).
    - destruct (expand_batched G cfg st) as [l2 l2h]. cbn [fst snd].
      destruct l2; reflexivity.
    - destruct (expand_plain G st) as [[l2 l2h] nbh]. cbn [fst snd].
      destruct l2; reflexivity.
  Qed.
End IterForm.

Ltac prj := cbn [it layer1 layer1_h seen sizes_rev stored_rev all_h_rev trace_rev
                 mk_break mk_next with_trace edge_st] in *.

(* ------------------------------------------------------------------ *)
(** * Correctness *)

Section BfsCorrect.
  Variable G : impl.
  Variable cfg : bfs_cfg.
  Variable U : state -> Prop.                         (* the states a run can touch *)
  Hypothesis U_closed : closed state (acts G) U.
  Hypothesis NoColl : forall a b, U a -> U b -> hashf G a = hashf G b -> a = b.
  Hypothesis IdOK : is_identity G = true -> forall a, U a -> unword G (hashf G a) = a.
  Hypothesis Sym : inv_closed G = true -> symmetric_on state (acts G) U.
  Hypothesis batch_pos : (1 <= batch_size cfg)%Z.
  Variable starts : list state.
  Hypothesis starts_U : forall s, In s starts -> U s.
  Hypothesis starts_ne : starts <> [].
  Notation L i := (layer state st_eq_dec (acts G) starts i).
  Local Notation hf := (hashf G).
  Local Notation maxd := (N.to_nat (max_diameter cfg)).

  (** ** Good layers *)

  Definition good (j : nat) (sts : list state) (hs : list Z) : Prop :=
    NoDup sts /\ set_eq sts (L j) /\ StronglySorted Z.lt hs /\ Permutation hs (map hf sts).

  (* a strictly sorted hash list that is the hash image of layer j *)
  Definition HL (j : nat) (lay : list Z) : Prop :=
    StronglySorted Z.lt lay /\ length lay = length (L j) /\
    forall h, In h lay <-> exists t, In t (L j) /\ hf t = h.

  Lemma L_U j t : In t (L j) -> U t.
  Proof. apply layer_in_closed; auto. Qed.

  Lemma good_length j sts hs : good j sts hs -> length sts = length (L j).
  Proof.
    intros (Hnd & Hset & _ & _). apply Permutation_length.
    apply NoDup_Permutation; auto. apply layer_NoDup.
  Qed.

  Lemma good_HL j sts hs : good j sts hs -> HL j hs.
  Proof.
    intros Hg. pose proof (good_length _ _ _ Hg) as Hlen.
    destruct Hg as (Hnd & Hset & Hs & Hp). split; [exact Hs|]. split.
    - rewrite (Permutation_length Hp), map_length. exact Hlen.
    - intros h. split.
      + intros Hh. apply (Permutation_in _ Hp) in Hh. apply in_map_iff in Hh.
        destruct Hh as (t & <- & Ht). exists t. split; auto. apply Hset. exact Ht.
      + intros (t & Ht & <-). apply (Permutation_in _ (Permutation_sym Hp)).
        apply in_map. apply Hset. exact Ht.
  Qed.

  Lemma good_nonempty j sts hs : good j sts hs -> sts <> [] -> L j <> [].
  Proof.
    intros (_ & Hset & _) Hne He. destruct sts as [|a sts]; [congruence|].
    assert (In a (L j)) by (apply Hset; simpl; auto). rewrite He in H. destruct H.
  Qed.

  Lemma good_empty j hs : good j [] hs -> L j = [].
  Proof.
    intros (_ & Hset & _). destruct (L j) as [|a l] eqn:E; auto.
    assert (In a []) by (apply Hset; simpl; auto). destruct H.
  Qed.

  (** ** The remembered hash layers *)

  Definition SeenInv (i : nat) (sn : list (list Z)) : Prop :=
    length sn <= i /\
    (forall k, k < length sn -> HL (i - length sn + k) (nth k sn [])) /\
    length sn = (if inv_closed G then Nat.min i 2 else i).

  Lemma SeenInv_in i sn lay : SeenInv i sn -> In lay sn -> exists j, j < i /\ HL j lay.
  Proof.
    intros (Hle & Hnth & _) Hin. apply (In_nth _ _ []) in Hin. destruct Hin as (k & Hk & <-).
    exists (i - length sn + k). split; [lia | apply Hnth; exact Hk].
  Qed.

  Lemma SeenInv_cover i sn j :
    SeenInv i sn -> j < i -> i - j <= length sn -> exists lay, In lay sn /\ HL j lay.
  Proof.
    intros (Hle & Hnth & _) Hj Hc. exists (nth (j - (i - length sn)) sn []). split.
    - apply nth_In. lia.
    - replace j with (i - length sn + (j - (i - length sn))) at 1 by lia. apply Hnth. lia.
  Qed.

  Lemma SeenInv_sorted i sn lay : SeenInv i sn -> In lay sn -> sortedZ lay.
  Proof.
    intros H Hin. destruct (SeenInv_in _ _ _ H Hin) as (j & _ & Hs & _). apply SSlt_le. exact Hs.
  Qed.

  Lemma SeenInv_next i sn x :
    SeenInv i sn -> HL i x ->
    SeenInv (S i) (if inv_closed G then last2 (sn ++ [x]) else sn ++ [x]).
  Proof.
    intros (Hle & Hnth & Hlen) Hx.
    assert (Happ : length (sn ++ [x]) = S (length sn)) by (rewrite app_length; simpl; lia).
    assert (Hn' : forall k, k < S (length sn) -> HL (S i - S (length sn) + k) (nth k (sn ++ [x]) [])).
    { intros k Hk. destruct (Nat.eq_dec k (length sn)) as [-> | Hne].
      - rewrite app_nth2 by lia. rewrite Nat.sub_diag. simpl nth.
        replace (S i - S (length sn) + length sn) with i by lia. exact Hx.
      - rewrite app_nth1 by lia. replace (S i - S (length sn) + k) with (i - length sn + k) by lia.
        apply Hnth. lia. }
    unfold SeenInv. destruct (inv_closed G).
    - unfold last2. rewrite Happ.
      assert (Hl2 : length (skipn (S (length sn) - 2) (sn ++ [x])) = S (length sn) - (S (length sn) - 2)).
      { rewrite skipn_length, Happ. reflexivity. }
      unfold SeenInv. rewrite Hl2. cbv iota in Hlen |- *. split; [lia|]. split; [|lia].
      intros k Hk. rewrite nth_skipn_add.
      replace (S i - (S (length sn) - (S (length sn) - 2)) + k)
        with (S i - S (length sn) + (S (length sn) - 2 + k)) by lia.
      apply Hn'. lia.
    - unfold SeenInv. rewrite Happ. cbv iota in Hlen |- *. split; [lia|]. split; [exact Hn' | lia].
  Qed.

  (** ** One expansion yields the next true layer *)

  Lemma nbrs_layer l1 i0 t :
    set_eq l1 (L i0) -> (In t (get_neighbors G l1) <-> In t (N state (acts G) (L i0))).
  Proof.
    intros Hset. rewrite get_neighbors_spec, N_spec.
    split; intros (x & g & Hx & Hg & ->); exists x, g; repeat split; auto; apply Hset; auto.
  Qed.

  Lemma N_layer_U i0 t : In t (N state (acts G) (L i0)) -> U t.
  Proof.
    intros H. apply N_spec in H. destruct H as (x & g & Hx & Hg & ->).
    apply U_closed; auto. eapply L_U; eauto.
  Qed.

  Lemma step_good i0 l1 sn l2 l2h :
    set_eq l1 (L i0) -> SeenInv (S i0) sn ->
    NoDup l2 -> Permutation l2h (map hf l2) -> StronglySorted Z.lt l2h ->
    (forall t, In t l2 <->
       In t (get_neighbors G l1) /\ forall lay, In lay sn -> ~ In (hf t) lay) ->
    good (S i0) l2 l2h.
  Proof.
    intros Hl1 Hsn Hnd Hp Hs Hset. split; [exact Hnd|]. split; [|split; assumption].
    intros t. rewrite Hset, layer_succ_spec, (nbrs_layer l1 i0 t Hl1). split.
    - intros [HN Hns]. split; [exact HN|]. intros Hseen.
      assert (Hex : exists j, j < S i0 /\ S i0 - j <= length sn /\ In t (L j)).
      { destruct Hsn as (_ & _ & Hlen). destruct (inv_closed G) eqn:Einv.
        - destruct (window2 state st_eq_dec (acts G) U starts i0 t (Sym eq_refl) U_closed starts_U HN Hseen)
            as [Hin | (j & -> & Hin)].
          + exists i0. repeat split; auto; lia.
          + exists j. repeat split; auto; lia.
        - apply seen_upto_spec in Hseen. destruct Hseen as (k & Hk & Hin).
          exists k. repeat split; auto; lia. }
      destruct Hex as (j & Hj & Hc & Hin).
      destruct (SeenInv_cover _ _ j Hsn Hj Hc) as (lay & Hlay & _ & _ & Himg).
      apply (Hns lay Hlay). apply Himg. exists t. auto.
    - intros [HN Hns]. split; [exact HN|]. intros lay Hlay Hin.
      destruct (SeenInv_in _ _ _ Hsn Hlay) as (j & Hj & _ & _ & Himg).
      apply Himg in Hin. destruct Hin as (t' & Ht' & Heq).
      assert (t' = t).
      { apply NoColl; auto; [eapply L_U; eauto | eapply N_layer_U; eauto]. }
      subst t'. apply Hns. apply seen_upto_spec. exists j. split; [lia | exact Ht'].
  Qed.

  (** ** The loop invariant *)

  Definition HashList (n : nat) (hl : list (list Z)) : Prop :=
    length hl = n /\ forall j, j < n -> HL j (nth j hl []).

  Lemma HashList_snoc n hl x : HashList n hl -> HL n x -> HashList (S n) (hl ++ [x]).
  Proof.
    intros [Hlen Hn] Hx. split; [rewrite app_length; simpl; lia|].
    intros j Hj. destruct (Nat.eq_dec j n) as [-> | Hne].
    - rewrite app_nth2 by lia. rewrite Hlen, Nat.sub_diag. exact Hx.
    - rewrite app_nth1 by lia. apply Hn. lia.
  Qed.

  Record Core (st : bfs_st) : Prop := {
    c_pos : 1 <= it st;
    c_layer : good (it st - 1) (layer1 st) (layer1_h st);
    c_ne : forall j, j < it st -> L j <> [];
    c_seen : SeenInv (it st) (seen st);
    c_sizes : rev (sizes_rev st) = map (fun j => length (L j)) (seq 0 (it st));
    c_stored1 : forall k l, In (k, l) (stored_rev st) -> k < it st /\ NoDup l /\ set_eq l (L k);
    c_stored2 : NoDup (map fst (stored_rev st));
    c_stored3 : forall k, k < it st ->
        ((exists l, In (k, l) (stored_rev st)) <->
         k = 0 \/ (Z.of_nat (length (L k)) <= max_store cfg)%Z);
  }.

  Definition HashesUpto (st : bfs_st) (n : nat) : Prop :=
    if ret_hashes cfg then HashList n (rev (all_h_rev st)) else all_h_rev st = [].

  Definition explore_ok (m : nat) : Prop :=
    forall j, 1 <= j -> j <= m -> (Z.of_nat (length (L j)) < max_explore cfg)%Z.

  Definition TraceIs (st : bfs_st) (m : nat) : Prop :=
    rev (trace_rev st) = seq 1 (match stop cfg with None => 0 | Some _ => m end).

  Definition Inv (st : bfs_st) : Prop :=
    Core st /\ HashesUpto st (it st - 1) /\ TraceIs st (it st - 1) /\ explore_ok (it st - 1).

  Definition BreakT (st : bfs_st) : Prop :=
    Core st /\ HashesUpto st (it st) /\ TraceIs st (it st - 1) /\ explore_ok (it st - 1) /\
    L (it st) = [].

  Definition BreakF (st : bfs_st) : Prop :=
    Core st /\ HashesUpto st (it st - 1) /\ explore_ok (it st - 2) /\
    ((TraceIs st (it st - 2) /\ (max_explore cfg <= Z.of_nat (length (L (it st - 1))))%Z) \/
     (TraceIs st (it st - 1) /\
      exists f, stop cfg = Some f /\ f (it st - 1) (layer1 st) (layer1_h st) = true)).

  Definition Post (i : nat) (r : bfs_st + bfs_st * bool) : Prop :=
    match r with
    | inl st' => Inv st' /\ it st' = S i
    | inr (st', true) => BreakT st' /\ it st' = i
    | inr (st', false) => BreakF st' /\ it st' = S i
    end.

  (** ** Initial state *)

  Lemma L0_in t : In t (L 0) <-> In t starts.
  Proof. rewrite layer_0. apply nodup_In. Qed.

  Lemma L0_ne : L 0 <> [].
  Proof.
    destruct starts as [|s l] eqn:E; [congruence|]. intros He.
    assert (In s (L 0)) by (apply L0_in; simpl; auto). rewrite He in H. destruct H.
  Qed.

  Lemma init_inv : Inv (bfs_init G starts) /\ it (bfs_init G starts) = 1.
  Proof.
    unfold bfs_init.
    destruct (get_unique_states G starts (hashes G starts)) as [l1 l1h] eqn:E.
    apply (gus_spec G U NoColl IdOK) in E; [|exact starts_U].
    destruct E as (Hnd & Hin & Hal & Hs).
    assert (Hg : good 0 l1 l1h).
    { split; [exact Hnd|]. split; [|split; [exact Hs | rewrite Hal; reflexivity]].
      intros t. rewrite Hin, L0_in. reflexivity. }
    split; [|reflexivity]. split; [|split; [|split]].
    - constructor; prj.
      + lia.
      + exact Hg.
      + intros j Hj. assert (j = 0) by lia. subst j. apply L0_ne.
      + unfold SeenInv. simpl length. split; [lia|]. split.
        * intros k Hk. assert (k = 0) by lia. subst k. simpl. eapply good_HL; eauto.
        * destruct (inv_closed G); reflexivity.
      + simpl. rewrite (good_length _ _ _ Hg). reflexivity.
      + intros k l [H | []]. inversion H; subst k l. split; [lia|]. destruct Hg as (? & ? & _). auto.
      + simpl. constructor; [intros [] | constructor].
      + intros k Hk. assert (k = 0) by lia. subst k. split; [auto|].
        intros _. exists l1. simpl. auto.
    - unfold HashesUpto. prj. destruct (ret_hashes cfg); [|reflexivity].
      split; [reflexivity|]. intros j Hj. simpl in Hj. lia.
    - unfold TraceIs. prj. simpl. destruct (stop cfg); reflexivity.
    - intros j H1 H2. prj. simpl in H2. lia.
  Qed.
End BfsCorrect.
