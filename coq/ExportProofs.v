(** Theorems about the explicit-graph export model (Export.v): vertex renumbering
    (hashes_to_indices), edge list (edges_list), generator names (edge_name), vertex names
    (vertex_name).  All statements are general (unbounded). *)
From Coq Require Import ZArith List Bool Arith Lia String Ascii DecimalString Decimal DecimalZ.
From V Require Import Base Perm GraphImpl Export.
Import ListNotations.
Local Open Scope nat_scope.
(* [String] is imported after [List]: make [length] mean the list length again *)
Local Notation length := Datatypes.length.
Local Notation concat := List.concat.

(* ------------------------------------------------------------------ *)
(** * Association lists *)

Definition keys (m : list (Z * nat)) : list Z := map fst m.

Lemma existsb_keys k m : existsb (fun '(k', _) => Z.eqb k k') m = true <-> In k (keys m).
Proof.
  unfold keys. rewrite existsb_exists, in_map_iff. split.
  - intros ([k' v] & Hin & Hk). apply Z.eqb_eq in Hk. subst k'. exists (k, v). auto.
  - intros ([k' v] & Hk & Hin). simpl in Hk. subst k'. exists (k, v). split; auto. apply Z.eqb_refl.
Qed.

Lemma existsb_keys_false k m : existsb (fun '(k', _) => Z.eqb k k') m = false <-> ~ In k (keys m).
Proof.
  rewrite <- existsb_keys. destruct (existsb _ m); split; intros H; try reflexivity; try discriminate.
  exfalso. apply H. reflexivity.
Qed.

Lemma assoc_get_nil k : assoc_get k [] = None.
Proof. reflexivity. Qed.

Lemma assoc_get_cons k k' v m :
  assoc_get k ((k', v) :: m) = if Z.eqb k k' then Some v else assoc_get k m.
Proof. unfold assoc_get. simpl. destruct (Z.eqb k k'); reflexivity. Qed.

Lemma assoc_get_none k m : assoc_get k m = None <-> ~ In k (keys m).
Proof.
  induction m as [|[k' v] m IH].
  - simpl. split; [intros _ [] | reflexivity].
  - rewrite assoc_get_cons. simpl. destruct (Z.eqb_spec k k') as [->|Hne].
    + split; [discriminate | intros H; exfalso; apply H; left; reflexivity].
    + rewrite IH. split; [intros H [He | Hin]; [congruence | contradiction] | intros H Hin; apply H; right; exact Hin].
Qed.

Lemma assoc_get_some_in k v m : assoc_get k m = Some v -> In (k, v) m.
Proof.
  induction m as [|[k' v'] m IH]; [discriminate|].
  rewrite assoc_get_cons. destruct (Z.eqb_spec k k') as [->|Hne].
  - intros H. inversion H. left. reflexivity.
  - intros H. right. apply IH. exact H.
Qed.

Lemma assoc_get_app k m1 m2 :
  assoc_get k (m1 ++ m2) = match assoc_get k m1 with Some v => Some v | None => assoc_get k m2 end.
Proof.
  induction m1 as [|[k' v] m1 IH]; [reflexivity|].
  rewrite <- app_comm_cons, !assoc_get_cons. destruct (Z.eqb k k'); [reflexivity | exact IH].
Qed.

(* the renumbering dictionary of a duplicate-free list: position k holds key (nth k l), value off+k *)
Lemma assoc_get_combine_seq (l : list Z) : forall off k,
  NoDup l -> k < length l ->
  assoc_get (nth k l 0%Z) (combine l (seq off (length l))) = Some (off + k).
Proof.
  induction l as [|h l IH]; intros off k Hnd Hk; [simpl in Hk; lia|].
  inversion Hnd as [|x l' Hnotin Hnd']; subst.
  cbn [length seq combine]. rewrite assoc_get_cons. destruct k as [|k].
  - simpl nth. rewrite Z.eqb_refl. f_equal. lia.
  - simpl nth. simpl in Hk. destruct (Z.eqb_spec (nth k l 0%Z) h) as [He|Hne].
    + exfalso. apply Hnotin. rewrite <- He. apply nth_In. lia.
    + rewrite IH by (auto; lia). f_equal. lia.
Qed.

Lemma keys_combine_seq (l : list Z) off : keys (combine l (seq off (length l))) = l.
Proof.
  revert off. induction l as [|h l IH]; intros off; [reflexivity|].
  cbn [length seq combine keys map fst]. f_equal. apply IH.
Qed.

Lemma assoc_get_combine_seq_inv (l : list Z) : forall off h v,
  assoc_get h (combine l (seq off (length l))) = Some v ->
  off <= v /\ v - off < length l /\ nth (v - off) l 0%Z = h.
Proof.
  induction l as [|x l IH]; intros off h v H; [discriminate|].
  cbn [length seq combine] in H. rewrite assoc_get_cons in H.
  destruct (Z.eqb_spec h x) as [->|Hne].
  - inversion H; subst. rewrite Nat.sub_diag. split; [lia|]. split; [simpl; lia | reflexivity].
  - apply IH in H. destruct H as (H1 & H2 & H3). simpl length.
    replace (v - off) with (S (v - S off)) by lia. split; [lia|]. split; [lia | exact H3].
Qed.

(* ------------------------------------------------------------------ *)
(** * assoc_set and the filling loop *)

Lemma assoc_set_new k v m : ~ In k (keys m) -> assoc_set k v m = m ++ [(k, v)].
Proof. intros H. unfold assoc_set. apply existsb_keys_false in H. rewrite H. reflexivity. Qed.

Lemma assoc_set_old_length k v m : In k (keys m) -> length (assoc_set k v m) = length m.
Proof. intros H. unfold assoc_set. apply existsb_keys in H. rewrite H. apply map_length. Qed.

Lemma assoc_set_length_le k v m : length (assoc_set k v m) <= S (length m).
Proof.
  unfold assoc_set. destruct (existsb _ m).
  - rewrite map_length. lia.
  - rewrite app_length. simpl. lia.
Qed.

(* the loop of hashes_to_indices_dict, started from dictionary [m] with counter [off] *)
Definition fill (m : list (Z * nat)) (off : nat) (l : list Z) : list (Z * nat) :=
  fold_left (fun m '(i, h) => assoc_set h i m) (combine (seq off (length l)) l) m.

Lemma fill_nil m off : fill m off [] = m.
Proof. reflexivity. Qed.

Lemma fill_cons m off h l : fill m off (h :: l) = fill (assoc_set h off m) (S off) l.
Proof. reflexivity. Qed.

Lemma fill_length_le l : forall m off, length (fill m off l) <= length m + length l.
Proof.
  induction l as [|h l IH]; intros m off.
  - rewrite fill_nil. simpl. lia.
  - rewrite fill_cons. specialize (IH (assoc_set h off m) (S off)).
    pose proof (assoc_set_length_le h off m). simpl length. lia.
Qed.

(* no repeated key: the dictionary is just the list of (hash, position) pairs appended *)
Lemma fill_nodup l : forall m off,
  NoDup l -> (forall h, In h l -> ~ In h (keys m)) ->
  fill m off l = m ++ combine l (seq off (length l)).
Proof.
  induction l as [|h l IH]; intros m off Hnd Hdis.
  - rewrite fill_nil. simpl. rewrite app_nil_r. reflexivity.
  - inversion Hnd as [|x l' Hnotin Hnd']; subst.
    rewrite fill_cons, assoc_set_new by (apply Hdis; left; reflexivity).
    rewrite IH; [| exact Hnd' |].
    + rewrite <- app_assoc. reflexivity.
    + intros h' Hin. unfold keys. rewrite map_app, in_app_iff. simpl.
      intros [H | [H | []]].
      * apply (Hdis h'); [right; exact Hin | exact H].
      * subst h'. contradiction.
Qed.

(* the "Hash collision" test: the dictionary has as many entries as hashes were inserted only when
   no hash was inserted twice *)
Lemma fill_length_eq l : forall m off,
  length (fill m off l) = length m + length l ->
  NoDup l /\ (forall h, In h l -> ~ In h (keys m)).
Proof.
  induction l as [|h l IH]; intros m off Hlen.
  - split; [constructor | intros h []].
  - rewrite fill_cons in Hlen. simpl length in Hlen.
    destruct (in_dec Z.eq_dec h (keys m)) as [Hin | Hnotin].
    + exfalso. pose proof (fill_length_le l (assoc_set h off m) (S off)) as Hle.
      rewrite (assoc_set_old_length _ _ _ Hin) in Hle. lia.
    + rewrite (assoc_set_new _ _ _ Hnotin) in Hlen.
      destruct (IH (m ++ [(h, off)]) (S off)) as (Hnd & Hdis).
      { rewrite Hlen, app_length. simpl. lia. }
      assert (Hk : forall h', In h' l -> h' <> h /\ ~ In h' (keys m)).
      { intros h' Hin'. specialize (Hdis h' Hin'). unfold keys in Hdis.
        rewrite map_app, in_app_iff in Hdis. simpl in Hdis. split.
        - intros ->. apply Hdis. right. left. reflexivity.
        - intros H. apply Hdis. left. exact H. }
      split.
      * constructor; [|exact Hnd]. intros Hin'. destruct (Hk h Hin') as [Hne _]. apply Hne. reflexivity.
      * intros h' [<- | Hin']; [exact Hnotin | apply Hk; exact Hin'].
Qed.

(* ------------------------------------------------------------------ *)
(** * The size checks *)

Definition sizes_agree (lh : list (list Z)) (ls : list nat) : Prop :=
  Forall2 (fun h s => length h = s) lh ls.

Lemma sizes_check_true : forall (lh : list (list Z)) (ls : list nat),
  length lh = length ls ->
  (forallb (fun '(h, s) => length h =? s) (combine lh ls) = true <-> sizes_agree lh ls).
Proof.
  unfold sizes_agree.
  induction lh as [|h lh IH]; intros [|s ls] Hlen; simpl in Hlen; try discriminate.
  - simpl. split; [constructor | reflexivity].
  - cbn [combine forallb]. rewrite andb_true_iff, Nat.eqb_eq, IH by lia. split.
    + intros [H1 H2]. constructor; assumption.
    + intros H. inversion H; subst. split; [reflexivity | assumption].
Qed.

Lemma sizes_agree_length lh ls : sizes_agree lh ls -> length lh = length ls.
Proof. induction 1 as [|h s lh ls Hhs HF IH]; simpl; congruence. Qed.

Lemma sizes_agree_sum lh ls : sizes_agree lh ls -> fold_right Nat.add 0 ls = length (concat lh).
Proof.
  induction 1 as [|h s lh ls Hhs HF IH]; [reflexivity|].
  simpl. rewrite app_length, IH, Hhs. reflexivity.
Qed.

(* the pointwise reading of [sizes_agree] *)
Lemma sizes_agree_nth lh ls :
  sizes_agree lh ls <->
  length lh = length ls /\ forall i, i < length lh -> length (nth i lh []) = nth i ls 0.
Proof.
  split.
  - intros H. split; [apply sizes_agree_length; exact H|].
    induction H as [|h s lh ls Hhs HF IH]; intros i Hi; [simpl in Hi; lia|].
    destruct i as [|i]; [exact Hhs|]. simpl in *. apply IH. lia.
  - revert ls. induction lh as [|h lh IH]; intros [|s ls] [Hlen Hnth]; simpl in Hlen; try discriminate.
    + constructor.
    + constructor.
      * apply (Hnth 0). simpl. lia.
      * apply IH. split; [lia|]. intros i Hi. apply (Hnth (S i)). simpl. lia.
Qed.

(* ------------------------------------------------------------------ *)
(** * (1) hashes_to_indices *)

(* the dictionary a successful call returns: hash number k -> k *)
Definition index_dict (all : list Z) : list (Z * nat) := combine all (seq 0 (length all)).

Lemma hashes_to_indices_unfold lh ls :
  hashes_to_indices lh ls =
  if negb (length lh =? length ls) then Err AssertionErr
  else if negb (forallb (fun '(h, s) => length h =? s) (combine lh ls)) then Err AssertionErr
  else if length (fill [] 0 (concat lh)) =? fold_right Nat.add 0 ls
       then Ok (fill [] 0 (concat lh)) else Err AssertionErr.
Proof. reflexivity. Qed.

(* exact characterisation of success *)
Theorem hashes_to_indices_iff lh ls m :
  hashes_to_indices lh ls = Ok m <->
  sizes_agree lh ls /\ NoDup (concat lh) /\ m = index_dict (concat lh).
Proof.
  rewrite hashes_to_indices_unfold. split.
  - destruct (Nat.eqb_spec (length lh) (length ls)) as [Hlen | Hlen]; cbn [negb]; [|discriminate].
    destruct (forallb _ (combine lh ls)) eqn:Hsz; cbn [negb]; [|discriminate].
    apply sizes_check_true in Hsz; [|exact Hlen].
    destruct (Nat.eqb_spec (length (fill [] 0 (concat lh))) (fold_right Nat.add 0 ls)) as [Hn | Hn];
      [|discriminate].
    intros H. inversion H; subst m; clear H.
    rewrite (sizes_agree_sum _ _ Hsz) in Hn.
    destruct (fill_length_eq (concat lh) [] 0 Hn) as (Hnd & Hdis).
    split; [exact Hsz|]. split; [exact Hnd|].
    rewrite fill_nodup by assumption. reflexivity.
  - intros (Hsz & Hnd & ->).
    rewrite (sizes_agree_length _ _ Hsz), Nat.eqb_refl. cbn [negb].
    rewrite (proj2 (sizes_check_true lh ls (sizes_agree_length _ _ Hsz)) Hsz). cbn [negb].
    rewrite (fill_nodup (concat lh) [] 0 Hnd) by (intros h _ []).
    rewrite !app_nil_l, combine_length, seq_length, Nat.min_id, (sizes_agree_sum _ _ Hsz), Nat.eqb_refl.
    reflexivity.
Qed.

(* every failure is an AssertionError *)
Theorem hashes_to_indices_err lh ls e : hashes_to_indices lh ls = Err e -> e = AssertionErr.
Proof.
  rewrite hashes_to_indices_unfold.
  destruct (negb _); [intros H; inversion H; reflexivity|].
  destruct (negb _); [intros H; inversion H; reflexivity|].
  destruct (_ =? _); intros H; inversion H; reflexivity.
Qed.

Lemma index_dict_get all k : NoDup all -> k < length all ->
  assoc_get (nth k all 0%Z) (index_dict all) = Some k.
Proof. intros Hnd Hk. unfold index_dict. rewrite assoc_get_combine_seq by assumption. reflexivity. Qed.

Lemma index_dict_get_inv all h k : assoc_get h (index_dict all) = Some k ->
  k < length all /\ nth k all 0%Z = h.
Proof.
  intros H. apply assoc_get_combine_seq_inv in H. rewrite Nat.sub_0_r in H. tauto.
Qed.

Lemma index_dict_none all h : ~ In h all -> assoc_get h (index_dict all) = None.
Proof. intros H. apply assoc_get_none. unfold index_dict. rewrite keys_combine_seq. exact H. Qed.

(* (1) soundness: what a successful hashes_to_indices guarantees *)
Theorem hashes_to_indices_spec lh ls m :
  hashes_to_indices lh ls = Ok m ->
  let all := concat lh in
  length lh = length ls /\
  (forall i, i < length lh -> length (nth i lh []) = nth i ls 0) /\
  NoDup all /\                                         (* the "Hash collision" assertion *)
  length m = length all /\ length all = fold_right Nat.add 0 ls /\
  (forall k, k < length all -> assoc_get (nth k all 0%Z) m = Some k) /\
  (forall h, ~ In h all -> assoc_get h m = None) /\
  (forall h k, assoc_get h m = Some k -> k < length all /\ nth k all 0%Z = h).
Proof.
  intros H. apply hashes_to_indices_iff in H. destruct H as (Hsz & Hnd & ->). cbv zeta.
  pose proof (proj1 (sizes_agree_nth lh ls) Hsz) as [Hlen Hnth].
  split; [exact Hlen|]. split; [exact Hnth|]. split; [exact Hnd|].
  split; [unfold index_dict; rewrite combine_length, seq_length; apply Nat.min_id|].
  split; [symmetry; apply sizes_agree_sum; exact Hsz|].
  split; [intros k Hk; apply index_dict_get; assumption|].
  split; [apply index_dict_none | apply index_dict_get_inv].
Qed.

(* (1) completeness *)
Theorem hashes_to_indices_complete lh ls :
  length lh = length ls ->
  (forall i, i < length lh -> length (nth i lh []) = nth i ls 0) ->
  NoDup (concat lh) ->
  hashes_to_indices lh ls = Ok (index_dict (concat lh)).
Proof.
  intros Hlen Hnth Hnd. apply hashes_to_indices_iff. split; [|split; [exact Hnd | reflexivity]].
  apply sizes_agree_nth. split; assumption.
Qed.

(* (1) a duplicate hash trips the "Hash collision" assertion *)
Theorem hashes_to_indices_collision lh ls :
  ~ NoDup (concat lh) -> hashes_to_indices lh ls = Err AssertionErr.
Proof.
  intros Hdup. destruct (hashes_to_indices lh ls) as [m | e] eqn:E.
  - exfalso. apply Hdup. apply hashes_to_indices_iff in E. tauto.
  - f_equal. eapply hashes_to_indices_err; eauto.
Qed.

Corollary hashes_to_indices_collision_at lh ls i j :
  i < j -> j < length (concat lh) -> nth i (concat lh) 0%Z = nth j (concat lh) 0%Z ->
  hashes_to_indices lh ls = Err AssertionErr.
Proof.
  intros Hij Hj Heq. apply hashes_to_indices_collision. intros Hnd.
  rewrite (NoDup_nth (concat lh) 0%Z) in Hnd. specialize (Hnd i j). lia.
Qed.

(* the complete case analysis *)
Theorem hashes_to_indices_total lh ls :
  (sizes_agree lh ls /\ NoDup (concat lh) /\ hashes_to_indices lh ls = Ok (index_dict (concat lh)))
  \/ ((~ sizes_agree lh ls \/ ~ NoDup (concat lh)) /\ hashes_to_indices lh ls = Err AssertionErr).
Proof.
  destruct (hashes_to_indices lh ls) as [m | e] eqn:E.
  - left. apply hashes_to_indices_iff in E. destruct E as (H1 & H2 & ->). auto.
  - right. split; [| f_equal; eapply hashes_to_indices_err; eauto].
    destruct (ListDec.NoDup_dec Z.eq_dec (concat lh)) as [Hnd | Hnd]; [|right; exact Hnd].
    left. intros Hsz.
    assert (Hok : hashes_to_indices lh ls = Ok (index_dict (concat lh))).
    { apply hashes_to_indices_iff. auto. }
    congruence.
Qed.

Example hashes_to_indices_ex :
  hashes_to_indices [[5]; [9; 7]]%Z [1; 2] = Ok [(5%Z, 0); (9%Z, 1); (7%Z, 2)].
Proof. reflexivity. Qed.
Example hashes_to_indices_ex_hyp :
  length [[5]; [9; 7]]%Z = length [1; 2] /\
  (forall i, i < 2 -> length (nth i [[5]; [9; 7]]%Z []) = nth i [1; 2] 0) /\ NoDup (concat [[5]; [9; 7]]%Z).
Proof.
  split; [reflexivity|]. split.
  - intros [|[|i]] Hi; try reflexivity; lia.
  - simpl. repeat constructor; simpl; intuition discriminate.
Qed.
Example hashes_to_indices_ex_dup :
  ~ NoDup (concat [[5]; [9; 5]]%Z) /\ hashes_to_indices [[5]; [9; 5]]%Z [1; 2] = Err AssertionErr.
Proof.
  split; [|reflexivity]. simpl. intros H. inversion H as [|x l Hn _]; subst. apply Hn. simpl. auto.
Qed.

(* ------------------------------------------------------------------ *)
(** * (2) edges_list *)

Definition edge_maps (m : list (Z * nat)) (e : Z * Z) (p : nat * nat) : Prop :=
  assoc_get (fst e) m = Some (fst p) /\ assoc_get (snd e) m = Some (snd p).

Lemma edges_list_nil m : edges_list m [] = Ok [].
Proof. reflexivity. Qed.

Lemma edges_list_cons m a b eh :
  edges_list m ((a, b) :: eh) =
  match edges_list m eh with
  | Ok r => match assoc_get a m, assoc_get b m with
            | Some i, Some j => Ok ((i, j) :: r)
            | _, _ => Err KeyErr
            end
  | Err e => Err e
  end.
Proof. unfold edges_list. simpl. destruct (fold_right _ _ eh); reflexivity. Qed.

(* exact characterisation of success: position by position, both endpoints are looked up *)
Theorem edges_list_iff m eh : forall el,
  edges_list m eh = Ok el <-> Forall2 (edge_maps m) eh el.
Proof.
  induction eh as [|[a b] eh IH]; intros el.
  - rewrite edges_list_nil. split.
    + intros H. inversion H. constructor.
    + intros H. inversion H. reflexivity.
  - rewrite edges_list_cons. split.
    + destruct (edges_list m eh) as [r | e]; [|discriminate].
      destruct (assoc_get a m) as [i|] eqn:Ea; [|discriminate].
      destruct (assoc_get b m) as [j|] eqn:Eb; [|discriminate].
      intros H. inversion H; subst el. constructor.
      * split; simpl; assumption.
      * apply IH. reflexivity.
    + intros H. inversion H as [|e [i j] eh' el' [Ha Hb] HF]; subst. simpl in Ha, Hb.
      apply IH in HF. rewrite HF, Ha, Hb. reflexivity.
Qed.

Theorem edges_list_err m eh e : edges_list m eh = Err e -> e = KeyErr.
Proof.
  induction eh as [|[a b] eh IH]; [discriminate|].
  rewrite edges_list_cons. destruct (edges_list m eh) as [r | e'].
  - destruct (assoc_get a m); [destruct (assoc_get b m)|]; intros H; inversion H; reflexivity.
  - intros H. inversion H; subst. apply IH. reflexivity.
Qed.

(* (2) KeyError exactly when some endpoint hash is absent from the dictionary *)
Theorem edges_list_err_iff m eh :
  edges_list m eh = Err KeyErr <->
  exists a b, In (a, b) eh /\ (assoc_get a m = None \/ assoc_get b m = None).
Proof.
  induction eh as [|[a b] eh IH].
  - rewrite edges_list_nil. split; [discriminate | intros (a & b & [] & _)].
  - rewrite edges_list_cons. destruct (edges_list m eh) as [r | e] eqn:E.
    + assert (Hno : ~ exists a b, In (a, b) eh /\ (assoc_get a m = None \/ assoc_get b m = None)).
      { intros H. apply IH in H. discriminate. }
      destruct (assoc_get a m) as [i|] eqn:Ea; [destruct (assoc_get b m) as [j|] eqn:Eb|].
      * split; [discriminate|]. intros (a' & b' & [Heq | Hin] & Hor).
        -- inversion Heq; subst. destruct Hor; congruence.
        -- exfalso. apply Hno. eauto.
      * split; [|reflexivity]. intros _. exists a, b. split; [left; reflexivity | auto].
      * split; [|reflexivity]. intros _. exists a, b. split; [left; reflexivity | auto].
    + assert (He : e = KeyErr) by (eapply edges_list_err; eauto). subst e.
      split; [|reflexivity]. intros _. destruct (proj1 IH eq_refl) as (a' & b' & Hin & Hor).
      exists a', b'. split; [right; exact Hin | exact Hor].
Qed.

Corollary edges_list_ok_iff m eh :
  (exists el, edges_list m eh = Ok el) <->
  forall a b, In (a, b) eh -> assoc_get a m <> None /\ assoc_get b m <> None.
Proof.
  split.
  - intros (el & Hok) a b Hin.
    split; intros Hnone;
      (assert (Herr : edges_list m eh = Err KeyErr) by (apply edges_list_err_iff; eauto)); congruence.
  - intros Hall. destruct (edges_list m eh) as [el | e] eqn:E; [eauto|].
    exfalso. assert (e = KeyErr) by (eapply edges_list_err; eauto). subst e.
    apply edges_list_err_iff in E. destruct E as (a & b & Hin & Hor).
    destruct (Hall a b Hin) as [H1 H2]. destruct Hor; contradiction.
Qed.

(* (2) soundness, positional form *)
Theorem edges_list_spec m eh el :
  edges_list m eh = Ok el ->
  length el = length eh /\
  forall t, t < length eh ->
    assoc_get (fst (nth t eh (0%Z, 0%Z))) m = Some (fst (nth t el (0, 0))) /\
    assoc_get (snd (nth t eh (0%Z, 0%Z))) m = Some (snd (nth t el (0, 0))).
Proof.
  intros H. apply edges_list_iff in H.
  induction H as [|e p eh el Hep HF [IHlen IHnth]].
  - split; [reflexivity | intros t Ht; simpl in Ht; lia].
  - split; [simpl; lia|]. intros [|t] Ht.
    + exact Hep.
    + simpl in *. apply IHnth. lia.
Qed.

(* membership form: the index pairs are exactly the images of the hash pairs *)
Corollary edges_list_in m eh el :
  edges_list m eh = Ok el ->
  forall i j, In (i, j) el <->
    exists a b, In (a, b) eh /\ assoc_get a m = Some i /\ assoc_get b m = Some j.
Proof.
  intros H. apply edges_list_iff in H.
  induction H as [|[a b] [i' j'] eh el [Ha Hb] HF IH]; intros i j.
  - simpl. split; [intros [] | intros (a & b & [] & _)].
  - simpl in Ha, Hb. simpl In. rewrite IH. split.
    + intros [Heq | (a' & b' & Hin & H1 & H2)].
      * inversion Heq; subst. exists a, b. auto.
      * exists a', b'. auto.
    + intros (a' & b' & [Heq | Hin] & H1 & H2).
      * inversion Heq; subst. left. congruence.
      * right. exists a', b'. auto.
Qed.

Example edges_list_ex :
  edges_list [(5%Z, 0); (9%Z, 1); (7%Z, 2)] [(5, 9); (9, 7); (7, 5); (7, 7)]%Z = Ok [(0, 1); (1, 2); (2, 0); (2, 2)].
Proof. reflexivity. Qed.
Example edges_list_ex_err :
  edges_list [(5%Z, 0); (9%Z, 1); (7%Z, 2)] [(5, 9); (9, 8)]%Z = Err KeyErr /\
  assoc_get 8%Z [(5%Z, 0); (9%Z, 1); (7%Z, 2)] = None.
Proof. split; reflexivity. Qed.

(* ------------------------------------------------------------------ *)
(** * (3) The numbering is consistent with the order of all_states *)

Lemma NoDup_map_inj_in {A B} (f : A -> B) (l : list A) :
  (forall a b, In a l -> In b l -> f a = f b -> a = b) -> NoDup l -> NoDup (map f l).
Proof.
  intros Hinj Hnd. induction Hnd as [|x l Hnotin Hnd IH]; [constructor|].
  simpl. constructor.
  - intros Hin. apply in_map_iff in Hin. destruct Hin as (y & Hxy & Hy).
    assert (y = x) by (apply Hinj; simpl; auto). subst y. contradiction.
  - apply IH. intros a b Ha Hb. apply Hinj; simpl; auto.
Qed.

Lemma nth_map_lt {A B} (f : A -> B) (l : list A) (d : A) (e : B) k :
  k < length l -> nth k (map f l) e = f (nth k l d).
Proof.
  intros Hk. rewrite (nth_indep _ e (f d)) by (rewrite map_length; exact Hk). apply map_nth.
Qed.

Section Numbering.
  Variable A : Type.
  Variable hash : A -> Z.
  Variable d : A.
  Variable states : list A.                  (* all_states: row k is vertex k *)
  Variable lh : list (list Z).               (* layers_hashes *)
  Variable ls : list nat.                    (* layer_sizes *)
  Hypothesis states_nodup : NoDup states.
  Hypothesis hash_inj : forall a b, In a states -> In b states -> hash a = hash b -> a = b.
  Hypothesis sizes_ok : sizes_agree lh ls.
  Hypothesis aligned : concat lh = map hash states.    (* row k hashes to the k-th hash *)

  Definition numbering : list (Z * nat) := index_dict (map hash states).
  Local Notation n := (length states).

  Lemma hashes_nodup : NoDup (map hash states).
  Proof. apply NoDup_map_inj_in; assumption. Qed.

  Theorem numbering_ok : hashes_to_indices lh ls = Ok numbering.
  Proof.
    apply hashes_to_indices_iff. rewrite aligned. split; [exact sizes_ok|].
    split; [exact hashes_nodup | reflexivity].
  Qed.

  (* vertex k is state k *)
  Theorem numbering_get k : k < n -> assoc_get (hash (nth k states d)) numbering = Some k.
  Proof.
    intros Hk. unfold numbering. rewrite <- (nth_map_lt hash states d 0%Z k Hk).
    apply index_dict_get; [exact hashes_nodup | rewrite map_length; exact Hk].
  Qed.

  Theorem numbering_get_inv h k : assoc_get h numbering = Some k -> k < n /\ h = hash (nth k states d).
  Proof.
    intros H. apply index_dict_get_inv in H. rewrite map_length in H. destruct H as [Hk Hn].
    split; [exact Hk|]. rewrite <- Hn. apply nth_map_lt. exact Hk.
  Qed.

  Theorem numbering_none h : (forall v, In v states -> hash v <> h) -> assoc_get h numbering = None.
  Proof.
    intros H. apply index_dict_none. intros Hin. apply in_map_iff in Hin.
    destruct Hin as (v & Hv & Hin). exact (H v Hin Hv).
  Qed.

  Theorem numbering_state v k : In v states ->
    (assoc_get (hash v) numbering = Some k <-> k < n /\ nth k states d = v).
  Proof.
    intros Hv. split.
    - intros H. apply numbering_get_inv in H. destruct H as [Hk He]. split; [exact Hk|].
      symmetry. apply hash_inj; [exact Hv | apply nth_In; exact Hk | exact He].
    - intros [Hk <-]. apply numbering_get. exact Hk.
  Qed.

  (* (3) an edge (hash u, hash v) with u = row i, v = row j becomes exactly (i, j), position by
     position (so order and multiplicity of the edge list are preserved) *)
  Theorem edges_renumbered eh :
    (forall a b, In (a, b) eh -> In a (map hash states) /\ In b (map hash states)) ->
    exists el, edges_list numbering eh = Ok el /\ length el = length eh /\
      forall t, t < length eh ->
        let i := fst (nth t el (0, 0)) in let j := snd (nth t el (0, 0)) in
        i < n /\ j < n /\ nth t eh (0%Z, 0%Z) = (hash (nth i states d), hash (nth j states d)).
  Proof.
    intros Hends.
    assert (Hsome : forall a, In a (map hash states) -> assoc_get a numbering <> None).
    { intros a Ha. apply in_map_iff in Ha. destruct Ha as (v & <- & Hv).
      destruct (In_nth _ _ d Hv) as (k & Hk & <-). rewrite numbering_get by exact Hk. discriminate. }
    destruct (proj2 (edges_list_ok_iff numbering eh)) as (el & Hel).
    { intros a b Hin. destruct (Hends a b Hin). split; apply Hsome; assumption. }
    exists el. split; [exact Hel|]. destruct (edges_list_spec _ _ _ Hel) as [Hlen Hnth].
    split; [exact Hlen|]. intros t Ht. cbv zeta. destruct (Hnth t Ht) as [H1 H2].
    apply numbering_get_inv in H1. apply numbering_get_inv in H2.
    destruct H1 as [Hi H1]. destruct H2 as [Hj H2]. split; [exact Hi|]. split; [exact Hj|].
    rewrite <- H1, <- H2. apply surjective_pairing.
  Qed.

  Theorem edge_pair_renumbered eh el i j :
    edges_list numbering eh = Ok el -> i < n -> j < n ->
    (In (i, j) el <-> In (hash (nth i states d), hash (nth j states d)) eh).
  Proof.
    intros Hel Hi Hj. rewrite (edges_list_in _ _ _ Hel). split.
    - intros (a & b & Hin & Ha & Hb). apply numbering_get_inv in Ha. apply numbering_get_inv in Hb.
      destruct Ha as [_ <-]. destruct Hb as [_ <-]. exact Hin.
    - intros Hin. eexists _, _. split; [exact Hin|]. split; apply numbering_get; assumption.
  Qed.

  (* (3) with the hash-edge list in the shape C08 proves it: the set of index pairs is
     {(i, j) | some generator maps state i to state j} *)
  Variable gens : list (A -> A).
  Hypothesis states_closed : forall v g, In v states -> In g gens -> In (g v) states.

  Theorem numbering_consistent eh :
    (forall a b, In (a, b) eh <->
                 exists v g, In v states /\ In g gens /\ a = hash v /\ b = hash (g v)) ->
    exists el,
      hashes_to_indices lh ls = Ok numbering /\ edges_list numbering eh = Ok el /\
      length el = length eh /\
      forall i j, In (i, j) el <->
        i < n /\ j < n /\ exists g, In g gens /\ g (nth i states d) = nth j states d.
  Proof.
    intros Heh. destruct (edges_renumbered eh) as (el & Hel & Hlen & _).
    { intros a b Hin. apply Heh in Hin. destruct Hin as (v & g & Hv & Hg & -> & ->).
      split; apply in_map; [exact Hv | apply states_closed; assumption]. }
    exists el. split; [exact numbering_ok|]. split; [exact Hel|]. split; [exact Hlen|].
    intros i j. rewrite (edges_list_in _ _ _ Hel). split.
    - intros (a & b & Hin & Ha & Hb). apply Heh in Hin. destruct Hin as (v & g & Hv & Hg & -> & ->).
      apply numbering_state in Ha; [|exact Hv].
      apply numbering_state in Hb; [|apply states_closed; assumption].
      destruct Ha as [Hi Ha]. destruct Hb as [Hj Hb]. split; [exact Hi|]. split; [exact Hj|].
      exists g. split; [exact Hg|]. rewrite Ha. symmetry. exact Hb.
    - intros (Hi & Hj & g & Hg & Hgij).
      exists (hash (nth i states d)), (hash (nth j states d)). split.
      + apply Heh. exists (nth i states d), g. split; [apply nth_In; exact Hi|]. split; [exact Hg|].
        split; [reflexivity | rewrite Hgij; reflexivity].
      + split; apply numbering_get; assumption.
  Qed.
End Numbering.

(* non-vacuity: 3 states on a directed 3-cycle plus a loop-free second generator *)
Example numbering_consistent_ex :
  let hash := fun s : list Z => (2 * nth 0 s 0 + 5)%Z in
  let states := [[0]; [2]; [1]]%Z in
  let rot := fun s : list Z => [(nth 0 s 0 + 1) mod 3]%Z in
  NoDup states /\
  (forall a b, In a states -> In b states -> hash a = hash b -> a = b) /\
  sizes_agree [[5]; [9; 7]]%Z [1; 2] /\
  concat [[5]; [9; 7]]%Z = map hash states /\
  (forall v g, In v states -> In g [rot] -> In (g v) states) /\
  hashes_to_indices [[5]; [9; 7]]%Z [1; 2] = Ok (numbering (list Z) hash states) /\
  edges_list (numbering (list Z) hash states) [(5, 7); (9, 5); (7, 9)]%Z = Ok [(0, 2); (1, 0); (2, 1)].
Proof.
  cbv zeta. split.
  { repeat constructor; simpl; intuition discriminate. }
  split.
  { intros a b Ha Hb. simpl in Ha, Hb.
    destruct Ha as [<- | [<- | [<- | []]]]; destruct Hb as [<- | [<- | [<- | []]]];
      simpl; intros H; try reflexivity; discriminate. }
  split; [repeat constructor|]. split; [reflexivity|]. split.
  { intros v g Hv [<- | []]. simpl in Hv. destruct Hv as [<- | [<- | [<- | []]]]; simpl; auto. }
  split; reflexivity.
Qed.

(* ------------------------------------------------------------------ *)
(** * (4) edge_name *)

Lemma z_list_eqb_iff (a : list Z) : forall b, z_list_eqb a b = true <-> a = b.
Proof.
  unfold z_list_eqb. induction a as [|x a IH]; intros [|y b]; simpl; try (split; [discriminate | discriminate]).
  - split; reflexivity.
  - rewrite andb_true_iff, Z.eqb_eq, IH. split; [intros [-> ->]; reflexivity | intros H; inversion H; auto].
Qed.

Lemma edge_name_nil_l names s1 s2 : edge_name [] names s1 s2 = Err AssertionErr.
Proof. reflexivity. Qed.
Lemma edge_name_nil_r perms s1 s2 : edge_name perms [] s1 s2 = Err AssertionErr.
Proof. destruct perms; reflexivity. Qed.
Lemma edge_name_cons p perms nm names s1 s2 :
  edge_name (p :: perms) (nm :: names) s1 s2 =
  if z_list_eqb (apply_perm 0%Z p s1) s2 then Ok nm else edge_name perms names s1 s2.
Proof. unfold edge_name. simpl. destruct (z_list_eqb _ s2); reflexivity. Qed.

(* generator k maps s1 to s2 *)
Definition gen_maps (perms : list (list nat)) (k : nat) (s1 s2 : list Z) : Prop :=
  apply_perm 0%Z (nth k perms []) s1 = s2.

(* (4) the name returned is the name of the FIRST generator that maps s1 to s2 *)
Theorem edge_name_spec perms : forall names s1 s2 nm,
  edge_name perms names s1 s2 = Ok nm <->
  exists k, k < length perms /\ k < length names /\ nth k names ""%string = nm /\
            gen_maps perms k s1 s2 /\ forall k', k' < k -> ~ gen_maps perms k' s1 s2.
Proof.
  unfold gen_maps. induction perms as [|p perms IH]; intros [|nm0 names] s1 s2 nm.
  - rewrite edge_name_nil_l. split; [discriminate | intros (k & Hk & _); simpl in Hk; lia].
  - rewrite edge_name_nil_l. split; [discriminate | intros (k & Hk & _); simpl in Hk; lia].
  - rewrite edge_name_nil_r. split; [discriminate | intros (k & _ & Hk & _); simpl in Hk; lia].
  - rewrite edge_name_cons.
    destruct (z_list_eqb (apply_perm 0%Z p s1) s2) eqn:E.
    + apply z_list_eqb_iff in E. split.
      * intros H. inversion H; subst nm0. exists 0. simpl.
        split; [lia|]. split; [lia|]. split; [reflexivity|]. split; [exact E | intros k' Hk'; lia].
      * intros (k & _ & _ & Hnm & _ & Hfirst). destruct k as [|k]; [simpl in Hnm; congruence|].
        exfalso. apply (Hfirst 0); [lia | exact E].
    + assert (E' : apply_perm 0%Z p s1 <> s2).
      { intros H. apply z_list_eqb_iff in H. congruence. }
      rewrite IH. split.
      * intros (k & Hk1 & Hk2 & Hnm & Hmap & Hfirst). exists (S k). simpl.
        split; [lia|]. split; [lia|]. split; [exact Hnm|]. split; [exact Hmap|].
        intros [|k'] Hk'; [exact E' | apply Hfirst; lia].
      * intros (k & Hk1 & Hk2 & Hnm & Hmap & Hfirst). destruct k as [|k]; [simpl in Hmap; contradiction|].
        simpl in *. exists k. split; [lia|]. split; [lia|]. split; [exact Hnm|]. split; [exact Hmap|].
        intros k' Hk'. apply (Hfirst (S k')). lia.
Qed.

Theorem edge_name_err perms names s1 s2 e : edge_name perms names s1 s2 = Err e -> e = AssertionErr.
Proof.
  unfold edge_name. destruct (find _ _) as [[p nm]|]; intros H; inversion H; reflexivity.
Qed.

(* (4) "Edge not found" exactly when no generator maps s1 to s2 *)
Theorem edge_name_err_iff perms : forall names s1 s2,
  length names = length perms ->
  (edge_name perms names s1 s2 = Err AssertionErr <->
   forall k, k < length perms -> ~ gen_maps perms k s1 s2).
Proof.
  unfold gen_maps. induction perms as [|p perms IH]; intros [|nm0 names] s1 s2 Hlen; simpl in Hlen; try discriminate.
  - rewrite edge_name_nil_l. split; [intros _ k Hk; simpl in Hk; lia | reflexivity].
  - rewrite edge_name_cons. destruct (z_list_eqb (apply_perm 0%Z p s1) s2) eqn:E.
    + apply z_list_eqb_iff in E. split; [discriminate|]. intros H. exfalso. apply (H 0); [simpl; lia | exact E].
    + assert (E' : apply_perm 0%Z p s1 <> s2).
      { intros H. apply z_list_eqb_iff in H. congruence. }
      rewrite IH by lia. split.
      * intros H [|k] Hk; [exact E' | apply H; simpl in Hk; lia].
      * intros H k Hk. apply (H (S k)). simpl. lia.
Qed.

Corollary edge_name_err_iff_in perms names s1 s2 :
  length names = length perms ->
  (edge_name perms names s1 s2 = Err AssertionErr <->
   ~ exists p, In p perms /\ apply_perm 0%Z p s1 = s2).
Proof.
  intros Hlen. rewrite edge_name_err_iff by exact Hlen. unfold gen_maps. split.
  - intros H (p & Hp & Hmap). destruct (In_nth _ _ [] Hp) as (k & Hk & <-). exact (H k Hk Hmap).
  - intros H k Hk Hmap. apply H. exists (nth k perms []). split; [apply nth_In; exact Hk | exact Hmap].
Qed.

(* get_edge_name on an edge of the exported list always answers, with a generator doing the move *)
Corollary edge_name_total perms names s1 s2 :
  length names = length perms ->
  (exists p, In p perms /\ apply_perm 0%Z p s1 = s2) ->
  exists nm k, edge_name perms names s1 s2 = Ok nm /\ k < length perms /\
               nth k names ""%string = nm /\ apply_perm 0%Z (nth k perms []) s1 = s2.
Proof.
  intros Hlen Hex. destruct (edge_name perms names s1 s2) as [nm | e] eqn:E.
  - pose proof (proj1 (edge_name_spec _ _ _ _ _) E) as (k & Hk & _ & Hnm & Hmap & _).
    exists nm, k. auto.
  - exfalso. assert (e = AssertionErr) by (eapply edge_name_err; eauto). subst e.
    apply edge_name_err_iff_in in E; [contradiction | exact Hlen].
Qed.

Example edge_name_ex :
  edge_name [[1; 0; 2]; [0; 2; 1]; [1; 0; 2]] ["a"; "b"; "c"]%string [5; 6; 7]%Z [6; 5; 7]%Z = Ok "a"%string /\
  edge_name [[1; 0; 2]; [0; 2; 1]] ["a"; "b"]%string [5; 6; 7]%Z [7; 6; 5]%Z = Err AssertionErr.
Proof. split; reflexivity. Qed.

(* ------------------------------------------------------------------ *)
(** * (5) vertex_name is injective on states of one length with entries >= 0 *)

Local Open Scope string_scope.

(** ** Decimal printing *)

Lemma to_int_not_nil z : Z.to_int z <> Pos Nil /\ Z.to_int z <> Neg Nil.
Proof.
  destruct z as [|p|p]; simpl; split; try discriminate;
    intros H; inversion H as [H']; exact (DecimalPos.Unsigned.to_uint_nonnil p H').
Qed.

Lemma z_to_string_inj a b : z_to_string a = z_to_string b -> a = b.
Proof.
  unfold z_to_string. intros H.
  destruct (to_int_not_nil a) as [Ha1 Ha2]. destruct (to_int_not_nil b) as [Hb1 Hb2].
  pose proof (NilZero.isi (Z.to_int a) Ha1 Ha2) as Ea. rewrite H, (NilZero.isi _ Hb1 Hb2) in Ea.
  inversion Ea as [E]. rewrite <- (DecimalZ.of_to a), <- (DecimalZ.of_to b), E. reflexivity.
Qed.

Fixpoint all_chars (P : ascii -> bool) (s : string) : bool :=
  match s with EmptyString => true | String c r => P c && all_chars P r end.

Definition not_comma (c : ascii) : bool := negb (Ascii.eqb c ",").

Lemma uint_no_comma d : all_chars not_comma (NilEmpty.string_of_uint d) = true.
Proof.
  induction d as [|d IHd|d IHd|d IHd|d IHd|d IHd|d IHd|d IHd|d IHd|d IHd|d IHd];
    simpl; try rewrite IHd; reflexivity.
Qed.

Lemma uint0_no_comma d : all_chars not_comma (NilZero.string_of_uint d) = true.
Proof. destruct d; try apply (uint_no_comma _). reflexivity. Qed.

Lemma z_to_string_no_comma z : all_chars not_comma (z_to_string z) = true.
Proof.
  unfold z_to_string. destruct (Z.to_int z) as [d | d]; simpl.
  - apply uint0_no_comma.
  - rewrite uint0_no_comma. reflexivity.
Qed.

Lemma uint0_nonempty d : 1 <= String.length (NilZero.string_of_uint d).
Proof. destruct d; simpl; lia. Qed.

Lemma z_to_string_nonempty z : 1 <= String.length (z_to_string z).
Proof.
  unfold z_to_string. destruct (Z.to_int z) as [d | d]; simpl.
  - apply uint0_nonempty.
  - lia.
Qed.

(* a decimal digit prints as one character *)
Lemma z_to_string_digit z : (0 <= z <= 9)%Z -> exists c, z_to_string z = String c "".
Proof.
  intros Hz.
  assert (H : (z = 0 \/ z = 1 \/ z = 2 \/ z = 3 \/ z = 4 \/ z = 5 \/ z = 6 \/ z = 7 \/ z = 8 \/ z = 9)%Z) by lia.
  repeat (destruct H as [-> | H]; [eexists; reflexivity|]). subst z. eexists; reflexivity.
Qed.

(** ** Joining strings *)

Lemma string_app_length (a b : string) : String.length (a ++ b) = String.length a + String.length b.
Proof. induction a as [|c a IH]; simpl; [reflexivity | rewrite IH; reflexivity]. Qed.

Lemma string_app_nil_r (a : string) : a ++ "" = a.
Proof. induction a as [|c a IH]; simpl; [reflexivity | rewrite IH; reflexivity]. Qed.

Lemma concat_cons2 sep x y l : String.concat sep (x :: y :: l) = x ++ sep ++ String.concat sep (y :: l).
Proof. reflexivity. Qed.

Lemma concat_empty_cons x l : String.concat "" (x :: l) = x ++ String.concat "" l.
Proof. destruct l as [|y l]; [simpl; rewrite string_app_nil_r; reflexivity | reflexivity]. Qed.

(* glued one-character pieces *)
Lemma glued_inj (l1 : list string) : forall l2,
  (forall x, In x l1 -> exists c, x = String c "") ->
  (forall x, In x l2 -> exists c, x = String c "") ->
  String.concat "" l1 = String.concat "" l2 -> l1 = l2.
Proof.
  induction l1 as [|x l1 IH]; intros [|y l2] H1 H2 He.
  - reflexivity.
  - exfalso. destruct (H2 y (or_introl eq_refl)) as (c & ->).
    rewrite concat_empty_cons in He. discriminate.
  - exfalso. destruct (H1 x (or_introl eq_refl)) as (c & ->).
    rewrite concat_empty_cons in He. discriminate.
  - destruct (H1 x (or_introl eq_refl)) as (c1 & ->). destruct (H2 y (or_introl eq_refl)) as (c2 & ->).
    rewrite !concat_empty_cons in He. simpl in He. inversion He; subst. f_equal.
    apply IH; [intros z Hz; apply H1; right; exact Hz | intros z Hz; apply H2; right; exact Hz | assumption].
Qed.

Lemma glued_length (l : list string) :
  (forall x, In x l -> exists c, x = String c "") -> String.length (String.concat "" l) = length l.
Proof.
  induction l as [|x l IH]; intros H; [reflexivity|].
  rewrite concat_empty_cons, string_app_length, IH by (intros z Hz; apply H; right; exact Hz).
  destruct (H x (or_introl eq_refl)) as (c & ->). reflexivity.
Qed.

(* a comma-free piece followed by "end or comma" is determined by the whole *)
Definition stops (r : string) : Prop := r = "" \/ exists r', r = String "," r'.

Lemma piece_unique (x : string) : forall y r1 r2,
  all_chars not_comma x = true -> all_chars not_comma y = true -> stops r1 -> stops r2 ->
  x ++ r1 = y ++ r2 -> x = y /\ r1 = r2.
Proof.
  induction x as [|c x IH]; intros [|c' y] r1 r2 Hx Hy S1 S2 He; simpl in *.
  - auto.
  - exfalso. apply andb_true_iff in Hy. destruct Hy as [Hc _].
    destruct S1 as [-> | (r' & ->)]; [discriminate|]. inversion He; subst c'. discriminate.
  - exfalso. apply andb_true_iff in Hx. destruct Hx as [Hc _].
    destruct S2 as [-> | (r' & ->)]; [discriminate|]. inversion He; subst c. discriminate.
  - apply andb_true_iff in Hx. apply andb_true_iff in Hy. inversion He as [[Hc H1]]; subst c'.
    destruct Hx as [_ Hx]. destruct Hy as [_ Hy].
    destruct (IH y r1 r2 Hx Hy S1 S2 H1) as [-> ->]. split; reflexivity.
Qed.

Lemma comma_joined_inj (l1 : list string) : forall l2,
  length l1 = length l2 ->
  (forall x, In x l1 -> all_chars not_comma x = true) ->
  (forall x, In x l2 -> all_chars not_comma x = true) ->
  String.concat "," l1 = String.concat "," l2 -> l1 = l2.
Proof.
  induction l1 as [|x l1 IH]; intros [|y l2] Hlen H1 H2 He; simpl in Hlen; try discriminate.
  - reflexivity.
  - destruct l1 as [|x' l1]; destruct l2 as [|y' l2]; simpl in Hlen; try discriminate.
    + simpl in He. subst. reflexivity.
    + rewrite !concat_cons2 in He.
      destruct (piece_unique x y _ _ (H1 x (or_introl eq_refl)) (H2 y (or_introl eq_refl))
                  (or_intror (ex_intro _ _ eq_refl)) (or_intror (ex_intro _ _ eq_refl)) He) as [-> Hr].
      simpl in Hr. inversion Hr as [Hr']. f_equal.
      apply IH; [simpl; lia | intros z Hz; apply H1; right; exact Hz
                | intros z Hz; apply H2; right; exact Hz | exact Hr'].
Qed.

Lemma comma_joined_length (l : list string) :
  (forall x, In x l -> 1 <= String.length x) ->
  2 * length l - 1 <= String.length (String.concat "," l).
Proof.
  induction l as [|x l IH]; intros H; [simpl; lia|].
  destruct l as [|y l].
  - simpl. pose proof (H x (or_introl eq_refl)). lia.
  - rewrite concat_cons2, !string_app_length.
    pose proof (H x (or_introl eq_refl)) as Hx.
    assert (IH' := IH (fun z Hz => H z (or_intror Hz))).
    change (String.length ",") with 1. simpl length in *. lia.
Qed.

(** ** The maximum test *)

Lemma fold_max_le (s : list Z) : forall a b,
  (fold_left Z.max s a <= b)%Z <-> (a <= b)%Z /\ forall x, In x s -> (x <= b)%Z.
Proof.
  induction s as [|y s IH]; intros a b; simpl.
  - split; [intros H; split; [exact H | intros x []] | tauto].
  - rewrite IH. split.
    + intros [Hm Hall]. split; [lia|]. intros x [<- | Hx]; [lia | apply Hall; exact Hx].
    + intros [Ha Hall]. split.
      * specialize (Hall y (or_introl eq_refl)). lia.
      * intros x Hx. apply Hall. right. exact Hx.
Qed.

Definition state_max (s : list Z) : Z := fold_left Z.max s (nth 0 s 0%Z).

Lemma vertex_name_unfold s :
  vertex_name s = String.concat (if (state_max s <=? 9)%Z then "" else ",") (map z_to_string s).
Proof. reflexivity. Qed.

Lemma state_max_le s b : (0 <= b)%Z -> ((state_max s <= b)%Z <-> forall x, In x s -> (x <= b)%Z).
Proof.
  intros Hb. unfold state_max. rewrite fold_max_le. split; [tauto|]. intros H. split; [|exact H].
  destruct s as [|y s]; simpl; [exact Hb | apply H; left; reflexivity].
Qed.

Lemma digits_pieces s : (forall x, In x s -> (0 <= x)%Z) -> (state_max s <= 9)%Z ->
  forall x, In x (map z_to_string s) -> exists c, x = String c "".
Proof.
  intros Hpos Hmax x Hx. apply in_map_iff in Hx. destruct Hx as (z & <- & Hz).
  apply z_to_string_digit. split; [apply Hpos; exact Hz|].
  apply (proj1 (state_max_le s 9 ltac:(lia)) Hmax). exact Hz.
Qed.

Lemma comma_free_pieces s : forall x, In x (map z_to_string s) -> all_chars not_comma x = true.
Proof. intros x Hx. apply in_map_iff in Hx. destruct Hx as (z & <- & _). apply z_to_string_no_comma. Qed.

Lemma map_z_to_string_inj s1 s2 : map z_to_string s1 = map z_to_string s2 -> s1 = s2.
Proof.
  revert s2. induction s1 as [|a s1 IH]; intros [|b s2] H; simpl in H; try discriminate; [reflexivity|].
  inversion H as [[Hab Hrest]]. f_equal; [apply z_to_string_inj; exact Hab | apply IH; exact Hrest].
Qed.

(** ** Injectivity *)

(* both glued (max <= 9), entries >= 0: injective, even across lengths *)
Theorem vertex_name_injective_glued s1 s2 :
  (forall x, In x s1 -> (0 <= x)%Z) -> (forall x, In x s2 -> (0 <= x)%Z) ->
  (state_max s1 <= 9)%Z -> (state_max s2 <= 9)%Z ->
  vertex_name s1 = vertex_name s2 -> s1 = s2.
Proof.
  intros P1 P2 M1 M2. rewrite !vertex_name_unfold.
  rewrite (proj2 (Z.leb_le _ _) M1), (proj2 (Z.leb_le _ _) M2). intros He.
  apply map_z_to_string_inj. apply glued_inj; [apply digits_pieces | apply digits_pieces | exact He]; assumption.
Qed.

(* both comma separated (max > 9), same length: injective for entries of either sign *)
Theorem vertex_name_injective_comma s1 s2 :
  length s1 = length s2 -> (9 < state_max s1)%Z -> (9 < state_max s2)%Z ->
  vertex_name s1 = vertex_name s2 -> s1 = s2.
Proof.
  intros Hlen M1 M2. rewrite !vertex_name_unfold.
  rewrite (proj2 (Z.leb_gt _ _) M1), (proj2 (Z.leb_gt _ _) M2). intros He.
  apply map_z_to_string_inj.
  apply comma_joined_inj; [rewrite !map_length; exact Hlen | apply comma_free_pieces | apply comma_free_pieces | exact He].
Qed.

(* one glued, one comma separated, same length: the names differ *)
Lemma vertex_name_mixed s1 s2 :
  length s1 = length s2 -> (forall x, In x s1 -> (0 <= x)%Z) ->
  (state_max s1 <= 9)%Z -> (9 < state_max s2)%Z -> vertex_name s1 <> vertex_name s2.
Proof.
  intros Hlen P1 M1 M2. rewrite !vertex_name_unfold.
  rewrite (proj2 (Z.leb_le _ _) M1), (proj2 (Z.leb_gt _ _) M2). intros He.
  pose proof (glued_length (map z_to_string s1) (digits_pieces s1 P1 M1)) as L1.
  assert (L2 : 2 * length (map z_to_string s2) - 1 <= String.length (String.concat "," (map z_to_string s2))).
  { apply comma_joined_length. intros x Hx. apply in_map_iff in Hx. destruct Hx as (z & <- & _).
    apply z_to_string_nonempty. }
  rewrite <- He, L1, !map_length in L2.
  destruct s1 as [|a [|a' s1]]; destruct s2 as [|b [|b' s2]]; simpl in Hlen, L2; try discriminate Hlen.
  - (* both empty: the maximum of the empty state is 0 *) unfold state_max in M2. simpl in M2. lia.
  - (* one entry each *) simpl in He. apply z_to_string_inj in He. subst b.
    unfold state_max in M1, M2. simpl in M1, M2. lia.
  - (* two or more entries: the comma separated name is longer *) lia.
Qed.

(* (5) vertex names identify states: same length, entries >= 0 *)
Theorem vertex_name_injective s1 s2 :
  length s1 = length s2 ->
  (forall x, In x s1 -> (0 <= x)%Z) -> (forall x, In x s2 -> (0 <= x)%Z) ->
  vertex_name s1 = vertex_name s2 -> s1 = s2.
Proof.
  intros Hlen P1 P2 He.
  destruct (Z_le_gt_dec (state_max s1) 9) as [M1 | M1]; destruct (Z_le_gt_dec (state_max s2) 9) as [M2 | M2].
  - apply vertex_name_injective_glued; assumption.
  - exfalso. apply (vertex_name_mixed s1 s2); auto. lia.
  - exfalso. apply (vertex_name_mixed s2 s1); auto. lia.
  - apply vertex_name_injective_comma; auto; lia.
Qed.

(* distinct rows of all_states (one length, entries >= 0) get distinct names *)
Corollary vertex_names_nodup (states : list (list Z)) (w : nat) :
  (forall s, In s states -> length s = w /\ forall x, In x s -> (0 <= x)%Z) ->
  NoDup states -> NoDup (map vertex_name states).
Proof.
  intros H Hnd. apply NoDup_map_inj_in; [|exact Hnd].
  intros a b Ha Hb. destruct (H a Ha) as [La Pa]. destruct (H b Hb) as [Lb Pb].
  apply vertex_name_injective; [congruence | exact Pa | exact Pb].
Qed.

Example vertex_name_ex :
  vertex_name [2; 0; 1]%Z = "201" /\ vertex_name [2; 10; 1]%Z = "2,10,1" /\ vertex_name [] = "".
Proof. repeat split; reflexivity. Qed.
(* the hypotheses are needed: across lengths, and with negative entries, names collide *)
Example vertex_name_collision_length : vertex_name [1; 2]%Z = vertex_name [12]%Z.
Proof. reflexivity. Qed.
Example vertex_name_collision_negative :
  vertex_name [-1; 2; -34]%Z = vertex_name [-12; -3; 4]%Z /\ length [-1; 2; -34]%Z = length [-12; -3; 4]%Z.
Proof. split; reflexivity. Qed.
Example vertex_name_injective_hyp :
  length [2; 0; 1]%Z = length [2; 10; 1]%Z /\ (forall x, In x [2; 0; 1]%Z -> (0 <= x)%Z) /\
  (forall x, In x [2; 10; 1]%Z -> (0 <= x)%Z).
Proof. split; [reflexivity|]. split; intros x Hx; simpl in Hx; lia. Qed.

Print Assumptions hashes_to_indices_iff.
Print Assumptions hashes_to_indices_spec.
Print Assumptions hashes_to_indices_complete.
Print Assumptions hashes_to_indices_collision.
Print Assumptions hashes_to_indices_total.
Print Assumptions edges_list_iff.
Print Assumptions edges_list_spec.
Print Assumptions edges_list_err_iff.
Print Assumptions edges_list_in.
Print Assumptions edges_renumbered.
Print Assumptions numbering_consistent.
Print Assumptions edge_name_spec.
Print Assumptions edge_name_err_iff.
Print Assumptions edge_name_total.
Print Assumptions vertex_name_injective.
Print Assumptions vertex_names_nodup.
