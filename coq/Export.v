(** Model of the explicit-graph export of BfsResult (algo/bfs_result.py): renumbering of vertices,
    edge list, adjacency, vertex names, edge names. *)
From Coq Require Import ZArith List Bool Arith Lia String DecimalString.
From V Require Import Base Perm GraphImpl.
Import ListNotations.

(* hashes_to_indices_dict: hashes of layer 0, 1, ... numbered consecutively; a repeated hash keeps
   the LAST index (dict assignment) and trips the "Hash collision" assertion through len(ans) != n *)
Definition assoc_set (k : Z) (v : nat) (m : list (Z * nat)) : list (Z * nat) :=
  if existsb (fun '(k', _) => Z.eqb k k') m
  then map (fun '(k', v') => if Z.eqb k k' then (k', v) else (k', v')) m
  else m ++ [(k, v)].
Definition assoc_get (k : Z) (m : list (Z * nat)) : option nat :=
  match find (fun '(k', _) => Z.eqb k k') m with Some (_, v) => Some v | None => None end.

Definition hashes_to_indices (layer_hashes : list (list Z)) (layer_sizes : list nat) : result (list (Z * nat)) :=
  if negb (Datatypes.length layer_hashes =? Datatypes.length layer_sizes)%nat then Err AssertionErr      (* check_has_layer_hashes *)
  else if negb (forallb (fun '(h, s) => (Datatypes.length h =? s)%nat) (combine layer_hashes layer_sizes)) then Err AssertionErr
  else
    let all := List.concat layer_hashes in
    let m := fold_left (fun m '(i, h) => assoc_set h i m) (combine (seq 0 (Datatypes.length all)) all) [] in
    if (Datatypes.length m =? fold_right Nat.add 0 layer_sizes)%nat then Ok m else Err AssertionErr.

(* edges_list: every hash of edges_list_hashes looked up (KeyError when absent) *)
Definition edges_list (m : list (Z * nat)) (edges_h : list (Z * Z)) : result (list (nat * nat)) :=
  fold_right (fun '(a, b) acc =>
     do r <- acc;
     match assoc_get a m, assoc_get b m with
     | Some i, Some j => Ok ((i, j) :: r)
     | _, _ => Err KeyErr
     end) (Ok []) edges_h.

(* BfsResult.vertex_name for 1-D states: digits glued when max <= 9, comma separated otherwise *)
Definition z_to_string (z : Z) : string := NilZero.string_of_int (Z.to_int z).
Definition vertex_name (s : list Z) : string :=
  let mx := fold_left Z.max s (nth 0 s 0%Z) in
  String.concat (if (mx <=? 9)%Z then "" else ",") (map z_to_string s).

(* get_edge_name for permutation graphs: first generator mapping row i1 to row i2 *)
Definition edge_name (perms : list (list nat)) (names : list string) (s1 s2 : list Z) : result string :=
  match find (fun '(p, _) => z_list_eqb (apply_perm 0%Z p s1) s2) (combine perms names) with
  | Some (_, nm) => Ok nm
  | None => Err AssertionErr
  end.

Record export_case := {
  ex_perms : list (list nat); ex_names : list string;
  ex_layer_hashes : list (list Z); ex_layer_sizes : list nat; ex_edges_h : list (Z * Z);
  ex_all_states : list (list Z);
  (* observed *)
  ex_edges_list : list (nat * nat); ex_vertex_names : list string; ex_edge_names : list string;
}.

Definition natpair_eqb (a b : nat * nat) : bool := (fst a =? fst b)%nat && (snd a =? snd b)%nat.

Definition check_export (c : export_case) : bool :=
  match hashes_to_indices (ex_layer_hashes c) (ex_layer_sizes c) with
  | Err _ => false
  | Ok m =>
      match edges_list m (ex_edges_h c) with
      | Err _ => false
      | Ok el =>
          list_eqb natpair_eqb el (ex_edges_list c)
          && list_eqb String.eqb (map vertex_name (ex_all_states c)) (ex_vertex_names c)
          && list_eqb (result_eqb String.eqb)
               (map (fun '(i, j) => edge_name (ex_perms c) (ex_names c) (nth i (ex_all_states c) []) (nth j (ex_all_states c) [])) el)
               (map (fun s => Ok s) (ex_edge_names c))
      end
  end.
