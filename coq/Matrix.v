(** Model of MatrixGenerator (cayley_graph_def.py): int64 matrix action with optional modulus. *)
From Coq Require Import ZArith List Bool Arith Lia.
From V Require Import Base W64.
Import ListNotations.
Open Scope Z_scope.

Definition zsum (l : list Z) : Z := fold_left Z.add l 0.

(* states are flat row-major n*m lists *)
Definition mat_entry (m : nat) (S : list Z) (j k : nat) : Z := nth (j * m + k) S 0.

(* one entry of the product: sum_j a_j * b_j in int64; with a modulus every product is reduced
   before summing (so the sum cannot overflow) and the sum is reduced again *)
Definition dot_mod (modulo : Z) (terms : list (Z * Z)) : Z :=
  if 0 <? modulo
  then wrap (zsum (map (fun '(a, b) => wrap (a * b) mod modulo) terms)) mod modulo
  else wrap (zsum (map (fun '(a, b) => a * b) terms)).

(* apply_batch_torch / apply on one state: ans[i][k] = sum_j mx[i][j]*S[j][k] *)
Definition mat_apply (modulo : Z) (n m : nat) (M : list (list Z)) (S : list Z) : list Z :=
  flat_map (fun i =>
    map (fun k => dot_mod modulo (map (fun j => (nth j (nth i M []) 0, mat_entry m S j k)) (seq 0 n)))
        (seq 0 m)) (seq 0 n).

Definition mat_mul (modulo : Z) (n : nat) (A B : list (list Z)) : list (list Z) :=
  map (fun i => map (fun k =>
      dot_mod modulo (map (fun j => (nth j (nth i A []) 0, nth k (nth j B []) 0)) (seq 0 n))) (seq 0 n)) (seq 0 n).

Definition eye (n : nat) : list (list Z) :=
  map (fun i => map (fun j => if (i =? j)%nat then 1 else 0) (seq 0 n)) (seq 0 n).

Definition mat_eqb := z_list2_eqb.

(* MatrixGenerator.is_inverse_to *)
Definition is_inverse_to (modulo : Z) (n : nat) (A B : list (list Z)) : bool :=
  mat_eqb (mat_mul modulo n A B) (eye n) && mat_eqb (mat_mul modulo n B A) (eye n).
