(** Correctness of the NumPy BFS engine model (NumpyBfs.v, mirroring cayleypy/algo/bfs_numpy.py):
    over ABSTRACT one-word generator functions [fs : list (Z -> Z)] that are closed under inverse
    (with [inv_idx] a correct inverse index), [bfs_numpy] returns exactly the growth function of
    the Schreier graph from [start]: the sizes of the true distance layers 0..max_diameter,
    truncated at the first empty layer.

    Distinctness of the generator functions is NOT needed: the skipping of the inverse generator
    only uses "states of group i were reached by generator i", and duplicate-freeness of the
    groups follows from injectivity of every generator. *)
From Coq Require Import ZArith List Bool Arith Lia Permutation Sorted.
From V Require Import Base BaseProofs Tensor TensorProofs Perm Graph GraphProofs NumpyBfs.
Import ListNotations.
Local Open Scope nat_scope.

(* ------------------------------------------------------------------ *)
(** * Generic list helpers *)

Lemma setdiff_In a b x : In x (setdiff a b) <-> In x a /\ ~ In x b.
Proof.
  unfold setdiff. rewrite filter_In, negb_true_iff, <- not_true_iff_false, isin1_iff. reflexivity.
Qed.

Lemma setdiff_NoDup a b : NoDup a -> NoDup (setdiff a b).
Proof. intros H. unfold setdiff. apply NoDup_filter. exact H. Qed.

(* a fold of "filter-like" steps *)
Lemma fold_filterlike (step : list Z -> nat -> list Z) (bad : nat -> Z -> Prop) :
  (forall acc i x, In x (step acc i) <-> In x acc /\ ~ bad i x) ->
  (forall acc i, NoDup acc -> NoDup (step acc i)) ->
  forall idxs a,
    (forall x, In x (fold_left step idxs a) <-> In x a /\ forall i, In i idxs -> ~ bad i x) /\
    (NoDup a -> NoDup (fold_left step idxs a)).
Proof.
  intros Hin Hnd idxs. induction idxs as [|i rest IH]; intros a.
  - simpl. split; [|auto]. intros x. split; [intros H; split; auto | intros [H _]; exact H].
  - simpl. destruct (IH (step a i)) as [IH1 IH2]. split.
    + intros x. rewrite IH1, Hin. split.
      * intros [[Ha Hb] Hr]. split; [exact Ha|]. intros j [<- | Hj]; auto.
      * intros [Ha Hr]. split; [split; auto|]. intros j Hj. apply Hr. right. exact Hj.
    + intros Ha. apply IH2. apply Hnd. exact Ha.
Qed.

Lemma in_concat_nth {A} (l : list (list A)) x :
  In x (concat l) <-> exists i, i < length l /\ In x (nth i l []).
Proof.
  rewrite in_concat. split.
  - intros (g & Hg & Hx). destruct (In_nth l g [] Hg) as (i & Hi & Hnth).
    exists i. split; [exact Hi|]. rewrite Hnth. exact Hx.
  - intros (i & Hi & Hx). exists (nth i l []). split; [apply nth_In; exact Hi | exact Hx].
Qed.

Lemma NoDup_concat_map {A} (g : nat -> list A) (idxs : list nat) :
  NoDup idxs ->
  (forall i, In i idxs -> NoDup (g i)) ->
  (forall i j x, In i idxs -> In j idxs -> i <> j -> In x (g i) -> In x (g j) -> False) ->
  NoDup (concat (map g idxs)).
Proof.
  induction idxs as [|i rest IH]; intros Hnd Hg Hdisj; simpl.
  - constructor.
  - inversion Hnd as [|i' rest' Hni Hndr]; subst.
    assert (Hrest : NoDup (concat (map g rest))).
    { apply IH; auto.
      - intros j Hj. apply Hg. right. exact Hj.
      - intros a b x Ha Hb. apply Hdisj; right; assumption. }
    assert (Hi : NoDup (g i)) by (apply Hg; left; reflexivity).
    revert Hi. generalize (Hdisj i). intros Hd.
    assert (Hd' : forall x, In x (g i) -> ~ In x (concat (map g rest))).
    { intros x Hx Hc. apply in_concat in Hc. destruct Hc as (l & Hl & Hxl).
      apply in_map_iff in Hl. destruct Hl as (j & <- & Hj).
      apply (Hd j x); auto; [left; reflexivity | right; exact Hj |].
      intros ->. contradiction. }
    clear Hd. induction (g i) as [|y ys IHy]; intros Hi; simpl; [exact Hrest|].
    inversion Hi as [|y' ys' Hny Hys]; subst. constructor.
    + rewrite in_app_iff. intros [H | H]; [contradiction|].
      apply (Hd' y); [left; reflexivity | exact H].
    + apply IHy; auto. intros x Hx. apply Hd'. right. exact Hx.
Qed.

Lemma map_nth_seq {A} (l : list A) d : map (fun i => nth i l d) (seq 0 (length l)) = l.
Proof.
  induction l as [|a t IH]; simpl; [reflexivity|].
  f_equal. rewrite <- seq_shift, map_map. exact IH.
Qed.

Lemma NoDup_concat_groups {A} (l : list (list A)) :
  (forall i, i < length l -> NoDup (nth i l [])) ->
  (forall i j x, i < j < length l -> In x (nth i l []) -> In x (nth j l []) -> False) ->
  NoDup (concat l).
Proof.
  intros Hg Hd. rewrite <- (map_nth_seq l []). apply NoDup_concat_map.
  - apply seq_NoDup.
  - intros i Hi. apply in_seq in Hi. apply Hg. lia.
  - intros i j x Hi Hj Hne Hxi Hxj. apply in_seq in Hi. apply in_seq in Hj.
    destruct (Nat.lt_ge_cases i j) as [Hlt | Hge].
    + apply (Hd i j x); auto. lia.
    + apply (Hd j i x); auto. lia.
Qed.

Lemma nth_map_combine_seq {A B} (F : nat * A -> B) (l : list A) i dA dB :
  i < length l -> nth i (map F (combine (seq 0 (length l)) l)) dB = F (i, nth i l dA).
Proof.
  intros Hi.
  rewrite (nth_indep _ dB (F (0, dA))) by (rewrite map_length, combine_length, seq_length; lia).
  rewrite (map_nth F). rewrite combine_nth by apply seq_length.
  rewrite seq_nth by exact Hi. reflexivity.
Qed.

Lemma map_combine_seq {A B} (F : nat * A -> B) (l : list A) dA :
  map F (combine (seq 0 (length l)) l) = map (fun i => F (i, nth i l dA)) (seq 0 (length l)).
Proof.
  apply (nth_ext _ _ (F (0, dA)) (F (0, dA))).
  - rewrite !map_length, combine_length, seq_length. lia.
  - intros i Hi. rewrite map_length, combine_length, seq_length in Hi.
    rewrite (nth_map_combine_seq F l i dA) by lia.
    rewrite (nth_indep _ (F (0, dA)) ((fun i => F (i, nth i l dA)) 0)) by (rewrite map_length, seq_length; lia).
    rewrite (map_nth (fun i => F (i, nth i l dA))). rewrite seq_nth by lia. reflexivity.
Qed.

Lemma NoDup_map_injective {A B} (g : A -> B) (l : list A) :
  (forall x y, g x = g y -> x = y) -> NoDup l -> NoDup (map g l).
Proof.
  intros Hinj. induction 1 as [|a l Hn Hnd IH]; simpl; constructor; auto.
  intros Hin. apply in_map_iff in Hin. destruct Hin as (y & Hy & Hyl).
  apply Hinj in Hy. subst y. contradiction.
Qed.

Lemma nth_map_default {A B} (F : A -> B) (l : list A) i dA dB :
  i < length l -> nth i (map F l) dB = F (nth i l dA).
Proof.
  intros Hi. rewrite (nth_indep _ dB (F dA)) by (rewrite map_length; exact Hi). apply map_nth.
Qed.

(* the largest index of a group containing x *)
Lemma last_group (P : nat -> Prop) (n : nat) :
  (forall i, P i \/ ~ P i) ->
  (exists i, i < n /\ P i) ->
  exists i, i < n /\ P i /\ forall j, i < j < n -> ~ P j.
Proof.
  intros Pdec. induction n as [|n IH]; intros (i & Hi & HP); [lia|].
  destruct (Pdec n) as [Hn | Hn].
  - exists n. split; [lia|]. split; [exact Hn|]. intros j Hj. lia.
  - assert (Hi' : i < n).
    { destruct (Nat.eq_dec i n) as [-> | Hne]; [contradiction | lia]. }
    destruct (IH (ex_intro _ i (conj Hi' HP))) as (k & Hk & HPk & Hmax).
    exists k. split; [lia|]. split; [exact HPk|]. intros j Hj.
    destruct (Nat.eq_dec j n) as [-> | Hne]; [exact Hn|]. apply Hmax. lia.
Qed.

Lemma In_Z_dec (x : Z) (l : list Z) : In x l \/ ~ In x l.
Proof. destruct (in_dec Z.eq_dec x l); auto. Qed.

Lemma NoDup_same_length {A} (l1 l2 : list A) :
  NoDup l1 -> NoDup l2 -> (forall x, In x l1 <-> In x l2) -> length l1 = length l2.
Proof.
  intros H1 H2 H. apply Permutation_length. apply NoDup_Permutation; assumption.
Qed.

Lemma SSorted_lt_NoDup (l : list Z) : StronglySorted Z.lt l -> NoDup l.
Proof.
  induction 1 as [|a l Hs IH Hf]; constructor; auto.
  intros Hin. rewrite Forall_forall in Hf. specialize (Hf a Hin). lia.
Qed.

(* ------------------------------------------------------------------ *)
(** * The engine *)

Section NumpyProofs.
  Variable fs : list (Z -> Z).
  Variable inv_idx : list nat.
  Variable start : Z.

  Local Notation pn := (length fs).
  Local Notation f i := (nth i fs (fun x : Z => x)).
  Local Notation L := (Graph.layer Z Z.eq_dec fs [start]).
  Local Notation grp l i := (nth i l (@nil Z)).

  (** [inv_idx] is a correct inverse index: one entry per generator, each entry a valid
      generator index, and generator [inv_idx[i]] is the two-sided inverse of generator [i]. *)
  Definition inverse_index_ok : Prop :=
    length inv_idx = pn /\
    forall i, i < pn ->
      nth i inv_idx 0 < pn /\
      (forall x, f (nth i inv_idx 0) (f i x) = x) /\
      (forall x, f i (f (nth i inv_idx 0) x) = x).

  Hypothesis Hinv : inverse_index_ok.

  Lemma f_inj i x y : i < pn -> f i x = f i y -> x = y.
  Proof.
    intros Hi H. destruct Hinv as [_ Hall]. destruct (Hall i Hi) as (_ & Hl & _).
    rewrite <- (Hl x), <- (Hl y), H. reflexivity.
  Qed.

  Lemma In_fs_iff g : In g fs <-> exists i, i < pn /\ g = f i.
  Proof.
    split.
    - intros Hg. destruct (In_nth fs g (fun x => x) Hg) as (i & Hi & Hn).
      exists i. split; [exact Hi | symmetry; exact Hn].
    - intros (i & Hi & ->). apply nth_In. exact Hi.
  Qed.

  Lemma fs_symmetric : Graph.symmetric_on Z fs (fun _ => True).
  Proof.
    intros g x Hg _. apply In_fs_iff in Hg. destruct Hg as (i & Hi & ->).
    destruct Hinv as [_ Hall]. destruct (Hall i Hi) as (Hlt & Hl & _).
    exists (f (nth i inv_idx 0)). split; [apply nth_In; exact Hlt | apply Hl].
  Qed.

  (** Two-layer window: layer t+2 = neighbours of layer t+1 that are in neither layer t+1 nor t *)
  Lemma layer_SS_iff t x :
    In x (L (S (S t))) <->
    (exists i y, i < pn /\ In y (L (S t)) /\ x = f i y) /\ ~ In x (L (S t)) /\ ~ In x (L t).
  Proof.
    rewrite layer_succ_spec, N_spec. split.
    - intros [(y & g & Hy & Hg & ->) Hns]. apply In_fs_iff in Hg. destruct Hg as (i & Hi & ->).
      split; [exists i, y; auto|]. split; intros Hc; apply Hns; apply seen_upto_spec.
      + exists (S t). split; [lia | exact Hc].
      + exists t. split; [lia | exact Hc].
    - intros [(i & y & Hi & Hy & ->) [Hn1 Hn0]].
      assert (HN : In (f i y) (Graph.N Z fs (L (S t)))).
      { apply N_spec. exists y, (f i). split; [exact Hy|]. split; [apply nth_In; exact Hi | reflexivity]. }
      split.
      + exists y, (f i). split; [exact Hy|]. split; [apply nth_In; exact Hi | reflexivity].
      + intros Hseen.
        destruct (window2 Z Z.eq_dec fs (fun _ => True) [start] (S t) (f i y)) as [H | (j & Hj & H)]; auto.
        * exact fs_symmetric.
        * intros g z _ _. exact I.
        * injection Hj as <-. contradiction.
  Qed.

  Lemma layer_1_iff x :
    In x (L 1) <-> (exists i, i < pn /\ x = f i start) /\ x <> start.
  Proof.
    rewrite layer_succ_spec, N_spec. rewrite seen_0. simpl. split.
    - intros [(y & g & Hy & Hg & ->) Hns]. destruct Hy as [<- | []].
      apply In_fs_iff in Hg. destruct Hg as (i & Hi & ->). split; [exists i; auto|].
      intros Hc. apply Hns. left. symmetry. exact Hc.
    - intros [(i & Hi & ->) Hne]. split.
      + exists start, (f i). split; [left; reflexivity|]. split; [apply nth_In; exact Hi | reflexivity].
      + intros [Hc | []]. apply Hne. symmetry. exact Hc.
  Qed.

  Lemma layer_0_eq : L 0 = [start].
  Proof. reflexivity. Qed.

  (* ---------------------------------------------------------------- *)
  (** ** make_unique *)

  Lemma make_unique_length l : length (make_unique fs l) = length l.
  Proof. unfold make_unique. rewrite map_length, combine_length, seq_length. lia. Qed.

  Lemma make_unique_grp l i :
    i < length l ->
    grp (make_unique fs l) i =
    fold_left (fun acc i2 => setdiff acc (grp l i2)) (seq (S i) (pn - S i)) (grp l i).
  Proof.
    intros Hi. unfold make_unique.
    rewrite (nth_map_combine_seq _ l i [] []) by exact Hi. reflexivity.
  Qed.

  Lemma make_unique_spec l i :
    i < length l ->
    (forall x, In x (grp (make_unique fs l) i) <->
               In x (grp l i) /\ forall j, i < j < pn -> ~ In x (grp l j)) /\
    (NoDup (grp l i) -> NoDup (grp (make_unique fs l) i)).
  Proof.
    intros Hi. rewrite make_unique_grp by exact Hi.
    destruct (fold_filterlike (fun acc i2 => setdiff acc (grp l i2)) (fun i2 x => In x (grp l i2))
                (fun acc i2 x => setdiff_In acc (grp l i2) x)
                (fun acc i2 => setdiff_NoDup acc (grp l i2))
                (seq (S i) (pn - S i)) (grp l i)) as [H1 H2].
    split; [|exact H2].
    intros x. rewrite H1. split; intros [Ha Hb]; (split; [exact Ha|]).
    - intros j Hj. apply Hb. apply in_seq. lia.
    - intros j Hj. apply in_seq in Hj. apply Hb. lia.
  Qed.

  (** [groups_of prev cur l]: [l] is a duplicate-free group representation of the set [cur],
      group [i] holding only states obtained as [f_i] of a state of [prev]. *)
  Definition groups_of (prev cur : list Z) (l : list (list Z)) : Prop :=
    length l = pn /\
    (forall x, In x (concat l) <-> In x cur) /\
    (forall i, i < pn -> NoDup (grp l i)) /\
    (forall i j x, i < j < pn -> In x (grp l i) -> In x (grp l j) -> False) /\
    (forall i x, i < pn -> In x (grp l i) -> exists y, In y prev /\ x = f i y).

  Lemma groups_of_NoDup prev cur l : groups_of prev cur l -> NoDup (concat l).
  Proof.
    intros (Hlen & _ & Hnd & Hdisj & _). apply NoDup_concat_groups; rewrite Hlen; auto.
  Qed.

  Lemma groups_of_total prev cur l : NoDup cur -> groups_of prev cur l -> total l = length cur.
  Proof.
    intros Hc Hg. unfold total. apply NoDup_same_length; auto.
    - eapply groups_of_NoDup; eauto.
    - destruct Hg as (_ & H & _). exact H.
  Qed.

  (** make_unique turns raw groups (each duplicate-free, right provenance, union = cur) into a
      group representation *)
  Lemma make_unique_groups prev cur raw :
    length raw = pn ->
    (forall x, In x (concat raw) <-> In x cur) ->
    (forall i, i < pn -> NoDup (grp raw i)) ->
    (forall i x, i < pn -> In x (grp raw i) -> exists y, In y prev /\ x = f i y) ->
    groups_of prev cur (make_unique fs raw).
  Proof.
    intros Hlen Hcur Hnd Hprov.
    assert (Hspec : forall i, i < pn ->
      (forall x, In x (grp (make_unique fs raw) i) <->
                 In x (grp raw i) /\ forall j, i < j < pn -> ~ In x (grp raw j)) /\
      (NoDup (grp raw i) -> NoDup (grp (make_unique fs raw) i))).
    { intros i Hi. apply make_unique_spec. lia. }
    split; [rewrite make_unique_length; exact Hlen|].
    split; [|split; [|split]].
    - intros x. rewrite <- Hcur, !in_concat_nth, make_unique_length, Hlen. split.
      + intros (i & Hi & Hx). exists i. split; [exact Hi|]. apply (Hspec i Hi) in Hx. tauto.
      + intros Hex.
        destruct (last_group (fun i => In x (grp raw i)) pn (fun i => In_Z_dec x (grp raw i)) Hex)
          as (i & Hi & Hx & Hmax).
        exists i. split; [exact Hi|]. apply (Hspec i Hi). split; assumption.
    - intros i Hi. apply (Hspec i Hi). apply Hnd. exact Hi.
    - intros i j x Hij Hxi Hxj.
      apply (Hspec i) in Hxi; [|lia]. apply (Hspec j) in Hxj; [|lia].
      destruct Hxi as [_ Hmax]. destruct Hxj as [Hxj _]. apply (Hmax j); auto.
    - intros i x Hi Hx. apply (Hspec i Hi) in Hx. destruct Hx as [Hx _]. apply Hprov; auto.
  Qed.

  (* ---------------------------------------------------------------- *)
  (** ** One iteration *)

  (* the raw group of generator i1, before make_unique *)
  Definition raw_group (l0 l1 : list (list Z)) (i1 : nat) : list Z :=
    fold_left (fun st i2 => setdiff (setdiff st (grp l0 i2)) (grp l1 i2)) (seq 0 pn)
      (sort_z (concat (map (fun i2 => map (f i1) (grp l1 i2))
                 (filter (fun i2 => negb (i2 =? nth i1 inv_idx 0)) (seq 0 pn))))).

  Lemma next_layer_eq l0 l1 :
    next_layer fs inv_idx l0 l1 = make_unique fs (map (raw_group l0 l1) (seq 0 pn)).
  Proof.
    unfold next_layer. f_equal.
    rewrite (map_combine_seq _ fs (fun x : Z => x)). reflexivity.
  Qed.

  (** the loop invariant: (l0, l1) represent layers (t, t+1) *)
  Definition Inv (t : nat) (l0 l1 : list (list Z)) : Prop :=
    length l0 = pn /\
    (forall x, In x (concat l0) <-> In x (L t)) /\
    groups_of (L t) (L (S t)) l1.

  Lemma raw_group_spec t l0 l1 i1 :
    Inv t l0 l1 -> i1 < pn ->
    (forall x, In x (raw_group l0 l1 i1) <->
               (exists y, In y (L (S t)) /\ x = f i1 y) /\ ~ In x (L (S t)) /\ ~ In x (L t)) /\
    NoDup (raw_group l0 l1 i1).
  Proof.
    intros (Hl0 & H0 & Hlen1 & H1 & Hnd & Hdisj & Hprov) Hi1.
    unfold raw_group.
    set (idxs := filter (fun i2 => negb (i2 =? nth i1 inv_idx 0)) (seq 0 pn)).
    set (src := sort_z (concat (map (fun i2 => map (f i1) (grp l1 i2)) idxs))).
    assert (Hidx : forall i2, In i2 idxs <-> i2 < pn /\ i2 <> nth i1 inv_idx 0).
    { intros i2. unfold idxs. rewrite filter_In, in_seq, negb_true_iff, Nat.eqb_neq. lia. }
    assert (Hsrc_in : forall x, In x src <->
              exists i2, i2 < pn /\ i2 <> nth i1 inv_idx 0 /\ exists y, In y (grp l1 i2) /\ x = f i1 y).
    { intros x. unfold src. split.
      - intros Hx. apply (Permutation_in _ (sort_z_perm _)) in Hx.
        apply in_concat in Hx. destruct Hx as (g & Hg & Hxg).
        apply in_map_iff in Hg. destruct Hg as (i2 & <- & Hi2).
        apply in_map_iff in Hxg. destruct Hxg as (y & <- & Hy).
        apply Hidx in Hi2. exists i2. split; [tauto|]. split; [tauto|]. exists y. auto.
      - intros (i2 & Hi2 & Hne & y & Hy & ->).
        apply (Permutation_in _ (Permutation_sym (sort_z_perm _))).
        apply in_concat. exists (map (f i1) (grp l1 i2)). split.
        + apply in_map_iff. exists i2. split; [reflexivity|]. apply Hidx. auto.
        + apply in_map. exact Hy. }
    assert (Hsrc_nd : NoDup src).
    { unfold src. apply (Permutation_NoDup (Permutation_sym (sort_z_perm _))).
      apply NoDup_concat_map.
      - unfold idxs. apply NoDup_filter. apply seq_NoDup.
      - intros i2 Hi2. apply Hidx in Hi2. apply NoDup_map_injective.
        + intros x y. apply f_inj. exact Hi1.
        + apply Hnd. tauto.
      - intros a b x Ha Hb Hab Hxa Hxb. apply Hidx in Ha. apply Hidx in Hb.
        apply in_map_iff in Hxa. destruct Hxa as (ya & Hya & Hina).
        apply in_map_iff in Hxb. destruct Hxb as (yb & Hyb & Hinb).
        assert (ya = yb) by (apply (f_inj i1); [exact Hi1 | congruence]). subst yb.
        destruct (Nat.lt_ge_cases a b) as [Hlt | Hge].
        + apply (Hdisj a b ya); auto. lia.
        + apply (Hdisj b a ya); auto. lia. }
    destruct (fold_filterlike
                (fun st i2 => setdiff (setdiff st (grp l0 i2)) (grp l1 i2))
                (fun i2 x => In x (grp l0 i2) \/ In x (grp l1 i2))) with (idxs := seq 0 pn) (a := src)
      as [HA HB].
    { intros acc i x. rewrite !setdiff_In. tauto. }
    { intros acc i Hacc. apply setdiff_NoDup. apply setdiff_NoDup. exact Hacc. }
    split; [|apply HB; exact Hsrc_nd].
    intros x. rewrite HA, Hsrc_in.
    assert (Hbad : (forall i, In i (seq 0 pn) -> ~ (In x (grp l0 i) \/ In x (grp l1 i))) <->
                   ~ In x (L (S t)) /\ ~ In x (L t)).
    { rewrite <- H0, <- H1, !in_concat_nth, Hl0, Hlen1. split.
      - intros Hall. split; intros (i & Hi & Hx); apply (Hall i); auto; apply in_seq; lia.
      - intros [Hn1 Hn0] i Hi [Hx | Hx]; apply in_seq in Hi.
        + apply Hn0. exists i. split; [lia | exact Hx].
        + apply Hn1. exists i. split; [lia | exact Hx]. }
    rewrite Hbad. split.
    - intros [(i2 & Hi2 & Hne & y & Hy & ->) Hn]. split; [|exact Hn].
      exists y. split; [|reflexivity]. apply H1. apply in_concat_nth. exists i2. rewrite Hlen1. auto.
    - intros [(y & Hy & ->) [Hn1 Hn0]]. split; [|auto].
      apply H1 in Hy. apply in_concat_nth in Hy. rewrite Hlen1 in Hy. destruct Hy as (i2 & Hi2 & Hy).
      exists i2. split; [exact Hi2|]. split; [|exists y; auto].
      (* group inv(i1) is skipped: its states go back to layer t *)
      intros ->. destruct (Hprov _ y (proj1 (proj2 Hinv i1 Hi1)) Hy) as (z & Hz & ->).
      apply Hn0. destruct Hinv as [_ Hall]. destruct (Hall i1 Hi1) as (_ & _ & Hr).
      rewrite Hr. exact Hz.
  Qed.

  (** THE one-iteration lemma: next_layer maps group representations of layers (t, t+1)
      to a group representation of layer t+2 *)
  Theorem numpy_next_layer_correct t l0 l1 :
    Inv t l0 l1 -> groups_of (L (S t)) (L (S (S t))) (next_layer fs inv_idx l0 l1).
  Proof.
    intros HI. rewrite next_layer_eq.
    assert (Hgrp : forall i, i < pn -> grp (map (raw_group l0 l1) (seq 0 pn)) i = raw_group l0 l1 i).
    { intros i Hi. rewrite (nth_indep _ [] (raw_group l0 l1 0)) by (rewrite map_length, seq_length; exact Hi).
      rewrite (map_nth (raw_group l0 l1)). rewrite seq_nth by exact Hi. reflexivity. }
    apply make_unique_groups.
    - rewrite map_length, seq_length. reflexivity.
    - intros x. rewrite in_concat_nth, map_length, seq_length, layer_SS_iff. split.
      + intros (i & Hi & Hx). rewrite Hgrp in Hx by exact Hi.
        apply (raw_group_spec t l0 l1 i HI Hi) in Hx. destruct Hx as [(y & Hy & ->) Hn].
        split; [exists i, y; auto | exact Hn].
      + intros [(i & y & Hi & Hy & ->) Hn]. exists i. split; [exact Hi|].
        rewrite Hgrp by exact Hi. apply (raw_group_spec t l0 l1 i HI Hi). split; [exists y; auto | exact Hn].
    - intros i Hi. rewrite Hgrp by exact Hi. apply (raw_group_spec t l0 l1 i HI Hi).
    - intros i x Hi Hx. rewrite Hgrp in Hx by exact Hi.
      apply (raw_group_spec t l0 l1 i HI Hi) in Hx. destruct Hx as [(y & Hy & ->) _]. exists y. auto.
  Qed.

  Corollary Inv_step t l0 l1 : Inv t l0 l1 -> Inv (S t) l1 (next_layer fs inv_idx l0 l1).
  Proof.
    intros HI. pose proof (numpy_next_layer_correct t l0 l1 HI) as Hn.
    destruct HI as (_ & _ & Hg). split; [|split].
    - destruct Hg as [Hlen _]. exact Hlen.
    - destruct Hg as (_ & H & _). exact H.
    - exact Hn.
  Qed.

  (* ---------------------------------------------------------------- *)
  (** ** The initial state *)

  Local Notation layer1_init := (make_unique fs (map (fun g : Z -> Z => setdiff [g start] [start]) fs)).

  Lemma init_groups : groups_of (L 0) (L 1) layer1_init.
  Proof.
    assert (Hgrp : forall i, i < pn ->
              grp (map (fun g : Z -> Z => setdiff [g start] [start]) fs) i = setdiff [f i start] [start]).
    { intros i Hi. apply (nth_map_default (fun g : Z -> Z => setdiff [g start] [start])). exact Hi. }
    assert (Hin : forall i x, i < pn ->
              (In x (setdiff [f i start] [start]) <-> x = f i start /\ x <> start)).
    { intros i x Hi. rewrite setdiff_In. simpl. split.
      - intros [[<- | []] Hn]. split; [reflexivity|]. intros Hc. apply Hn. left. symmetry. exact Hc.
      - intros [-> Hn]. split; [left; reflexivity|]. intros [Hc | []]. apply Hn. symmetry. exact Hc. }
    apply make_unique_groups.
    - apply map_length.
    - intros x. rewrite in_concat_nth, map_length, layer_1_iff. split.
      + intros (i & Hi & Hx). rewrite Hgrp in Hx by exact Hi. apply Hin in Hx; [|exact Hi].
        destruct Hx as [-> Hn]. split; [exists i; auto | exact Hn].
      + intros [(i & Hi & ->) Hn]. exists i. split; [exact Hi|]. rewrite Hgrp by exact Hi.
        apply Hin; auto.
    - intros i Hi. rewrite Hgrp by exact Hi. apply setdiff_NoDup. constructor; [intros [] | constructor].
    - intros i x Hi Hx. rewrite Hgrp in Hx by exact Hi. apply Hin in Hx; [|exact Hi].
      destruct Hx as [-> _]. exists start. split; [left; reflexivity | reflexivity].
  Qed.

  Lemma init_layer0 : 0 < pn -> forall x, In x (concat (repeat [start] pn)) <-> In x (L 0).
  Proof.
    intros Hpn x. rewrite layer_0_eq, in_concat. split.
    - intros (l & Hl & Hx). apply repeat_spec in Hl. subst l. exact Hx.
    - intros Hx. exists [start]. split; [|exact Hx].
      destruct pn as [|m]; [lia|]. left. reflexivity.
  Qed.

  Lemma Inv_init : 0 < pn -> Inv 0 (repeat [start] pn) layer1_init.
  Proof.
    intros Hpn. split; [apply repeat_length|]. split; [apply init_layer0; exact Hpn | apply init_groups].
  Qed.

  (* ---------------------------------------------------------------- *)
  (** ** The loop *)

  Definition sizes (i : nat) : nat := length (L i).

  (** [growth_cut md k]: k is where the growth function is cut: at max_diameter, or just
      before the first empty layer, whichever comes first. *)
  Definition growth_cut (md k : nat) : Prop :=
    k <= md /\ (forall i, i <= k -> L i <> []) /\ (k = md \/ L (S k) = []).

  Lemma sizes_rev_S n : rev (map sizes (seq 0 (S n))) = sizes n :: rev (map sizes (seq 0 n)).
  Proof. rewrite seq_S, map_app, rev_app_distr. reflexivity. Qed.

  Lemma cut_at_last md k t :
    growth_cut md k -> (forall i, i <= t -> L i <> []) -> (md = t \/ L (S t) = []) -> t <= md -> k = t.
  Proof.
    intros (Hk & Hne & Hend) Hnet Hendt Htm.
    destruct (lt_eq_lt_dec k t) as [[Hlt | Heq] | Hgt]; [|exact Heq|].
    - exfalso. destruct Hend as [-> | He]; [lia|]. apply (Hnet (S k)); [lia | exact He].
    - exfalso. destruct Hendt as [-> | He]; [lia|]. apply (Hne (S t)); [lia | exact He].
  Qed.

  Lemma loop_correct n : forall t l0 l1 sr k,
    Inv t l0 l1 ->
    (forall i, i <= S t -> L i <> []) ->
    sr = rev (map sizes (seq 0 (S (S t)))) ->
    growth_cut (S t + n) k ->
    match loop_nat (np_iter fs inv_idx) n (l0, l1, sr) with
    | inl (_, _, s) => rev s
    | inr s => s
    end = map sizes (seq 0 (S k)).
  Proof.
    induction n as [|n IH]; intros t l0 l1 sr k HI Hne Hsr Hcut.
    - cbn [loop_nat]. rewrite Hsr, rev_involutive.
      rewrite (cut_at_last _ k (S t) Hcut Hne); [reflexivity | left; lia | lia].
    - cbn [loop_nat]. unfold np_iter.
      pose proof (numpy_next_layer_correct t l0 l1 HI) as Hg.
      pose proof (groups_of_total _ _ _ (layer_NoDup Z Z.eq_dec fs [start] (S (S t))) Hg) as Htot.
      rewrite Htot. destruct (length (L (S (S t))) =? 0) eqn:Hz.
      + apply Nat.eqb_eq in Hz. apply length_zero_iff_nil in Hz.
        rewrite Hsr, rev_involutive.
        rewrite (cut_at_last _ k (S t) Hcut Hne); [reflexivity | right; exact Hz | lia].
      + apply Nat.eqb_neq in Hz.
        apply (IH (S t)).
        * apply Inv_step. exact HI.
        * intros i Hi. destruct (Nat.eq_dec i (S (S t))) as [-> | Hn].
          -- intros Hc. apply Hz. rewrite Hc. reflexivity.
          -- apply Hne. lia.
        * rewrite (sizes_rev_S (S (S t))), Hsr. reflexivity.
        * replace (S (S t) + n) with (S t + S n) by lia. exact Hcut.
  Qed.

  Lemma size1_eq : length (unique_sorted (concat layer1_init)) = length (L 1).
  Proof.
    destruct (unique_sorted_spec (concat layer1_init)) as [Hs Hi].
    apply NoDup_same_length.
    - apply SSorted_lt_NoDup. exact Hs.
    - apply layer_NoDup.
    - intros x. rewrite Hi. destruct init_groups as (_ & H & _). apply H.
  Qed.

  (** MAIN THEOREM.  For max_diameter >= 1 the engine returns the sizes of the true layers
      0..k, where k = max_diameter or the index of the last non-empty layer, whichever is
      smaller ([growth_cut]; such a k exists and is unique: [growth_cut_exists/_unique]). *)
  Theorem numpy_bfs_growth (max_diameter : BinNums.N) (k : nat) :
    (1 <= max_diameter)%N ->
    growth_cut (N.to_nat max_diameter) k ->
    bfs_numpy fs inv_idx start max_diameter = map (fun i => length (L i)) (seq 0 (S k)).
  Proof.
    intros Hmd Hcut. change (fun i => length (L i)) with sizes.
    unfold bfs_numpy. cbv zeta. rewrite size1_eq.
    assert (HL0 : L 0 <> []) by (rewrite layer_0_eq; discriminate).
    destruct (length (L 1) =? 0) eqn:Hz.
    - apply Nat.eqb_eq in Hz. apply length_zero_iff_nil in Hz.
      rewrite (cut_at_last _ k 0 Hcut).
      + reflexivity.
      + intros i Hi. assert (i = 0) by lia. subst i. exact HL0.
      + right. exact Hz.
      + lia.
    - apply Nat.eqb_neq in Hz.
      assert (Hpn : 0 < pn).
      { destruct (L 1) as [|x r] eqn:HL1; [exfalso; apply Hz; reflexivity|].
        assert (Hx : In x (L 1)) by (rewrite HL1; left; reflexivity).
        apply layer_1_iff in Hx. destruct Hx as [(i & Hi & _) _]. lia. }
      rewrite loop_N_nat.
      apply (loop_correct (N.to_nat (max_diameter - 1)) 0).
      + apply Inv_init. exact Hpn.
      + intros i Hi. destruct i as [|[|i]]; [exact HL0 | | lia].
        intros Hc. apply Hz. rewrite Hc. reflexivity.
      + reflexivity.
      + replace (1 + N.to_nat (max_diameter - 1)) with (N.to_nat max_diameter) by lia. exact Hcut.
  Qed.

  (* ---------------------------------------------------------------- *)
  (** ** The cut exists, is unique, and other presentations of the result *)

  Lemma growth_cut_exists md : exists k, growth_cut md k.
  Proof.
    induction md as [|m (k & Hk & Hne & Hend)].
    - exists 0. split; [lia|]. split; [|left; reflexivity].
      intros i Hi. assert (i = 0) by lia. subst i. rewrite layer_0_eq. discriminate.
    - destruct Hend as [-> | He].
      + destruct (L (S m)) as [|x r] eqn:HL.
        * exists m. split; [lia|]. split; [exact Hne | right; exact HL].
        * exists (S m). split; [lia|]. split; [|left; reflexivity].
          intros i Hi. destruct (Nat.eq_dec i (S m)) as [-> | Hn].
          -- rewrite HL. discriminate.
          -- apply Hne. lia.
      + exists k. split; [lia|]. split; [exact Hne | right; exact He].
  Qed.

  Lemma growth_cut_unique md k1 k2 : growth_cut md k1 -> growth_cut md k2 -> k1 = k2.
  Proof.
    intros H1 (Hk2 & Hne2 & Hend2). apply (cut_at_last md k1 k2 H1 Hne2); [|exact Hk2].
    destruct Hend2 as [-> | He]; [left; reflexivity | right; exact He].
  Qed.

  (** the same with [firstn]: the list of all layer sizes 0..max_diameter, cut after entry k *)
  Corollary numpy_bfs_growth_firstn (max_diameter : BinNums.N) (k : nat) :
    (1 <= max_diameter)%N ->
    growth_cut (N.to_nat max_diameter) k ->
    bfs_numpy fs inv_idx start max_diameter =
    firstn (S k) (map (fun i => length (L i)) (seq 0 (S (N.to_nat max_diameter)))).
  Proof.
    intros Hmd Hcut. rewrite (numpy_bfs_growth max_diameter k Hmd Hcut).
    destruct Hcut as (Hk & _).
    replace (S (N.to_nat max_diameter)) with (S k + (N.to_nat max_diameter - k)) by lia.
    rewrite seq_app, map_app, firstn_app, map_length, seq_length.
    replace (S k - S k) with 0 by lia. rewrite firstn_O, app_nil_r.
    rewrite firstn_all2; [reflexivity|]. rewrite map_length, seq_length. lia.
  Qed.

  (** a fully computable presentation: sizes of layers 0..max_diameter up to the first zero *)
  Fixpoint take_nonzero (l : list nat) : list nat :=
    match l with
    | [] => []
    | x :: t => if x =? 0 then [] else x :: take_nonzero t
    end.

  Lemma take_nonzero_app a b :
    (forall x, In x a -> x <> 0) -> (b = [] \/ hd 1 b = 0) -> take_nonzero (a ++ b) = a.
  Proof.
    intros Ha Hb. induction a as [|x a IH]; simpl.
    - destruct Hb as [-> | Hb]; [reflexivity|]. destruct b as [|y b]; [reflexivity|].
      simpl in Hb. subst y. reflexivity.
    - destruct (x =? 0) eqn:Hx.
      + apply Nat.eqb_eq in Hx. exfalso. apply (Ha x); [left; reflexivity | exact Hx].
      + f_equal. apply IH. intros y Hy. apply Ha. right. exact Hy.
  Qed.

  Corollary numpy_bfs_growth_takewhile (max_diameter : BinNums.N) :
    (1 <= max_diameter)%N ->
    bfs_numpy fs inv_idx start max_diameter =
    take_nonzero (map (fun i => length (L i)) (seq 0 (S (N.to_nat max_diameter)))).
  Proof.
    intros Hmd. destruct (growth_cut_exists (N.to_nat max_diameter)) as (k & Hcut).
    rewrite (numpy_bfs_growth max_diameter k Hmd Hcut).
    destruct Hcut as (Hk & Hne & Hend).
    replace (S (N.to_nat max_diameter)) with (S k + (N.to_nat max_diameter - k)) by lia.
    rewrite seq_app, map_app. symmetry. apply take_nonzero_app.
    - intros x Hx. apply in_map_iff in Hx. destruct Hx as (i & <- & Hi). apply in_seq in Hi.
      intros Hc. apply length_zero_iff_nil in Hc. apply (Hne i); [lia | exact Hc].
    - destruct Hend as [-> | He].
      + left. replace (N.to_nat max_diameter - N.to_nat max_diameter) with 0 by lia. reflexivity.
      + destruct (N.to_nat max_diameter - k) as [|m]; [left; reflexivity|]. right.
        simpl. rewrite He. reflexivity.
  Qed.

  (** entry i of the result counts the states at distance exactly i from [start] *)
  Corollary numpy_bfs_counts_distance_classes (max_diameter : BinNums.N) (k i : nat) :
    (1 <= max_diameter)%N ->
    growth_cut (N.to_nat max_diameter) k ->
    length (bfs_numpy fs inv_idx start max_diameter) = S k /\
    (i <= k ->
     exists cls, NoDup cls /\ (forall x, In x cls <-> Graph.dist_is Z fs [start] x i) /\
                 nth i (bfs_numpy fs inv_idx start max_diameter) 0 = length cls).
  Proof.
    intros Hmd Hcut. rewrite (numpy_bfs_growth max_diameter k Hmd Hcut). split.
    - rewrite map_length, seq_length. reflexivity.
    - intros Hi. exists (L i). split; [apply layer_NoDup|]. split.
      + intros x. apply ref_layers_dist.
      + rewrite (nth_indep _ 0 ((fun i => length (L i)) 0)) by (rewrite map_length, seq_length; lia).
        rewrite (map_nth (fun i => length (L i))). rewrite seq_nth by lia. reflexivity.
  Qed.
End NumpyProofs.

(* ------------------------------------------------------------------ *)
(** * Non-vacuity: concrete instances of the hypotheses and of the theorem *)

(* two commuting involutions on one-word states: the orbit of 0 is a 4-cycle {0,1,3,2} *)
Definition ex_xor : list (Z -> Z) := [fun x => Z.lxor x 1; fun x => Z.lxor x 2].

Lemma lxor_twice x c : Z.lxor (Z.lxor x c) c = x.
Proof. rewrite Z.lxor_assoc, Z.lxor_nilpotent, Z.lxor_0_r. reflexivity. Qed.

Example ex_xor_inverse_ok : inverse_index_ok ex_xor [0; 1].
Proof.
  split; [reflexivity|]. intros i Hi. simpl in Hi.
  destruct i as [|[|i]]; [| |lia]; simpl; (split; [lia|]); split; intros x; apply lxor_twice.
Qed.

Example ex_xor_cut : growth_cut ex_xor 0%Z 10 2.
Proof.
  split; [lia|]. split; [|right; vm_compute; reflexivity].
  intros i Hi. destruct i as [|[|[|i]]]; [| | |lia]; vm_compute; discriminate.
Qed.

Example ex_xor_growth : bfs_numpy ex_xor [0; 1] 0%Z 10%N = [1; 2; 1].
Proof.
  rewrite (numpy_bfs_growth ex_xor [0; 1] 0%Z ex_xor_inverse_ok 10%N 2); [reflexivity | lia | exact ex_xor_cut].
Qed.

(* the model computes the same thing directly *)
Example ex_xor_run : bfs_numpy ex_xor [0; 1] 0%Z 10%N = [1; 2; 1].
Proof. vm_compute. reflexivity. Qed.

(* an infinite orbit (no empty layer): the cut is max_diameter itself; generator 1 is the inverse of 0 *)
Definition ex_line : list (Z -> Z) := [fun x => (x + 1)%Z; fun x => (x - 1)%Z].

Example ex_line_inverse_ok : inverse_index_ok ex_line [1; 0].
Proof.
  split; [reflexivity|]. intros i Hi. simpl in Hi.
  destruct i as [|[|i]]; [| |lia]; simpl; (split; [lia|]); split; intros x; lia.
Qed.

Example ex_line_cut : growth_cut ex_line 5%Z 3 3.
Proof.
  split; [lia|]. split; [|left; reflexivity].
  intros i Hi. destruct i as [|[|[|[|i]]]]; [| | | |lia]; vm_compute; discriminate.
Qed.

Example ex_line_growth : bfs_numpy ex_line [1; 0] 5%Z 3%N = [1; 2; 2; 2].
Proof.
  rewrite (numpy_bfs_growth ex_line [1; 0] 5%Z ex_line_inverse_ok 3%N 3); [reflexivity | lia | exact ex_line_cut].
Qed.

(* max_diameter = 1 *)
Example ex_line_cut1 : growth_cut ex_line 5%Z 1 1.
Proof.
  split; [lia|]. split; [|left; reflexivity].
  intros i Hi. destruct i as [|[|i]]; [| |lia]; vm_compute; discriminate.
Qed.

Example ex_line_growth1 : bfs_numpy ex_line [1; 0] 5%Z 1%N = [1; 2].
Proof.
  rewrite (numpy_bfs_growth ex_line [1; 0] 5%Z ex_line_inverse_ok 1%N 1); [reflexivity | lia | exact ex_line_cut1].
Qed.

(* the one-vertex orbit: every generator fixes the start state *)
Definition ex_fix : list (Z -> Z) := [fun x => x].

Example ex_fix_inverse_ok : inverse_index_ok ex_fix [0].
Proof.
  split; [reflexivity|]. intros i Hi. simpl in Hi.
  destruct i as [|i]; [|lia]. simpl. split; [lia|]. split; intros x; reflexivity.
Qed.

Example ex_fix_cut md : growth_cut ex_fix 7%Z md 0.
Proof.
  split; [lia|]. split; [|right; vm_compute; reflexivity].
  intros i Hi. assert (i = 0) by lia. subst i. vm_compute. discriminate.
Qed.

(* the Python default max_diameter = 10**6 (a binary number: never unfolded to unary) *)
Example ex_fix_growth : bfs_numpy ex_fix [0] 7%Z 1000000%N = [1].
Proof.
  rewrite (numpy_bfs_growth ex_fix [0] 7%Z ex_fix_inverse_ok 1000000%N 0); [reflexivity | lia |].
  apply ex_fix_cut.
Qed.

(* the invariant hypothesis of numpy_next_layer_correct is inhabited (initial state), and one
   application of the lemma gives the representation of layer 2 *)
Example ex_xor_Inv :
  Inv ex_xor 0%Z 0 (repeat [0%Z] 2) (make_unique ex_xor (map (fun g : Z -> Z => setdiff [g 0%Z] [0%Z]) ex_xor)).
Proof. apply (Inv_init ex_xor 0%Z). simpl. lia. Qed.

Example ex_xor_layer2 :
  groups_of ex_xor (Graph.layer Z Z.eq_dec ex_xor [0%Z] 1) (Graph.layer Z Z.eq_dec ex_xor [0%Z] 2)
    (next_layer ex_xor [0; 1] (repeat [0%Z] 2)
       (make_unique ex_xor (map (fun g : Z -> Z => setdiff [g 0%Z] [0%Z]) ex_xor))).
Proof. apply (numpy_next_layer_correct ex_xor [0; 1] 0%Z ex_xor_inverse_ok 0). exact ex_xor_Inv. Qed.

(* max_diameter = 0 behaves like max_diameter = 1 (Python: range(2, 1) is empty, layer 1 is
   computed before the loop) - which is why the theorem asks for max_diameter >= 1 *)
Remark numpy_bfs_md0 fs inv_idx start : bfs_numpy fs inv_idx start 0%N = bfs_numpy fs inv_idx start 1%N.
Proof. reflexivity. Qed.

Print Assumptions numpy_next_layer_correct.
Print Assumptions numpy_bfs_growth.
Print Assumptions numpy_bfs_growth_firstn.
Print Assumptions numpy_bfs_growth_takewhile.
Print Assumptions numpy_bfs_counts_distance_classes.
Print Assumptions growth_cut_exists.
Print Assumptions growth_cut_unique.
Print Assumptions ex_xor_growth.
Print Assumptions ex_fix_growth.
