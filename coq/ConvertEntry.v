(** C13 at full strength, part 3: the statement is about the MODELLED ENTRY POINTS.
    Every public operation that accepts states calls [encode_states] (model: [normalize_states]) on
    what the user handed over and then works on the normalised batch; composed with the conversion,
    each modelled entry point returns the same result for every applicable container form and every
    dtype that can hold the values. *)
From Coq Require Import String Ascii.
From Coq Require Import ZArith List Bool Arith Lia.
From V Require Import Base Hash Convert ConvertProofs ConvertFull CodecExtra GraphImpl Bfs BfsRun Paths PathRun.
Import ListNotations.
Open Scope Z_scope.

(* an entry point behind the conversion: what the user's call returns; [None] = the form does not
   apply to this batch or the conversion raised *)
Definition via {R} (f : list (list Z) -> R) (d : dtype) (size : nat) (fm : cform) (batch : list (list Z)) : option R :=
  option_map f (norm d size fm batch).

Section Entry.
  Variables (size : nat) (batch : list (list Z)) (d1 d2 : dtype) (form1 form2 : cform).
  Hypothesis Hsize : (0 < size)%nat.
  Hypothesis Hrows : Forall (fun row => length row = size) batch.
  Hypothesis Hd1 : Forall (Forall (in_dt d1)) batch.
  Hypothesis Hd2 : Forall (Forall (in_dt d2)) batch.
  Hypothesis Hf1 : applicable form1 batch = true.
  Hypothesis Hf2 : applicable form2 batch = true.

  Lemma via_independent {R} (f : list (list Z) -> R) :
    via f d1 size form1 batch = via f d2 size form2 batch /\ via f d1 size form1 batch = Some (f batch).
  Proof. unfold via. apply entry_container_independent; assumption. Qed.

  (** graph.bfs(start_states=...) *)
  Theorem bfs_container_independent (dsc : gdesc) (cfg : bfs_cfg) :
    via (fun starts => bfs (impl_of dsc) cfg starts) d1 size form1 batch
    = via (fun starts => bfs (impl_of dsc) cfg starts) d2 size form2 batch
    /\ via (fun starts => bfs (impl_of dsc) cfg starts) d1 size form1 batch = Some (bfs (impl_of dsc) cfg batch).
  Proof. apply (via_independent (fun starts => bfs (impl_of dsc) cfg starts)). Qed.

  (** graph.apply_path(states, generator_ids): the generators are applied to the whole batch, one after
      the other; an index out of range is the AssertionError of the loop *)
  Definition apply_path_states (G : impl) (path : list nat) (states : list state) : result (list state) :=
    apply_path (map (fun g : state -> state => map g) (acts G)) states path.

  Theorem apply_path_container_independent (dsc : gdesc) (path : list nat) :
    via (apply_path_states (impl_of dsc) path) d1 size form1 batch
    = via (apply_path_states (impl_of dsc) path) d2 size form2 batch
    /\ via (apply_path_states (impl_of dsc) path) d1 size form1 batch = Some (apply_path_states (impl_of dsc) path batch).
  Proof. apply (via_independent (apply_path_states (impl_of dsc) path)). Qed.

  (** graph.get_neighbors_decoded(states) *)
  Theorem get_neighbors_container_independent (dsc : gdesc) :
    via (get_neighbors (impl_of dsc)) d1 size form1 batch = via (get_neighbors (impl_of dsc)) d2 size form2 batch
    /\ via (get_neighbors (impl_of dsc)) d1 size form1 batch = Some (get_neighbors (impl_of dsc) batch).
  Proof. apply (via_independent (get_neighbors (impl_of dsc))). Qed.

  (** find_path(graph, start_state): the start state is one state; [bool(isin(...))] on any other number
      of rows is torch's RuntimeError *)
  Definition single {R} (f : list Z -> result R) (b : list (list Z)) : result R :=
    match b with [s] => f s | _ => Err RuntimeErr end.

  Theorem find_path_container_independent (e : path_env) (ball_fwd ball_inv : list (list Z) * nat) :
    via (single (find_path_one e ball_fwd ball_inv)) d1 size form1 batch
    = via (single (find_path_one e ball_fwd ball_inv)) d2 size form2 batch
    /\ via (single (find_path_one e ball_fwd ball_inv)) d1 size form1 batch
       = Some (single (find_path_one e ball_fwd ball_inv) batch).
  Proof. apply (via_independent (single (find_path_one e ball_fwd ball_inv))). Qed.

  (** find_path_to / find_path_from / MITM queries on a pre-computed ball *)
  Theorem run_query_container_independent (e : path_env) (ball : list (list Z) * nat) (mk : list Z -> pquery) :
    via (single (fun s => run_query e ball (mk s))) d1 size form1 batch
    = via (single (fun s => run_query e ball (mk s))) d2 size form2 batch
    /\ via (single (fun s => run_query e ball (mk s))) d1 size form1 batch
       = Some (single (fun s => run_query e ball (mk s)) batch).
  Proof. apply (via_independent (single (fun s => run_query e ball (mk s)))). Qed.
End Entry.

(* the central state of a definition: CayleyGraphDef.create(..., central_state=...) / with_central_state;
   every form, the string of digits included, gives the same definition, hence the same graph *)
Definition with_central (dsc : gdesc) (d : dtype) (c : container) : result gdesc :=
  do cs <- normalize_central d c;
  Ok {| g_kind := g_kind dsc; g_central := cs; g_width := g_width dsc; g_hasher := g_hasher dsc;
        g_inv_closed := g_inv_closed dsc |}.

Theorem with_central_container_independent dsc d1 d2 f1 f2 (row : list Z) c1 c2 :
  Forall (in_dt d1) row -> Forall (in_dt d2) row ->
  applicable_central f1 row = true -> applicable_central f2 row = true ->
  present d1 f1 [row] = Some c1 -> present d2 f2 [row] = Some c2 ->
  with_central dsc d1 c1 = with_central dsc d2 c2.
Proof.
  intros H1 H2 A1 A2 P1 P2. unfold with_central.
  rewrite (normalize_central_form_independent d1 f1 row c1 H1 A1 P1),
          (normalize_central_form_independent d2 f2 row c2 H2 A2 P2). reflexivity.
Qed.

(* ---------- non-vacuity: a concrete graph, a concrete batch, two very different presentations ---------- *)
Definition ex_desc : gdesc :=
  {| g_kind := GPerm [[1;2;3;4;5;0]%nat; [1;0;2;3;4;5]%nat]; g_central := [0;1;2;3;4;5]; g_width := Some 3%nat;
     g_hasher := HIdentity; g_inv_closed := false |}.

Example ex_entry_hyps :
  (0 < 6)%nat /\ Forall (fun row => length row = 6%nat) ex_batch /\
  Forall (Forall (in_dt I8)) ex_batch /\ Forall (Forall (in_dt I64)) ex_batch /\
  applicable (FMatrices 3) ex_batch = true /\ applicable FFlat ex_batch = true.
Proof.
  split; [lia|]. split; [repeat constructor|].
  split; [repeat constructor; unfold in_dt; cbn; lia|]. split; [repeat constructor; unfold in_dt; cbn; lia|].
  split; reflexivity.
Qed.

Example ex_entry_apply_path :
  via (apply_path_states (impl_of ex_desc) [0;1]%nat) I8 6 (FMatrices 3) ex_batch
  = via (apply_path_states (impl_of ex_desc) [0;1]%nat) I64 6 FFlat ex_batch
  /\ via (apply_path_states (impl_of ex_desc) [0;1]%nat) I64 6 FFlat ex_batch
     = Some (Ok [[3;2;4;5;0;1]; [4;5;3;2;1;0]]).
Proof. split; vm_compute; reflexivity. Qed.

Example ex_entry_central :
  with_central ex_desc I64 (CStr "012345") = with_central ex_desc U8 (C2 [[0;1;2];[3;4;5]]) /\
  with_central ex_desc I64 (CStr "012345") = Ok ex_desc.
Proof. split; reflexivity. Qed.

Print Assumptions via_independent.
Print Assumptions bfs_container_independent.
Print Assumptions apply_path_container_independent.
Print Assumptions get_neighbors_container_independent.
Print Assumptions find_path_container_independent.
Print Assumptions run_query_container_independent.
Print Assumptions with_central_container_independent.
