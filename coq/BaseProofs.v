From Coq Require Import ZArith List Bool Arith Lia PArith.
From V Require Import Base.
Import ListNotations.

Section Loop.
  Context {S R : Type} (body : S -> S + R).

  Lemma loop_nat_add n m s :
    loop_nat body (n + m) s = match loop_nat body n s with inl s' => loop_nat body m s' | inr r => inr r end.
  Proof.
    revert s; induction n as [|n IH]; intros s; simpl; auto.
    destruct (body s) as [s'|r]; auto.
  Qed.

  Lemma loop_pos_nat p s : loop_pos body p s = loop_nat body (Pos.to_nat p) s.
  Proof.
    revert s; induction p as [p IH|p IH|]; intros s.
    - rewrite Pos2Nat.inj_xI. cbn [loop_pos loop_nat]. destruct (body s) as [s1|r]; auto.
      replace (2 * Pos.to_nat p) with (Pos.to_nat p + Pos.to_nat p) by lia.
      rewrite loop_nat_add, <- IH. destruct (loop_pos body p s1); auto.
    - rewrite Pos2Nat.inj_xO. cbn [loop_pos].
      replace (2 * Pos.to_nat p) with (Pos.to_nat p + Pos.to_nat p) by lia.
      rewrite loop_nat_add, <- IH. destruct (loop_pos body p s); auto.
    - simpl. destruct (body s); auto.
  Qed.

  Lemma loop_N_nat n s : loop_N body n s = loop_nat body (N.to_nat n) s.
  Proof. destruct n as [|p]; simpl; auto. apply loop_pos_nat. Qed.
End Loop.
