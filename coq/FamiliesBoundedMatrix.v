(** C15: bounded exhaustive theorem for the matrix families (heisenberg, special_linear_fundamental_roots,
    special_linear_root_weyl), by [vm_compute], with the bounds in the statement. *)
From Coq Require Import ZArith List Bool.
From V Require Import Base Matrix Def Families FamiliesRun FamiliesOk.
Import ListNotations.
Open Scope Z_scope.

(* ---- matrix families: n in -1..bound, modulo in test_moduli, add_inverses both ---- *)
Theorem matrix_families_ok_bounded :
  mfamilies_ok [(FHeisenberg, 5); (FSlFundRoots, 4); (FSlRootWeyl, 5)] = true.
Proof. vm_cast_no_check (eq_refl true). Qed.
