(** C07 - Random walks only visit real vertices along real edges with honest step counts. Statements only: every proof is [exact] of a lemma proved elsewhere.
    For ALL values of the random draws (oracle arguments: generator choices, torch.randperm). reach [start] k t = t is the end of a walk of exactly k edges from start.
    The nbt theorem needs a well-formed permutation oracle (entries in range) and, at history depth 0, at least one generator (every definition has one).
    (Statements are the lemmas' closed types as printed by Coq, hence the qualified names.) *)
From V Require Import Base Tensor Graph GraphProofs GraphImpl BfsStep Walks WalksProofs.

(* classic mode: width*length rows, y counts the steps 0..length-1, starts with the start state, consecutive states joined by an edge, honest step counts *)
Theorem C07_walks_classic_spec :
  forall (G : impl) (start : state) (width length_ : nat) (draws : list (list nat))
           (x : list state) (y : list nat),
         1 <= length_ ->
         length_ - 1 <= length draws ->
         List.Forall
           (fun d : list nat => length d = width /\ List.Forall (fun g : nat => g < n_gens G) d)
           draws ->
         walks_classic G width length_ start draws = (x, y) ->
         length x = width * length_ /\
         length y = width * length_ /\
         (forall i : nat, i < width * length_ -> List.nth i y 0 = PeanoNat.Nat.div i width) /\
         (forall i : nat, i < width -> List.nth i x nil = start) /\
         (forall i : nat,
          i + width < width * length_ ->
          exists g : state -> state,
            List.In g (acts G) /\ List.nth (i + width) x nil = g (List.nth i x nil)) /\
         (forall i : nat,
          i < width * length_ ->
          reach state (acts G) (start :: nil) (List.nth i y 0) (List.nth i x nil)).
Proof. exact @walks_classic_spec. Qed.
Print Assumptions C07_walks_classic_spec.

(* nbt mode, EVERY history depth including the default 0: starts with the start state, every x[i] is the end of a walk of exactly y[i] edges *)
Theorem C07_walks_nbt_spec :
  forall (G : impl) (start : state) (width length_ depth : nat) (perms : list (list nat))
           (x : list state) (y : list nat),
         1 <= length_ ->
         1 <= width ->
         List.Forall (fun p : list nat => List.Forall (fun i : nat => i < length p) p) perms ->
         (depth = 0 -> 1 <= n_gens G) ->
         walks_nbt G width length_ depth start perms = Ok (x, y) ->
         length x = length y /\
         (forall i : nat, i < width -> List.nth i x nil = start /\ List.nth i y 0 = 0) /\
         (forall i : nat,
          i < length x -> reach state (acts G) (start :: nil) (List.nth i y 0) (List.nth i x nil)).
Proof. exact @walks_nbt_spec. Qed.
Print Assumptions C07_walks_nbt_spec.

(* bfs mode: starts with the start state, all returned states distinct, honest step counts *)
Theorem C07_walks_bfs_spec :
  forall (G : impl) (start : state) (U : state -> Prop),
         closed state (acts G) U ->
         (forall a b : state, U a -> U b -> hashf G a = hashf G b -> a = b) ->
         (is_identity G = true -> forall a : state, U a -> unword G (hashf G a) = a) ->
         U start ->
         forall (width length_ : nat) (perms : list (list nat)) (x : list state) (y : list nat),
         1 <= length_ ->
         1 <= width ->
         List.Forall
           (fun p : list nat => List.NoDup p /\ List.Forall (fun i : nat => i < length p) p) perms ->
         walks_bfs G width length_ start perms = Ok (x, y) ->
         length x = length y /\
         List.nth 0 x nil = start /\
         List.nth 0 y 1 = 0 /\
         List.NoDup x /\
         (forall i : nat,
          i < length x -> reach state (acts G) (start :: nil) (List.nth i y 0) (List.nth i x nil)).
Proof. exact @walks_bfs_spec. Qed.
Print Assumptions C07_walks_bfs_spec.

(* bfs mode, width >= largest layer and length > eccentricity: exactly all vertices with their true distances *)
Theorem C07_walks_bfs_exhaustive :
  forall (G : impl) (start : state) (U : state -> Prop),
         closed state (acts G) U ->
         (forall a b : state, U a -> U b -> hashf G a = hashf G b -> a = b) ->
         (is_identity G = true -> forall a : state, U a -> unword G (hashf G a) = a) ->
         U start ->
         forall (width length_ : nat) (perms : list (list nat)) (x : list state) 
           (y : list nat) (D : nat),
         1 <= width ->
         (forall i : nat, length (layer state st_eq_dec (acts G) (start :: nil) i) <= width) ->
         layer state st_eq_dec (acts G) (start :: nil) (S D) = nil ->
         D < length_ ->
         walks_bfs G width length_ start perms = Ok (x, y) ->
         List.NoDup x /\
         (forall (t : state) (d : nat),
          (exists i : nat, i < length x /\ List.nth i x nil = t /\ List.nth i y 0 = d) <->
          List.In t (layer state st_eq_dec (acts G) (start :: nil) d)).
Proof. exact @walks_bfs_exhaustive. Qed.
Print Assumptions C07_walks_bfs_exhaustive.

From V Require Import Base Tensor Graph GraphProofs GraphImpl Hash Def Paths BfsStep Bfs BfsRun BfsProofs PathsProofs Mitm MitmProofs PathRun MitmFind Interactive InteractiveBetween Beam BeamProofs Walks WalksProofs AlgoRun InstPerm InstSmall InstBfs InstPaths InstShared InstMatrix InstMatrixBfs InstBeam InstWalks.

(* END TO END for impl_of d: classic walks, NO hash hypothesis (shape, step counter, start rows, every row a neighbour of the row one block earlier under some generator of d, reachability in exactly y steps) *)
Theorem C07_perm_classic_spec :
  forall d : gdesc,
         wf_perm_desc d ->
         forall (start : state) (width length_ : nat) (draws : list (list nat)) 
           (x : list state) (y : list nat),
         1 <= length_ ->
         length_ - 1 <= length draws ->
         List.Forall
           (fun dr : list nat =>
            length dr = width /\ List.Forall (fun g : nat => g < length (desc_perms d)) dr) draws ->
         walks_classic (impl_of d) width length_ start draws = (x, y) ->
         length x = width * length_ /\
         length y = width * length_ /\
         (forall i : nat, i < width * length_ -> List.nth i y 0 = PeanoNat.Nat.div i width) /\
         (forall i : nat, i < width -> List.nth i x nil = start) /\
         (forall i : nat,
          i + width < width * length_ ->
          exists p : list nat,
            List.In p (desc_perms d) /\
            List.nth (i + width) x nil = Perm.apply_perm BinNums.Z0 p (List.nth i x nil)) /\
         (forall i : nat,
          i < width * length_ ->
          reach state (acts (impl_of d)) (start :: nil) (List.nth i y 0) (List.nth i x nil)).
Proof. exact @walks_perm_classic_spec. Qed.
Print Assumptions C07_perm_classic_spec.

(* non-backtracking walks on impl_of d, no hash hypothesis *)
Theorem C07_perm_nbt_spec :
  forall d : gdesc,
         wf_perm_desc d ->
         forall (start : state) (width length_ depth : nat) (perms : list (list nat))
           (x : list state) (y : list nat),
         1 <= length_ ->
         1 <= width ->
         List.Forall (fun p : list nat => List.Forall (fun i : nat => i < length p) p) perms ->
         walks_nbt (impl_of d) width length_ depth start perms = Ok (x, y) ->
         length x = length y /\
         (forall i : nat, i < width -> List.nth i x nil = start /\ List.nth i y 0 = 0) /\
         (forall i : nat,
          i < length x ->
          reach state (acts (impl_of d)) (start :: nil) (List.nth i y 0) (List.nth i x nil)).
Proof. exact @walks_perm_nbt_spec. Qed.
Print Assumptions C07_perm_nbt_spec.

(* BFS-mode walk at least n!+1 wide: every vertex exactly once with its true distance (NoColl only) *)
Theorem C07_perm_bfs_exhaustive_fact :
  forall d : gdesc,
         wf_perm_desc d ->
         NoCollOn (impl_of d) (Ustates d) ->
         forall start : state,
         Ustates d start ->
         forall (width length_ : nat) (perms : list (list nat)) (x : list state) 
           (y : list nat) (D : nat),
         Factorial.fact (desc_n d) + 1 <= width ->
         layer state st_eq_dec (acts (impl_of d)) (start :: nil) (S D) = nil ->
         D < length_ ->
         walks_bfs (impl_of d) width length_ start perms = Ok (x, y) ->
         List.NoDup x /\
         (forall (t : state) (k : nat),
          (exists i : nat, i < length x /\ List.nth i x nil = t /\ List.nth i y 0 = k) <->
          List.In t (layer state st_eq_dec (acts (impl_of d)) (start :: nil) k)).
Proof. exact @walks_perm_bfs_exhaustive_fact. Qed.
Print Assumptions C07_perm_bfs_exhaustive_fact.

(* BFS-mode walk, one-word identity hash: no hash hypothesis *)
Theorem C07_perm_bfs_spec_unconditional :
  forall d : gdesc,
         wf_perm_desc d ->
         g_hasher d = HIdentity ->
         single_word d ->
         forall start : state,
         Ustates d start ->
         forall (width length_ : nat) (perms : list (list nat)) (x : list state) (y : list nat),
         1 <= length_ ->
         1 <= width ->
         List.Forall
           (fun p : list nat => List.NoDup p /\ List.Forall (fun i : nat => i < length p) p) perms ->
         walks_bfs (impl_of d) width length_ start perms = Ok (x, y) ->
         length x = length y /\
         List.nth 0 x nil = start /\
         List.nth 0 y 1 = 0 /\
         List.NoDup x /\
         (forall i : nat,
          i < length x ->
          reach state (acts (impl_of d)) (start :: nil) (List.nth i y 0) (List.nth i x nil)).
Proof. exact @walks_perm_bfs_spec_unconditional. Qed.
Print Assumptions C07_perm_bfs_spec_unconditional.

(* classic walks on matrix groups, no hypothesis beyond the kind of the description *)
Theorem C07_matrix_classic_spec :
  forall (d : gdesc) (modulo : BinNums.Z) (n m : nat) (mats : list (list (list BinNums.Z))),
         g_kind d = GMatrix modulo n m mats ->
         forall (start : state) (width length_ : nat) (draws : list (list nat)) 
           (x : list state) (y : list nat),
         1 <= length_ ->
         length_ - 1 <= length draws ->
         List.Forall
           (fun dr : list nat => length dr = width /\ List.Forall (fun g : nat => g < length mats) dr)
           draws ->
         walks_classic (impl_of d) width length_ start draws = (x, y) ->
         length x = width * length_ /\
         length y = width * length_ /\
         (forall i : nat, i < width * length_ -> List.nth i y 0 = PeanoNat.Nat.div i width) /\
         (forall i : nat, i < width -> List.nth i x nil = start) /\
         (forall i : nat,
          i + width < width * length_ ->
          exists M : list (list BinNums.Z),
            List.In M mats /\
            List.nth (i + width) x nil = Matrix.mat_apply modulo n m M (List.nth i x nil)) /\
         (forall i : nat,
          i < width * length_ ->
          reach state (acts (impl_of d)) (start :: nil) (List.nth i y 0) (List.nth i x nil)).
Proof. exact @walks_matrix_classic_spec. Qed.
Print Assumptions C07_matrix_classic_spec.

(* BFS-mode walk on matrix groups *)
Theorem C07_matrix_bfs_exhaustive :
  forall d : gdesc,
         wf_matrix_core d = true ->
         NoCollMat d ->
         forall start : state,
         Umat d start ->
         forall (width length_ : nat) (perms : list (list nat)) (x : list state) 
           (y : list nat) (D : nat),
         1 <= width ->
         (forall i : nat, length (layer state st_eq_dec (acts (impl_of d)) (start :: nil) i) <= width) ->
         layer state st_eq_dec (acts (impl_of d)) (start :: nil) (S D) = nil ->
         D < length_ ->
         walks_bfs (impl_of d) width length_ start perms = Ok (x, y) ->
         List.NoDup x /\
         (forall (t : state) (k : nat),
          (exists i : nat, i < length x /\ List.nth i x nil = t /\ List.nth i y 0 = k) <->
          List.In t (layer state st_eq_dec (acts (impl_of d)) (start :: nil) k)).
Proof. exact @walks_matrix_bfs_exhaustive. Qed.
Print Assumptions C07_matrix_bfs_exhaustive.
