(** C20 - Permutation helpers satisfy the algebra the rest of the library assumes.
    Only statements; every proof is [exact] of a lemma proved elsewhere. *)
From Coq Require Import ZArith List Arith Sorting.Permutation.
From V Require Import Base Perm PermProofs PermEnum.
Import ListNotations.

(* applying a composition = applying its factors in the documented order *)
Theorem C20_apply_compose : forall (A : Type) (d : A) (p1 p2 : list nat) (x : list A),
  Forall (fun i => i < length p2) p1 ->
  apply_perm d (compose p1 p2) x = apply_perm d p1 (apply_perm d p2 x).
Proof. exact @apply_compose. Qed.
Print Assumptions C20_apply_compose.

Theorem C20_compose_inverse : forall p, Perm p ->
  compose p (inverse_perm p) = identity_perm (length p) /\
  compose (inverse_perm p) p = identity_perm (length p).
Proof. intros p H; split; [exact (compose_inverse_r p H) | exact (compose_inverse_l p H)]. Qed.
Print Assumptions C20_compose_inverse.

Theorem C20_inverse_is_perm_involutive : forall p, Perm p ->
  Perm (inverse_perm p) /\ inverse_perm (inverse_perm p) = p.
Proof. intros p H; split; [exact (inverse_is_perm p H) | exact (inverse_involutive p H)]. Qed.
Print Assumptions C20_inverse_is_perm_involutive.

Theorem C20_inverse_undoes : forall (A : Type) (d : A) p (x : list A), Perm p -> length x = length p ->
  apply_perm d (inverse_perm p) (apply_perm d p x) = x /\
  apply_perm d p (apply_perm d (inverse_perm p) x) = x.
Proof. exact @inverse_undoes. Qed.
Print Assumptions C20_inverse_undoes.

Theorem C20_is_permutation_decides : forall p, is_perm p = true <-> Permutation p (seq 0 (length p)).
Proof. exact is_perm_iff. Qed.
Print Assumptions C20_is_permutation_decides.

Theorem C20_class_enumeration_exact_le6 : forall n lens,
  1 <= n <= 6 -> In lens (partitions n) -> class_ok n lens = true.
Proof. exact class_enumeration_exact_le6. Qed.
Print Assumptions C20_class_enumeration_exact_le6.

From V Require Import Base Perm PermProofs PermEnum ClassEnumCycles ClassEnumGeneral ClassEnumCount.

(* GENERAL n (no bound): the canonical backtracking enumeration returns exactly the permutations of n points with the requested cycle type (lengths in any order) *)
Theorem C20_class_enum_In_iff :
  forall (n : nat) (lens : list nat) (res : list (list nat)),
         perms_with_cycle_lengths n lens = Ok res ->
         forall q : list nat,
         List.In q res <-> length q = n /\ Perm q /\ cycle_type q = Mergesort.NatSort.sort lens.
Proof. exact @class_enum_In_iff. Qed.
Print Assumptions C20_class_enum_In_iff.

(* each exactly once *)
Theorem C20_class_enum_NoDup :
  forall (n : nat) (lens : list nat) (res : list (list nat)),
         perms_with_cycle_lengths n lens = Ok res -> List.NoDup res.
Proof. exact @class_enum_NoDup. Qed.
Print Assumptions C20_class_enum_NoDup.

(* and their number times prod k^(m_k) m_k! is n! *)
Theorem C20_class_enum_count :
  forall (n : nat) (lens : list nat) (res : list (list nat)),
         perms_with_cycle_lengths n lens = Ok res ->
         length res * class_denominator lens = Factorial.fact n.
Proof. exact @class_enum_count. Qed.
Print Assumptions C20_class_enum_count.

(* it succeeds exactly when n >= 1, all lengths >= 1 and they sum to n *)
Theorem C20_class_enum_Ok_iff :
  forall (n : nat) (lens : list nat),
         (exists res : list (list nat), perms_with_cycle_lengths n lens = Ok res) <->
         1 <= n /\ List.Forall (fun k : nat => 1 <= k) lens /\ sum_list lens = n.
Proof. exact @class_enum_Ok_iff. Qed.
Print Assumptions C20_class_enum_Ok_iff.

(* the model's fuel is never exhausted *)
Theorem C20_class_enum_fuel_irrelevant :
  forall (n : nat) (lens : list nat) (fuel : nat),
         length lens <= fuel ->
         backtrack fuel (BinNums.Zneg BinNums.xH) (List.seq 0 n) (counter_of lens) =
         backtrack (length lens) (BinNums.Zneg BinNums.xH) (List.seq 0 n) (counter_of lens).
Proof. exact @class_enum_fuel_irrelevant. Qed.
Print Assumptions C20_class_enum_fuel_irrelevant.

(* the order of the requested lengths does not matter *)
Theorem C20_class_enum_order_irrelevant_eq :
  forall (n : nat) (l1 l2 : list nat),
         Permutation.Permutation l1 l2 ->
         perms_with_cycle_lengths n l1 = perms_with_cycle_lengths n l2.
Proof. exact @class_enum_order_irrelevant_eq. Qed.
Print Assumptions C20_class_enum_order_irrelevant_eq.

(* cycle_type of a permutation is the sorted list of the lengths of ANY decomposition into cycles *)
Theorem C20_cycle_type_of_decomp :
  forall (p : list nat) (cs : list (list nat)),
         CycleDecomp p cs -> cycle_type p = Mergesort.NatSort.sort (List.map (length (A:=nat)) cs).
Proof. exact @cycle_type_of_decomp. Qed.
Print Assumptions C20_cycle_type_of_decomp.
