(** C20 - Permutation helpers satisfy the algebra the rest of the library assumes.
    Only statements; every proof is [exact] of a lemma proved elsewhere. *)
From Coq Require Import ZArith List Arith Sorting.Permutation.
From V Require Import Base Perm PermProofs PermEnum.
Import ListNotations.

(* applying a composition = applying its factors in the documented order *)
Theorem C20_apply_compose : forall (A : Type) (d : A) (p1 p2 : list nat) (x : list A),
  Forall (fun i => i < length p2) p1 ->
  apply_perm d (compose p1 p2) x = apply_perm d p1 (apply_perm d p2 x).
Proof. exact @apply_compose. Qed.
Print Assumptions C20_apply_compose.

Theorem C20_compose_inverse : forall p, Perm p ->
  compose p (inverse_perm p) = identity_perm (length p) /\
  compose (inverse_perm p) p = identity_perm (length p).
Proof. intros p H; split; [exact (compose_inverse_r p H) | exact (compose_inverse_l p H)]. Qed.
Print Assumptions C20_compose_inverse.

Theorem C20_inverse_is_perm_involutive : forall p, Perm p ->
  Perm (inverse_perm p) /\ inverse_perm (inverse_perm p) = p.
Proof. intros p H; split; [exact (inverse_is_perm p H) | exact (inverse_involutive p H)]. Qed.
Print Assumptions C20_inverse_is_perm_involutive.

Theorem C20_inverse_undoes : forall (A : Type) (d : A) p (x : list A), Perm p -> length x = length p ->
  apply_perm d (inverse_perm p) (apply_perm d p x) = x /\
  apply_perm d p (apply_perm d (inverse_perm p) x) = x.
Proof. exact @inverse_undoes. Qed.
Print Assumptions C20_inverse_undoes.

Theorem C20_is_permutation_decides : forall p, is_perm p = true <-> Permutation p (seq 0 (length p)).
Proof. exact is_perm_iff. Qed.
Print Assumptions C20_is_permutation_decides.

Theorem C20_class_enumeration_exact_le6 : forall n lens,
  1 <= n <= 6 -> In lens (partitions n) -> class_ok n lens = true.
Proof. exact class_enumeration_exact_le6. Qed.
Print Assumptions C20_class_enumeration_exact_le6.
