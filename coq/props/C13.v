(** C13 - Results do not depend on the container or dtype in which states are supplied. Statements only.
    The theorem is about the conversion model (container -> int64 -> reshape(-1, state_size)); that every public
    entry point goes through this conversion and gives the same result is decided by the exhaustive
    container x dtype x shape x entry-point enumeration against the implementation (a finite matrix). *)
From Coq Require Import ZArith List.
From V Require Import Base Convert ConvertProofs.
Import ListNotations.
Open Scope Z_scope.

Theorem C13_dtype_roundtrip : forall d v, dt_min d <= v <= dt_max d -> to_int64 d (store_as d v) = v.
Proof. exact dtype_roundtrip. Qed.
Print Assumptions C13_dtype_roundtrip.

Theorem C13_normalize_denote : forall d size (batch : list (list Z)),
  (0 < size)%nat -> Forall (fun row => length row = size) batch ->
  Forall (Forall (fun v => dt_min d <= v <= dt_max d)) batch ->
  normalize d size (map (store_as d) (flatten batch)) = Ok batch.
Proof. exact normalize_denote. Qed.
Print Assumptions C13_normalize_denote.

Theorem C13_normalize_rejects : forall d size elements,
  (0 < size)%nat -> (length elements mod size <> 0)%nat -> normalize d size elements = Err RuntimeErr.
Proof. exact normalize_rejects. Qed.
Print Assumptions C13_normalize_rejects.
