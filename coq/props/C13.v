(** C13 - Results do not depend on the container or dtype in which states are supplied. Statements only.
    The theorem is about the conversion model (container -> int64 -> reshape(-1, state_size)); that every public
    entry point goes through this conversion and gives the same result is decided by the exhaustive
    container x dtype x shape x entry-point enumeration against the implementation (a finite matrix). *)
From Coq Require Import ZArith List.
From V Require Import Base Convert ConvertProofs.
Import ListNotations.
Open Scope Z_scope.

Theorem C13_dtype_roundtrip : forall d v, dt_min d <= v <= dt_max d -> to_int64 d (store_as d v) = v.
Proof. exact dtype_roundtrip. Qed.
Print Assumptions C13_dtype_roundtrip.

Theorem C13_normalize_denote : forall d size (batch : list (list Z)),
  (0 < size)%nat -> Forall (fun row => length row = size) batch ->
  Forall (Forall (fun v => dt_min d <= v <= dt_max d)) batch ->
  normalize d size (map (store_as d) (flatten batch)) = Ok batch.
Proof. exact normalize_denote. Qed.
Print Assumptions C13_normalize_denote.

Theorem C13_normalize_rejects : forall d size elements,
  (0 < size)%nat -> (length elements mod size <> 0)%nat -> normalize d size elements = Err RuntimeErr.
Proof. exact normalize_rejects. Qed.
Print Assumptions C13_normalize_rejects.

From V Require Import Base Convert ConvertProofs ConvertFull ConvertEntry.

(* the bit-serial encoder computed in int64 arithmetic (what the library does after its cast) IS the mathematical encoder - unconditionally *)
Theorem C13_encode_in_I64 :
  forall (w n : nat) (s : list Z), encode_in I64 w n s = Codec.encode w n s.
Proof. exact @encode_in_I64. Qed.
Print Assumptions C13_encode_in_I64.

(* states stored in ANY integer dtype that holds them, cast to int64 and encoded, give the code of the logical state *)
Theorem C13_lib_encode_spec :
  forall (d : dtype) (w n : nat) (s : list Z),
         Forall (in_dt d) s -> lib_encode d w n (map (store_as d) s) = Codec.encode w n s.
Proof. exact @lib_encode_spec. Qed.
Print Assumptions C13_lib_encode_spec.

(* encoding in a NARROW dtype would be harmless exactly while the whole code fits its value bits ... *)
Theorem C13_encode_in_fits :
  forall (d : dtype) (w n : nat) (s : list Z),
         (n * w <= value_bits d)%nat -> encode_in d w n s = Codec.encode w n s.
Proof. exact @encode_in_fits. Qed.
Print Assumptions C13_encode_in_fits.

(* ... and ONLY then: for every narrower dtype and every n*w beyond its value bits some valid state is mis-encoded - the int64 cast is necessary (dropping it is a defect) *)
Theorem C13_encode_in_harmless_iff :
  forall (d : dtype) (w n : nat),
         d <> I64 ->
         (1 <= w <= value_bits d)%nat ->
         (forall s : list Z, encode_in d w n s = Codec.encode w n s) <-> (n * w <= value_bits d)%nat.
Proof. exact @encode_in_harmless_iff. Qed.
Print Assumptions C13_encode_in_harmless_iff.

(* every form (flat, rows, matrix-shaped states) of the same logical batch in every dtype normalises to the same batch *)
Theorem C13_normalize_form_independent :
  forall (d : dtype) (size : nat) (f : cform) (batch : list (list Z)) (c : container),
         (0 < size)%nat ->
         Forall (fun row : list Z => length row = size) batch ->
         Forall (Forall (in_dt d)) batch ->
         applicable f batch = true ->
         present d f batch = Some c -> normalize_states d size c = Ok batch.
Proof. exact @normalize_form_independent. Qed.
Print Assumptions C13_normalize_form_independent.

(* central state: flat, one-row batch, matrix-shaped and digit-string forms give the same state *)
Theorem C13_normalize_central_form_independent :
  forall (d : dtype) (f : cform) (row : list Z) (c : container),
         Forall (in_dt d) row ->
         applicable_central f row = true ->
         present d f [row] = Some c -> normalize_central d c = Ok row.
Proof. exact @normalize_central_form_independent. Qed.
Print Assumptions C13_normalize_central_form_independent.

(* ragged nesting is refused (ValueError) *)
Theorem C13_normalize_states_ragged2 :
  forall (d : dtype) (size : nat) (ll : list (list Z)),
         ragged ll -> normalize_states d size (C2 ll) = Err ValueErr.
Proof. exact @normalize_states_ragged2. Qed.
Print Assumptions C13_normalize_states_ragged2.

(* a total length that is not a multiple of the state size is refused (RuntimeError) *)
Theorem C13_normalize_states_bad_size :
  forall (d : dtype) (size : nat) (c : container),
         (0 < size)%nat ->
         is_rect c = true ->
         (length (elements_of c) mod size)%nat <> 0%nat -> normalize_states d size c = Err RuntimeErr.
Proof. exact @normalize_states_bad_size. Qed.
Print Assumptions C13_normalize_states_bad_size.

(* a string is accepted iff all its characters are digits *)
Theorem C13_central_of_string_spec :
  forall s : String.string,
         match central_of_string s with
         | Ok row => map digit_val (chars s) = map Some row
         | Err e => e = ValueErr /\ (exists c : Ascii.ascii, In c (chars s) /\ digit_val c = None)
         end.
Proof. exact @central_of_string_spec. Qed.
Print Assumptions C13_central_of_string_spec.

(* SCHEMA: any function of the normalised batch gives the same answer for any two (dtype, form) presentations, namely its answer on the logical batch *)
Theorem C13_entry_container_independent :
  forall (R : Type) (f : list (list Z) -> R) (size : nat) (d1 : dtype) 
           (form1 : cform) (d2 : dtype) (form2 : cform) (batch : list (list Z)),
         (0 < size)%nat ->
         Forall (fun row : list Z => length row = size) batch ->
         Forall (Forall (in_dt d1)) batch ->
         Forall (Forall (in_dt d2)) batch ->
         applicable form1 batch = true ->
         applicable form2 batch = true ->
         option_map f (norm d1 size form1 batch) = option_map f (norm d2 size form2 batch) /\
         option_map f (norm d1 size form1 batch) = Some (f batch).
Proof. exact @entry_container_independent. Qed.
Print Assumptions C13_entry_container_independent.

(* instance: the BFS model on impl_of d from start states in any container *)
Theorem C13_bfs_container_independent :
  forall (size : nat) (batch : list (list Z)) (d1 d2 : dtype) (form1 form2 : cform),
         (0 < size)%nat ->
         Forall (fun row : list Z => length row = size) batch ->
         Forall (Forall (in_dt d1)) batch ->
         Forall (Forall (in_dt d2)) batch ->
         applicable form1 batch = true ->
         applicable form2 batch = true ->
         forall (dsc : GraphImpl.gdesc) (cfg : Bfs.bfs_cfg),
         via (fun starts : list (list Z) => Bfs.bfs (BfsRun.impl_of dsc) cfg starts) d1 size form1
           batch =
         via (fun starts : list (list Z) => Bfs.bfs (BfsRun.impl_of dsc) cfg starts) d2 size form2
           batch /\
         via (fun starts : list (list Z) => Bfs.bfs (BfsRun.impl_of dsc) cfg starts) d1 size form1
           batch = Some (Bfs.bfs (BfsRun.impl_of dsc) cfg batch).
Proof. exact @bfs_container_independent. Qed.
Print Assumptions C13_bfs_container_independent.

(* instance: apply_path *)
Theorem C13_apply_path_container_independent :
  forall (size : nat) (batch : list (list Z)) (d1 d2 : dtype) (form1 form2 : cform),
         (0 < size)%nat ->
         Forall (fun row : list Z => length row = size) batch ->
         Forall (Forall (in_dt d1)) batch ->
         Forall (Forall (in_dt d2)) batch ->
         applicable form1 batch = true ->
         applicable form2 batch = true ->
         forall (dsc : GraphImpl.gdesc) (path : list nat),
         via (apply_path_states (BfsRun.impl_of dsc) path) d1 size form1 batch =
         via (apply_path_states (BfsRun.impl_of dsc) path) d2 size form2 batch /\
         via (apply_path_states (BfsRun.impl_of dsc) path) d1 size form1 batch =
         Some (apply_path_states (BfsRun.impl_of dsc) path batch).
Proof. exact @apply_path_container_independent. Qed.
Print Assumptions C13_apply_path_container_independent.

(* instance: find_path *)
Theorem C13_find_path_container_independent :
  forall (size : nat) (batch : list (list Z)) (d1 d2 : dtype) (form1 form2 : cform),
         (0 < size)%nat ->
         Forall (fun row : list Z => length row = size) batch ->
         Forall (Forall (in_dt d1)) batch ->
         Forall (Forall (in_dt d2)) batch ->
         applicable form1 batch = true ->
         applicable form2 batch = true ->
         forall (e : PathRun.path_env) (ball_fwd ball_inv : list (list Z) * nat),
         via (single (PathRun.find_path_one e ball_fwd ball_inv)) d1 size form1 batch =
         via (single (PathRun.find_path_one e ball_fwd ball_inv)) d2 size form2 batch /\
         via (single (PathRun.find_path_one e ball_fwd ball_inv)) d1 size form1 batch =
         Some (single (PathRun.find_path_one e ball_fwd ball_inv) batch).
Proof. exact @find_path_container_independent. Qed.
Print Assumptions C13_find_path_container_independent.

(* instance: central-state definitions (string form included) *)
Theorem C13_with_central_container_independent :
  forall (dsc : GraphImpl.gdesc) (d1 d2 : dtype) (f1 f2 : cform) (row : list Z)
           (c1 c2 : container),
         Forall (in_dt d1) row ->
         Forall (in_dt d2) row ->
         applicable_central f1 row = true ->
         applicable_central f2 row = true ->
         present d1 f1 [row] = Some c1 ->
         present d2 f2 [row] = Some c2 -> with_central dsc d1 c1 = with_central dsc d2 c2.
Proof. exact @with_central_container_independent. Qed.
Print Assumptions C13_with_central_container_independent.
