(** C11 - All BFS engines compute the same growth function. Statements only: every proof is [exact] of a lemma proved elsewhere.
    Main BFS: C01. Interactive engine: ibfs_growth (any graph, any start list). Unthinned BFS-mode walk: walks_bfs_exhaustive.
    NumPy and bit-mask engines: tied by correspondence (models NumpyBfs.v, Bitmask.v); their theorems are added as they are proved.
    (Statements are the lemmas' closed types as printed by Coq, hence the qualified names.) *)
From V Require Import Base Tensor Graph GraphProofs GraphImpl BfsStep Interactive InteractiveProofs Walks WalksProofs.

(* the step-by-step interactive BFS reports exactly the sizes of the true layers, from any start list *)
Theorem C11_ibfs_growth :
  forall (G : impl) (U : state -> Prop),
         closed state (acts G) U ->
         (forall a b : state, U a -> U b -> hashf G a = hashf G b -> a = b) ->
         (is_identity G = true -> forall a : state, U a -> unword G (hashf G a) = a) ->
         (inv_closed G = true -> symmetric_on state (acts G) U) ->
         forall starts : list state,
         (forall s : state, List.In s starts -> U s) ->
         forall k : nat,
         List.map (length (A:=BinNums.Z)) (ihashes (ibfs_after G starts k)) =
         List.map (fun i : nat => length (layer state st_eq_dec (acts G) starts i))
           (List.seq 0 (S k)).
Proof. exact @ibfs_growth. Qed.
Print Assumptions C11_ibfs_growth.

(* and its current layer is the true layer *)
Theorem C11_ibfs_layers :
  forall (G : impl) (U : state -> Prop),
         closed state (acts G) U ->
         (forall a b : state, U a -> U b -> hashf G a = hashf G b -> a = b) ->
         (is_identity G = true -> forall a : state, U a -> unword G (hashf G a) = a) ->
         (inv_closed G = true -> symmetric_on state (acts G) U) ->
         forall starts : list state,
         (forall s : state, List.In s starts -> U s) ->
         forall k : nat,
         let b := ibfs_after G starts k in
         length (ihashes b) = S k /\
         List.NoDup (cur_layer b) /\
         set_eq (cur_layer b) (layer state st_eq_dec (acts G) starts k) /\
         (forall i : nat,
          i <= k ->
          Sorted.StronglySorted BinInt.Z.lt (List.nth i (ihashes b) nil) /\
          (forall h : BinNums.Z,
           List.In h (List.nth i (ihashes b) nil) <->
           (exists t : state, List.In t (layer state st_eq_dec (acts G) starts i) /\ hashf G t = h))) /\
         List.nth k (ihashes b) nil = List.map (hashf G) (cur_layer b).
Proof. exact @ibfs_layers. Qed.
Print Assumptions C11_ibfs_layers.

(* an unthinned BFS-mode random walk returns every vertex with its true distance *)
Theorem C11_walks_bfs_exhaustive :
  forall (G : impl) (start : state) (U : state -> Prop),
         closed state (acts G) U ->
         (forall a b : state, U a -> U b -> hashf G a = hashf G b -> a = b) ->
         (is_identity G = true -> forall a : state, U a -> unword G (hashf G a) = a) ->
         U start ->
         forall (width length_ : nat) (perms : list (list nat)) (x : list state) 
           (y : list nat) (D : nat),
         1 <= width ->
         (forall i : nat, length (layer state st_eq_dec (acts G) (start :: nil) i) <= width) ->
         layer state st_eq_dec (acts G) (start :: nil) (S D) = nil ->
         D < length_ ->
         walks_bfs G width length_ start perms = Ok (x, y) ->
         List.NoDup x /\
         (forall (t : state) (d : nat),
          (exists i : nat, i < length x /\ List.nth i x nil = t /\ List.nth i y 0 = d) <->
          List.In t (layer state st_eq_dec (acts G) (start :: nil) d)).
Proof. exact @walks_bfs_exhaustive. Qed.
Print Assumptions C11_walks_bfs_exhaustive.
