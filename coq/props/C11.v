(** C11 - All BFS engines compute the same growth function. Statements only: every proof is [exact] of a lemma proved elsewhere.
    Main BFS: C01. Interactive engine: ibfs_growth (any graph, any start list). Unthinned BFS-mode walk: walks_bfs_exhaustive.
    NumPy and bit-mask engines: tied by correspondence (models NumpyBfs.v, Bitmask.v); their theorems are added as they are proved.
    (Statements are the lemmas' closed types as printed by Coq, hence the qualified names.) *)
From V Require Import Base Tensor Graph GraphProofs GraphImpl BfsStep Interactive InteractiveProofs Walks WalksProofs.

(* the step-by-step interactive BFS reports exactly the sizes of the true layers, from any start list *)
Theorem C11_ibfs_growth :
  forall (G : impl) (U : state -> Prop),
         closed state (acts G) U ->
         (forall a b : state, U a -> U b -> hashf G a = hashf G b -> a = b) ->
         (is_identity G = true -> forall a : state, U a -> unword G (hashf G a) = a) ->
         (inv_closed G = true -> symmetric_on state (acts G) U) ->
         forall starts : list state,
         (forall s : state, List.In s starts -> U s) ->
         forall k : nat,
         List.map (length (A:=BinNums.Z)) (ihashes (ibfs_after G starts k)) =
         List.map (fun i : nat => length (layer state st_eq_dec (acts G) starts i))
           (List.seq 0 (S k)).
Proof. exact @ibfs_growth. Qed.
Print Assumptions C11_ibfs_growth.

(* and its current layer is the true layer *)
Theorem C11_ibfs_layers :
  forall (G : impl) (U : state -> Prop),
         closed state (acts G) U ->
         (forall a b : state, U a -> U b -> hashf G a = hashf G b -> a = b) ->
         (is_identity G = true -> forall a : state, U a -> unword G (hashf G a) = a) ->
         (inv_closed G = true -> symmetric_on state (acts G) U) ->
         forall starts : list state,
         (forall s : state, List.In s starts -> U s) ->
         forall k : nat,
         let b := ibfs_after G starts k in
         length (ihashes b) = S k /\
         List.NoDup (cur_layer b) /\
         set_eq (cur_layer b) (layer state st_eq_dec (acts G) starts k) /\
         (forall i : nat,
          i <= k ->
          Sorted.StronglySorted BinInt.Z.lt (List.nth i (ihashes b) nil) /\
          (forall h : BinNums.Z,
           List.In h (List.nth i (ihashes b) nil) <->
           (exists t : state, List.In t (layer state st_eq_dec (acts G) starts i) /\ hashf G t = h))) /\
         List.nth k (ihashes b) nil = List.map (hashf G) (cur_layer b).
Proof. exact @ibfs_layers. Qed.
Print Assumptions C11_ibfs_layers.

(* an unthinned BFS-mode random walk returns every vertex with its true distance *)
Theorem C11_walks_bfs_exhaustive :
  forall (G : impl) (start : state) (U : state -> Prop),
         closed state (acts G) U ->
         (forall a b : state, U a -> U b -> hashf G a = hashf G b -> a = b) ->
         (is_identity G = true -> forall a : state, U a -> unword G (hashf G a) = a) ->
         U start ->
         forall (width length_ : nat) (perms : list (list nat)) (x : list state) 
           (y : list nat) (D : nat),
         1 <= width ->
         (forall i : nat, length (layer state st_eq_dec (acts G) (start :: nil) i) <= width) ->
         layer state st_eq_dec (acts G) (start :: nil) (S D) = nil ->
         D < length_ ->
         walks_bfs G width length_ start perms = Ok (x, y) ->
         List.NoDup x /\
         (forall (t : state) (d : nat),
          (exists i : nat, i < length x /\ List.nth i x nil = t /\ List.nth i y 0 = d) <->
          List.In t (layer state st_eq_dec (acts G) (start :: nil) d)).
Proof. exact @walks_bfs_exhaustive. Qed.
Print Assumptions C11_walks_bfs_exhaustive.

From V Require Import Base Tensor Perm Graph GraphProofs NumpyBfs NumpyBfsProofs Bitmask BitmaskProofs.

(* the NumPy engine model (per-generator frontier groups, set differences against the two previous layers, skipped inverse generator) returns exactly the sizes of the true layers up to the depth limit or the first empty layer, for ANY bijective generator functions closed under inverse and any start state *)
Theorem C11_numpy_bfs_growth :
  forall (fs : list (BinNums.Z -> BinNums.Z)) (inv_idx : list nat) (start : BinNums.Z),
         inverse_index_ok fs inv_idx ->
         forall (max_diameter : BinNums.N) (k : nat),
         BinNat.N.le (BinNums.Npos BinNums.xH) max_diameter ->
         growth_cut fs start (BinNat.N.to_nat max_diameter) k ->
         bfs_numpy fs inv_idx start max_diameter =
         List.map (fun i : nat => length (layer BinNums.Z BinInt.Z.eq_dec fs (start :: nil) i))
           (List.seq 0 (S k)).
Proof. exact @numpy_bfs_growth. Qed.
Print Assumptions C11_numpy_bfs_growth.

(* the same without naming the cut: the true layer sizes truncated at the first empty layer *)
Theorem C11_numpy_bfs_growth_takewhile :
  forall (fs : list (BinNums.Z -> BinNums.Z)) (inv_idx : list nat) (start : BinNums.Z),
         inverse_index_ok fs inv_idx ->
         forall max_diameter : BinNums.N,
         BinNat.N.le (BinNums.Npos BinNums.xH) max_diameter ->
         bfs_numpy fs inv_idx start max_diameter =
         take_nonzero
           (List.map (fun i : nat => length (layer BinNums.Z BinInt.Z.eq_dec fs (start :: nil) i))
              (List.seq 0 (S (BinNat.N.to_nat max_diameter)))).
Proof. exact @numpy_bfs_growth_takewhile. Qed.
Print Assumptions C11_numpy_bfs_growth_takewhile.

(* entry i is the number of states at distance exactly i *)
Theorem C11_numpy_bfs_counts_distance_classes :
  forall (fs : list (BinNums.Z -> BinNums.Z)) (inv_idx : list nat) (start : BinNums.Z),
         inverse_index_ok fs inv_idx ->
         forall (max_diameter : BinNums.N) (k i : nat),
         BinNat.N.le (BinNums.Npos BinNums.xH) max_diameter ->
         growth_cut fs start (BinNat.N.to_nat max_diameter) k ->
         length (bfs_numpy fs inv_idx start max_diameter) = S k /\
         (i <= k ->
          exists cls : list BinNums.Z,
            List.NoDup cls /\
            (forall x : BinNums.Z, List.In x cls <-> dist_is BinNums.Z fs (start :: nil) x i) /\
            List.nth i (bfs_numpy fs inv_idx start max_diameter) 0 = length cls).
Proof. exact @numpy_bfs_counts_distance_classes. Qed.
Print Assumptions C11_numpy_bfs_counts_distance_classes.

(* one iteration maps a group representation of layers t, t+1 to one of layer t+2 *)
Theorem C11_numpy_next_layer_correct :
  forall (fs : list (BinNums.Z -> BinNums.Z)) (inv_idx : list nat) (start : BinNums.Z),
         inverse_index_ok fs inv_idx ->
         forall (t : nat) (l0 l1 : list (list BinNums.Z)),
         Inv fs start t l0 l1 ->
         groups_of fs (layer BinNums.Z BinInt.Z.eq_dec fs (start :: nil) (S t))
           (layer BinNums.Z BinInt.Z.eq_dec fs (start :: nil) (S (S t)))
           (next_layer fs inv_idx l0 l1).
Proof. exact @numpy_next_layer_correct. Qed.
Print Assumptions C11_numpy_next_layer_correct.

(* bit-mask engine: the 8! prefix table is duplicate-free, consists of the permutations of 0..7, and every entry is found at its own index *)
Theorem C11_prefix_table_complete :
  length prefix_table = Factorial.fact 8 /\
         List.NoDup prefix_table /\
         (forall p : list nat, List.In p prefix_table -> is_perm p = true /\ length p = 8) /\
         (forall r : nat,
          r < Factorial.fact 8 -> index_of (List.nth r prefix_table nil) prefix_table 0 = Some r).
Proof. exact @prefix_table_complete. Qed.
Print Assumptions C11_prefix_table_complete.

(* chunk relabelling map1 lists, increasingly, exactly the symbols not in the suffix *)
Theorem C11_chunk_map1_spec :
  forall (n : nat) (suffix : list nat),
         List.NoDup suffix ->
         (forall x : nat, List.In x suffix -> x < n) ->
         length suffix = n - 8 ->
         8 <= n ->
         length (chunk_map1 n suffix) = 8 /\
         Sorted.StronglySorted lt (chunk_map1 n suffix) /\
         (forall i : nat, List.In i (chunk_map1 n suffix) <-> i < n /\ ~ List.In i suffix).
Proof. exact @chunk_map1_spec. Qed.
Print Assumptions C11_chunk_map1_spec.

(* map2 is its inverse *)
Theorem C11_chunk_map2_inverse :
  forall (n : nat) (suffix : list nat),
         List.NoDup suffix ->
         (forall x : nat, List.In x suffix -> x < n) ->
         length suffix = n - 8 ->
         8 <= n ->
         let map1 := chunk_map1 n suffix in
         let map2 := chunk_map2 n map1 in
         length map2 = n /\
         (forall i : nat, i < 8 -> List.nth (List.nth i map1 0) map2 0 = i) /\
         (forall v : nat,
          List.In v map1 -> List.nth v map2 0 < 8 /\ List.nth (List.nth v map2 0) map1 0 = v).
Proof. exact @chunk_map2_inverse. Qed.
Print Assumptions C11_chunk_map2_inverse.

(* rank then unrank returns the prefix of every permutation of n >= 8 symbols *)
Theorem C11_rank_unrank :
  forall (n : nat) (perm : list nat),
         is_perm perm = true ->
         length perm = n ->
         8 <= n ->
         let sfx := List.skipn 8 perm in
         let map1 := chunk_map1 n sfx in
         let map2 := chunk_map2 n map1 in
         rank_to_prefix (prefix_to_rank perm map2) map1 = List.firstn 8 perm.
Proof. exact @rank_unrank. Qed.
Print Assumptions C11_rank_unrank.

(* unrank then rank returns every rank below 8! *)
Theorem C11_unrank_rank :
  forall (n : nat) (perm : list nat),
         is_perm perm = true ->
         length perm = n ->
         8 <= n ->
         let sfx := List.skipn 8 perm in
         let map1 := chunk_map1 n sfx in
         let map2 := chunk_map2 n map1 in
         forall r : nat,
         r < Factorial.fact 8 -> prefix_to_rank (rank_to_prefix r map1 ++ sfx) map2 = r.
Proof. exact @unrank_rank. Qed.
Print Assumptions C11_unrank_rank.

From V Require Import Base Tensor Perm Codec CodecProofs Graph GraphProofs NumpyBfs NumpyBfsProofs NumpyEncodedProofs.

(* END TO END, the term the harness evaluates: for permutation generators with a unique inverse each (np_inverse_index = Ok), one-word encoding of any width w with n*w <= 64 and ANY central state with entries below 2^w, bfs_numpy run on the library's GENERATED 1-D routines from the code of the central state returns the sizes of the true layers of the Schreier graph on STATES, truncated at the depth limit / first empty layer *)
Theorem C11_numpy_bfs_encoded_growth :
  forall w n : nat,
         1 <= w <= 64 ->
         n * w <= 64 ->
         forall perms : list (list nat),
         perms_ok n perms ->
         forall idx : list nat,
         np_inverse_index perms = Ok idx ->
         forall (s0 : list BinNums.Z) (max_diameter : BinNums.N),
         valid_state w n s0 ->
         BinNat.N.le (BinNums.Npos BinNums.xH) max_diameter ->
         bfs_numpy (List.map (fun p : list nat => eval_prog1d (emit w n p)) perms) idx 
           (code w n s0) max_diameter =
         take_nonzero
           (List.map
              (fun i : nat =>
               length
                 (layer (list BinNums.Z) state_eq_dec (List.map (apply_perm BinNums.Z0) perms)
                    (s0 :: nil) i)) (List.seq 0 (S (BinNat.N.to_nat max_diameter)))).
Proof. exact @numpy_bfs_encoded_growth. Qed.
Print Assumptions C11_numpy_bfs_encoded_growth.

(* inv_perm_idx maps every generator to THE index of its inverse *)
Theorem C11_np_inverse_index_spec :
  forall (perms : list (list nat)) (idx : list nat),
         np_inverse_index perms = Ok idx ->
         length idx = length perms /\
         (forall i : nat,
          i < length perms ->
          List.nth i idx 0 < length perms /\
          List.nth (List.nth i idx 0) perms nil = inverse_perm (List.nth i perms nil)).
Proof. exact @np_inverse_index_spec. Qed.
Print Assumptions C11_np_inverse_index_spec.

(* and the engine asserts exactly when some generator's inverse is missing or occurs twice (the documented domain: distinct inverse-closed generators) *)
Theorem C11_np_inverse_index_err_iff :
  forall (perms : list (list nat)) (e : err),
         np_inverse_index perms = Err e <->
         e = AssertionErr /\
         (exists p : list nat, List.In p perms /\ ~ (exists j : nat, unique_inverse_at perms p j)).
Proof. exact @np_inverse_index_err_iff. Qed.
Print Assumptions C11_np_inverse_index_err_iff.

(* the generated 1-D routine IS the generator action on codes *)
Theorem C11_emit1d_action :
  forall w n : nat,
         1 <= w <= 64 ->
         n * w <= 64 ->
         forall (p : list nat) (s : list BinNums.Z),
         PermProofs.Perm p ->
         length p = n ->
         valid_state w n s ->
         eval_prog1d (emit w n p) (code w n s) = code w n (apply_perm BinNums.Z0 p s).
Proof. exact @emit1d_action. Qed.
Print Assumptions C11_emit1d_action.

(* layers are transported along an encoding that is injective on a closed set and commutes with the generators *)
Theorem C11_layer_transport :
  forall (A B : Type) (eqA : forall a b : A, {a = b} + {a <> b})
           (eqB : forall a b : B, {a = b} + {a <> b}) (gs : list (A -> A)) 
           (fs : list (B -> B)) (enc : A -> B) (U : A -> Prop),
         length fs = length gs ->
         closed A gs U ->
         (forall a b : A, U a -> U b -> enc a = enc b -> a = b) ->
         (forall (i : nat) (s : A),
          i < length gs ->
          U s -> List.nth i fs (fun b : B => b) (enc s) = enc (List.nth i gs (fun a : A => a) s)) ->
         forall S0 : list A,
         (forall s : A, List.In s S0 -> U s) ->
         forall i : nat, layer B eqB fs (List.map enc S0) i = List.map enc (layer A eqA gs S0 i).
Proof. exact @layer_transport. Qed.
Print Assumptions C11_layer_transport.

From V Require Import Base Perm Graph GraphProofs NumpyBfsProofs Bitmask BitmaskProofs BitmaskEngine BitmaskEngineTables BitmaskEngineProofs.

(* BIT-MASK ENGINE, whole loop (chunks by suffix, black / last-layer / gray bit sets of ranks, materialise - apply generators - route to chunk - paint gray - flush, depth limit and both stopping rules): whenever the model returns sizes they are exactly the true layer sizes of the Cayley graph from the identity, truncated at the depth limit / first empty layer; generators need NOT be inverse-closed *)
Theorem C11_bitmask_bfs_growth :
  forall (n : nat) (gens : list (list nat)) (max_diameter : BinNums.N) (sizes : list nat),
         bitmask_bfs n gens max_diameter = Ok sizes ->
         sizes =
         take_nonzero
           (List.map
              (fun i : nat =>
               length (layer (list nat) st_eq_dec (fs gens) (identity_perm n :: nil) i))
              (List.seq 0 (S (BinNat.N.to_nat max_diameter)))).
Proof. exact @bitmask_bfs_growth. Qed.
Print Assumptions C11_bitmask_bfs_growth.

(* the same from any start permutation *)
Theorem C11_bitmask_bfs_from_growth_takewhile :
  forall (n : nat) (gens : list (list nat)) (start : list nat) (max_diameter : BinNums.N)
           (sizes : list nat),
         bitmask_bfs_from n gens start max_diameter = Ok sizes ->
         sizes =
         take_nonzero
           (List.map (fun i : nat => length (layer (list nat) st_eq_dec (fs gens) (start :: nil) i))
              (List.seq 0 (S (BinNat.N.to_nat max_diameter)))).
Proof. exact @bitmask_bfs_from_growth_takewhile. Qed.
Print Assumptions C11_bitmask_bfs_from_growth_takewhile.

(* entry i counts the states at distance exactly i *)
Theorem C11_bitmask_bfs_counts_distance_classes :
  forall (n : nat) (gens : list (list nat)) (start : list nat) (max_diameter : BinNums.N)
           (sizes : list nat) (k i : nat),
         bitmask_bfs_from n gens start max_diameter = Ok sizes ->
         growth_cut gens start (BinNat.N.to_nat max_diameter) k ->
         length sizes = S k /\
         (i <= k ->
          exists cls : list (list nat),
            List.NoDup cls /\
            (forall x : list nat, List.In x cls <-> dist_is (list nat) (fs gens) (start :: nil) x i) /\
            List.nth i sizes 0 = length cls).
Proof. exact @bitmask_bfs_counts_distance_classes. Qed.
Print Assumptions C11_bitmask_bfs_counts_distance_classes.

(* every outcome: sizes (then they are right) or AssertionError exactly on invalid input - never an IndexError or a KeyError *)
Theorem C11_bitmask_bfs_from_outcomes :
  forall (n : nat) (gens : list (list nat)) (start : list nat) (max_diameter : BinNums.N)
           (k : nat),
         growth_cut gens start (BinNat.N.to_nat max_diameter) k ->
         match bitmask_bfs_from n gens start max_diameter with
         | Ok sizes =>
             valid_input n gens start /\
             sizes =
             List.map (fun i : nat => length (layer (list nat) st_eq_dec (fs gens) (start :: nil) i))
               (List.seq 0 (S k))
         | Err e => e = AssertionErr /\ ~ valid_input n gens start
         end.
Proof. exact @bitmask_bfs_from_outcomes_total. Qed.
Print Assumptions C11_bitmask_bfs_from_outcomes.

(* the engine succeeds on EVERY valid input (since fix 40d8e7d also when all generators treat the trailing positions alike) *)
Theorem C11_bitmask_bfs_from_total :
  forall (n : nat) (gens : list (list nat)) (start : list nat),
         valid_input n gens start ->
         forall max_diameter : BinNums.N,
         exists sizes : list nat, bitmask_bfs_from n gens start max_diameter = Ok sizes.
Proof. exact @bitmask_bfs_from_total. Qed.
Print Assumptions C11_bitmask_bfs_from_total.

(* on valid input the result IS the growth function, cut at the depth limit *)
Theorem C11_bitmask_bfs_from_valid :
  forall (n : nat) (gens : list (list nat)) (start : list nat) (max_diameter : BinNums.N),
         valid_input n gens start ->
         bitmask_bfs_from n gens start max_diameter =
         Ok (NumpyBfsProofs.take_nonzero
               (List.map (fun i : nat => length (layer (list nat) st_eq_dec (fs gens) (start :: nil) i))
                  (List.seq 0 (S (BinNat.N.to_nat max_diameter))))).
Proof. exact @bitmask_bfs_from_valid. Qed.
Print Assumptions C11_bitmask_bfs_from_valid.

(* the loop invariant: after t steps, chunk by chunk, last = layer t, black = layers 0..t, gray empty *)
Theorem C11_step_inv :
  forall (n : nat) (gens : list (list nat)) (start : list nat),
         8 <= n ->
         (forall g : list nat, List.In g gens -> PermN n g) ->
         PermN n start ->
         forall (t : nat) (cs : list chunk),
         Inv n gens start t cs ->
         paint_phase gens cs =
         (if List.existsb (fun c1 : chunk => (c_changed c1 && bad_call (neighbors gens c1))%bool) cs
          then Err IndexErr
          else Ok (List.map (paint_all (all_nbrs gens cs)) cs, List.existsb c_changed cs)) /\
         Inv n gens start (S t) (flush (List.map (paint_all (all_nbrs gens cs)) cs)).
Proof. exact @step_inv. Qed.
Print Assumptions C11_step_inv.

From V Require Import Base Tensor Graph GraphProofs GraphImpl Hash Def Paths BfsStep Bfs BfsRun BfsProofs PathsProofs Mitm MitmProofs PathRun MitmFind Interactive InteractiveBetween Beam BeamProofs Walks WalksProofs AlgoRun InstPerm InstSmall InstBfs InstPaths InstShared InstMatrix InstMatrixBfs InstBeam InstWalks.

(* END TO END on impl_of d: whenever the main BFS model completes, the interactive engine reports the same sizes and an unthinned BFS-mode walk counts exactly those sizes per distance (NoColl only) *)
Theorem C11_engines_agree_perm :
  forall d : gdesc,
         wf_perm_desc d ->
         NoCollOn (impl_of d) (Ustates d) ->
         flag_sound d ->
         forall (cfg : bfs_cfg) (start : state),
         Ustates d start ->
         BinInt.Z.le (BinNums.Zpos BinNums.xH) (batch_size cfg) ->
         forall o : bfs_out,
         bfs (impl_of d) cfg (start :: nil) = Ok o ->
         completed o = true ->
         List.map (length (A:=BinNums.Z))
           (ihashes (ibfs_after (impl_of d) (start :: nil) (length (sizes o) - 1))) = 
         sizes o /\
         (forall (width length_ : nat) (perms : list (list nat)) (x : list state) (y : list nat),
          1 <= width ->
          (forall s : nat, List.In s (sizes o) -> s <= width) ->
          length (sizes o) <= length_ ->
          walks_bfs (impl_of d) width length_ start perms = Ok (x, y) ->
          forall k : nat, walk_count x y k = List.nth k (sizes o) 0).
Proof. exact @engines_agree_perm. Qed.
Print Assumptions C11_engines_agree_perm.

(* the same with no hash hypothesis for one-word identity-hash codes *)
Theorem C11_engines_agree_perm_unconditional :
  forall d : gdesc,
         wf_perm_desc d ->
         g_hasher d = HIdentity ->
         single_word d ->
         flag_sound d ->
         forall (cfg : bfs_cfg) (start : state),
         Ustates d start ->
         BinInt.Z.le (BinNums.Zpos BinNums.xH) (batch_size cfg) ->
         forall o : bfs_out,
         bfs (impl_of d) cfg (start :: nil) = Ok o ->
         completed o = true ->
         List.map (length (A:=BinNums.Z))
           (ihashes (ibfs_after (impl_of d) (start :: nil) (length (sizes o) - 1))) = 
         sizes o /\
         (forall (width length_ : nat) (perms : list (list nat)) (x : list state) (y : list nat),
          1 <= width ->
          (forall s : nat, List.In s (sizes o) -> s <= width) ->
          length (sizes o) <= length_ ->
          walks_bfs (impl_of d) width length_ start perms = Ok (x, y) ->
          forall k : nat, walk_count x y k = List.nth k (sizes o) 0).
Proof. exact @engines_agree_perm_unconditional. Qed.
Print Assumptions C11_engines_agree_perm_unconditional.

(* the same for matrix groups (wf_matrix_desc, NoCollMat) *)
Theorem C11_engines_agree_matrix_desc :
  forall d : gdesc,
         wf_matrix_desc d = true ->
         NoCollMat d ->
         forall (cfg : bfs_cfg) (start : state),
         Umat d start ->
         BinInt.Z.le (BinNums.Zpos BinNums.xH) (batch_size cfg) ->
         forall o : bfs_out,
         bfs (impl_of d) cfg (start :: nil) = Ok o ->
         completed o = true ->
         List.map (length (A:=BinNums.Z))
           (ihashes (ibfs_after (impl_of d) (start :: nil) (length (sizes o) - 1))) = 
         sizes o /\
         (forall (width length_ : nat) (perms : list (list nat)) (x : list state) (y : list nat),
          1 <= width ->
          (forall s : nat, List.In s (sizes o) -> s <= width) ->
          length (sizes o) <= length_ ->
          walks_bfs (impl_of d) width length_ start perms = Ok (x, y) ->
          forall k : nat, walk_count x y k = List.nth k (sizes o) 0).
Proof. exact @engines_agree_matrix_desc. Qed.
Print Assumptions C11_engines_agree_matrix_desc.

(* an exhaustive (state, distance) listing has exactly |layer k| entries at distance k *)
Theorem C11_exhaustive_growth :
  forall (gens : list (state -> state)) (start : state) (x : list state) (y : list nat),
         List.NoDup x ->
         (forall (t : state) (k : nat),
          (exists i : nat, i < length x /\ List.nth i x nil = t /\ List.nth i y 0 = k) <->
          List.In t (layer state st_eq_dec gens (start :: nil) k)) ->
         forall k : nat, walk_count x y k = length (layer state st_eq_dec gens (start :: nil) k).
Proof. exact @exhaustive_growth. Qed.
Print Assumptions C11_exhaustive_growth.

From V Require Import Base Tensor Graph GraphProofs GraphImpl Hash Perm Codec CodecProofs Def Bfs BfsRun BfsProofs NumpyBfs NumpyBfsProofs InstPerm InstBfs InstCodec InstCodecBfs InstCodecNumpy.

(* the NumPy engine on the 1-D routines, started from the model's code word, returns the layer sizes of acts (impl_of d) *)
Theorem C11_numpy_engine_on_model :
  forall (d : gdesc) (w : nat) (idx : list nat) (s0 : state) (md : BinNums.N),
         wf_perm_desc d ->
         g_width d = Some w ->
         single_word d ->
         np_inverse_index (desc_perms d) = Ok idx ->
         Ustates d s0 ->
         BinNat.N.le (BinNums.Npos BinNums.xH) md ->
         bfs_numpy (List.map (fun p : list nat => eval_prog1d (emit w (desc_n d) p)) (desc_perms d))
           idx (code_word w (desc_n d) s0) md =
         take_nonzero
           (List.map (fun i : nat => length (layer state st_eq_dec (acts (impl_of d)) (s0 :: nil) i))
              (List.seq 0 (S (BinNat.N.to_nat md)))).
Proof. exact @numpy_engine_on_model. Qed.
Print Assumptions C11_numpy_engine_on_model.
