(** C02 - Generator action and state codec match the mathematical definition. Statements only. *)
From Coq Require Import ZArith List Arith.
From V Require Import Base W64 Codec CodecProofs CodecExtra Perm PermProofs Matrix MatrixProofs ConstsProofs.
From V.gen Require Import Consts.
Import ListNotations.
Open Scope Z_scope.

(* round trip, every width 1..64, every length, every admissible entry *)
Theorem C02_decode_encode : forall w n s,
  (1 <= w <= 64)%nat -> length s = n ->
  Forall (fun x => 0 <= x < 2 ^ Z.of_nat w /\ x < two63) s ->
  decode w n (encode w n s) = s.
Proof. exact decode_encode. Qed.
Print Assumptions C02_decode_encode.

(* every generated routine, on EVERY input word vector (not only valid codes), bit by bit *)
Theorem C02_emit_correct : forall w n p x c b,
  (1 <= w <= 64)%nat -> length p = n -> Forall (fun v => (v < n)%nat) p ->
  length x = encoded_length w n -> Forall in64 x ->
  (c < encoded_length w n)%nat -> 0 <= b < 64 ->
  Z.testbit (nth c (eval_prog (encoded_length w n) (emit w n p) x) 0) b =
    let e := (c * 64 + Z.to_nat b)%nat in
    if (e <? n * w)%nat then
      let sb := (nth (e / w) p 0%nat * w + e mod w)%nat in
      Z.testbit (nth (sb / 64) x 0) (Z.of_nat (sb mod 64))
    else false.
Proof. exact emit_correct. Qed.
Print Assumptions C02_emit_correct.

(* hence on encoded states it is the library's action new[j] = old[p[j]] *)
Theorem C02_emit_action : forall w n p s,
  (1 <= w <= 64)%nat -> length p = n -> Forall (fun v => (v < n)%nat) p -> length s = n ->
  Forall (fun x => 0 <= x < 2 ^ Z.of_nat w /\ x < two63) s ->
  decode w n (eval_prog (encoded_length w n) (emit w n p) (encode w n s)) = apply_perm 0 p s.
Proof. exact decode_emit_encode. Qed.
Print Assumptions C02_emit_action.

Theorem C02_emit_1d : forall w n p x,
  encoded_length w n = 1%nat -> Forall (fun v => (v < n)%nat) p -> in64 x ->
  eval_prog1d (emit w n p) x = nth 0 (eval_prog 1 (emit w n p) [x]) 0.
Proof. exact eval_prog1d_eq. Qed.
Print Assumptions C02_emit_1d.

(* the un-encoded (gather) action *)
Theorem C02_gather_action : forall (p : list nat) (s : list Z) j,
  (j < length p)%nat -> nth j (apply_perm 0 p s) 0 = nth (nth j p 0%nat) s 0.
Proof. intros p s j H. exact (nth_apply_perm 0 p s j H). Qed.
Print Assumptions C02_gather_action.

(* a path is the composition of the single actions, in order *)
Theorem C02_apply_path_step : forall (A : Type) (acts : list (A -> A)) s i p g,
  nth_error acts i = Some g -> apply_path acts s (i :: p) = apply_path acts (g s) p.
Proof. exact @apply_path_cons. Qed.
Print Assumptions C02_apply_path_step.

(* matrices: M*S reduced mod m, exactly, for 2 <= m <= 2^31; wrapped to int64 for modulo 0 *)
Theorem C02_mat_apply_exact : forall modulo n m M S i k,
  2 <= modulo <= 2 ^ 31 -> Z.of_nat n < 2 ^ 32 -> (i < n)%nat -> (k < m)%nat ->
  (forall r c, (r < n)%nat -> (c < n)%nat -> 0 <= nth c (nth r M []) 0 < modulo) ->
  (forall j, (j < n * m)%nat -> 0 <= nth j S 0 < modulo) ->
  nth (i * m + k) (mat_apply modulo n m M S) 0 =
  zsum (map (fun j => nth j (nth i M []) 0 * mat_entry m S j k) (seq 0 n)) mod modulo.
Proof. exact mat_apply_exact. Qed.
Print Assumptions C02_mat_apply_exact.

Theorem C02_mat_apply_wrap : forall n m M S i k, (i < n)%nat -> (k < m)%nat ->
  nth (i * m + k) (mat_apply 0 n m M S) 0 =
  wrap (zsum (map (fun j => nth j (nth i M []) 0 * mat_entry m S j k) (seq 0 n))).
Proof. exact mat_apply_wrap. Qed.
Print Assumptions C02_mat_apply_wrap.

(* automatic width: the least admissible width, and the source expression computes it *)
Theorem C02_auto_width : forall mx, 0 <= mx ->
  let w := auto_width_fixed mx in
  (1 <= w)%nat /\ mx < 2 ^ Z.of_nat w /\ (forall w', (1 <= w')%nat -> mx < 2 ^ Z.of_nat w' -> (w <= w')%nat).
Proof. exact auto_width_spec. Qed.
Print Assumptions C02_auto_width.

(* tie of the regenerated source constants/functions to the model (re-proved on every run) *)
Theorem C02_source_ties :
  codeword_length = CL /\ (forall b, 0 <= b < 64 -> one_shifted_src b = one_shifted b) /\
  (forall k, 0 <= k < 65 -> mask_with_high_zeros_src k = mask_with_high_zeros k) /\
  (forall mx, auto_width_src mx = Z.of_nat (auto_width_fixed mx)).
Proof. exact (conj codeword_length_tie (conj one_shifted_tie (conj mask_with_high_zeros_tie auto_width_tie))). Qed.
Print Assumptions C02_source_ties.

From V Require Import Base Tensor Graph GraphProofs GraphImpl Hash Matrix MatrixProofs Def Paths BfsStep Bfs BfsRun BfsProofs PathsProofs Mitm MitmProofs PathRun MitmFind InstShared InstMatrix InstMatrixAlgebra InstMatrixBfs.

(* applying a path of matrix generators equals applying their product: (A*B)S = A(B S), both arithmetic modes (2 <= m <= 2^31 exact residues; m = 0 wrap to int64) *)
Theorem C02_mat_apply_mul :
  forall (modulo : Z) (n m : nat) (A B : list (list Z)) (S : state),
         ModOk modulo n ->
         MatOk modulo n A ->
         MatOk modulo n B ->
         UmatP modulo n m S ->
         mat_apply modulo n m (mat_mul modulo n A B) S =
         mat_apply modulo n m A (mat_apply modulo n m B S).
Proof. exact @mat_apply_mul. Qed.
Print Assumptions C02_mat_apply_mul.

(* the identity matrix acts trivially on reduced states *)
Theorem C02_mat_apply_eye :
  forall (modulo : Z) (n m : nat) (S : state),
         ModOk modulo n -> UmatP modulo n m S -> mat_apply modulo n m (eye n) S = S.
Proof. exact @mat_apply_eye. Qed.
Print Assumptions C02_mat_apply_eye.

From V Require Import Base Tensor Graph GraphProofs GraphImpl Hash Perm Codec CodecProofs Def Bfs BfsRun BfsProofs NumpyBfs NumpyBfsProofs InstPerm InstBfs InstCodec InstCodecBfs InstCodecNumpy.

(* AUDIT: every side condition of the codec theorems follows from wf_perm_desc d and Ustates d s (no gap between C02 and the model the search theorems use) *)
Theorem C02_codec_side_conditions :
  forall (d : gdesc) (w : nat) (p : list nat) (s : state),
         wf_perm_desc d ->
         g_width d = Some w -> In p (desc_perms d) -> Ustates d s -> codec_pre w (desc_n d) p s.
Proof. exact @codec_side_conditions. Qed.
Print Assumptions C02_codec_side_conditions.

(* END TO END: encode, run the generated 64-bit routine, decode = the abstract action acts (impl_of d) used by all search models *)
Theorem C02_encoded_action_is_abstract :
  forall (d : gdesc) (w i : nat) (s : state),
         wf_perm_desc d ->
         g_width d = Some w ->
         (i < length (desc_perms d))%nat ->
         Ustates d s ->
         let n := desc_n d in
         let p := nth i (desc_perms d) [] in
         decode w n (eval_prog (encoded_length w n) (emit w n p) (encode w n s)) =
         nth i (acts (impl_of d)) (fun x : state => x) s.
Proof. exact @encoded_action_is_abstract. Qed.
Print Assumptions C02_encoded_action_is_abstract.

(* the routine maps the code of s to the code of the image (codes are canonical: unused bits zero) *)
Theorem C02_encoded_image_is_code :
  forall (d : gdesc) (w : nat) (p : list nat) (s : state),
         wf_perm_desc d ->
         g_width d = Some w ->
         In p (desc_perms d) ->
         Ustates d s ->
         let n := desc_n d in
         eval_prog (encoded_length w n) (emit w n p) (encode w n s) = encode w n (apply_perm 0 p s).
Proof. exact @encoded_image_is_code. Qed.
Print Assumptions C02_encoded_image_is_code.

(* hashing the encoded neighbour = hashf of the abstract neighbour *)
Theorem C02_encoded_hash_is_hashf :
  forall (steps : list mix_step) (mult : Z) (d : gdesc) (w : nat) (p : list nat) (s : state),
         wf_perm_desc d ->
         g_width d = Some w ->
         In p (desc_perms d) ->
         Ustates d s ->
         let n := desc_n d in
         make_hash steps mult (g_hasher d)
           (eval_prog (encoded_length w n) (emit w n p) (encode w n s)) =
         hashf (mk_impl steps mult d) (apply_perm 0 p s).
Proof. exact @encoded_hash_is_hashf. Qed.
Print Assumptions C02_encoded_hash_is_hashf.

(* get_neighbors on code rows, decoded = get_neighbors of the model (generator-major order) *)
Theorem C02_encoded_neighbors :
  forall (d : gdesc) (sts : list state),
         wf_perm_desc d ->
         (forall s : state, In s sts -> Ustates d s) ->
         map (dec_row d) (get_neighbors_encoded d (map (encoded_row d) sts)) =
         get_neighbors (impl_of d) sts.
Proof. exact @encoded_neighbors. Qed.
Print Assumptions C02_encoded_neighbors.

(* apply_path through the routines = composing the abstract actions in order *)
Theorem C02_encoded_apply_path_decoded :
  forall (d : gdesc) (s : state) (path : list nat),
         wf_perm_desc d ->
         Ustates d s -> apply_path_encoded d s path = apply_path (acts (impl_of d)) s path.
Proof. exact @encoded_apply_path_decoded. Qed.
Print Assumptions C02_encoded_apply_path_decoded.

(* one-word codes: the 1-D routine (NumPy and bit-mask engines) is the abstract action too *)
Theorem C02_oneword_routine_is_abstract :
  forall (d : gdesc) (w i : nat) (s : state),
         wf_perm_desc d ->
         g_width d = Some w ->
         single_word d ->
         (i < length (desc_perms d))%nat ->
         Ustates d s ->
         let n := desc_n d in
         let p := nth i (desc_perms d) [] in
         decode w n [eval_prog1d (emit w n p) (code_word w n s)] =
         nth i (acts (impl_of d)) (fun x : state => x) s.
Proof. exact @oneword_routine_is_abstract. Qed.
Print Assumptions C02_oneword_routine_is_abstract.
