(** C03 - De-duplication never merges distinct states nor keeps duplicates. Statements only.
    [splitmix_steps] and [hash_mult] are regenerated from cayleypy/hasher.py on every run (gen/Consts.v). *)
From Coq Require Import ZArith List Arith.
From V Require Import Base W64 Tensor Hash HashChunk HashProofs ConstsProofs.
From V.gen Require Import Consts.
Import ListNotations.
Open Scope Z_scope.

(* the mixer of the CURRENT source is a bijection of 64-bit words *)
Theorem C03_mixer_injective : forall x y, in64 x -> in64 y ->
  run_steps splitmix_steps x = run_steps splitmix_steps y -> x = y.
Proof. intros x y. exact (run_steps_injective splitmix_steps x y splitmix_steps_ok). Qed.
Print Assumptions C03_mixer_injective.

(* multi-word encoded states differing in exactly one word never collide, for every seed *)
Theorem C03_one_word_diff : forall seed pre a b post,
  in64 seed -> in64 a -> in64 b -> Forall in64 pre -> Forall in64 post -> a <> b ->
  hash_words splitmix_steps hash_mult seed (pre ++ a :: post) <>
  hash_words splitmix_steps hash_mult seed (pre ++ b :: post).
Proof.
  intros seed pre a b post. exact (hash_words_one_word_diff splitmix_steps hash_mult seed pre a b post splitmix_steps_ok hash_mult_odd).
Qed.
Print Assumptions C03_one_word_diff.

(* single-word states: the identity hash is injective *)
Theorem C03_identity_hash_injective : forall steps mult a b,
  make_hash steps mult HIdentity [a] = make_hash steps mult HIdentity [b] -> a = b.
Proof. intros steps mult a b H. exact H. Qed.
Print Assumptions C03_identity_hash_injective.

(* equal states get equal hashes whatever the chunk size: chunked hashing is row-wise hashing *)
Theorem C03_chunking_irrelevant : forall (f : list Z -> Z) chunk rows,
  1 <= chunk -> hash_rows_chunked f chunk rows = map f rows.
Proof. exact hash_rows_chunked_eq. Qed.
Print Assumptions C03_chunking_irrelevant.

(* dot-product hash: no pair of distinct small vectors collides for every hasher vector *)
Theorem C03_dot_not_seed_independent : forall vec s s' i,
  length s = length vec -> length s' = length vec -> (i < length vec)%nat ->
  Forall (fun x => - 2^31 < x < 2^31) s -> Forall (fun x => - 2^31 < x < 2^31) s' ->
  nth i s 0 <> nth i s' 0 ->
  hash_dot vec s = hash_dot vec s' ->
  hash_dot (upd vec i (nth i vec 0 + 1)) s <> hash_dot (upd vec i (nth i vec 0 + 1)) s'.
Proof. exact hash_dot_not_seed_independent. Qed.
Print Assumptions C03_dot_not_seed_independent.

(* the defect that was repaired (fixed: F07): with ARITHMETIC shifts a word and its complement collide for every seed *)
Theorem C03_arithmetic_shift_refuted : forall k rest mult seed pre a post, 0 <= k ->
  hash_words (XorSar k :: rest) mult seed (pre ++ Z.lnot a :: post) =
  hash_words (XorSar k :: rest) mult seed (pre ++ a :: post).
Proof. exact hash_words_sar_collision. Qed.
Print Assumptions C03_arithmetic_shift_refuted.

(* KNOWN FINDING F16 (open): the full statement "no two distinct states collide for every seed" is FALSE for the
   repaired multi-word hash: a top-bit XOR difference in two words cancels for every seed *)
Theorem C03_seed_independent_collision_refuted : forall seed, in64 seed ->
  hash_words fixed_steps fold_mult seed [5; 9] =
  hash_words fixed_steps fold_mult seed [5987515076937770397; -1928796979971312683].
Proof. exact hash_words_seed_independent_collision. Qed.
Print Assumptions C03_seed_independent_collision_refuted.

From V Require Import Base Tensor Graph GraphProofs GraphImpl Hash Def Paths BfsStep Bfs BfsRun BfsProofs PathsProofs Mitm MitmProofs PathRun MitmFind Interactive InteractiveBetween InstPerm InstSmall InstBfs InstPaths.

(* the identity hash on a one-word code is injective on all states of the right length and alphabet (no assumption) *)
Theorem C03_identity_hash_nocoll :
  forall (steps : list mix_step) (mult : Z) (d : gdesc),
         wf_perm_desc d ->
         g_hasher d = HIdentity -> single_word d -> NoCollOn (mk_impl steps mult d) (Ustates d).
Proof. exact @identity_nocoll. Qed.
Print Assumptions C03_identity_hash_nocoll.

(* conversely injectivity of the identity hash forces the code to fit one word (an explicit collision otherwise): hasher.py's rule is necessary *)
Theorem C03_identity_hash_needs_single_word :
  forall (steps : list mix_step) (mult : Z) (d : gdesc),
         wf_perm_desc d ->
         g_hasher d = HIdentity -> NoCollOn (mk_impl steps mult d) (Ustates d) -> single_word d.
Proof. exact @identity_nocoll_single_word. Qed.
Print Assumptions C03_identity_hash_needs_single_word.
