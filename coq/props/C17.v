(** C17 - Growth-function datasets: the reference BFS that decides the rows is proved to compute the
    sizes of the textbook layers of Graph.v (= the distance classes). Statements only. *)
From Coq Require Import ZArith List.
From V Require Import Graph GraphProofs RefBfs RefBfsProofs RefBfsRun.
Import ListNotations.

(* a finished run returns exactly the sizes of layers 0..d, none of them empty, and layer d+1 is empty *)
Theorem C17_growth_correct :
  forall (gens : list (zstate -> zstate)) (starts : list zstate) (fuel : nat) (sizes : list nat),
    growth_fuel gens starts fuel = Some sizes ->
    sizes = map (fun i => length (Graph.layer zstate zstate_eq_dec gens starts i)) (seq 0 (length sizes)) /\
    Graph.layer zstate zstate_eq_dec gens starts (length sizes) = [] /\
    (forall i, i < length sizes -> Graph.layer zstate zstate_eq_dec gens starts i <> []).
Proof. exact growth_correct. Qed.
Print Assumptions C17_growth_correct.

(* the prefix run returns the sizes of layers 0..k *)
Theorem C17_growth_prefix_correct :
  forall (gens : list (zstate -> zstate)) (starts : list zstate) (k : nat),
    growth_prefix gens starts k =
    map (fun i => length (Graph.layer zstate zstate_eq_dec gens starts i)) (seq 0 (S k)).
Proof. exact growth_prefix_correct. Qed.
Print Assumptions C17_growth_prefix_correct.

(* the layers are the distance classes (GraphProofs), so the numbers count states at distance i *)
Theorem C17_layers_are_distance_classes :
  forall (gens : list (zstate -> zstate)) (starts : list zstate) (i : nat) (t : zstate),
    In t (Graph.layer zstate zstate_eq_dec gens starts i) <-> Graph.dist_is zstate gens starts t i.
Proof. exact (ref_layers_dist zstate zstate_eq_dec). Qed.
Print Assumptions C17_layers_are_distance_classes.

Theorem C17_growth_counts_distance_classes :
  forall (gens : list (zstate -> zstate)) (starts : list zstate) (fuel : nat) (sizes : list nat),
    growth_fuel gens starts fuel = Some sizes ->
    forall i, i < length sizes ->
      exists cls : list zstate,
        NoDup cls /\ (forall t, In t cls <-> Graph.dist_is zstate gens starts t i) /\
        nth i sizes 0 = length cls.
Proof. exact growth_counts_distance_classes. Qed.
Print Assumptions C17_growth_counts_distance_classes.

(* nothing is reachable beyond the last reported layer: the sizes sum over the whole orbit *)
Theorem C17_growth_exhausts_orbit :
  forall (gens : list (zstate -> zstate)) (starts : list zstate) (fuel : nat) (sizes : list nat),
    growth_fuel gens starts fuel = Some sizes ->
    forall k t, Graph.reach zstate gens starts k t ->
      exists d, d < length sizes /\ Graph.dist_is zstate gens starts t d.
Proof. exact growth_exhausts_orbit. Qed.
Print Assumptions C17_growth_exhausts_orbit.

(* the boolean checks the harness evaluates on dataset rows mean what they say *)
Theorem C17_check_exact_sound :
  forall (g : rb_gens) (start : list Z) (row : list Z),
    check_growth_exact g start row = true ->
    row = map (fun i => Z.of_nat (length (Graph.layer zstate zstate_eq_dec (rb_funs_spec g) [start] i)))
              (seq 0 (length row)) /\
    Graph.layer zstate zstate_eq_dec (rb_funs_spec g) [start] (length row) = [] /\
    (forall i, i < length row -> Graph.layer zstate zstate_eq_dec (rb_funs_spec g) [start] i <> []).
Proof. exact check_growth_exact_sound. Qed.
Print Assumptions C17_check_exact_sound.

Theorem C17_check_prefix_sound :
  forall (g : rb_gens) (start : list Z) (row : list Z),
    check_growth_prefix g start row = true ->
    row = map (fun i => Z.of_nat (length (Graph.layer zstate zstate_eq_dec (rb_funs_spec g) [start] i)))
              (seq 0 (length row)).
Proof. exact check_growth_prefix_sound. Qed.
Print Assumptions C17_check_prefix_sound.

From V Require Import Base Perm Graph GraphProofs Families GrowthFormulas GrowthFormulasTransp.

(* EVERY n: the closed formula datasets.py uses for the adjacent-transposition (Coxeter) graph - the Mahonian numbers - IS its growth function: the number of arrangements at distance k is entry k of the formula *)
Theorem C17_coxeter_growth_correct :
  forall (n : nat) (gens : list (list nat -> list nat)),
         adjacent_swap_gens n gens ->
         forall k : nat,
         BinNat.N.of_nat (length (layer (list nat) lnat_eq_dec gens (List.seq 0 n :: nil) k)) =
         List.nth k (coxeter_growth n) BinNums.N0.
Proof. exact @coxeter_growth_correct. Qed.
Print Assumptions C17_coxeter_growth_correct.

(* because the distance from the identity is the number of inversions *)
Theorem C17_coxeter_distance_is_inversions :
  forall (n : nat) (gens : list (list nat -> list nat)),
         adjacent_swap_gens n gens ->
         forall (t : list nat) (d : nat),
         dist_is (list nat) gens (List.seq 0 n :: nil) t d <->
         Permutation.Permutation t (List.seq 0 n) /\ inv t = d.
Proof. exact @coxeter_distance_is_inversions. Qed.
Print Assumptions C17_coxeter_distance_is_inversions.

(* the row has n(n-1)/2 + 1 terms, all positive *)
Theorem C17_coxeter_growth_nonzero_terms :
  forall n : nat,
         length (coxeter_growth n) = PeanoNat.Nat.div (n * (n - 1)) 2 + 1 /\
         List.Forall (fun v : BinNums.N => v <> BinNums.N0) (coxeter_growth n).
Proof. exact @coxeter_growth_nonzero_terms. Qed.
Print Assumptions C17_coxeter_growth_nonzero_terms.

(* stated on the library's coxeter(n) generators *)
Theorem C17_coxeter_growth_correct_families :
  forall n : nat,
         2 <= n ->
         exists d : pdef,
           coxeter (BinInt.Z.of_nat n) = Ok d /\
           (forall k : nat,
            BinNat.N.of_nat
              (length
                 (layer (list nat) lnat_eq_dec
                    (List.map (fun p : list nat => apply_perm 0 p) (p_gens d)) 
                    (List.seq 0 n :: nil) k)) = List.nth k (coxeter_growth n) BinNums.N0).
Proof. exact @coxeter_growth_correct_families. Qed.
Print Assumptions C17_coxeter_growth_correct_families.

(* EVERY n >= 1: the Stirling-number formula IS the growth function of the all-transpositions graph *)
Theorem C17_all_transpositions_growth_correct :
  forall (n : nat) (gens : list (list nat -> list nat)),
         1 <= n ->
         transposition_gens n gens ->
         forall k : nat,
         BinNat.N.of_nat (length (layer (list nat) lnat_eq_dec gens (List.seq 0 n :: nil) k)) =
         List.nth k (all_transpositions_growth n) BinNums.N0.
Proof. exact @all_transpositions_growth_correct. Qed.
Print Assumptions C17_all_transpositions_growth_correct.

(* because the distance is n minus the number of cycles *)
Theorem C17_all_transpositions_distance_cycles :
  forall (n : nat) (gens : list (list nat -> list nat)),
         transposition_gens n gens ->
         forall (t : list nat) (d : nat),
         dist_is (list nat) gens (List.seq 0 n :: nil) t d <->
         Permutation.Permutation t (List.seq 0 n) /\ d + length (cycle_type t) = n.
Proof. exact @all_transpositions_distance_cycles. Qed.
Print Assumptions C17_all_transpositions_distance_cycles.

(* stated on the library's all_transpositions(n) generators *)
Theorem C17_all_transpositions_growth_correct_families :
  forall n : nat,
         2 <= n ->
         exists d : pdef,
           all_transpositions (BinInt.Z.of_nat n) = Ok d /\
           (forall k : nat,
            BinNat.N.of_nat
              (length
                 (layer (list nat) lnat_eq_dec
                    (List.map (fun p : list nat => apply_perm 0 p) (p_gens d)) 
                    (List.seq 0 n :: nil) k)) = List.nth k (all_transpositions_growth n) BinNums.N0).
Proof. exact @all_transpositions_growth_correct_families. Qed.
Print Assumptions C17_all_transpositions_growth_correct_families.

From V Require Import Base GrowthFormulas GrowthFormulasFast.

(* the memoised Stirling row the harness evaluates equals the recursive model of datasets._stirling *)
Theorem C17_all_transpositions_growth_fast_eq :
  forall n : nat, all_transpositions_growth_fast n = all_transpositions_growth n.
Proof. exact @all_transpositions_growth_fast_eq. Qed.
Print Assumptions C17_all_transpositions_growth_fast_eq.
