(** C17 - Growth-function datasets: the reference BFS that decides the rows is proved to compute the
    sizes of the textbook layers of Graph.v (= the distance classes). Statements only. *)
From Coq Require Import ZArith List.
From V Require Import Graph GraphProofs RefBfs RefBfsProofs RefBfsRun.
Import ListNotations.

(* a finished run returns exactly the sizes of layers 0..d, none of them empty, and layer d+1 is empty *)
Theorem C17_growth_correct :
  forall (gens : list (zstate -> zstate)) (starts : list zstate) (fuel : nat) (sizes : list nat),
    growth_fuel gens starts fuel = Some sizes ->
    sizes = map (fun i => length (Graph.layer zstate zstate_eq_dec gens starts i)) (seq 0 (length sizes)) /\
    Graph.layer zstate zstate_eq_dec gens starts (length sizes) = [] /\
    (forall i, i < length sizes -> Graph.layer zstate zstate_eq_dec gens starts i <> []).
Proof. exact growth_correct. Qed.
Print Assumptions C17_growth_correct.

(* the prefix run returns the sizes of layers 0..k *)
Theorem C17_growth_prefix_correct :
  forall (gens : list (zstate -> zstate)) (starts : list zstate) (k : nat),
    growth_prefix gens starts k =
    map (fun i => length (Graph.layer zstate zstate_eq_dec gens starts i)) (seq 0 (S k)).
Proof. exact growth_prefix_correct. Qed.
Print Assumptions C17_growth_prefix_correct.

(* the layers are the distance classes (GraphProofs), so the numbers count states at distance i *)
Theorem C17_layers_are_distance_classes :
  forall (gens : list (zstate -> zstate)) (starts : list zstate) (i : nat) (t : zstate),
    In t (Graph.layer zstate zstate_eq_dec gens starts i) <-> Graph.dist_is zstate gens starts t i.
Proof. exact (ref_layers_dist zstate zstate_eq_dec). Qed.
Print Assumptions C17_layers_are_distance_classes.

Theorem C17_growth_counts_distance_classes :
  forall (gens : list (zstate -> zstate)) (starts : list zstate) (fuel : nat) (sizes : list nat),
    growth_fuel gens starts fuel = Some sizes ->
    forall i, i < length sizes ->
      exists cls : list zstate,
        NoDup cls /\ (forall t, In t cls <-> Graph.dist_is zstate gens starts t i) /\
        nth i sizes 0 = length cls.
Proof. exact growth_counts_distance_classes. Qed.
Print Assumptions C17_growth_counts_distance_classes.

(* nothing is reachable beyond the last reported layer: the sizes sum over the whole orbit *)
Theorem C17_growth_exhausts_orbit :
  forall (gens : list (zstate -> zstate)) (starts : list zstate) (fuel : nat) (sizes : list nat),
    growth_fuel gens starts fuel = Some sizes ->
    forall k t, Graph.reach zstate gens starts k t ->
      exists d, d < length sizes /\ Graph.dist_is zstate gens starts t d.
Proof. exact growth_exhausts_orbit. Qed.
Print Assumptions C17_growth_exhausts_orbit.

(* the boolean checks the harness evaluates on dataset rows mean what they say *)
Theorem C17_check_exact_sound :
  forall (g : rb_gens) (start : list Z) (row : list Z),
    check_growth_exact g start row = true ->
    row = map (fun i => Z.of_nat (length (Graph.layer zstate zstate_eq_dec (rb_funs_spec g) [start] i)))
              (seq 0 (length row)) /\
    Graph.layer zstate zstate_eq_dec (rb_funs_spec g) [start] (length row) = [] /\
    (forall i, i < length row -> Graph.layer zstate zstate_eq_dec (rb_funs_spec g) [start] i <> []).
Proof. exact check_growth_exact_sound. Qed.
Print Assumptions C17_check_exact_sound.

Theorem C17_check_prefix_sound :
  forall (g : rb_gens) (start : list Z) (row : list Z),
    check_growth_prefix g start row = true ->
    row = map (fun i => Z.of_nat (length (Graph.layer zstate zstate_eq_dec (rb_funs_spec g) [start] i)))
              (seq 0 (length row)).
Proof. exact check_growth_prefix_sound. Qed.
Print Assumptions C17_check_prefix_sound.
