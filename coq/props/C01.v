(** C01 - BFS layers are exactly the distance classes of the Schreier graph. Statements only.
    [bfs] is the statement-by-statement model of BfsAlgorithm.bfs (Bfs.v); [layer] are the textbook
    layers, which GraphProofs.ref_layers_dist proves to be the distance classes. *)
From Coq Require Import ZArith List Arith.
From V Require Import Base BaseProofs Tensor Graph GraphProofs GraphImpl Bfs BfsStep BfsProofs.
Import ListNotations.

(* the mathematical core: textbook layers = distance classes, on every graph *)
Theorem C01_layers_are_distance_classes :
  forall (St : Type) (eq_dec : forall a b : St, {a = b} + {a <> b}) (gens : list (St -> St)) S i t,
  In t (layer St eq_dec gens S i) <-> dist_is St gens S t i.
Proof. exact ref_layers_dist. Qed.
Print Assumptions C01_layers_are_distance_classes.

(* an exhaustive run of the BFS model: sizes, stored layers, eccentricity are those of the graph.
   U = the states the run can touch; NoColl = no hash collision on U (the exception the property grants). *)
Theorem C01_bfs_completed_correct :
  forall (G : impl) (cfg : bfs_cfg) (U : state -> Prop),
  closed state (acts G) U ->
  (forall a b, U a -> U b -> hashf G a = hashf G b -> a = b) ->
  (is_identity G = true -> forall a, U a -> unword G (hashf G a) = a) ->
  (inv_closed G = true -> symmetric_on state (acts G) U) ->
  (1 <= batch_size cfg)%Z ->
  forall starts, (forall s, In s starts -> U s) -> starts <> [] ->
  forall o, bfs G cfg starts = Ok o -> completed o = true ->
  let L := fun i => layer state st_eq_dec (acts G) starts i in
  let D := length (sizes o) in
  sizes o = map (fun i => length (L i)) (seq 0 D) /\ (forall i, (i < D)%nat -> L i <> []) /\
  (forall i, (D <= i)%nat -> L i = []) /\
  (forall k l, In (k, l) (layers o) -> NoDup l /\ set_eq l (L k)) /\
  (exists l, In ((D - 1)%nat, l) (layers o)) /\ (exists l, In (0%nat, l) (layers o)).
Proof. exact bfs_completed_correct. Qed.
Print Assumptions C01_bfs_completed_correct.

(* the search reports completion whenever no limit can fire *)
Theorem C01_bfs_completes :
  forall (G : impl) (cfg : bfs_cfg) (U : state -> Prop),
  closed state (acts G) U ->
  (forall a b, U a -> U b -> hashf G a = hashf G b -> a = b) ->
  (is_identity G = true -> forall a, U a -> unword G (hashf G a) = a) ->
  (inv_closed G = true -> symmetric_on state (acts G) U) ->
  (1 <= batch_size cfg)%Z ->
  forall starts, (forall s, In s starts -> U s) -> starts <> [] ->
  let L := fun i => layer state st_eq_dec (acts G) starts i in
  stop cfg = None -> (forall i, (Z.of_nat (length (L i)) < max_explore cfg)%Z) ->
  (exists d, (d <= N.to_nat (max_diameter cfg))%nat /\ L d = []) ->
  exists o, bfs G cfg starts = Ok o /\ completed o = true.
Proof. exact bfs_completes. Qed.
Print Assumptions C01_bfs_completes.

(* identical answer for every internal configuration: hash (width, seed, chunking), batch size, batching on/off, optional outputs *)
Theorem C01_bfs_config_independent :
  forall G1 G2 cfg1 cfg2 (U : state -> Prop) starts o1 o2,
  acts G1 = acts G2 ->
  closed state (acts G1) U ->
  (forall a b, U a -> U b -> hashf G1 a = hashf G1 b -> a = b) ->
  (is_identity G1 = true -> forall a, U a -> unword G1 (hashf G1 a) = a) ->
  (inv_closed G1 = true -> symmetric_on state (acts G1) U) ->
  (1 <= batch_size cfg1)%Z ->
  closed state (acts G2) U ->
  (forall a b, U a -> U b -> hashf G2 a = hashf G2 b -> a = b) ->
  (is_identity G2 = true -> forall a, U a -> unword G2 (hashf G2 a) = a) ->
  (inv_closed G2 = true -> symmetric_on state (acts G2) U) ->
  (1 <= batch_size cfg2)%Z ->
  (forall s, In s starts -> U s) -> starts <> [] ->
  bfs G1 cfg1 starts = Ok o1 -> bfs G2 cfg2 starts = Ok o2 ->
  completed o1 = true -> completed o2 = true ->
  sizes o1 = sizes o2 /\
  forall k l1 l2, In (k, l1) (layers o1) -> In (k, l2) (layers o2) -> set_eq l1 l2.
Proof. exact bfs_config_independent. Qed.
Print Assumptions C01_bfs_config_independent.

(* Python loop bounds such as 10**6 are run on a binary counter; it is the same loop *)
Theorem C01_loop_binary_equals_unary : forall (S R : Type) (body : S -> S + R) n s,
  loop_N body n s = loop_nat body (N.to_nat n) s.
Proof. exact @loop_N_nat. Qed.
Print Assumptions C01_loop_binary_equals_unary.

From V Require Import Base Tensor Graph GraphProofs GraphImpl Hash Def Paths BfsStep Bfs BfsRun BfsProofs PathsProofs Mitm MitmProofs PathRun MitmFind Interactive InteractiveBetween InstPerm InstSmall InstBfs InstPaths.

(* END TO END for the concrete permutation-graph implementation model impl_of d: every structural hypothesis of C01_bfs_completed_correct is discharged from wf_perm_desc d (InstPerm.v); only NoColl on the states of the right length and alphabet remains *)
Theorem C01_perm_completed_correct :
  forall (d : gdesc) (cfg : bfs_cfg),
         wf_perm_desc d ->
         flag_sound d ->
         NoCollOn (impl_of d) (Ustates d) ->
         1 <= batch_size cfg ->
         forall starts : list state,
         (forall s : state, In s starts -> Ustates d s) ->
         starts <> [] ->
         forall o : bfs_out,
         bfs (impl_of d) cfg starts = Ok o ->
         completed o = true ->
         let L := fun i : nat => layer state st_eq_dec (acts (impl_of d)) starts i in
         let D := length (sizes o) in
         sizes o = map (fun i : nat => length (L i)) (seq 0 D) /\
         (forall i : nat, (i < D)%nat -> L i <> []) /\
         (forall i : nat, (D <= i)%nat -> L i = []) /\
         (forall (k : nat) (l : list state), In (k, l) (layers o) -> NoDup l /\ set_eq l (L k)) /\
         (exists l : list state, In ((D - 1)%nat, l) (layers o)) /\
         (exists l : list state, In (0%nat, l) (layers o)).
Proof. exact @bfs_perm_completed_correct. Qed.
Print Assumptions C01_perm_completed_correct.

(* single-word codes (identity hash): NO hash hypothesis at all - the BFS model returns exactly the distance classes *)
Theorem C01_perm_identity_hash_unconditional :
  forall (d : gdesc) (cfg : bfs_cfg),
         wf_perm_desc d ->
         flag_sound d ->
         g_hasher d = HIdentity ->
         single_word d ->
         1 <= batch_size cfg ->
         forall starts : list state,
         (forall s : state, In s starts -> Ustates d s) ->
         starts <> [] ->
         forall o : bfs_out,
         bfs (impl_of d) cfg starts = Ok o ->
         completed o = true ->
         let L := fun i : nat => layer state st_eq_dec (acts (impl_of d)) starts i in
         let D := length (sizes o) in
         sizes o = map (fun i : nat => length (L i)) (seq 0 D) /\
         (forall i : nat, (i < D)%nat -> L i <> []) /\
         (forall i : nat, (D <= i)%nat -> L i = []) /\
         (forall (k : nat) (l : list state), In (k, l) (layers o) -> NoDup l /\ set_eq l (L k)) /\
         (exists l : list state, In ((D - 1)%nat, l) (layers o)) /\
         (exists l : list state, In (0%nat, l) (layers o)).
Proof. exact @bfs_perm_identity_hash_unconditional. Qed.
Print Assumptions C01_perm_identity_hash_unconditional.

(* and it reports completion whenever no limit can fire (no hash hypothesis) *)
Theorem C01_perm_identity_hash_completes :
  forall (d : gdesc) (cfg : bfs_cfg),
         wf_perm_desc d ->
         flag_sound d ->
         g_hasher d = HIdentity ->
         single_word d ->
         1 <= batch_size cfg ->
         forall starts : list state,
         (forall s : state, In s starts -> Ustates d s) ->
         starts <> [] ->
         let L := fun i : nat => layer state st_eq_dec (acts (impl_of d)) starts i in
         stop cfg = None ->
         (forall i : nat, Z.of_nat (length (L i)) < max_explore cfg) ->
         (exists k : nat, (k <= N.to_nat (max_diameter cfg))%nat /\ L k = []) ->
         exists o : bfs_out, bfs (impl_of d) cfg starts = Ok o /\ completed o = true.
Proof. exact @bfs_perm_identity_hash_completes_unconditional. Qed.
Print Assumptions C01_perm_identity_hash_completes.

(* two descriptions with the same permutations (any widths, hashers, seeds, batch sizes): same sizes, same layers as sets *)
Theorem C01_perm_config_independent :
  forall (d1 d2 : gdesc) (cfg1 cfg2 : bfs_cfg) (starts : list state) (o1 o2 : bfs_out),
         wf_perm_desc d1 ->
         flag_sound d1 ->
         NoCollOn (impl_of d1) (Ustates d1) ->
         wf_perm_desc d2 ->
         flag_sound d2 ->
         NoCollOn (impl_of d2) (Ustates d2) ->
         desc_perms d1 = desc_perms d2 ->
         1 <= batch_size cfg1 ->
         1 <= batch_size cfg2 ->
         (forall s : state, In s starts -> Ustates d1 s /\ Ustates d2 s) ->
         starts <> [] ->
         bfs (impl_of d1) cfg1 starts = Ok o1 ->
         bfs (impl_of d2) cfg2 starts = Ok o2 ->
         completed o1 = true ->
         completed o2 = true ->
         sizes o1 = sizes o2 /\
         (forall (k : nat) (l1 l2 : list state),
          In (k, l1) (layers o1) -> In (k, l2) (layers o2) -> set_eq l1 l2).
Proof. exact @bfs_perm_config_independent. Qed.
Print Assumptions C01_perm_config_independent.

From V Require Import Base Tensor Graph GraphProofs GraphImpl Hash Matrix MatrixProofs Def Paths BfsStep Bfs BfsRun BfsProofs PathsProofs Mitm MitmProofs PathRun MitmFind InstShared InstMatrix InstMatrixAlgebra InstMatrixBfs.

(* END TO END for the concrete matrix-graph implementation model: all structural hypotheses discharged from wf_matrix_desc d; only NoColl on reduced vectors remains *)
Theorem C01_matrix_completed_correct :
  forall (d : gdesc) (cfg : bfs_cfg),
         wf_matrix_desc d = true ->
         NoCollMat d ->
         1 <= batch_size cfg ->
         forall starts : list state,
         (forall s : state, In s starts -> Umat d s) ->
         starts <> [] ->
         forall o : bfs_out,
         bfs (impl_of d) cfg starts = Ok o ->
         completed o = true ->
         let L := fun i : nat => layer state st_eq_dec (acts (impl_of d)) starts i in
         let D := length (sizes o) in
         sizes o = map (fun i : nat => length (L i)) (seq 0 D) /\
         (forall i : nat, (i < D)%nat -> L i <> []) /\
         (forall i : nat, (D <= i)%nat -> L i = []) /\
         (forall (k : nat) (l : list state), In (k, l) (layers o) -> NoDup l /\ set_eq l (L k)) /\
         (exists l : list state, In ((D - 1)%nat, l) (layers o)) /\
         (exists l : list state, In (0%nat, l) (layers o)).
Proof. exact @matrix_bfs_completed_correct. Qed.
Print Assumptions C01_matrix_completed_correct.

(* completion, same hypotheses *)
Theorem C01_matrix_completes :
  forall (d : gdesc) (cfg : bfs_cfg),
         wf_matrix_desc d = true ->
         NoCollMat d ->
         1 <= batch_size cfg ->
         forall starts : list state,
         (forall s : state, In s starts -> Umat d s) ->
         starts <> [] ->
         let L := fun i : nat => layer state st_eq_dec (acts (impl_of d)) starts i in
         stop cfg = None ->
         (forall i : nat, Z.of_nat (length (L i)) < max_explore cfg) ->
         (exists k : nat, (k <= N.to_nat (max_diameter cfg))%nat /\ L k = []) ->
         exists o : bfs_out, bfs (impl_of d) cfg starts = Ok o /\ completed o = true.
Proof. exact @matrix_bfs_completes. Qed.
Print Assumptions C01_matrix_completes.

From V Require Import Base Tensor Graph GraphProofs GraphImpl Hash Perm Codec CodecProofs Def Bfs BfsRun BfsProofs NumpyBfs NumpyBfsProofs InstPerm InstBfs InstCodec InstCodecBfs InstCodecNumpy.

(* the WHOLE BFS run on ENCODED rows (neighbours by generated routines, hashes of code rows, de-duplication by hash) is, decoded, the BFS model on impl_of d - for every configuration, start set, callback; no hash hypothesis *)
Theorem C01_bfs_lib_is_model :
  forall (d : gdesc) (cfg : bfs_cfg) (starts : list state),
         wf_perm_desc d ->
         (g_hasher d = HIdentity -> single_word d) ->
         (forall s : state, In s starts -> Ustates d s) ->
         bfs_lib d cfg starts = bfs (impl_of d) cfg starts.
Proof. exact @bfs_lib_is_model. Qed.
Print Assumptions C01_bfs_lib_is_model.

(* hence the encoded computation reports exactly the distance classes (NoColl only) *)
Theorem C01_bfs_lib_completed_correct :
  forall (d : gdesc) (cfg : bfs_cfg),
         wf_perm_desc d ->
         flag_sound d ->
         NoCollOn (impl_of d) (Ustates d) ->
         1 <= batch_size cfg ->
         forall starts : list state,
         (forall s : state, In s starts -> Ustates d s) ->
         starts <> [] ->
         forall o : bfs_out,
         bfs_lib d cfg starts = Ok o ->
         completed o = true ->
         let L := fun i : nat => layer state st_eq_dec (acts (impl_of d)) starts i in
         let D := length (Bfs.sizes o) in
         Bfs.sizes o = map (fun i : nat => length (L i)) (seq 0 D) /\
         (forall i : nat, (i < D)%nat -> L i <> []) /\
         (forall i : nat, (D <= i)%nat -> L i = []) /\
         (forall (k : nat) (l : list state), In (k, l) (layers o) -> NoDup l /\ set_eq l (L k)) /\
         (exists l : list state, In ((D - 1)%nat, l) (layers o)) /\
         (exists l : list state, In (0%nat, l) (layers o)).
Proof. exact @bfs_lib_completed_correct. Qed.
Print Assumptions C01_bfs_lib_completed_correct.

(* and unconditionally for one-word identity-hash codes *)
Theorem C01_bfs_lib_identity_hash_unconditional :
  forall (d : gdesc) (cfg : bfs_cfg),
         wf_perm_desc d ->
         flag_sound d ->
         g_hasher d = HIdentity ->
         single_word d ->
         1 <= batch_size cfg ->
         forall starts : list state,
         (forall s : state, In s starts -> Ustates d s) ->
         starts <> [] ->
         forall o : bfs_out,
         bfs_lib d cfg starts = Ok o ->
         completed o = true ->
         let L := fun i : nat => layer state st_eq_dec (acts (impl_of d)) starts i in
         let D := length (Bfs.sizes o) in
         Bfs.sizes o = map (fun i : nat => length (L i)) (seq 0 D) /\
         (forall i : nat, (i < D)%nat -> L i <> []) /\
         (forall i : nat, (D <= i)%nat -> L i = []) /\
         (forall (k : nat) (l : list state), In (k, l) (layers o) -> NoDup l /\ set_eq l (L k)) /\
         (exists l : list state, In ((D - 1)%nat, l) (layers o)) /\
         (exists l : list state, In (0%nat, l) (layers o)).
Proof. exact @bfs_lib_identity_hash_unconditional. Qed.
Print Assumptions C01_bfs_lib_identity_hash_unconditional.

(* one expansion step on code rows = the image of the abstract step *)
Theorem C01_bfs_encoded_step_correct :
  forall (steps : list mix_step) (mult : Z) (d : gdesc),
         wf_perm_desc d ->
         (g_hasher d = HIdentity -> single_word d) ->
         forall st : bfs_st,
         AllU (Ustates d) (layer1 st) ->
         bfs_encoded_step steps mult d (map (encoded_row d) (layer1 st)) (seen st) =
         (map (encoded_row d) (fst (fst (expand_plain (mk_impl steps mult d) st))),
          snd (fst (expand_plain (mk_impl steps mult d) st)),
          snd (expand_plain (mk_impl steps mult d) st)) /\
         AllU (Ustates d) (fst (fst (expand_plain (mk_impl steps mult d) st))).
Proof. exact @bfs_encoded_step_correct. Qed.
Print Assumptions C01_bfs_encoded_step_correct.
