(** C01 - placeholder obligations until BfsProofs lands: the loop combinator used by the BFS model. *)
From Coq Require Import ZArith List.
From V Require Import Base BaseProofs.

Theorem C01_loop_binary_equals_unary : forall (S R : Type) (body : S -> S + R) n s,
  loop_N body n s = loop_nat body (N.to_nat n) s.
Proof. exact @loop_N_nat. Qed.
Print Assumptions C01_loop_binary_equals_unary.
