(** C05 - Meet-in-the-middle search returns shortest paths within its stated radius. Statements only: every proof is [exact] of a lemma proved elsewhere.
    G/Ginv: a graph instance and its inverted copy; U: the states a run touches; ball_ok G c lh: per-layer hash lists of the true layers from c;
    dstar G A B d: d is the least length of a walk from a member of A to a member of B. NoColl = hash injective on U.
    (Statements are the lemmas' closed types as printed by Coq, hence the qualified names.) *)
From V Require Import Base Tensor Graph GraphProofs GraphImpl Def Paths BfsStep PathsProofs Mitm MitmProofs Interactive InteractiveProofs InteractiveBetween.

(* a returned path is valid, its length is the true distance, and that distance is at most 2D *)
Theorem C05_mitm_to_sound :
  forall (G Ginv : impl) (U : state -> Prop),
         closed state (acts G) U ->
         closed state (acts Ginv) U ->
         (forall a b : state, U a -> U b -> hashf G a = hashf G b -> a = b) ->
         (forall s : state, hashf Ginv s = hashf G s) ->
         length (acts Ginv) = length (acts G) ->
         (forall (i : nat) (g gi : state -> state) (x : state),
          List.nth_error (acts G) i = Some g ->
          List.nth_error (acts Ginv) i = Some gi -> U x -> g (gi x) = x /\ gi (g x) = x) ->
         (is_identity Ginv = true -> forall a : state, U a -> unword Ginv (hashf Ginv a) = a) ->
         (inv_closed Ginv = true -> symmetric_on state (acts Ginv) U) ->
         forall c : state,
         U c ->
         (forall (q : state) (k : nat),
          BinInt.Z.lt (BinInt.Z.of_nat (length (layer state st_eq_dec (acts Ginv) (q :: nil) k)))
            (BinNums.Zpos
               (BinNums.xO
                  (BinNums.xO
                     (BinNums.xO
                        (BinNums.xO
                           (BinNums.xO
                              (BinNums.xO
                                 (BinNums.xO
                                    (BinNums.xO
                                       (BinNums.xO
                                          (BinNums.xO
                                             (BinNums.xO
                                                (BinNums.xO
                                                   (BinNums.xI
                                                      (BinNums.xO
                                                         (BinNums.xO
                                                            (BinNums.xO
                                                               (BinNums.xI
                                                                  (BinNums.xO
                                                                     (BinNums.xI
                                                                        (BinNums.xO
                                                                        (BinNums.xO
                                                                        (BinNums.xI
                                                                        (BinNums.xO
                                                                        (BinNums.xI
                                                                        (BinNums.xO
                                                                        (BinNums.xO
                                                                        (BinNums.xI
                                                                        (BinNums.xO
                                                                        (BinNums.xI
                                                                        (BinNums.xO
                                                                        (BinNums.xI
                                                                        (BinNums.xI
                                                                        (BinNums.xO
                                                                        (BinNums.xO
                                                                        (BinNums.xO
                                                                        (BinNums.xI
                                                                        (BinNums.xO
                                                                        (BinNums.xI
                                                                        (BinNums.xI BinNums.xH))))))))))))))))))))))))))))))))))))))))) ->
         forall (lh : list (list BinNums.Z)) (ns : nat) (q : state) (p : list nat),
         ball_ok G c lh ->
         length lh = ns ->
         1 <= ns ->
         U q ->
         mitm_find_path_to G Ginv lh ns (hashf G c) q = Ok (Some p) ->
         run state (acts G) c p = Some q /\
         dist_is state (acts G) (c :: nil) q (length p) /\ length p <= 2 * (ns - 1).
Proof. exact @mitm_to_sound. Qed.
Print Assumptions C05_mitm_to_sound.

(* whenever the true distance is at most 2D a path is returned *)
Theorem C05_mitm_to_complete :
  forall (G Ginv : impl) (U : state -> Prop),
         closed state (acts G) U ->
         closed state (acts Ginv) U ->
         (forall a b : state, U a -> U b -> hashf G a = hashf G b -> a = b) ->
         (forall s : state, hashf Ginv s = hashf G s) ->
         length (acts Ginv) = length (acts G) ->
         (forall (i : nat) (g gi : state -> state) (x : state),
          List.nth_error (acts G) i = Some g ->
          List.nth_error (acts Ginv) i = Some gi -> U x -> g (gi x) = x /\ gi (g x) = x) ->
         (is_identity Ginv = true -> forall a : state, U a -> unword Ginv (hashf Ginv a) = a) ->
         (inv_closed Ginv = true -> symmetric_on state (acts Ginv) U) ->
         forall c : state,
         U c ->
         (forall (q : state) (k : nat),
          BinInt.Z.lt (BinInt.Z.of_nat (length (layer state st_eq_dec (acts Ginv) (q :: nil) k)))
            (BinNums.Zpos
               (BinNums.xO
                  (BinNums.xO
                     (BinNums.xO
                        (BinNums.xO
                           (BinNums.xO
                              (BinNums.xO
                                 (BinNums.xO
                                    (BinNums.xO
                                       (BinNums.xO
                                          (BinNums.xO
                                             (BinNums.xO
                                                (BinNums.xO
                                                   (BinNums.xI
                                                      (BinNums.xO
                                                         (BinNums.xO
                                                            (BinNums.xO
                                                               (BinNums.xI
                                                                  (BinNums.xO
                                                                     (BinNums.xI
                                                                        (BinNums.xO
                                                                        (BinNums.xO
                                                                        (BinNums.xI
                                                                        (BinNums.xO
                                                                        (BinNums.xI
                                                                        (BinNums.xO
                                                                        (BinNums.xO
                                                                        (BinNums.xI
                                                                        (BinNums.xO
                                                                        (BinNums.xI
                                                                        (BinNums.xO
                                                                        (BinNums.xI
                                                                        (BinNums.xI
                                                                        (BinNums.xO
                                                                        (BinNums.xO
                                                                        (BinNums.xO
                                                                        (BinNums.xI
                                                                        (BinNums.xO
                                                                        (BinNums.xI
                                                                        (BinNums.xI BinNums.xH))))))))))))))))))))))))))))))))))))))))) ->
         forall (lh : list (list BinNums.Z)) (ns : nat) (q : state) (d : nat),
         ball_ok G c lh ->
         length lh = ns ->
         1 <= ns ->
         U q ->
         List.nth 0 (List.nth 0 lh nil) BinNums.Z0 = hashf G c ->
         dist_is state (acts G) (c :: nil) q d ->
         d <= 2 * (ns - 1) ->
         exists p : list nat, mitm_find_path_to G Ginv lh ns (hashf G c) q = Ok (Some p).
Proof. exact @mitm_to_complete. Qed.
Print Assumptions C05_mitm_to_complete.

(* nothing is returned when every distance exceeds 2D (or the target is unreachable) *)
Theorem C05_mitm_to_none :
  forall (G Ginv : impl) (U : state -> Prop),
         closed state (acts G) U ->
         closed state (acts Ginv) U ->
         (forall a b : state, U a -> U b -> hashf G a = hashf G b -> a = b) ->
         (forall s : state, hashf Ginv s = hashf G s) ->
         length (acts Ginv) = length (acts G) ->
         (forall (i : nat) (g gi : state -> state) (x : state),
          List.nth_error (acts G) i = Some g ->
          List.nth_error (acts Ginv) i = Some gi -> U x -> g (gi x) = x /\ gi (g x) = x) ->
         (is_identity Ginv = true -> forall a : state, U a -> unword Ginv (hashf Ginv a) = a) ->
         (inv_closed Ginv = true -> symmetric_on state (acts Ginv) U) ->
         forall c : state,
         U c ->
         (forall (q : state) (k : nat),
          BinInt.Z.lt (BinInt.Z.of_nat (length (layer state st_eq_dec (acts Ginv) (q :: nil) k)))
            (BinNums.Zpos
               (BinNums.xO
                  (BinNums.xO
                     (BinNums.xO
                        (BinNums.xO
                           (BinNums.xO
                              (BinNums.xO
                                 (BinNums.xO
                                    (BinNums.xO
                                       (BinNums.xO
                                          (BinNums.xO
                                             (BinNums.xO
                                                (BinNums.xO
                                                   (BinNums.xI
                                                      (BinNums.xO
                                                         (BinNums.xO
                                                            (BinNums.xO
                                                               (BinNums.xI
                                                                  (BinNums.xO
                                                                     (BinNums.xI
                                                                        (BinNums.xO
                                                                        (BinNums.xO
                                                                        (BinNums.xI
                                                                        (BinNums.xO
                                                                        (BinNums.xI
                                                                        (BinNums.xO
                                                                        (BinNums.xO
                                                                        (BinNums.xI
                                                                        (BinNums.xO
                                                                        (BinNums.xI
                                                                        (BinNums.xO
                                                                        (BinNums.xI
                                                                        (BinNums.xI
                                                                        (BinNums.xO
                                                                        (BinNums.xO
                                                                        (BinNums.xO
                                                                        (BinNums.xI
                                                                        (BinNums.xO
                                                                        (BinNums.xI
                                                                        (BinNums.xI BinNums.xH))))))))))))))))))))))))))))))))))))))))) ->
         forall (lh : list (list BinNums.Z)) (ns : nat) (q : state),
         ball_ok G c lh ->
         length lh = ns ->
         1 <= ns ->
         U q ->
         List.nth 0 (List.nth 0 lh nil) BinNums.Z0 = hashf G c ->
         (forall d : nat, dist_is state (acts G) (c :: nil) q d -> 2 * (ns - 1) < d) ->
         mitm_find_path_to G Ginv lh ns (hashf G c) q = Ok None.
Proof. exact @mitm_to_none. Qed.
Print Assumptions C05_mitm_to_none.

(* distance d <= 2D: the result is a valid path of exactly d edges *)
Theorem C05_mitm_to_exact :
  forall (G Ginv : impl) (U : state -> Prop),
         closed state (acts G) U ->
         closed state (acts Ginv) U ->
         (forall a b : state, U a -> U b -> hashf G a = hashf G b -> a = b) ->
         (forall s : state, hashf Ginv s = hashf G s) ->
         length (acts Ginv) = length (acts G) ->
         (forall (i : nat) (g gi : state -> state) (x : state),
          List.nth_error (acts G) i = Some g ->
          List.nth_error (acts Ginv) i = Some gi -> U x -> g (gi x) = x /\ gi (g x) = x) ->
         (is_identity Ginv = true -> forall a : state, U a -> unword Ginv (hashf Ginv a) = a) ->
         (inv_closed Ginv = true -> symmetric_on state (acts Ginv) U) ->
         forall c : state,
         U c ->
         (forall (q : state) (k : nat),
          BinInt.Z.lt (BinInt.Z.of_nat (length (layer state st_eq_dec (acts Ginv) (q :: nil) k)))
            (BinNums.Zpos
               (BinNums.xO
                  (BinNums.xO
                     (BinNums.xO
                        (BinNums.xO
                           (BinNums.xO
                              (BinNums.xO
                                 (BinNums.xO
                                    (BinNums.xO
                                       (BinNums.xO
                                          (BinNums.xO
                                             (BinNums.xO
                                                (BinNums.xO
                                                   (BinNums.xI
                                                      (BinNums.xO
                                                         (BinNums.xO
                                                            (BinNums.xO
                                                               (BinNums.xI
                                                                  (BinNums.xO
                                                                     (BinNums.xI
                                                                        (BinNums.xO
                                                                        (BinNums.xO
                                                                        (BinNums.xI
                                                                        (BinNums.xO
                                                                        (BinNums.xI
                                                                        (BinNums.xO
                                                                        (BinNums.xO
                                                                        (BinNums.xI
                                                                        (BinNums.xO
                                                                        (BinNums.xI
                                                                        (BinNums.xO
                                                                        (BinNums.xI
                                                                        (BinNums.xI
                                                                        (BinNums.xO
                                                                        (BinNums.xO
                                                                        (BinNums.xO
                                                                        (BinNums.xI
                                                                        (BinNums.xO
                                                                        (BinNums.xI
                                                                        (BinNums.xI BinNums.xH))))))))))))))))))))))))))))))))))))))))) ->
         forall (lh : list (list BinNums.Z)) (ns : nat) (q : state) (d : nat),
         ball_ok G c lh ->
         length lh = ns ->
         1 <= ns ->
         U q ->
         dist_is state (acts G) (c :: nil) q d ->
         d <= 2 * (ns - 1) ->
         exists p : list nat,
           mitm_find_path_to G Ginv lh ns (hashf G c) q = Ok (Some p) /\
           length p = d /\ run state (acts G) c p = Some q.
Proof. exact @mitm_to_exact. Qed.
Print Assumptions C05_mitm_to_exact.

(* set-to-set: the path starts in the start set, ends in the destination set, has globally minimal length, within twice the depth limit *)
Theorem C05_between_sound :
  forall (G Ginv : impl) (U : state -> Prop),
         closed state (acts G) U ->
         closed state (acts Ginv) U ->
         (forall a b : state, U a -> U b -> hashf G a = hashf G b -> a = b) ->
         (forall x : state, hashf Ginv x = hashf G x) ->
         length (acts Ginv) = length (acts G) ->
         (forall (i : nat) (g gi : state -> state) (x : state),
          List.nth_error (acts G) i = Some g ->
          List.nth_error (acts Ginv) i = Some gi -> U x -> g (gi x) = x /\ gi (g x) = x) ->
         (is_identity G = true -> forall a : state, U a -> unword G (hashf G a) = a) ->
         (is_identity Ginv = true -> forall a : state, U a -> unword Ginv (hashf Ginv a) = a) ->
         (inv_closed G = true -> symmetric_on state (acts G) U) ->
         (inv_closed Ginv = true -> symmetric_on state (acts Ginv) U) ->
         forall A B : list state,
         (forall s : state, List.In s A -> U s) ->
         (forall s : state, List.In s B -> U s) ->
         forall (maxd : BinNums.N) (s : state) (p : list nat),
         find_path_between G Ginv A B maxd = Ok (Some (s, p)) ->
         List.In s A /\
         (exists b : state, List.In b B /\ run state (acts G) s p = Some b) /\
         dstar G A B (length p) /\ length p <= 2 * BinNat.N.to_nat maxd.
Proof. exact @between_sound. Qed.
Print Assumptions C05_between_sound.

(* set-to-set: a path is returned whenever the minimum is at most twice the depth limit (length 0 when the sets intersect) *)
Theorem C05_between_complete :
  forall (G Ginv : impl) (U : state -> Prop),
         closed state (acts G) U ->
         closed state (acts Ginv) U ->
         (forall a b : state, U a -> U b -> hashf G a = hashf G b -> a = b) ->
         (forall x : state, hashf Ginv x = hashf G x) ->
         length (acts Ginv) = length (acts G) ->
         (forall (i : nat) (g gi : state -> state) (x : state),
          List.nth_error (acts G) i = Some g ->
          List.nth_error (acts Ginv) i = Some gi -> U x -> g (gi x) = x /\ gi (g x) = x) ->
         (is_identity G = true -> forall a : state, U a -> unword G (hashf G a) = a) ->
         (is_identity Ginv = true -> forall a : state, U a -> unword Ginv (hashf Ginv a) = a) ->
         (inv_closed G = true -> symmetric_on state (acts G) U) ->
         (inv_closed Ginv = true -> symmetric_on state (acts Ginv) U) ->
         forall A B : list state,
         (forall s : state, List.In s A -> U s) ->
         (forall s : state, List.In s B -> U s) ->
         forall (maxd : BinNums.N) (d : nat),
         dstar G A B d ->
         d <= 2 * BinNat.N.to_nat maxd ->
         exists (s : state) (p : list nat), find_path_between G Ginv A B maxd = Ok (Some (s, p)).
Proof. exact @between_complete. Qed.
Print Assumptions C05_between_complete.

(* set-to-set: nothing otherwise *)
Theorem C05_between_none :
  forall (G Ginv : impl) (U : state -> Prop),
         closed state (acts G) U ->
         closed state (acts Ginv) U ->
         (forall a b : state, U a -> U b -> hashf G a = hashf G b -> a = b) ->
         (forall x : state, hashf Ginv x = hashf G x) ->
         length (acts Ginv) = length (acts G) ->
         (forall (i : nat) (g gi : state -> state) (x : state),
          List.nth_error (acts G) i = Some g ->
          List.nth_error (acts Ginv) i = Some gi -> U x -> g (gi x) = x /\ gi (g x) = x) ->
         (is_identity G = true -> forall a : state, U a -> unword G (hashf G a) = a) ->
         (is_identity Ginv = true -> forall a : state, U a -> unword Ginv (hashf Ginv a) = a) ->
         (inv_closed G = true -> symmetric_on state (acts G) U) ->
         (inv_closed Ginv = true -> symmetric_on state (acts Ginv) U) ->
         forall A B : list state,
         (forall s : state, List.In s A -> U s) ->
         (forall s : state, List.In s B -> U s) ->
         forall maxd : BinNums.N,
         (forall d : nat, dstar G A B d -> 2 * BinNat.N.to_nat maxd < d) ->
         find_path_between G Ginv A B maxd = Ok None.
Proof. exact @between_none. Qed.
Print Assumptions C05_between_none.

(* the step-by-step BFS computes the true layers from ANY start list (unsorted, duplicates, empty) *)
Theorem C05_ibfs_layers :
  forall (G : impl) (U : state -> Prop),
         closed state (acts G) U ->
         (forall a b : state, U a -> U b -> hashf G a = hashf G b -> a = b) ->
         (is_identity G = true -> forall a : state, U a -> unword G (hashf G a) = a) ->
         (inv_closed G = true -> symmetric_on state (acts G) U) ->
         forall starts : list state,
         (forall s : state, List.In s starts -> U s) ->
         forall k : nat,
         let b := ibfs_after G starts k in
         length (ihashes b) = S k /\
         List.NoDup (cur_layer b) /\
         set_eq (cur_layer b) (layer state st_eq_dec (acts G) starts k) /\
         (forall i : nat,
          i <= k ->
          Sorted.StronglySorted BinInt.Z.lt (List.nth i (ihashes b) nil) /\
          (forall h : BinNums.Z,
           List.In h (List.nth i (ihashes b) nil) <->
           (exists t : state, List.In t (layer state st_eq_dec (acts G) starts i) /\ hashf G t = h))) /\
         List.nth k (ihashes b) nil = List.map (hashf G) (cur_layer b).
Proof. exact @ibfs_layers. Qed.
Print Assumptions C05_ibfs_layers.

From V Require Import Base Tensor Graph GraphProofs GraphImpl Hash Def Paths BfsStep Bfs BfsRun BfsProofs PathsProofs Mitm MitmProofs PathRun MitmFind Interactive InteractiveBetween InstPerm InstSmall InstBfs InstPaths.

(* END TO END on env_of d: MITM returns a shortest path iff the distance is at most 2D; only NoColl and the layer-size bound remain *)
Theorem C05_perm_mitm_exact :
  forall (d : gdesc) (inv_mats : list (list (list BinNums.Z))) (e : path_env),
         wf_perm_desc d ->
         env_of d inv_mats = Some e ->
         NoCollOn (impl_of d) (Ustates d) ->
         forall c : state,
         Ustates d c ->
         (forall (q : state) (k : nat),
          BinInt.Z.lt
            (BinInt.Z.of_nat (length (layer state st_eq_dec (acts (pe_Ginv e)) (q :: nil) k)))
            (BinNums.Zpos
               (BinNums.xO
                  (BinNums.xO
                     (BinNums.xO
                        (BinNums.xO
                           (BinNums.xO
                              (BinNums.xO
                                 (BinNums.xO
                                    (BinNums.xO
                                       (BinNums.xO
                                          (BinNums.xO
                                             (BinNums.xO
                                                (BinNums.xO
                                                   (BinNums.xI
                                                      (BinNums.xO
                                                         (BinNums.xO
                                                            (BinNums.xO
                                                               (BinNums.xI
                                                                  (BinNums.xO
                                                                     (BinNums.xI
                                                                        (BinNums.xO
                                                                        (BinNums.xO
                                                                        (BinNums.xI
                                                                        (BinNums.xO
                                                                        (BinNums.xI
                                                                        (BinNums.xO
                                                                        (BinNums.xO
                                                                        (BinNums.xI
                                                                        (BinNums.xO
                                                                        (BinNums.xI
                                                                        (BinNums.xO
                                                                        (BinNums.xI
                                                                        (BinNums.xI
                                                                        (BinNums.xO
                                                                        (BinNums.xO
                                                                        (BinNums.xO
                                                                        (BinNums.xI
                                                                        (BinNums.xO
                                                                        (BinNums.xI
                                                                        (BinNums.xI BinNums.xH))))))))))))))))))))))))))))))))))))))))) ->
         forall (lh : list (list BinNums.Z)) (ns : nat) (q : state) (k : nat),
         ball_ok (pe_G e) c lh ->
         length lh = ns ->
         1 <= ns ->
         Ustates d q ->
         dist_is state (acts (pe_G e)) (c :: nil) q k ->
         k <= 2 * (ns - 1) ->
         exists p : list nat,
           mitm_find_path_to (pe_G e) (pe_Ginv e) lh ns (hashf (pe_G e) c) q = Ok (Some p) /\
           length p = k /\ run state (acts (pe_G e)) c p = Some q.
Proof. exact @mitm_to_perm_exact. Qed.
Print Assumptions C05_perm_mitm_exact.

(* single-word identity hash: no hash hypothesis *)
Theorem C05_perm_mitm_exact_unconditional :
  forall (d : gdesc) (inv_mats : list (list (list BinNums.Z))) (e : path_env),
         wf_perm_desc d ->
         env_of d inv_mats = Some e ->
         g_hasher d = HIdentity ->
         single_word d ->
         forall c : state,
         Ustates d c ->
         (forall (q : state) (k : nat),
          BinInt.Z.lt
            (BinInt.Z.of_nat (length (layer state st_eq_dec (acts (pe_Ginv e)) (q :: nil) k)))
            (BinNums.Zpos
               (BinNums.xO
                  (BinNums.xO
                     (BinNums.xO
                        (BinNums.xO
                           (BinNums.xO
                              (BinNums.xO
                                 (BinNums.xO
                                    (BinNums.xO
                                       (BinNums.xO
                                          (BinNums.xO
                                             (BinNums.xO
                                                (BinNums.xO
                                                   (BinNums.xI
                                                      (BinNums.xO
                                                         (BinNums.xO
                                                            (BinNums.xO
                                                               (BinNums.xI
                                                                  (BinNums.xO
                                                                     (BinNums.xI
                                                                        (BinNums.xO
                                                                        (BinNums.xO
                                                                        (BinNums.xI
                                                                        (BinNums.xO
                                                                        (BinNums.xI
                                                                        (BinNums.xO
                                                                        (BinNums.xO
                                                                        (BinNums.xI
                                                                        (BinNums.xO
                                                                        (BinNums.xI
                                                                        (BinNums.xO
                                                                        (BinNums.xI
                                                                        (BinNums.xI
                                                                        (BinNums.xO
                                                                        (BinNums.xO
                                                                        (BinNums.xO
                                                                        (BinNums.xI
                                                                        (BinNums.xO
                                                                        (BinNums.xI
                                                                        (BinNums.xI BinNums.xH))))))))))))))))))))))))))))))))))))))))) ->
         forall (lh : list (list BinNums.Z)) (ns : nat) (q : state) (k : nat),
         ball_ok (pe_G e) c lh ->
         length lh = ns ->
         1 <= ns ->
         Ustates d q ->
         dist_is state (acts (pe_G e)) (c :: nil) q k ->
         k <= 2 * (ns - 1) ->
         exists p : list nat,
           mitm_find_path_to (pe_G e) (pe_Ginv e) lh ns (hashf (pe_G e) c) q = Ok (Some p) /\
           length p = k /\ run state (acts (pe_G e)) c p = Some q.
Proof. exact @mitm_to_perm_exact_unconditional. Qed.
Print Assumptions C05_perm_mitm_exact_unconditional.

(* set-to-set search, single-word identity hash *)
Theorem C05_perm_between_sound_unconditional :
  forall (d : gdesc) (inv_mats : list (list (list BinNums.Z))) (e : path_env),
         wf_perm_desc d ->
         env_of d inv_mats = Some e ->
         g_hasher d = HIdentity ->
         single_word d ->
         forall A B : list state,
         (forall s : state, List.In s A -> Ustates d s) ->
         (forall s : state, List.In s B -> Ustates d s) ->
         forall (maxd : BinNums.N) (s : state) (p : list nat),
         find_path_between (pe_G e) (pe_Ginv e) A B maxd = Ok (Some (s, p)) ->
         List.In s A /\
         (exists b : state, List.In b B /\ run state (acts (pe_G e)) s p = Some b) /\
         dstar (pe_G e) A B (length p) /\ length p <= 2 * BinNat.N.to_nat maxd.
Proof. exact @between_perm_sound_unconditional. Qed.
Print Assumptions C05_perm_between_sound_unconditional.

(* set-to-set search finds a globally minimal pair *)
Theorem C05_perm_between_complete_unconditional :
  forall (d : gdesc) (inv_mats : list (list (list BinNums.Z))) (e : path_env),
         wf_perm_desc d ->
         env_of d inv_mats = Some e ->
         g_hasher d = HIdentity ->
         single_word d ->
         forall A B : list state,
         (forall s : state, List.In s A -> Ustates d s) ->
         (forall s : state, List.In s B -> Ustates d s) ->
         forall (maxd : BinNums.N) (k : nat),
         dstar (pe_G e) A B k ->
         k <= 2 * BinNat.N.to_nat maxd ->
         exists (s : state) (p : list nat),
           find_path_between (pe_G e) (pe_Ginv e) A B maxd = Ok (Some (s, p)).
Proof. exact @between_perm_complete_unconditional. Qed.
Print Assumptions C05_perm_between_complete_unconditional.

(* and returns nothing only beyond twice the depth limit *)
Theorem C05_perm_between_none_unconditional :
  forall (d : gdesc) (inv_mats : list (list (list BinNums.Z))) (e : path_env),
         wf_perm_desc d ->
         env_of d inv_mats = Some e ->
         g_hasher d = HIdentity ->
         single_word d ->
         forall A B : list state,
         (forall s : state, List.In s A -> Ustates d s) ->
         (forall s : state, List.In s B -> Ustates d s) ->
         forall maxd : BinNums.N,
         (forall k : nat, dstar (pe_G e) A B k -> 2 * BinNat.N.to_nat maxd < k) ->
         find_path_between (pe_G e) (pe_Ginv e) A B maxd = Ok None.
Proof. exact @between_perm_none_unconditional. Qed.
Print Assumptions C05_perm_between_none_unconditional.
