(** C15 - Library graph families. Only statements; every proof is [exact] of a lemma proved elsewhere.

    Part 1 (general in n, no bound): for the index-list families the constructor succeeds inside its
    documented range, returns the documented NUMBER of generators, every generator is a permutation of
    length n, and its ACTION on an arbitrary sequence x of length n (library convention
    new[j] = old[p[j]], [apply_perm]) is the documented one.
    Part 2 (all families, bounded, exhaustive, bound in the statement): [family_ok] by [vm_compute]. *)
From Coq Require Import ZArith List Arith.
From V Require Import Base Perm PermProofs Def Families FamiliesRun FamiliesOk FamiliesProofs FamiliesBounded
                      FamiliesBoundedMatrix.
Import ListNotations.
Open Scope nat_scope.

(* ------------------------------------------------------------------------------------------------ *)
(* lrx(n, k), n >= 3, 1 <= k < n: L, R, X = shift left, shift right, swap of elements 0 and k *)
Theorem C15_lrx : forall n k, 3 <= n -> 1 <= k < n ->
  exists d, lrx (Z.of_nat n) (Z.of_nat k) = Ok d /\ length (p_gens d) = 3 /\ Forall (PermN n) (p_gens d) /\
    forall (A : Type) (dflt : A) (x : list A), length x = n ->
      map (fun p => apply_perm dflt p x) (p_gens d) = [shift_left x; shift_right x; swap_at dflt x 0 k].
Proof. exact lrx_documented. Qed.
Print Assumptions C15_lrx.

(* lx(n), n >= 3: left shift and swap of the first two elements; documented as NOT inverse-closed *)
Theorem C15_lx : forall n, 3 <= n ->
  exists d, lx (Z.of_nat n) = Ok d /\ length (p_gens d) = 2 /\ Forall (PermN n) (p_gens d) /\
    (forall (A : Type) (dflt : A) (x : list A), length x = n ->
      map (fun p => apply_perm dflt p x) (p_gens d) = [shift_left x; swap_at dflt x 0 1]) /\
    is_some (perm_inverse_map (p_gens d)) = false.
Proof. exact lx_documented. Qed.
Print Assumptions C15_lx.

(* top_spin(n, k), n >= k >= 2: shift left, shift right, reversal of the first k elements *)
Theorem C15_top_spin : forall n k, 2 <= k <= n ->
  exists d, top_spin (Z.of_nat n) (Z.of_nat k) = Ok d /\ length (p_gens d) = 3 /\ Forall (PermN n) (p_gens d) /\
    forall (A : Type) (dflt : A) (x : list A), length x = n ->
      map (fun p => apply_perm dflt p x) (p_gens d) = [shift_left x; shift_right x; rev_prefix k x].
Proof. exact top_spin_documented. Qed.
Print Assumptions C15_top_spin.

(* pancake(n), n >= 2: n-1 generators R1..R(n-1); Ri reverses the elements 0..i *)
Theorem C15_pancake : forall n, 2 <= n ->
  exists d, pancake (Z.of_nat n) = Ok d /\ length (p_gens d) = n - 1 /\ length (p_names d) = n - 1 /\
    Forall (PermN n) (p_gens d) /\
    forall (A : Type) (dflt : A) (x : list A) i, length x = n -> 1 <= i <= n - 1 ->
      apply_perm dflt (nth (i - 1) (p_gens d) []) x = rev (firstn (i + 1) x) ++ skipn (i + 1) x.
Proof. exact pancake_documented. Qed.
Print Assumptions C15_pancake.

(* coxeter(n), n >= 2: n-1 generators (0,1), (1,2), ..., (n-2,n-1) *)
Theorem C15_coxeter : forall n, 2 <= n ->
  exists d, coxeter (Z.of_nat n) = Ok d /\ length (p_gens d) = n - 1 /\ length (p_names d) = n - 1 /\
    Forall (PermN n) (p_gens d) /\
    forall (A : Type) (dflt : A) (x : list A) i, length x = n -> i < n - 1 ->
      apply_perm dflt (nth i (p_gens d) []) x = swap_at dflt x i (i + 1).
Proof. exact coxeter_documented. Qed.
Print Assumptions C15_coxeter.

(* cyclic_coxeter(n), n >= 2: n generators (0,1), ..., (n-2,n-1), (0,n-1) *)
Theorem C15_cyclic_coxeter : forall n, 2 <= n ->
  exists d, cyclic_coxeter (Z.of_nat n) = Ok d /\ length (p_gens d) = n /\ length (p_names d) = n /\
    Forall (PermN n) (p_gens d) /\
    forall (A : Type) (dflt : A) (x : list A), length x = n ->
      (forall i, i < n - 1 -> apply_perm dflt (nth i (p_gens d) []) x = swap_at dflt x i (i + 1)) /\
      apply_perm dflt (nth (n - 1) (p_gens d) []) x = swap_at dflt x 0 (n - 1).
Proof. exact cyclic_coxeter_documented. Qed.
Print Assumptions C15_cyclic_coxeter.

(* stars(n), n >= 3: the n-1 transpositions (0 i) *)
Theorem C15_stars : forall n, 3 <= n ->
  exists d, stars (Z.of_nat n) = Ok d /\ length (p_gens d) = n - 1 /\ length (p_names d) = n - 1 /\
    Forall (PermN n) (p_gens d) /\
    forall (A : Type) (dflt : A) (x : list A) i, length x = n -> 1 <= i <= n - 1 ->
      apply_perm dflt (nth (i - 1) (p_gens d) []) x = swap_at dflt x 0 i.
Proof. exact stars_documented. Qed.
Print Assumptions C15_stars.

(* all_transpositions(n), n >= 2: exactly the n(n-1)/2 transpositions *)
Theorem C15_all_transpositions : forall n, 2 <= n ->
  exists d, all_transpositions (Z.of_nat n) = Ok d /\ 2 * length (p_gens d) = n * (n - 1) /\
    length (p_names d) = length (p_gens d) /\ Forall (PermN n) (p_gens d) /\
    (forall p, In p (p_gens d) <-> exists i j, i < j < n /\ p = transp n i j) /\
    forall (A : Type) (dflt : A) (x : list A) i j, length x = n -> i < j < n ->
      apply_perm dflt (transp n i j) x = swap_at dflt x i j.
Proof. exact all_transpositions_documented. Qed.
Print Assumptions C15_all_transpositions.

(* full_reversals(n), n >= 2: exactly the n(n-1)/2 reversals of a substring x[i..j] *)
Theorem C15_full_reversals : forall n, 2 <= n ->
  exists d, full_reversals (Z.of_nat n) = Ok d /\ 2 * length (p_gens d) = n * (n - 1) /\
    length (p_names d) = length (p_gens d) /\ Forall (PermN n) (p_gens d) /\
    (forall p, In p (p_gens d) <-> exists i j, i < j < n /\ p = gen_rev_segment n i j) /\
    forall (A : Type) (dflt : A) (x : list A) i j, length x = n -> i < j < n ->
      apply_perm dflt (gen_rev_segment n i j) x
      = firstn i x ++ rev (firstn (j + 1 - i) (skipn i x)) ++ skipn (j + 1) x.
Proof. exact full_reversals_documented. Qed.
Print Assumptions C15_full_reversals.

(* down_cycles(n), n >= 2: exactly the n(n-1)/2 cycles (i, i+1, ..., j); each rotates x[i..j] by one *)
Theorem C15_down_cycles : forall n, 2 <= n ->
  exists d, down_cycles (Z.of_nat n) = Ok d /\ 2 * length (p_gens d) = n * (n - 1) /\
    length (p_names d) = length (p_gens d) /\ Forall (PermN n) (p_gens d) /\
    (forall p, In p (p_gens d) <-> exists i j, i < j < n /\ p = gen_cycle n i j) /\
    forall (A : Type) (dflt : A) (x : list A) i j, length x = n -> i < j < n ->
      apply_perm dflt (gen_cycle n i j) x
      = firstn i x ++ firstn (j - i) (skipn (i + 1) x) ++ firstn 1 (skipn i x) ++ skipn (j + 1) x.
Proof. exact down_cycles_documented. Qed.
Print Assumptions C15_down_cycles.

(* prefix_cycles(n), n >= 2: the n-1 cycles (0 1 ... j-1), j = 2..n *)
Theorem C15_prefix_cycles : forall n, 2 <= n ->
  exists d, prefix_cycles (Z.of_nat n) = Ok d /\ length (p_gens d) = n - 1 /\ length (p_names d) = n - 1 /\
    Forall (PermN n) (p_gens d) /\
    forall (A : Type) (dflt : A) (x : list A) j, length x = n -> 2 <= j <= n ->
      nth (j - 2) (p_gens d) [] = gen_cycle n 0 (j - 1) /\
      apply_perm dflt (nth (j - 2) (p_gens d) []) x = rot_segment 0 (j - 1) x.
Proof. exact prefix_cycles_documented. Qed.
Print Assumptions C15_prefix_cycles.

(* consecutive_k_cycles(n, k), 1 <= k <= n: the n-k+1 cycles (i, i+1, ..., i+k-1), i = 0..n-k *)
Theorem C15_consecutive_k_cycles : forall n k, 1 <= k <= n ->
  exists d, consecutive_k_cycles (Z.of_nat n) (Z.of_nat k) = Ok d /\
    length (p_gens d) = n - k + 1 /\ length (p_names d) = n - k + 1 /\ Forall (PermN n) (p_gens d) /\
    forall (A : Type) (dflt : A) (x : list A) i, length x = n -> i <= n - k ->
      nth i (p_gens d) [] = gen_cycle n i (i + k - 1) /\
      apply_perm dflt (nth i (p_gens d) []) x = rot_segment i (i + k - 1) x.
Proof. exact consecutive_k_cycles_documented. Qed.
Print Assumptions C15_consecutive_k_cycles.

(* the permutation written gen_cycle n i j IS the cycle (i, i+1, ..., j): t -> t+1 for i <= t < j, j -> i *)
Theorem C15_gen_cycle_is_the_cycle : forall n i j x, i <= j -> j < n -> x < n ->
  nth x (gen_cycle n i j) 0 = if x <? i then x else if x <? j then x + 1 else if x =? j then i else x.
Proof. exact gen_cycle_is_the_cycle. Qed.
Print Assumptions C15_gen_cycle_is_the_cycle.

(* ------------------------------------------------------------------------------------------------ *)
(* what the boolean acceptance check means *)
Theorem C15_family_ok_meaning : forall c, pcall_ok c = true ->
  match run_pcall c with
  | Err _ => pexpect c = None
  | Ok d => exists size count closed, pexpect c = Some (size, count, closed) /\
      Forall (fun p => Perm p /\ length p = size) (p_gens d) /\
      length (p_gens d) = count /\ length (p_names d) = count /\
      p_central d = zrange 0 (Z.of_nat size) /\
      (closed = true <-> forall p, In p (p_gens d) -> In (inverse_perm p) (p_gens d))
  end.
Proof. exact pcall_ok_sound. Qed.
Print Assumptions C15_family_ok_meaning.

(* ALL deterministic permutation families, every parameter tuple with n in -1..bound (bound per family):
   the constructor raises exactly outside its range; inside, every generator is a permutation of the
   documented size, the count is the documented formula, the inverse-closed flag is the documented one *)
Theorem C15_perm_families_ok_bounded :
  pfamilies_ok
    [(FAllTranspositions, 12); (FTransposons, 10); (FBlockInterchange, 9); (FFullReversals, 12);
     (FSignedReversals, 9); (FLrx, 12); (FLx, 16); (FTopSpin, 12); (FCoxeter, 16); (FCyclicCoxeter, 16);
     (FPancake, 16); (FCubicPancake, 12); (FBurntPancake, 12); (FThreeCycles, 9); (FThreeCycles0ij, 10);
     (FThreeCycles01i, 16); (FDerangements, 7); (FInvolutiveDerangements, 10); (FStars, 16);
     (FGeneralizedStars, 10); (FRapaportM1, 16); (FRapaportM2, 16); (FAllCycles, 7); (FLslCycles, 16);
     (FWrappedKCycles, 10); (FLarx, 16); (FIncreasingKCycles, 9); (FSheveleva2, 12); (FKoltsov3, 8);
     (FConsecutiveKCycles, 10); (FDownCycles, 12); (FPrefixCycles, 16)]%Z = true.
Proof. exact perm_families_ok_bounded. Qed.
Print Assumptions C15_perm_families_ok_bounded.

(* conjugacy_classes(n, {lens: None}) is exactly the conjugacy class, for every partition of every m <= n <= 7 *)
Theorem C15_conjugacy_classes_ok_upto_7 : conj_ok_upto 7 = true.
Proof. exact conjugacy_classes_ok_upto_7. Qed.
Print Assumptions C15_conjugacy_classes_ok_upto_7.

(* matrix families: n in -1..bound, modulo in test_moduli (valid and invalid), add_inverses both *)
Theorem C15_matrix_families_ok_bounded :
  mfamilies_ok [(FHeisenberg, 5); (FSlFundRoots, 4); (FSlRootWeyl, 5)]%Z = true.
Proof. exact matrix_families_ok_bounded. Qed.
Print Assumptions C15_matrix_families_ok_bounded.

From V Require Import Base Perm PermProofs Matrix Def Families FamiliesOk FamiliesProofs FamiliesProofs2 FamiliesProofs3 FamiliesProofs4 FamiliesProofs5 FamiliesProofsMatrix.

(* burnt_pancake: GENERAL in all parameters of the documented range - generators (closed form), count, names, name, central state, documented action on sequences / matrix structure, inverse-closed flag as documented *)
Theorem C15_burnt_pancake_documented :
  forall n : nat,
         1 <= n ->
         exists d : pdef,
           burnt_pancake (BinInt.Z.of_nat n) = Ok d /\
           p_gens d = List.map (gen_burnt n) (List.seq 1 n) /\
           p_names d =
           List.map
             (fun k : nat =>
              cat
                (String.String (Ascii.Ascii false true false false true false true false)
                   String.EmptyString :: zs (BinInt.Z.of_nat k) :: nil)) 
             (List.seq 1 n) /\
           p_name d =
           cat
             (String.String (Ascii.Ascii false true false false false true true false)
                (String.String (Ascii.Ascii true false true false true true true false)
                   (String.String (Ascii.Ascii false true false false true true true false)
                      (String.String (Ascii.Ascii false true true true false true true false)
                         (String.String (Ascii.Ascii false false true false true true true false)
                            (String.String (Ascii.Ascii true true true true true false true false)
                               (String.String
                                  (Ascii.Ascii false false false false true true true false)
                                  (String.String
                                     (Ascii.Ascii true false false false false true true false)
                                     (String.String
                                        (Ascii.Ascii false true true true false true true false)
                                        (String.String
                                           (Ascii.Ascii true true false false false true true false)
                                           (String.String
                                              (Ascii.Ascii true false false false false true true
                                                 false)
                                              (String.String
                                                 (Ascii.Ascii true true false true false true true
                                                    false)
                                                 (String.String
                                                    (Ascii.Ascii true false true false false true
                                                       true false)
                                                    (String.String
                                                       (Ascii.Ascii true false true true false true
                                                          false false) String.EmptyString)))))))))))))
              :: zs (BinInt.Z.of_nat n) :: nil) /\
           p_central d = of_nats (List.seq 0 (2 * n)) /\
           length (p_gens d) = n /\
           List.Forall (PermN (2 * n)) (p_gens d) /\
           (forall (A : Type) (dflt : A) (x : list A) (k : nat),
            length x = 2 * n ->
            1 <= k <= n ->
            apply_perm dflt (List.nth (k - 1) (p_gens d) nil) x =
            List.rev (List.firstn k (List.skipn n x)) ++
            List.firstn (n - k) (List.skipn k x) ++
            List.rev (List.firstn k x) ++ List.skipn (n + k) x) /\ closed_flag (p_gens d) = true.
Proof. exact @burnt_pancake_documented. Qed.
Print Assumptions C15_burnt_pancake_documented.

(* burnt_pancake: the constructor succeeds EXACTLY on the documented parameter range (and which error otherwise) *)
Theorem C15_burnt_pancake_range :
  forall z : BinNums.Z,
         ((exists d : pdef, burnt_pancake z = Ok d) <-> BinInt.Z.le (BinNums.Zpos BinNums.xH) z) /\
         (BinInt.Z.lt z (BinNums.Zpos BinNums.xH) -> burnt_pancake z = Err AssertionErr).
Proof. exact @burnt_pancake_range. Qed.
Print Assumptions C15_burnt_pancake_range.

(* cubic_pancake: GENERAL in all parameters of the documented range - generators (closed form), count, names, name, central state, documented action on sequences / matrix structure, inverse-closed flag as documented *)
Theorem C15_cubic_pancake_documented :
  forall n s : nat,
         cubic_range (BinInt.Z.of_nat n) (BinInt.Z.of_nat s) ->
         exists d : pdef,
           cubic_pancake (BinInt.Z.of_nat n) (BinInt.Z.of_nat s) = Ok d /\
           p_gens d = List.map (gen_rev_prefix n) (cubic_ks n s) /\
           p_names d =
           List.map
             (fun k : nat =>
              cat
                (String.String (Ascii.Ascii false true false false true false true false)
                   String.EmptyString :: zs (BinInt.Z.of_nat k) :: nil)) 
             (cubic_ks n s) /\
           p_name d =
           cat
             (String.String (Ascii.Ascii true true false false false true true false)
                (String.String (Ascii.Ascii true false true false true true true false)
                   (String.String (Ascii.Ascii false true false false false true true false)
                      (String.String (Ascii.Ascii true false false true false true true false)
                         (String.String (Ascii.Ascii true true false false false true true false)
                            (String.String (Ascii.Ascii true true true true true false true false)
                               (String.String
                                  (Ascii.Ascii false false false false true true true false)
                                  (String.String
                                     (Ascii.Ascii true false false false false true true false)
                                     (String.String
                                        (Ascii.Ascii false true true true false true true false)
                                        (String.String
                                           (Ascii.Ascii true true false false false true true false)
                                           (String.String
                                              (Ascii.Ascii true false false false false true true
                                                 false)
                                              (String.String
                                                 (Ascii.Ascii true true false true false true true
                                                    false)
                                                 (String.String
                                                    (Ascii.Ascii true false true false false true
                                                       true false)
                                                    (String.String
                                                       (Ascii.Ascii true false true true false true
                                                          false false) String.EmptyString)))))))))))))
              :: zs (BinInt.Z.of_nat n)
                 :: String.String (Ascii.Ascii true false true true false true false false)
                      String.EmptyString :: zs (BinInt.Z.of_nat s) :: nil) /\
           p_central d = of_nats (List.seq 0 n) /\
           length (p_gens d) = 3 /\
           List.Forall (PermN n) (p_gens d) /\
           (forall (A : Type) (dflt : A) (x : list A) (i : nat),
            length x = n ->
            i < 3 ->
            List.nth i (cubic_ks n s) 0 <= n /\
            apply_perm dflt (List.nth i (p_gens d) nil) x =
            List.rev (List.firstn (List.nth i (cubic_ks n s) 0) x) ++
            List.skipn (List.nth i (cubic_ks n s) 0) x) /\ closed_flag (p_gens d) = true.
Proof. exact @cubic_pancake_documented. Qed.
Print Assumptions C15_cubic_pancake_documented.

(* cubic_pancake: the constructor succeeds EXACTLY on the documented parameter range (and which error otherwise) *)
Theorem C15_cubic_pancake_range :
  forall n s : BinNums.Z,
         ((exists d : pdef, cubic_pancake n s = Ok d) <-> cubic_range n s) /\
         (~ cubic_range n s -> cubic_pancake n s = Err AssertionErr).
Proof. exact @cubic_pancake_range. Qed.
Print Assumptions C15_cubic_pancake_range.

(* generalized_stars: GENERAL in all parameters of the documented range - generators (closed form), count, names, name, central state, documented action on sequences / matrix structure, inverse-closed flag as documented *)
Theorem C15_generalized_stars_documented :
  forall n k : nat,
         3 <= n ->
         1 <= k < n ->
         exists d : pdef,
           generalized_stars (BinInt.Z.of_nat n) (BinInt.Z.of_nat k) = Ok d /\
           p_name d =
           cat
             (String.String (Ascii.Ascii true true true false false true true false)
                (String.String (Ascii.Ascii true false true false false true true false)
                   (String.String (Ascii.Ascii false true true true false true true false)
                      (String.String (Ascii.Ascii true false true false false true true false)
                         (String.String (Ascii.Ascii false true false false true true true false)
                            (String.String (Ascii.Ascii true false false false false true true false)
                               (String.String
                                  (Ascii.Ascii false false true true false true true false)
                                  (String.String
                                     (Ascii.Ascii true false false true false true true false)
                                     (String.String
                                        (Ascii.Ascii false true false true true true true false)
                                        (String.String
                                           (Ascii.Ascii true false true false false true true false)
                                           (String.String
                                              (Ascii.Ascii false false true false false true true
                                                 false)
                                              (String.String
                                                 (Ascii.Ascii true false true true false true false
                                                    false)
                                                 (String.String
                                                    (Ascii.Ascii true true false false true true true
                                                       false)
                                                    (String.String
                                                       (Ascii.Ascii false false true false true true
                                                          true false)
                                                       (String.String
                                                          (Ascii.Ascii true false false false false
                                                             true true false)
                                                          (String.String
                                                             (Ascii.Ascii false true false false true
                                                                true true false)
                                                             (String.String
                                                                (Ascii.Ascii true true false false
                                                                   true true true false)
                                                                (String.String
                                                                   (Ascii.Ascii true false true true
                                                                      false true false false)
                                                                   String.EmptyString)))))))))))))))))
              :: zs (BinInt.Z.of_nat n)
                 :: String.String (Ascii.Ascii true false true true false true false false)
                      String.EmptyString :: zs (BinInt.Z.of_nat k) :: nil) /\
           p_central d = of_nats (List.seq 0 n) /\
           length (p_gens d) = k * (n - k) /\
           length (p_names d) = k * (n - k) /\
           List.Forall (PermN n) (p_gens d) /\
           (forall p : list nat,
            List.In p (p_gens d) <-> (exists i j : nat, i < k /\ k <= j < n /\ p = transp n i j)) /\
           (forall i j : nat,
            i < k ->
            k <= j < n ->
            List.nth (i * (n - k) + (j - k)) (p_gens d) nil = transp n i j /\
            List.nth (i * (n - k) + (j - k)) (p_names d) String.EmptyString =
            cat
              (String.String (Ascii.Ascii true true false false true false true false)
                 String.EmptyString
               :: zs (BinInt.Z.of_nat i)
                  :: String.String (Ascii.Ascii true false true true false true false false)
                       String.EmptyString :: zs (BinInt.Z.of_nat j) :: nil) /\
            (forall (A : Type) (dflt : A) (x : list A),
             length x = n -> apply_perm dflt (transp n i j) x = swap_at dflt x i j)) /\
           closed_flag (p_gens d) = true.
Proof. exact @generalized_stars_documented. Qed.
Print Assumptions C15_generalized_stars_documented.

(* generalized_stars: the constructor succeeds EXACTLY on the documented parameter range (and which error otherwise) *)
Theorem C15_generalized_stars_range :
  forall n k : BinNums.Z,
         ((exists d : pdef, generalized_stars n k = Ok d) <->
          BinInt.Z.le (BinNums.Zpos (BinNums.xI BinNums.xH)) n /\
          BinInt.Z.le (BinNums.Zpos BinNums.xH) k /\ BinInt.Z.lt k n) /\
         (~
          (BinInt.Z.le (BinNums.Zpos (BinNums.xI BinNums.xH)) n /\
           BinInt.Z.le (BinNums.Zpos BinNums.xH) k /\ BinInt.Z.lt k n) ->
          generalized_stars n k = Err AssertionErr).
Proof. exact @generalized_stars_range. Qed.
Print Assumptions C15_generalized_stars_range.

(* three_cycles_01i: GENERAL in all parameters of the documented range - generators (closed form), count, names, name, central state, documented action on sequences / matrix structure, inverse-closed flag as documented *)
Theorem C15_three_cycles_01i_documented :
  forall (n : nat) (b : bool),
         3 <= n ->
         exists d : pdef,
           three_cycles_01i (BinInt.Z.of_nat n) b = Ok d /\
           p_gens d = tc01_gens n b /\
           p_names d = tc01_names n b /\
           p_name d =
           (if b
            then
             cat
               (cat
                  (String.String (Ascii.Ascii false false true false true true true false)
                     (String.String (Ascii.Ascii false false false true false true true false)
                        (String.String (Ascii.Ascii false true false false true true true false)
                           (String.String (Ascii.Ascii true false true false false true true false)
                              (String.String
                                 (Ascii.Ascii true false true false false true true false)
                                 (String.String
                                    (Ascii.Ascii true true true true true false true false)
                                    (String.String
                                       (Ascii.Ascii true true false false false true true false)
                                       (String.String
                                          (Ascii.Ascii true false false true true true true false)
                                          (String.String
                                             (Ascii.Ascii true true false false false true true false)
                                             (String.String
                                                (Ascii.Ascii false false true true false true true
                                                   false)
                                                (String.String
                                                   (Ascii.Ascii true false true false false true true
                                                      false)
                                                   (String.String
                                                      (Ascii.Ascii true true false false true true
                                                         true false)
                                                      (String.String
                                                         (Ascii.Ascii true true true true true false
                                                            true false)
                                                         (String.String
                                                            (Ascii.Ascii false false false false true
                                                               true false false)
                                                            (String.String
                                                               (Ascii.Ascii true false false false
                                                                  true true false false)
                                                               (String.String
                                                                  (Ascii.Ascii true false false true
                                                                     false true true false)
                                                                  (String.String
                                                                     (Ascii.Ascii true false true
                                                                        true false true false false)
                                                                     String.EmptyString))))))))))))))))
                   :: zs (BinInt.Z.of_nat n) :: nil)
                :: String.String (Ascii.Ascii true false true true false true false false)
                     (String.String (Ascii.Ascii true false false true false true true false)
                        (String.String (Ascii.Ascii true true false false false true true false)
                           String.EmptyString)) :: nil)
            else
             cat
               (String.String (Ascii.Ascii false false true false true true true false)
                  (String.String (Ascii.Ascii false false false true false true true false)
                     (String.String (Ascii.Ascii false true false false true true true false)
                        (String.String (Ascii.Ascii true false true false false true true false)
                           (String.String (Ascii.Ascii true false true false false true true false)
                              (String.String (Ascii.Ascii true true true true true false true false)
                                 (String.String
                                    (Ascii.Ascii true true false false false true true false)
                                    (String.String
                                       (Ascii.Ascii true false false true true true true false)
                                       (String.String
                                          (Ascii.Ascii true true false false false true true false)
                                          (String.String
                                             (Ascii.Ascii false false true true false true true false)
                                             (String.String
                                                (Ascii.Ascii true false true false false true true
                                                   false)
                                                (String.String
                                                   (Ascii.Ascii true true false false true true true
                                                      false)
                                                   (String.String
                                                      (Ascii.Ascii true true true true true false
                                                         true false)
                                                      (String.String
                                                         (Ascii.Ascii false false false false true
                                                            true false false)
                                                         (String.String
                                                            (Ascii.Ascii true false false false true
                                                               true false false)
                                                            (String.String
                                                               (Ascii.Ascii true false false true
                                                                  false true true false)
                                                               (String.String
                                                                  (Ascii.Ascii true false true true
                                                                     false true false false)
                                                                  String.EmptyString))))))))))))))))
                :: zs (BinInt.Z.of_nat n) :: nil)) /\
           p_central d = of_nats (List.seq 0 n) /\
           length (p_gens d) = (if b then 2 else 1) * (n - 2) /\
           length (p_names d) = length (p_gens d) /\
           List.Forall (PermN n) (p_gens d) /\
           (forall i : nat,
            2 <= i < n ->
            (if b
             then
              List.nth (2 * (i - 2)) (p_gens d) nil = cyc3 n 0 1 i /\
              List.nth (2 * (i - 2) + 1) (p_gens d) nil = cyc3 n 1 0 i /\
              List.nth (2 * (i - 2)) (p_names d) String.EmptyString =
              cat
                (String.String (Ascii.Ascii false false false true false true false false)
                   (String.String (Ascii.Ascii false false false false true true false false)
                      (String.String (Ascii.Ascii false false false false false true false false)
                         (String.String (Ascii.Ascii true false false false true true false false)
                            (String.String
                               (Ascii.Ascii false false false false false true false false)
                               String.EmptyString))))
                 :: zs (BinInt.Z.of_nat i)
                    :: String.String (Ascii.Ascii true false false true false true false false)
                         String.EmptyString :: nil) /\
              List.nth (2 * (i - 2) + 1) (p_names d) String.EmptyString =
              cat
                (String.String (Ascii.Ascii false false false true false true false false)
                   (String.String (Ascii.Ascii true false false false true true false false)
                      (String.String (Ascii.Ascii false false false false false true false false)
                         (String.String (Ascii.Ascii false false false false true true false false)
                            (String.String
                               (Ascii.Ascii false false false false false true false false)
                               String.EmptyString))))
                 :: zs (BinInt.Z.of_nat i)
                    :: String.String (Ascii.Ascii true false false true false true false false)
                         String.EmptyString :: nil)
             else
              List.nth (i - 2) (p_gens d) nil = cyc3 n 0 1 i /\
              List.nth (i - 2) (p_names d) String.EmptyString =
              cat
                (String.String (Ascii.Ascii false false false true false true false false)
                   (String.String (Ascii.Ascii false false false false true true false false)
                      (String.String (Ascii.Ascii false false false false false true false false)
                         (String.String (Ascii.Ascii true false false false true true false false)
                            (String.String
                               (Ascii.Ascii false false false false false true false false)
                               String.EmptyString))))
                 :: zs (BinInt.Z.of_nat i)
                    :: String.String (Ascii.Ascii true false false true false true false false)
                         String.EmptyString :: nil)) /\
            inverse_perm (cyc3 n 0 1 i) = cyc3 n 1 0 i /\
            (forall (A : Type) (dflt : A) (x : list A),
             length x = n ->
             apply_perm dflt (cyc3 n 0 1 i) x = cycle3_at dflt x 0 1 i /\
             apply_perm dflt (cyc3 n 1 0 i) x = cycle3_at dflt x 1 0 i)) /\
           closed_flag (p_gens d) = b.
Proof. exact @three_cycles_01i_documented. Qed.
Print Assumptions C15_three_cycles_01i_documented.

(* three_cycles_01i: the constructor succeeds EXACTLY on the documented parameter range (and which error otherwise) *)
Theorem C15_three_cycles_01i_range :
  forall (n : BinNums.Z) (b : bool),
         ((exists d : pdef, three_cycles_01i n b = Ok d) <->
          BinInt.Z.le (BinNums.Zpos (BinNums.xI BinNums.xH)) n) /\
         (~ BinInt.Z.le (BinNums.Zpos (BinNums.xI BinNums.xH)) n ->
          three_cycles_01i n b = Err AssertionErr).
Proof. exact @three_cycles_01i_range. Qed.
Print Assumptions C15_three_cycles_01i_range.

(* larx: GENERAL in all parameters of the documented range - generators (closed form), count, names, name, central state, documented action on sequences / matrix structure, inverse-closed flag as documented *)
Theorem C15_larx_documented :
  forall n : nat,
         2 <= n ->
         exists d : pdef,
           larx (BinInt.Z.of_nat n) = Ok d /\
           p_gens d = transp n 0 1 :: gen_cycle n 1 (n - 1) :: nil /\
           p_names d =
           List.map
             (fun p : list nat =>
              cat
                (String.String (Ascii.Ascii false false false true false true false false)
                   String.EmptyString
                 :: join
                      (String.String (Ascii.Ascii false false false false false true false false)
                         String.EmptyString) (of_nats p)
                    :: String.String (Ascii.Ascii true false false true false true false false)
                         String.EmptyString :: nil)) (p_gens d) /\
           p_name d =
           cat
             (String.String (Ascii.Ascii false false true true false true true false)
                (String.String (Ascii.Ascii true false false false false true true false)
                   (String.String (Ascii.Ascii false true false false true true true false)
                      (String.String (Ascii.Ascii false false false true true true true false)
                         (String.String (Ascii.Ascii true false true true false true false false)
                            String.EmptyString)))) :: zs (BinInt.Z.of_nat n) :: nil) /\
           p_central d = of_nats (List.seq 0 n) /\
           List.Forall (PermN n) (p_gens d) /\
           (forall (A : Type) (dflt : A) (x : list A),
            length x = n ->
            List.map (fun p : list nat => apply_perm dflt p x) (p_gens d) =
            swap_at dflt x 0 1 :: rot_segment 1 (n - 1) x :: nil) /\
           closed_flag (p_gens d) = PeanoNat.Nat.leb n 3.
Proof. exact @larx_documented. Qed.
Print Assumptions C15_larx_documented.

(* larx: the constructor succeeds EXACTLY on the documented parameter range (and which error otherwise) *)
Theorem C15_larx_range :
  forall n : BinNums.Z,
         ((exists d : pdef, larx n = Ok d) <-> BinInt.Z.le (BinNums.Zpos (BinNums.xO BinNums.xH)) n) /\
         (~ BinInt.Z.le (BinNums.Zpos (BinNums.xO BinNums.xH)) n -> larx n = Err AssertionErr).
Proof. exact @larx_range. Qed.
Print Assumptions C15_larx_range.

(* lsl_cycles: GENERAL in all parameters of the documented range - generators (closed form), count, names, name, central state, documented action on sequences / matrix structure, inverse-closed flag as documented *)
Theorem C15_lsl_cycles_documented :
  forall (n : nat) (b : bool),
         3 <= n ->
         exists d : pdef,
           lsl_cycles (BinInt.Z.of_nat n) b = Ok d /\
           p_gens d =
           (gen_cycle n 0 (n - 1) :: gen_cycle n 1 (n - 1) :: nil) ++
           (if b then gen_cycle_inv n 0 (n - 1) :: gen_cycle_inv n 1 (n - 1) :: nil else nil) /\
           p_names d =
           (String.String (Ascii.Ascii false false true true false false true false)
              String.EmptyString
            :: String.String (Ascii.Ascii true true false false true false true false)
                 String.EmptyString :: nil) ++
           (if b
            then
             String.String (Ascii.Ascii false false true true false false true false)
               (String.String (Ascii.Ascii true true true true true false true false)
                  (String.String (Ascii.Ascii true false false true false true true false)
                     (String.String (Ascii.Ascii false true true true false true true false)
                        (String.String (Ascii.Ascii false true true false true true true false)
                           String.EmptyString))))
             :: String.String (Ascii.Ascii true true false false true false true false)
                  (String.String (Ascii.Ascii true true true true true false true false)
                     (String.String (Ascii.Ascii true false false true false true true false)
                        (String.String (Ascii.Ascii false true true true false true true false)
                           (String.String (Ascii.Ascii false true true false true true true false)
                              String.EmptyString)))) :: nil
            else nil) /\
           p_name d =
           cat
             (String.String (Ascii.Ascii false false true true false true true false)
                (String.String (Ascii.Ascii true true false false true true true false)
                   (String.String (Ascii.Ascii false false true true false true true false)
                      (String.String (Ascii.Ascii true true true true true false true false)
                         (String.String (Ascii.Ascii true true false false false true true false)
                            (String.String (Ascii.Ascii true false false true true true true false)
                               (String.String
                                  (Ascii.Ascii true true false false false true true false)
                                  (String.String
                                     (Ascii.Ascii false false true true false true true false)
                                     (String.String
                                        (Ascii.Ascii true false true false false true true false)
                                        (String.String
                                           (Ascii.Ascii true true false false true true true false)
                                           (String.String
                                              (Ascii.Ascii true false true true false true false
                                                 false) String.EmptyString))))))))))
              :: zs (BinInt.Z.of_nat n) :: nil) /\
           p_central d = of_nats (List.seq 0 n) /\
           length (p_gens d) = (if b then 4 else 2) /\
           List.Forall (PermN n) (p_gens d) /\
           inverse_perm (gen_cycle n 0 (n - 1)) = gen_cycle_inv n 0 (n - 1) /\
           inverse_perm (gen_cycle n 1 (n - 1)) = gen_cycle_inv n 1 (n - 1) /\
           (forall (A : Type) (dflt : A) (x : list A),
            length x = n ->
            List.map (fun p : list nat => apply_perm dflt p x) (p_gens d) =
            (shift_left x :: rot_segment 1 (n - 1) x :: nil) ++
            (if b then shift_right x :: rot_segment_right 1 (n - 1) x :: nil else nil)) /\
           closed_flag (p_gens d) = b.
Proof. exact @lsl_cycles_documented. Qed.
Print Assumptions C15_lsl_cycles_documented.

(* lsl_cycles: the constructor succeeds EXACTLY on the documented parameter range (and which error otherwise) *)
Theorem C15_lsl_cycles_range :
  forall (n : BinNums.Z) (b : bool),
         ((exists d : pdef, lsl_cycles n b = Ok d) <->
          BinInt.Z.le (BinNums.Zpos (BinNums.xI BinNums.xH)) n) /\
         (~ BinInt.Z.le (BinNums.Zpos (BinNums.xI BinNums.xH)) n -> lsl_cycles n b = Err AssertionErr).
Proof. exact @lsl_cycles_range. Qed.
Print Assumptions C15_lsl_cycles_range.

(* three_cycles_0ij: GENERAL in all parameters of the documented range - generators (closed form), count, names, name, central state, documented action on sequences / matrix structure, inverse-closed flag as documented *)
Theorem C15_three_cycles_0ij_documented :
  forall n : nat,
         3 <= n ->
         exists d : pdef,
           three_cycles_0ij (BinInt.Z.of_nat n) = Ok d /\
           p_gens d = List.map (fun ij : nat * nat => cyc3 n 0 (fst ij) (snd ij)) (tc0_pairs n) /\
           p_names d =
           List.map
             (fun ij : nat * nat =>
              cat
                (String.String (Ascii.Ascii false false false true false true false false)
                   String.EmptyString
                 :: join
                      (String.String (Ascii.Ascii false false false false false true false false)
                         String.EmptyString)
                      (BinNums.Z0 :: BinInt.Z.of_nat (fst ij) :: BinInt.Z.of_nat (snd ij) :: nil)
                    :: String.String (Ascii.Ascii true false false true false true false false)
                         String.EmptyString :: nil)) (tc0_pairs n) /\
           p_name d =
           cat
             (String.String (Ascii.Ascii false false true false true true true false)
                (String.String (Ascii.Ascii false false false true false true true false)
                   (String.String (Ascii.Ascii false true false false true true true false)
                      (String.String (Ascii.Ascii true false true false false true true false)
                         (String.String (Ascii.Ascii true false true false false true true false)
                            (String.String (Ascii.Ascii true true true true true false true false)
                               (String.String
                                  (Ascii.Ascii true true false false false true true false)
                                  (String.String
                                     (Ascii.Ascii true false false true true true true false)
                                     (String.String
                                        (Ascii.Ascii true true false false false true true false)
                                        (String.String
                                           (Ascii.Ascii false false true true false true true false)
                                           (String.String
                                              (Ascii.Ascii true false true false false true true
                                                 false)
                                              (String.String
                                                 (Ascii.Ascii true true false false true true true
                                                    false)
                                                 (String.String
                                                    (Ascii.Ascii true true true true true false true
                                                       false)
                                                    (String.String
                                                       (Ascii.Ascii false false false false true true
                                                          false false)
                                                       (String.String
                                                          (Ascii.Ascii true false false true false
                                                             true true false)
                                                          (String.String
                                                             (Ascii.Ascii false true false true false
                                                                true true false)
                                                             (String.String
                                                                (Ascii.Ascii true false true true
                                                                   false true false false)
                                                                String.EmptyString))))))))))))))))
              :: zs (BinInt.Z.of_nat n) :: nil) /\
           p_central d = of_nats (List.seq 0 n) /\
           (forall i j : nat, List.In (i, j) (tc0_pairs n) <-> 1 <= i < n /\ 1 <= j < n /\ i <> j) /\
           length (p_gens d) = (n - 1) * (n - 2) /\
           length (p_names d) = (n - 1) * (n - 2) /\
           List.Forall (PermN n) (p_gens d) /\
           (forall p : list nat,
            List.In p (p_gens d) <->
            (exists i j : nat, 1 <= i < n /\ 1 <= j < n /\ i <> j /\ p = cyc3 n 0 i j)) /\
           (forall i j : nat,
            1 <= i < n ->
            1 <= j < n ->
            i <> j ->
            inverse_perm (cyc3 n 0 i j) = cyc3 n 0 j i /\
            (forall (A : Type) (dflt : A) (x : list A),
             length x = n -> apply_perm dflt (cyc3 n 0 i j) x = cycle3_at dflt x 0 i j)) /\
           closed_flag (p_gens d) = true.
Proof. exact @three_cycles_0ij_documented. Qed.
Print Assumptions C15_three_cycles_0ij_documented.

(* three_cycles_0ij: the constructor succeeds EXACTLY on the documented parameter range (and which error otherwise) *)
Theorem C15_three_cycles_0ij_range :
  forall n : BinNums.Z,
         ((exists d : pdef, three_cycles_0ij n = Ok d) <->
          BinInt.Z.le (BinNums.Zpos (BinNums.xI BinNums.xH)) n) /\
         (~ BinInt.Z.le (BinNums.Zpos (BinNums.xI BinNums.xH)) n -> three_cycles_0ij n = Err IndexErr).
Proof. exact @three_cycles_0ij_range. Qed.
Print Assumptions C15_three_cycles_0ij_range.

(* three_cycles: GENERAL in all parameters of the documented range - generators (closed form), count, names, name, central state, documented action on sequences / matrix structure, inverse-closed flag as documented *)
Theorem C15_three_cycles_documented :
  forall n : nat,
         3 <= n ->
         exists d : pdef,
           three_cycles (BinInt.Z.of_nat n) = Ok d /\
           p_gens d = List.map (fun '(a, b, c) => cyc3 n a b c) (tc_triples n) /\
           p_names d =
           List.map
             (fun '(a, b, c) =>
              cat
                (String.String (Ascii.Ascii false false false true false true false false)
                   String.EmptyString
                 :: join
                      (String.String (Ascii.Ascii false false false false false true false false)
                         String.EmptyString)
                      (BinInt.Z.of_nat a :: BinInt.Z.of_nat b :: BinInt.Z.of_nat c :: nil)
                    :: String.String (Ascii.Ascii true false false true false true false false)
                         String.EmptyString :: nil)) (tc_triples n) /\
           p_name d =
           cat
             (String.String (Ascii.Ascii false false true false true true true false)
                (String.String (Ascii.Ascii false false false true false true true false)
                   (String.String (Ascii.Ascii false true false false true true true false)
                      (String.String (Ascii.Ascii true false true false false true true false)
                         (String.String (Ascii.Ascii true false true false false true true false)
                            (String.String (Ascii.Ascii true true true true true false true false)
                               (String.String
                                  (Ascii.Ascii true true false false false true true false)
                                  (String.String
                                     (Ascii.Ascii true false false true true true true false)
                                     (String.String
                                        (Ascii.Ascii true true false false false true true false)
                                        (String.String
                                           (Ascii.Ascii false false true true false true true false)
                                           (String.String
                                              (Ascii.Ascii true false true false false true true
                                                 false)
                                              (String.String
                                                 (Ascii.Ascii true true false false true true true
                                                    false)
                                                 (String.String
                                                    (Ascii.Ascii true false true true false true
                                                       false false) String.EmptyString))))))))))))
              :: zs (BinInt.Z.of_nat n) :: nil) /\
           p_central d = of_nats (List.seq 0 n) /\
           (forall a b c : nat, List.In (a, b, c) (tc_triples n) <-> a < b < n /\ a < c < n /\ b <> c) /\
           3 * length (p_gens d) = n * (n - 1) * (n - 2) /\
           length (p_names d) = length (p_gens d) /\
           List.Forall (PermN n) (p_gens d) /\
           (forall p : list nat,
            List.In p (p_gens d) <->
            (exists a b c : nat, a < b < n /\ a < c < n /\ b <> c /\ p = cyc3 n a b c)) /\
           (forall a b c : nat,
            a < b < n ->
            a < c < n ->
            b <> c ->
            inverse_perm (cyc3 n a b c) = cyc3 n a c b /\
            (forall (A : Type) (dflt : A) (x : list A),
             length x = n -> apply_perm dflt (cyc3 n a b c) x = cycle3_at dflt x a b c)) /\
           closed_flag (p_gens d) = true.
Proof. exact @three_cycles_documented. Qed.
Print Assumptions C15_three_cycles_documented.

(* three_cycles: the constructor succeeds EXACTLY on the documented parameter range (and which error otherwise) *)
Theorem C15_three_cycles_range :
  forall n : BinNums.Z,
         ((exists d : pdef, three_cycles n = Ok d) <->
          BinInt.Z.le (BinNums.Zpos (BinNums.xI BinNums.xH)) n) /\
         (~ BinInt.Z.le (BinNums.Zpos (BinNums.xI BinNums.xH)) n -> three_cycles n = Err AssertionErr).
Proof. exact @three_cycles_range. Qed.
Print Assumptions C15_three_cycles_range.

(* wrapped_k_cycles: GENERAL in all parameters of the documented range - generators (closed form), count, names, name, central state, documented action on sequences / matrix structure, inverse-closed flag as documented *)
Theorem C15_wrapped_k_cycles_documented :
  forall n k : nat,
         2 <= k <= n ->
         exists d : pdef,
           wrapped_k_cycles (BinInt.Z.of_nat n) (BinInt.Z.of_nat k) = Ok d /\
           p_gens d = List.map (wk_gen n k) (List.seq 0 n) /\
           p_names d =
           List.map
             (fun s : nat =>
              cat
                (String.String (Ascii.Ascii false false false true false true false false)
                   String.EmptyString
                 :: join
                      (String.String (Ascii.Ascii false false false false false true false false)
                         String.EmptyString) (of_nats (wk_cycle n k s))
                    :: String.String (Ascii.Ascii true false false true false true false false)
                         String.EmptyString :: nil)) (List.seq 0 n) /\
           p_name d =
           cat
             (String.String (Ascii.Ascii true true true false true true true false)
                (String.String (Ascii.Ascii false true false false true true true false)
                   (String.String (Ascii.Ascii true false false false false true true false)
                      (String.String (Ascii.Ascii false false false false true true true false)
                         (String.String (Ascii.Ascii false false false false true true true false)
                            (String.String (Ascii.Ascii true false true false false true true false)
                               (String.String
                                  (Ascii.Ascii false false true false false true true false)
                                  (String.String
                                     (Ascii.Ascii true true true true true false true false)
                                     (String.String
                                        (Ascii.Ascii true true false true false true true false)
                                        (String.String
                                           (Ascii.Ascii true true true true true false true false)
                                           (String.String
                                              (Ascii.Ascii true true false false false true true
                                                 false)
                                              (String.String
                                                 (Ascii.Ascii true false false true true true true
                                                    false)
                                                 (String.String
                                                    (Ascii.Ascii true true false false false true
                                                       true false)
                                                    (String.String
                                                       (Ascii.Ascii false false true true false true
                                                          true false)
                                                       (String.String
                                                          (Ascii.Ascii true false true false false
                                                             true true false)
                                                          (String.String
                                                             (Ascii.Ascii true true false false true
                                                                true true false)
                                                             (String.String
                                                                (Ascii.Ascii true false true true
                                                                   false true false false)
                                                                String.EmptyString))))))))))))))))
              :: zs (BinInt.Z.of_nat n)
                 :: String.String (Ascii.Ascii true false true true false true false false)
                      String.EmptyString :: zs (BinInt.Z.of_nat k) :: nil) /\
           p_central d = of_nats (List.seq 0 n) /\
           length (p_gens d) = n /\
           length (p_names d) = n /\
           List.Forall (PermN n) (p_gens d) /\
           (forall s : nat,
            s < n ->
            List.nth s (p_gens d) nil = wk_gen n k s /\
            (forall j : nat,
             j < k - 1 ->
             List.nth (PeanoNat.Nat.modulo (s + j) n) (wk_gen n k s) 0 =
             PeanoNat.Nat.modulo (s + j + 1) n) /\
            List.nth (PeanoNat.Nat.modulo (s + (k - 1)) n) (wk_gen n k s) 0 = s /\
            (forall t : nat,
             t < n ->
             (forall j : nat, j < k -> t <> PeanoNat.Nat.modulo (s + j) n) ->
             List.nth t (wk_gen n k s) 0 = t) /\
            (forall (A : Type) (dflt : A) (x : list A) (t : nat),
             length x = n ->
             t < n ->
             List.nth t (apply_perm dflt (wk_gen n k s) x) dflt = List.nth (wk_fun n k s t) x dflt)) /\
           closed_flag (p_gens d) = PeanoNat.Nat.eqb k 2.
Proof. exact @wrapped_k_cycles_documented. Qed.
Print Assumptions C15_wrapped_k_cycles_documented.

(* wrapped_k_cycles: the constructor succeeds EXACTLY on the documented parameter range (and which error otherwise) *)
Theorem C15_wrapped_k_cycles_range :
  forall n k : BinNums.Z,
         ((exists d : pdef, wrapped_k_cycles n k = Ok d) <->
          BinInt.Z.le (BinNums.Zpos (BinNums.xO BinNums.xH)) n /\
          BinInt.Z.le (BinNums.Zpos (BinNums.xO BinNums.xH)) k /\ BinInt.Z.le k n) /\
         (~
          (BinInt.Z.le (BinNums.Zpos (BinNums.xO BinNums.xH)) n /\
           BinInt.Z.le (BinNums.Zpos (BinNums.xO BinNums.xH)) k /\ BinInt.Z.le k n) ->
          wrapped_k_cycles n k = Err AssertionErr).
Proof. exact @wrapped_k_cycles_range. Qed.
Print Assumptions C15_wrapped_k_cycles_range.

(* increasing_k_cycles: GENERAL in all parameters of the documented range - generators (closed form), count, names, name, central state, documented action on sequences / matrix structure, inverse-closed flag as documented *)
Theorem C15_increasing_k_cycles_documented :
  forall n k : nat,
         1 <= k <= n ->
         exists d : pdef,
           increasing_k_cycles (BinInt.Z.of_nat n) (BinInt.Z.of_nat k) = Ok d /\
           p_gens d = List.map (cycle_gen n) (ik_combs n k) /\
           p_names d =
           List.map
             (fun c : list nat =>
              cat
                (String.String (Ascii.Ascii false false false true false true false false)
                   String.EmptyString
                 :: join
                      (String.String (Ascii.Ascii false false true true false true false false)
                         String.EmptyString) (of_nats c)
                    :: String.String (Ascii.Ascii true false false true false true false false)
                         String.EmptyString :: nil)) (ik_combs n k) /\
           p_name d =
           cat
             (String.String (Ascii.Ascii true false false true false true true false)
                (String.String (Ascii.Ascii false true true true false true true false)
                   (String.String (Ascii.Ascii true true false false false true true false)
                      (String.String (Ascii.Ascii false true false false true true true false)
                         (String.String (Ascii.Ascii true false true false false true true false)
                            (String.String (Ascii.Ascii true false false false false true true false)
                               (String.String
                                  (Ascii.Ascii true true false false true true true false)
                                  (String.String
                                     (Ascii.Ascii true false false true false true true false)
                                     (String.String
                                        (Ascii.Ascii false true true true false true true false)
                                        (String.String
                                           (Ascii.Ascii true true true false false true true false)
                                           (String.String
                                              (Ascii.Ascii true true true true true false true false)
                                              (String.String
                                                 (Ascii.Ascii true true false true false true true
                                                    false)
                                                 (String.String
                                                    (Ascii.Ascii true true true true true false true
                                                       false)
                                                    (String.String
                                                       (Ascii.Ascii true true false false false true
                                                          true false)
                                                       (String.String
                                                          (Ascii.Ascii true false false true true
                                                             true true false)
                                                          (String.String
                                                             (Ascii.Ascii true true false false false
                                                                true true false)
                                                             (String.String
                                                                (Ascii.Ascii false false true true
                                                                   false true true false)
                                                                (String.String
                                                                   (Ascii.Ascii true false true false
                                                                      false true true false)
                                                                   (String.String
                                                                      (Ascii.Ascii true true false
                                                                        false true true true false)
                                                                      (String.String
                                                                        (Ascii.Ascii true false true
                                                                        true false true false false)
                                                                        String.EmptyString)))))))))))))))))))
              :: zs (BinInt.Z.of_nat n)
                 :: String.String (Ascii.Ascii true false true true false true false false)
                      String.EmptyString :: zs (BinInt.Z.of_nat k) :: nil) /\
           p_central d = of_nats (List.seq 0 n) /\
           (forall c : list nat,
            List.In c (ik_combs n k) <->
            length c = k /\ increasing c /\ (forall x : nat, List.In x c -> x < n)) /\
           length (p_gens d) = binom n k /\
           length (p_names d) = binom n k /\
           binom n k * Factorial.fact k * Factorial.fact (n - k) = Factorial.fact n /\
           List.Forall (PermN n) (p_gens d) /\
           (forall c : list nat,
            List.In c (ik_combs n k) ->
            (forall i : nat,
             i < k ->
             List.nth (List.nth i c 0) (cycle_gen n c) 0 =
             List.nth (PeanoNat.Nat.modulo (i + 1) k) c 0) /\
            (forall t : nat, t < n -> ~ List.In t c -> List.nth t (cycle_gen n c) 0 = t) /\
            inverse_perm (cycle_gen n c) = cycle_gen n (List.rev c) /\
            (forall (A : Type) (dflt : A) (x : list A) (t : nat),
             length x = n ->
             t < n ->
             List.nth t (apply_perm dflt (cycle_gen n c) x) dflt = List.nth (cycle_fun c t) x dflt)) /\
           closed_flag (p_gens d) = PeanoNat.Nat.leb k 2.
Proof. exact @increasing_k_cycles_documented. Qed.
Print Assumptions C15_increasing_k_cycles_documented.

(* increasing_k_cycles: the constructor succeeds EXACTLY on the documented parameter range (and which error otherwise) *)
Theorem C15_increasing_k_cycles_range :
  forall n k : BinNums.Z,
         ((exists d : pdef, increasing_k_cycles n k = Ok d) <->
          BinInt.Z.le (BinNums.Zpos BinNums.xH) n /\
          BinInt.Z.le (BinNums.Zpos BinNums.xH) k /\ BinInt.Z.le k n) /\
         (~
          (BinInt.Z.le (BinNums.Zpos BinNums.xH) n /\
           BinInt.Z.le (BinNums.Zpos BinNums.xH) k /\ BinInt.Z.le k n) ->
          increasing_k_cycles n k = Err AssertionErr).
Proof. exact @increasing_k_cycles_range. Qed.
Print Assumptions C15_increasing_k_cycles_range.

(* rapaport_m2: GENERAL in all parameters of the documented range - generators (closed form), count, names, name, central state, documented action on sequences / matrix structure, inverse-closed flag as documented *)
Theorem C15_rapaport_m2_documented :
  forall n : nat,
         2 <= n ->
         exists d : pdef,
           rapaport_m2 (BinInt.Z.of_nat n) = Ok d /\
           p_gens d =
           transp n 0 1
           :: disj_gen n 0 (PeanoNat.Nat.div n 2) :: disj_gen n 1 (PeanoNat.Nat.div (n - 1) 2) :: nil /\
           p_names d =
           String.String (Ascii.Ascii false false false true false true false false)
             (String.String (Ascii.Ascii false false false false true true false false)
                (String.String (Ascii.Ascii false false true true false true false false)
                   (String.String (Ascii.Ascii true false false false true true false false)
                      (String.String (Ascii.Ascii true false false true false true false false)
                         String.EmptyString))))
           :: String.String (Ascii.Ascii true false true false false false true false)
                (String.String (Ascii.Ascii false true true false true true true false)
                   (String.String (Ascii.Ascii true false true false false true true false)
                      (String.String (Ascii.Ascii false true true true false true true false)
                         (String.String (Ascii.Ascii false false true false false false true false)
                            (String.String (Ascii.Ascii true false false true false true true false)
                               (String.String
                                  (Ascii.Ascii true true false false true true true false)
                                  (String.String
                                     (Ascii.Ascii false true false true false true true false)
                                     (String.String
                                        (Ascii.Ascii false false true false true false true false)
                                        (String.String
                                           (Ascii.Ascii false true false false true true true false)
                                           (String.String
                                              (Ascii.Ascii true false false false false true true
                                                 false)
                                              (String.String
                                                 (Ascii.Ascii false true true true false true true
                                                    false)
                                                 (String.String
                                                    (Ascii.Ascii true true false false true true true
                                                       false) String.EmptyString))))))))))))
              :: String.String (Ascii.Ascii true true true true false false true false)
                   (String.String (Ascii.Ascii false false true false false true true false)
                      (String.String (Ascii.Ascii false false true false false true true false)
                         (String.String (Ascii.Ascii false false true false false false true false)
                            (String.String (Ascii.Ascii true false false true false true true false)
                               (String.String
                                  (Ascii.Ascii true true false false true true true false)
                                  (String.String
                                     (Ascii.Ascii false true false true false true true false)
                                     (String.String
                                        (Ascii.Ascii false false true false true false true false)
                                        (String.String
                                           (Ascii.Ascii false true false false true true true false)
                                           (String.String
                                              (Ascii.Ascii true false false false false true true
                                                 false)
                                              (String.String
                                                 (Ascii.Ascii false true true true false true true
                                                    false)
                                                 (String.String
                                                    (Ascii.Ascii true true false false true true true
                                                       false) String.EmptyString))))))))))) :: nil /\
           p_name d =
           cat
             (String.String (Ascii.Ascii false true false false true true true false)
                (String.String (Ascii.Ascii true false false false false true true false)
                   (String.String (Ascii.Ascii false false false false true true true false)
                      (String.String (Ascii.Ascii true false false false false true true false)
                         (String.String (Ascii.Ascii false false false false true true true false)
                            (String.String (Ascii.Ascii true true true true false true true false)
                               (String.String
                                  (Ascii.Ascii false true false false true true true false)
                                  (String.String
                                     (Ascii.Ascii false false true false true true true false)
                                     (String.String
                                        (Ascii.Ascii true true true true true false true false)
                                        (String.String
                                           (Ascii.Ascii true false true true false true true false)
                                           (String.String
                                              (Ascii.Ascii false true false false true true false
                                                 false)
                                              (String.String
                                                 (Ascii.Ascii true false true true false true false
                                                    false) String.EmptyString)))))))))))
              :: zs (BinInt.Z.of_nat n) :: nil) /\
           p_central d = of_nats (List.seq 0 n) /\
           List.Forall (PermN n) (p_gens d) /\
           (forall (A : Type) (dflt : A) (x : list A),
            length x = n ->
            List.map (fun p : list nat => apply_perm dflt p x) (p_gens d) =
            swap_at dflt x 0 1
            :: swap_pairs dflt 0 (PeanoNat.Nat.div n 2) x
               :: swap_pairs dflt 1 (PeanoNat.Nat.div (n - 1) 2) x :: nil) /\
           closed_flag (p_gens d) = true.
Proof. exact @rapaport_m2_documented. Qed.
Print Assumptions C15_rapaport_m2_documented.

(* rapaport_m2: the constructor succeeds EXACTLY on the documented parameter range (and which error otherwise) *)
Theorem C15_rapaport_m2_range :
  forall n : BinNums.Z,
         ((exists d : pdef, rapaport_m2 n = Ok d) <->
          BinInt.Z.le (BinNums.Zpos (BinNums.xO BinNums.xH)) n) /\
         (~ BinInt.Z.le (BinNums.Zpos (BinNums.xO BinNums.xH)) n -> rapaport_m2 n = Err AssertionErr).
Proof. exact @rapaport_m2_range. Qed.
Print Assumptions C15_rapaport_m2_range.

(* rapaport_m1: GENERAL in all parameters of the documented range - generators (closed form), count, names, name, central state, documented action on sequences / matrix structure, inverse-closed flag as documented *)
Theorem C15_rapaport_m1_documented :
  forall n : nat,
         2 <= n ->
         exists d : pdef,
           rapaport_m1 (BinInt.Z.of_nat n) = Ok d /\
           p_gens d =
           List.map (disj_gen n 0) (List.seq 1 (PeanoNat.Nat.div n 2)) ++
           List.map (disj_gen n 1) (List.seq 1 (PeanoNat.Nat.div (n - 1) 2)) /\
           p_names d =
           List.map
             (fun np : nat =>
              cat
                (String.String (Ascii.Ascii true false true true false false true false)
                   (String.String (Ascii.Ascii true false false false true true false false)
                      (String.String (Ascii.Ascii true true true true true false true false)
                         (String.String (Ascii.Ascii false false false false true true false false)
                            (String.String (Ascii.Ascii true true true true true false true false)
                               String.EmptyString)))) :: zs (BinInt.Z.of_nat np) :: nil))
             (List.seq 1 (PeanoNat.Nat.div n 2)) ++
           List.map
             (fun np : nat =>
              cat
                (String.String (Ascii.Ascii true false true true false false true false)
                   (String.String (Ascii.Ascii true false false false true true false false)
                      (String.String (Ascii.Ascii true true true true true false true false)
                         (String.String (Ascii.Ascii true false false false true true false false)
                            (String.String (Ascii.Ascii true true true true true false true false)
                               String.EmptyString)))) :: zs (BinInt.Z.of_nat np) :: nil))
             (List.seq 1 (PeanoNat.Nat.div (n - 1) 2)) /\
           p_name d =
           cat
             (String.String (Ascii.Ascii false true false false true true true false)
                (String.String (Ascii.Ascii true false false false false true true false)
                   (String.String (Ascii.Ascii false false false false true true true false)
                      (String.String (Ascii.Ascii true false false false false true true false)
                         (String.String (Ascii.Ascii false false false false true true true false)
                            (String.String (Ascii.Ascii true true true true false true true false)
                               (String.String
                                  (Ascii.Ascii false true false false true true true false)
                                  (String.String
                                     (Ascii.Ascii false false true false true true true false)
                                     (String.String
                                        (Ascii.Ascii true true true true true false true false)
                                        (String.String
                                           (Ascii.Ascii true false true true false true true false)
                                           (String.String
                                              (Ascii.Ascii true false false false true true false
                                                 false)
                                              (String.String
                                                 (Ascii.Ascii true false true true false true false
                                                    false) String.EmptyString)))))))))))
              :: zs (BinInt.Z.of_nat n) :: nil) /\
           p_central d = of_nats (List.seq 0 n) /\
           length (p_gens d) = n - 1 /\
           length (p_names d) = n - 1 /\
           List.Forall (PermN n) (p_gens d) /\
           (forall (A : Type) (dflt : A) (x : list A) (np : nat),
            length x = n ->
            (1 <= np <= PeanoNat.Nat.div n 2 ->
             apply_perm dflt (List.nth (np - 1) (p_gens d) nil) x = swap_pairs dflt 0 np x) /\
            (1 <= np <= PeanoNat.Nat.div (n - 1) 2 ->
             apply_perm dflt (List.nth (PeanoNat.Nat.div n 2 + (np - 1)) (p_gens d) nil) x =
             swap_pairs dflt 1 np x)) /\ closed_flag (p_gens d) = true.
Proof. exact @rapaport_m1_documented. Qed.
Print Assumptions C15_rapaport_m1_documented.

(* rapaport_m1: the constructor succeeds EXACTLY on the documented parameter range (and which error otherwise) *)
Theorem C15_rapaport_m1_range :
  forall n : BinNums.Z,
         ((exists d : pdef, rapaport_m1 n = Ok d) <->
          BinInt.Z.le (BinNums.Zpos (BinNums.xO BinNums.xH)) n) /\
         (~ BinInt.Z.le (BinNums.Zpos (BinNums.xO BinNums.xH)) n -> rapaport_m1 n = Err IndexErr).
Proof. exact @rapaport_m1_range. Qed.
Print Assumptions C15_rapaport_m1_range.

(* koltsov3: GENERAL in all parameters of the documented range - generators (closed form), count, names, name, central state, documented action on sequences / matrix structure, inverse-closed flag as documented *)
Theorem C15_koltsov3_documented :
  forall n k : nat,
         (forall j : nat,
          k < n ->
          j < n ->
          exists d : pdef,
            koltsov3 (BinInt.Z.of_nat n) (BinNums.Zpos BinNums.xH) (BinInt.Z.of_nat k)
              (BinInt.Z.sub (BinInt.Z.of_nat j) (BinInt.Z.of_nat k)) = Ok d /\
            p_gens d =
            disj_gen n 0 (PeanoNat.Nat.div n 2)
            :: disj_gen n 1 (PeanoNat.Nat.div (n - 1) 2) :: transp n k j :: nil /\
            p_names d =
            String.String (Ascii.Ascii true false false true false false true false)
              String.EmptyString
            :: String.String (Ascii.Ascii true true false true false false true false)
                 String.EmptyString
               :: String.String (Ascii.Ascii true true false false true false true false)
                    String.EmptyString :: nil /\
            p_name d = koltsov_name n k /\
            p_central d = of_nats (List.seq 0 n) /\
            List.Forall (PermN n) (p_gens d) /\
            (forall (A : Type) (dflt : A) (x : list A),
             length x = n ->
             List.map (fun p : list nat => apply_perm dflt p x) (p_gens d) =
             swap_pairs dflt 0 (PeanoNat.Nat.div n 2) x
             :: swap_pairs dflt 1 (PeanoNat.Nat.div (n - 1) 2) x :: swap_at dflt x k j :: nil) /\
            (forall p : list nat, List.In p (p_gens d) -> inverse_perm p = p) /\
            closed_flag (p_gens d) = true) /\
         (forall dd : BinNums.Z,
          k + 3 < n ->
          exists d : pdef,
            koltsov3 (BinInt.Z.of_nat n) (BinNums.Zpos (BinNums.xO BinNums.xH)) 
              (BinInt.Z.of_nat k) dd = Ok d /\
            p_gens d =
            disj_gen n 0 (PeanoNat.Nat.div n 2)
            :: disj_gen n 1 (PeanoNat.Nat.div (n - 1) 2) :: gen_rev_segment n k (k + 3) :: nil /\
            p_names d =
            String.String (Ascii.Ascii true false false true false false true false)
              String.EmptyString
            :: String.String (Ascii.Ascii true true false true false false true false)
                 String.EmptyString
               :: String.String (Ascii.Ascii true true false false true false true false)
                    String.EmptyString :: nil /\
            p_name d = koltsov_name n k /\
            p_central d = of_nats (List.seq 0 n) /\
            List.Forall (PermN n) (p_gens d) /\
            (forall (A : Type) (dflt : A) (x : list A),
             length x = n ->
             List.map (fun p : list nat => apply_perm dflt p x) (p_gens d) =
             swap_pairs dflt 0 (PeanoNat.Nat.div n 2) x
             :: swap_pairs dflt 1 (PeanoNat.Nat.div (n - 1) 2) x :: rev_segment k (k + 3) x :: nil) /\
            (forall p : list nat, List.In p (p_gens d) -> inverse_perm p = p) /\
            closed_flag (p_gens d) = true).
Proof. exact @koltsov3_documented. Qed.
Print Assumptions C15_koltsov3_documented.

(* koltsov3: the constructor succeeds EXACTLY on the documented parameter range (and which error otherwise) *)
Theorem C15_koltsov3_range :
  forall n t k d : BinNums.Z,
         ((exists r : pdef, koltsov3 n t k d = Ok r) <-> koltsov_range n t k d) /\
         (~ koltsov_range n t k d -> koltsov3 n t k d = Err AssertionErr).
Proof. exact @koltsov3_range. Qed.
Print Assumptions C15_koltsov3_range.

(* sheveleva2: GENERAL in all parameters of the documented range - generators (closed form), count, names, name, central state, documented action on sequences / matrix structure, inverse-closed flag as documented *)
Theorem C15_sheveleva2_documented :
  forall n k : nat,
         1 <= k ->
         k + 3 <= n ->
         exists d : pdef,
           sheveleva2 (BinInt.Z.of_nat n) (BinInt.Z.of_nat k) = Ok d /\
           p_gens d = sh_A n k :: sh_S n k :: nil /\
           p_names d =
           String.String (Ascii.Ascii true false false false false false true false)
             String.EmptyString
           :: String.String (Ascii.Ascii true true false false true false true false)
                String.EmptyString :: nil /\
           p_name d =
           cat
             (String.String (Ascii.Ascii true true false false true true true false)
                (String.String (Ascii.Ascii false false false true false true true false)
                   (String.String (Ascii.Ascii true false true false false true true false)
                      (String.String (Ascii.Ascii false true true false true true true false)
                         (String.String (Ascii.Ascii true false true false false true true false)
                            (String.String (Ascii.Ascii false false true true false true true false)
                               (String.String
                                  (Ascii.Ascii true false true false false true true false)
                                  (String.String
                                     (Ascii.Ascii false true true false true true true false)
                                     (String.String
                                        (Ascii.Ascii true false false false false true true false)
                                        (String.String
                                           (Ascii.Ascii false true false false true true false false)
                                           (String.String
                                              (Ascii.Ascii true false true true false true false
                                                 false)
                                              (String.String
                                                 (Ascii.Ascii false true true true false true true
                                                    false) String.EmptyString)))))))))))
              :: zs (BinInt.Z.of_nat n)
                 :: String.String (Ascii.Ascii true false true true false true false false)
                      (String.String (Ascii.Ascii true true false true false true true false)
                         String.EmptyString) :: zs (BinInt.Z.of_nat k) :: nil) /\
           p_central d = of_nats (List.seq 0 n) /\
           List.Forall (PermN n) (p_gens d) /\
           inverse_perm (sh_A n k) = sh_A n k /\
           (forall t : nat,
            t < n ->
            List.nth t (sh_A n k) 0 = sh_A_fun n k t /\ List.nth t (sh_S n k) 0 = sh_S_fun n k t) /\
           (List.nth (k - 1) (sh_S n k) 0 = k /\
            List.nth k (sh_S n k) 0 = k + 1 /\
            List.nth (k + 1) (sh_S n k) 0 = k + 2 /\
            List.nth (k + 2) (sh_S n k) 0 = k - 1 /\
            (forall t : nat,
             t < n ->
             t < k - 1 \/ k + 2 < t ->
             (List.nth t (sh_S n k) 0 < k - 1 \/ k + 2 < List.nth t (sh_S n k) 0) /\
             List.nth (List.nth t (sh_S n k) 0) (sh_S n k) 0 = t)) /\
           (forall (A : Type) (dflt : A) (x : list A) (t : nat),
            length x = n ->
            t < n ->
            List.nth t (apply_perm dflt (sh_A n k) x) dflt = List.nth (sh_A_fun n k t) x dflt /\
            List.nth t (apply_perm dflt (sh_S n k) x) dflt = List.nth (sh_S_fun n k t) x dflt) /\
           closed_flag (p_gens d) = false.
Proof. exact @sheveleva2_documented. Qed.
Print Assumptions C15_sheveleva2_documented.

(* sheveleva2: the constructor succeeds EXACTLY on the documented parameter range (and which error otherwise) *)
Theorem C15_sheveleva2_range :
  forall n k : BinNums.Z,
         ((exists d : pdef, sheveleva2 n k = Ok d) <->
          BinInt.Z.le (BinNums.Zpos BinNums.xH) k /\
          BinInt.Z.le k (BinInt.Z.sub n (BinNums.Zpos (BinNums.xI BinNums.xH)))) /\
         (~
          (BinInt.Z.le (BinNums.Zpos BinNums.xH) k /\
           BinInt.Z.le k (BinInt.Z.sub n (BinNums.Zpos (BinNums.xI BinNums.xH)))) ->
          sheveleva2 n k = Err AssertionErr).
Proof. exact @sheveleva2_range. Qed.
Print Assumptions C15_sheveleva2_range.

(* signed_reversals: GENERAL in all parameters of the documented range - generators (closed form), count, names, name, central state, documented action on sequences / matrix structure, inverse-closed flag as documented *)
Theorem C15_signed_reversals_documented :
  forall n : nat,
         1 <= n ->
         exists d : pdef,
           signed_reversals (BinInt.Z.of_nat n) = Ok d /\
           p_gens d = List.map (fun ij : nat * nat => gen_srev n (fst ij) (snd ij)) (sr_pairs n) /\
           p_names d =
           List.map
             (fun ij : nat * nat =>
              cat
                (String.String (Ascii.Ascii false true false false true false true false)
                   (String.String (Ascii.Ascii true true false true true false true false)
                      String.EmptyString)
                 :: zs (BinInt.Z.of_nat (fst ij))
                    :: String.String (Ascii.Ascii false true true true false true false false)
                         (String.String (Ascii.Ascii false true true true false true false false)
                            String.EmptyString)
                       :: zs (BinInt.Z.of_nat (snd ij))
                          :: String.String (Ascii.Ascii true false true true true false true false)
                               String.EmptyString :: nil)) (sr_pairs n) /\
           p_name d = String.EmptyString /\
           p_central d = of_nats (List.seq 0 (2 * n)) /\
           (forall i j : nat, List.In (i, j) (sr_pairs n) <-> i <= j < n) /\
           2 * length (p_gens d) = n * (n + 1) /\
           length (p_names d) = length (p_gens d) /\
           List.Forall (PermN (2 * n)) (p_gens d) /\
           (forall p : list nat,
            List.In p (p_gens d) <-> (exists i j : nat, i <= j < n /\ p = gen_srev n i j)) /\
           (forall i j : nat,
            i <= j < n ->
            inverse_perm (gen_srev n i j) = gen_srev n i j /\
            (forall t : nat,
             t < 2 * n ->
             List.nth t (gen_srev n i j) 0 =
             (if PeanoNat.Nat.ltb t i
              then t
              else
               if PeanoNat.Nat.ltb t (j + 1)
               then n + i + j - t
               else
                if PeanoNat.Nat.ltb t (n + i)
                then t
                else if PeanoNat.Nat.ltb t (n + j + 1) then n + i + j - t else t)) /\
            (forall (A : Type) (dflt : A) (x : list A),
             length x = 2 * n ->
             apply_perm dflt (gen_srev n i j) x =
             List.firstn i x ++
             List.rev (List.firstn (j + 1 - i) (List.skipn (n + i) x)) ++
             List.firstn (n - (j + 1)) (List.skipn (j + 1) x) ++
             List.firstn i (List.skipn n x) ++
             List.rev (List.firstn (j + 1 - i) (List.skipn i x)) ++ List.skipn (n + j + 1) x) /\
            (forall (A : Type) (dflt : A) (b t : list A),
             length b = n ->
             length t = n ->
             apply_perm dflt (gen_srev n i j) (b ++ t) =
             (List.firstn i b ++
              List.rev (List.firstn (j + 1 - i) (List.skipn i t)) ++ List.skipn (j + 1) b) ++
             List.firstn i t ++
             List.rev (List.firstn (j + 1 - i) (List.skipn i b)) ++ List.skipn (j + 1) t)) /\
           closed_flag (p_gens d) = true.
Proof. exact @signed_reversals_documented. Qed.
Print Assumptions C15_signed_reversals_documented.

(* signed_reversals: the constructor succeeds EXACTLY on the documented parameter range (and which error otherwise) *)
Theorem C15_signed_reversals_range :
  forall z : BinNums.Z,
         ((exists d : pdef, signed_reversals z = Ok d) <-> BinInt.Z.le (BinNums.Zpos BinNums.xH) z) /\
         (~ BinInt.Z.le (BinNums.Zpos BinNums.xH) z -> signed_reversals z = Err AssertionErr).
Proof. exact @signed_reversals_range. Qed.
Print Assumptions C15_signed_reversals_range.

(* transposons: GENERAL in all parameters of the documented range - generators (closed form), count, names, name, central state, documented action on sequences / matrix structure, inverse-closed flag as documented *)
Theorem C15_transposons_documented :
  forall n : nat,
         2 <= n ->
         exists d : pdef,
           transposons (BinInt.Z.of_nat n) = Ok d /\
           p_gens d = List.map (fun '(i, j, k) => gen_tpos n i j k) (tp_triples n) /\
           p_names d =
           List.map
             (fun '(i, j, k) =>
              cat
                (String.String (Ascii.Ascii false false true false true false true false)
                   (String.String (Ascii.Ascii true true false true true false true false)
                      String.EmptyString)
                 :: zs (BinInt.Z.of_nat i)
                    :: String.String (Ascii.Ascii false true true true false true false false)
                         (String.String (Ascii.Ascii false true true true false true false false)
                            String.EmptyString)
                       :: zs (BinInt.Z.sub (BinInt.Z.of_nat j) (BinNums.Zpos BinNums.xH))
                          :: String.String (Ascii.Ascii false false true true false true false false)
                               String.EmptyString
                             :: zs (BinInt.Z.of_nat k)
                                :: String.String
                                     (Ascii.Ascii true false true true true false true false)
                                     String.EmptyString :: nil)) (tp_triples n) /\
           p_name d = String.EmptyString /\
           p_central d = of_nats (List.seq 0 n) /\
           (forall i j k : nat, List.In (i, j, k) (tp_triples n) <-> i < j /\ j <= k < n) /\
           6 * length (p_gens d) = (n + 1) * n * (n - 1) /\
           length (p_names d) = length (p_gens d) /\
           List.Forall (PermN n) (p_gens d) /\
           (forall p : list nat,
            List.In p (p_gens d) <->
            (exists i j k : nat, i < j /\ j <= k /\ k < n /\ p = gen_tpos n i j k)) /\
           (forall i j k : nat,
            i < j ->
            j <= k ->
            k < n ->
            inverse_perm (gen_tpos n i j k) = gen_tpos n i (i + k + 1 - j) k /\
            (forall t : nat,
             t < n ->
             List.nth t (gen_tpos n i j k) 0 =
             (if PeanoNat.Nat.ltb t i
              then t
              else
               if PeanoNat.Nat.ltb t (i + (k + 1 - j))
               then t + (j - i)
               else if PeanoNat.Nat.ltb t (k + 1) then t - (k + 1 - j) else t)) /\
            (forall (A : Type) (dflt : A) (x : list A),
             length x = n ->
             apply_perm dflt (gen_tpos n i j k) x =
             List.firstn i x ++
             List.firstn (k + 1 - j) (List.skipn j x) ++
             List.firstn (j - i) (List.skipn i x) ++ List.skipn (k + 1) x)) /\
           closed_flag (p_gens d) = true.
Proof. exact @transposons_documented. Qed.
Print Assumptions C15_transposons_documented.

(* transposons: the constructor succeeds EXACTLY on the documented parameter range (and which error otherwise) *)
Theorem C15_transposons_range :
  forall z : BinNums.Z,
         ((exists d : pdef, transposons z = Ok d) <->
          BinInt.Z.le (BinNums.Zpos (BinNums.xO BinNums.xH)) z) /\
         (~ BinInt.Z.le (BinNums.Zpos (BinNums.xO BinNums.xH)) z -> transposons z = Err AssertionErr).
Proof. exact @transposons_range. Qed.
Print Assumptions C15_transposons_range.

(* block_interchange: GENERAL in all parameters of the documented range - generators (closed form), count, names, name, central state, documented action on sequences / matrix structure, inverse-closed flag as documented *)
Theorem C15_block_interchange_documented :
  forall n : nat,
         2 <= n ->
         exists d : pdef,
           block_interchange (BinInt.Z.of_nat n) = Ok d /\
           p_gens d = List.map (fun '(i, j, k, l) => gen_bi n i j k l) (bi_quads n) /\
           p_names d =
           List.map
             (fun '(i, j, k, l) =>
              cat
                (String.String (Ascii.Ascii true false false true false false true false)
                   (String.String (Ascii.Ascii true true false true true false true false)
                      String.EmptyString)
                 :: zs (BinInt.Z.of_nat i)
                    :: String.String (Ascii.Ascii false true true true false true false false)
                         (String.String (Ascii.Ascii false true true true false true false false)
                            String.EmptyString)
                       :: zs (BinInt.Z.sub (BinInt.Z.of_nat j) (BinNums.Zpos BinNums.xH))
                          :: String.String (Ascii.Ascii false false true true false true false false)
                               String.EmptyString
                             :: zs (BinInt.Z.of_nat k)
                                :: String.String
                                     (Ascii.Ascii false true true true false true false false)
                                     (String.String
                                        (Ascii.Ascii false true true true false true false false)
                                        String.EmptyString)
                                   :: zs (BinInt.Z.sub (BinInt.Z.of_nat l) (BinNums.Zpos BinNums.xH))
                                      :: String.String
                                           (Ascii.Ascii true false true true true false true false)
                                           String.EmptyString :: nil)) (bi_quads n) /\
           p_name d = String.EmptyString /\
           p_central d = of_nats (List.seq 0 n) /\
           (forall i j k l : nat, List.In (i, j, k, l) (bi_quads n) <-> i < j /\ j <= k /\ k < l <= n) /\
           24 * length (p_gens d) = (n + 2) * (n + 1) * n * (n - 1) /\
           length (p_names d) = length (p_gens d) /\
           List.Forall (PermN n) (p_gens d) /\
           (forall p : list nat,
            List.In p (p_gens d) <->
            (exists i j k l : nat, i < j /\ j <= k /\ k < l /\ l <= n /\ p = gen_bi n i j k l)) /\
           (forall i j k l : nat,
            i < j ->
            j <= k ->
            k < l ->
            l <= n ->
            inverse_perm (gen_bi n i j k l) = gen_bi n i (i + l - k) (l - (j - i)) l /\
            (forall t : nat,
             t < n ->
             List.nth t (gen_bi n i j k l) 0 =
             (if PeanoNat.Nat.ltb t i
              then t
              else
               if PeanoNat.Nat.ltb t (i + (l - k))
               then t + (k - i)
               else
                if PeanoNat.Nat.ltb t (i + (l - j))
                then t - (i + (l - k)) + j
                else if PeanoNat.Nat.ltb t l then t - (l - j) else t)) /\
            (forall (A : Type) (dflt : A) (x : list A),
             length x = n ->
             apply_perm dflt (gen_bi n i j k l) x =
             List.firstn i x ++
             List.firstn (l - k) (List.skipn k x) ++
             List.firstn (k - j) (List.skipn j x) ++
             List.firstn (j - i) (List.skipn i x) ++ List.skipn l x)) /\
           closed_flag (p_gens d) = true.
Proof. exact @block_interchange_documented. Qed.
Print Assumptions C15_block_interchange_documented.

(* block_interchange: the constructor succeeds EXACTLY on the documented parameter range (and which error otherwise) *)
Theorem C15_block_interchange_range :
  forall z : BinNums.Z,
         ((exists d : pdef, block_interchange z = Ok d) <->
          BinInt.Z.le (BinNums.Zpos (BinNums.xO BinNums.xH)) z) /\
         (~ BinInt.Z.le (BinNums.Zpos (BinNums.xO BinNums.xH)) z ->
          block_interchange z = Err AssertionErr).
Proof. exact @block_interchange_range. Qed.
Print Assumptions C15_block_interchange_range.

(* all_cycles: GENERAL in all parameters of the documented range - generators (closed form), count, names, name, central state, documented action on sequences / matrix structure, inverse-closed flag as documented *)
Theorem C15_all_cycles_documented :
  forall n : nat,
         2 <= n ->
         exists d : pdef,
           all_cycles (BinInt.Z.of_nat n) = Ok d /\
           p_gens d = List.map (cycle_gen n) (ac_cycles n) /\
           p_names d =
           List.map
             (fun i : nat =>
              cat
                (String.String (Ascii.Ascii true true false false false true true false)
                   (String.String (Ascii.Ascii true false false true true true true false)
                      (String.String (Ascii.Ascii true true false false false true true false)
                         (String.String (Ascii.Ascii false false true true false true true false)
                            (String.String (Ascii.Ascii true false true false false true true false)
                               (String.String (Ascii.Ascii true true true true true false true false)
                                  String.EmptyString))))) :: zs (BinInt.Z.of_nat i) :: nil))
             (List.seq 1 (length (ac_cycles n))) /\
           p_name d =
           cat
             (String.String (Ascii.Ascii true false false false false true true false)
                (String.String (Ascii.Ascii false false true true false true true false)
                   (String.String (Ascii.Ascii false false true true false true true false)
                      (String.String (Ascii.Ascii true true true true true false true false)
                         (String.String (Ascii.Ascii true true false false false true true false)
                            (String.String (Ascii.Ascii true false false true true true true false)
                               (String.String
                                  (Ascii.Ascii true true false false false true true false)
                                  (String.String
                                     (Ascii.Ascii false false true true false true true false)
                                     (String.String
                                        (Ascii.Ascii true false true false false true true false)
                                        (String.String
                                           (Ascii.Ascii true true false false true true true false)
                                           (String.String
                                              (Ascii.Ascii true false true true false true false
                                                 false) String.EmptyString))))))))))
              :: zs (BinInt.Z.of_nat n) :: nil) /\
           p_central d = of_nats (List.seq 0 n) /\
           (forall c : list nat,
            List.In c (ac_cycles n) <->
            2 <= length c /\
            List.NoDup c /\
            (forall x : nat, List.In x c -> x < n) /\
            (forall x : nat, List.In x (List.tl c) -> List.hd 0 c < x)) /\
           length (p_gens d) =
           List.list_sum
             (List.map (fun k : nat => binom n k * Factorial.fact (k - 1)) (List.seq 2 (n - 1))) /\
           length (p_names d) = length (p_gens d) /\
           List.Forall (PermN n) (p_gens d) /\
           (forall c : list nat,
            List.In c (ac_cycles n) ->
            (forall i : nat,
             i < length c ->
             List.nth (List.nth i c 0) (cycle_gen n c) 0 =
             List.nth (PeanoNat.Nat.modulo (i + 1) (length c)) c 0) /\
            (forall t : nat, t < n -> ~ List.In t c -> List.nth t (cycle_gen n c) 0 = t) /\
            inverse_perm (cycle_gen n c) = cycle_gen n (List.hd 0 c :: List.rev (List.tl c)) /\
            (forall (A : Type) (dflt : A) (x : list A) (t : nat),
             length x = n ->
             t < n ->
             List.nth t (apply_perm dflt (cycle_gen n c) x) dflt = List.nth (cycle_fun c t) x dflt)) /\
           closed_flag (p_gens d) = true.
Proof. exact @all_cycles_documented. Qed.
Print Assumptions C15_all_cycles_documented.

(* all_cycles: the constructor succeeds EXACTLY on the documented parameter range (and which error otherwise) *)
Theorem C15_all_cycles_range :
  forall n : BinNums.Z,
         ((exists d : pdef, all_cycles n = Ok d) <->
          BinInt.Z.le (BinNums.Zpos (BinNums.xO BinNums.xH)) n) /\
         (~ BinInt.Z.le (BinNums.Zpos (BinNums.xO BinNums.xH)) n -> all_cycles n = Err AssertionErr).
Proof. exact @all_cycles_range. Qed.
Print Assumptions C15_all_cycles_range.

(* sl_root_weyl: GENERAL in all parameters of the documented range - generators (closed form), count, names, name, central state, documented action on sequences / matrix structure, inverse-closed flag as documented *)
Theorem C15_sl_root_weyl_documented :
  forall (cand : list (list BinNums.Z) -> list (list BinNums.Z)) (n : nat) (m : BinNums.Z),
         cand_elem cand ->
         2 <= n ->
         valid_modulo m = true ->
         exists d : mdef,
           special_linear_root_weyl cand (BinInt.Z.of_nat n) m = Ok d /\
           m_mats d =
           E n 0 1 (BinNums.Zpos BinNums.xH)
           :: E n 0 1 (red m (BinNums.Zneg BinNums.xH)) :: W n m :: Wt n m :: nil /\
           m_modulo d = m /\
           m_names d =
           String.String (Ascii.Ascii true false true false false true true false) String.EmptyString
           :: String.String (Ascii.Ascii true false true false false true true false)
                (String.String (Ascii.Ascii true true true false false true false false)
                   String.EmptyString)
              :: String.String (Ascii.Ascii true true true false true true true false)
                   String.EmptyString
                 :: String.String (Ascii.Ascii true true true false true true true false)
                      (String.String (Ascii.Ascii true true true false false true false false)
                         String.EmptyString) :: nil /\
           m_name d =
           mname
             (String.String (Ascii.Ascii true true false false true true true false)
                (String.String (Ascii.Ascii false false true true false true true false)
                   (String.String (Ascii.Ascii true true true true true false true false)
                      (String.String (Ascii.Ascii false true false false true true true false)
                         (String.String (Ascii.Ascii true true true true false true true false)
                            (String.String (Ascii.Ascii true true true true false true true false)
                               (String.String
                                  (Ascii.Ascii false false true false true true true false)
                                  (String.String
                                     (Ascii.Ascii true true true true true false true false)
                                     (String.String
                                        (Ascii.Ascii true true true false true true true false)
                                        (String.String
                                           (Ascii.Ascii true false true false false true true false)
                                           (String.String
                                              (Ascii.Ascii true false false true true true true false)
                                              (String.String
                                                 (Ascii.Ascii false false true true false true true
                                                    false)
                                                 (String.String
                                                    (Ascii.Ascii true false true true false true
                                                       false false) String.EmptyString))))))))))))) n
             m /\
           m_central d = List.concat (eye n) /\
           length (m_mats d) = 4 /\
           length (m_names d) = 4 /\
           List.Forall (mat_ok n m) (m_mats d) /\
           is_inverse_to m n (E n 0 1 (BinNums.Zpos BinNums.xH))
             (E n 0 1 (red m (BinNums.Zneg BinNums.xH))) = true /\
           is_inverse_to m n (E n 0 1 (red m (BinNums.Zneg BinNums.xH)))
             (E n 0 1 (BinNums.Zpos BinNums.xH)) = true /\
           is_inverse_to m n (W n m) (Wt n m) = true /\
           is_inverse_to m n (Wt n m) (W n m) = true /\
           inverse_closed m n (m_mats d) /\ FamiliesRun.m_closed d = true.
Proof. exact @sl_root_weyl_documented. Qed.
Print Assumptions C15_sl_root_weyl_documented.

(* sl_root_weyl: the constructor succeeds EXACTLY on the documented parameter range (and which error otherwise) *)
Theorem C15_sl_root_weyl_range :
  forall (cand : list (list BinNums.Z) -> list (list BinNums.Z)) (z m : BinNums.Z),
         cand_elem cand ->
         ((exists d : mdef, special_linear_root_weyl cand z m = Ok d) <->
          BinInt.Z.le (BinNums.Zpos (BinNums.xO BinNums.xH)) z /\ valid_modulo m = true) /\
         (~ (BinInt.Z.le (BinNums.Zpos (BinNums.xO BinNums.xH)) z /\ valid_modulo m = true) ->
          special_linear_root_weyl cand z m = Err AssertionErr).
Proof. exact @sl_root_weyl_range. Qed.
Print Assumptions C15_sl_root_weyl_range.

(* sl_fund_roots: GENERAL in all parameters of the documented range - generators (closed form), count, names, name, central state, documented action on sequences / matrix structure, inverse-closed flag as documented *)
Theorem C15_sl_fund_roots_documented :
  forall (cand : list (list BinNums.Z) -> list (list BinNums.Z)) (n : nat) (m : BinNums.Z),
         cand_elem cand ->
         2 <= n ->
         valid_modulo m = true ->
         exists d : mdef,
           special_linear_fundamental_roots cand (BinInt.Z.of_nat n) m = Ok d /\
           m_mats d =
           List.flat_map
             (fun k : nat =>
              E n k (k + 1) (BinNums.Zpos BinNums.xH)
              :: E n k (k + 1) (red m (BinNums.Zneg BinNums.xH))
                 :: E n (k + 1) k (BinNums.Zpos BinNums.xH)
                    :: E n (k + 1) k (red m (BinNums.Zneg BinNums.xH)) :: nil) 
             (List.seq 0 (n - 1)) /\
           m_modulo d = m /\
           m_names d =
           List.flat_map
             (fun k : nat =>
              cat
                (String.String (Ascii.Ascii true false true false false true true false)
                   String.EmptyString
                 :: zs (BinInt.Z.add (BinInt.Z.of_nat k) (BinNums.Zpos BinNums.xH)) :: nil)
              :: cat
                   (String.String (Ascii.Ascii true false true false false true true false)
                      String.EmptyString
                    :: zs (BinInt.Z.add (BinInt.Z.of_nat k) (BinNums.Zpos BinNums.xH))
                       :: String.String (Ascii.Ascii true true true false false true false false)
                            String.EmptyString :: nil)
                 :: cat
                      (String.String (Ascii.Ascii false true true false false true true false)
                         String.EmptyString
                       :: zs (BinInt.Z.add (BinInt.Z.of_nat k) (BinNums.Zpos BinNums.xH)) :: nil)
                    :: cat
                         (String.String (Ascii.Ascii false true true false false true true false)
                            String.EmptyString
                          :: zs (BinInt.Z.add (BinInt.Z.of_nat k) (BinNums.Zpos BinNums.xH))
                             :: String.String
                                  (Ascii.Ascii true true true false false true false false)
                                  String.EmptyString :: nil) :: nil) (List.seq 0 (n - 1)) /\
           m_name d =
           mname
             (String.String (Ascii.Ascii true true false false true true true false)
                (String.String (Ascii.Ascii false false true true false true true false)
                   (String.String (Ascii.Ascii true true true true true false true false)
                      (String.String (Ascii.Ascii false true true false false true true false)
                         (String.String (Ascii.Ascii true false true false true true true false)
                            (String.String (Ascii.Ascii false true true true false true true false)
                               (String.String
                                  (Ascii.Ascii false false true false false true true false)
                                  (String.String
                                     (Ascii.Ascii true true true true true false true false)
                                     (String.String
                                        (Ascii.Ascii false true false false true true true false)
                                        (String.String
                                           (Ascii.Ascii true true true true false true true false)
                                           (String.String
                                              (Ascii.Ascii true true true true false true true false)
                                              (String.String
                                                 (Ascii.Ascii false false true false true true true
                                                    false)
                                                 (String.String
                                                    (Ascii.Ascii true true false false true true true
                                                       false)
                                                    (String.String
                                                       (Ascii.Ascii true false true true false true
                                                          false false) String.EmptyString))))))))))))))
             n m /\
           m_central d = List.concat (eye n) /\
           length (m_mats d) = 4 * (n - 1) /\
           length (m_names d) = 4 * (n - 1) /\
           List.Forall (mat_ok n m) (m_mats d) /\
           (forall k : nat,
            k < n - 1 ->
            List.nth (4 * k) (m_mats d) nil = E n k (k + 1) (BinNums.Zpos BinNums.xH) /\
            List.nth (4 * k + 1) (m_mats d) nil = E n k (k + 1) (red m (BinNums.Zneg BinNums.xH)) /\
            List.nth (4 * k + 2) (m_mats d) nil = E n (k + 1) k (BinNums.Zpos BinNums.xH) /\
            List.nth (4 * k + 3) (m_mats d) nil = E n (k + 1) k (red m (BinNums.Zneg BinNums.xH)) /\
            is_inverse_to m n (List.nth (4 * k) (m_mats d) nil) (List.nth (4 * k + 1) (m_mats d) nil) =
            true /\
            is_inverse_to m n (List.nth (4 * k + 1) (m_mats d) nil) (List.nth (4 * k) (m_mats d) nil) =
            true /\
            is_inverse_to m n (List.nth (4 * k + 2) (m_mats d) nil)
              (List.nth (4 * k + 3) (m_mats d) nil) = true /\
            is_inverse_to m n (List.nth (4 * k + 3) (m_mats d) nil)
              (List.nth (4 * k + 2) (m_mats d) nil) = true) /\
           inverse_closed m n (m_mats d) /\ FamiliesRun.m_closed d = true.
Proof. exact @sl_fund_roots_documented. Qed.
Print Assumptions C15_sl_fund_roots_documented.

(* sl_fund_roots: the constructor succeeds EXACTLY on the documented parameter range (and which error otherwise) *)
Theorem C15_sl_fund_roots_range :
  forall (cand : list (list BinNums.Z) -> list (list BinNums.Z)) (z m : BinNums.Z),
         cand_elem cand ->
         ((exists d : mdef, special_linear_fundamental_roots cand z m = Ok d) <->
          BinInt.Z.le (BinNums.Zpos (BinNums.xO BinNums.xH)) z /\ valid_modulo m = true) /\
         (~ (BinInt.Z.le (BinNums.Zpos (BinNums.xO BinNums.xH)) z /\ valid_modulo m = true) ->
          special_linear_fundamental_roots cand z m = Err AssertionErr).
Proof. exact @sl_fund_roots_range. Qed.
Print Assumptions C15_sl_fund_roots_range.

(* heisenberg: GENERAL in all parameters of the documented range - generators (closed form), count, names, name, central state, documented action on sequences / matrix structure, inverse-closed flag as documented *)
Theorem C15_heisenberg_documented :
  forall (cand : list (list BinNums.Z) -> list (list BinNums.Z)) (n : nat) 
           (m : BinNums.Z) (b : bool),
         cand_elem cand ->
         3 <= n ->
         valid_modulo m = true ->
         exists d : mdef,
           heisenberg cand (BinInt.Z.of_nat n) m b = Ok d /\
           m_mats d = heis_gens n ++ (if heis_added m b then heis_invs n m else nil) /\
           m_modulo d = m /\
           m_names d = heis_names n ++ (if heis_added m b then primed (heis_names n) else nil) /\
           m_name d =
           (if heis_added m b
            then
             cat
               (mname
                  (String.String (Ascii.Ascii false false false true false true true false)
                     (String.String (Ascii.Ascii true false true false false true true false)
                        (String.String (Ascii.Ascii true false false true false true true false)
                           (String.String (Ascii.Ascii true true false false true true true false)
                              (String.String
                                 (Ascii.Ascii true false true false false true true false)
                                 (String.String
                                    (Ascii.Ascii false true true true false true true false)
                                    (String.String
                                       (Ascii.Ascii false true false false false true true false)
                                       (String.String
                                          (Ascii.Ascii true false true false false true true false)
                                          (String.String
                                             (Ascii.Ascii false true false false true true true false)
                                             (String.String
                                                (Ascii.Ascii true true true false false true true
                                                   false)
                                                (String.String
                                                   (Ascii.Ascii true false true true false true false
                                                      false) String.EmptyString))))))))))) n m
                :: String.String (Ascii.Ascii true false true true false true false false)
                     (String.String (Ascii.Ascii true false false true false true true false)
                        (String.String (Ascii.Ascii true true false false false true true false)
                           String.EmptyString)) :: nil)
            else
             mname
               (String.String (Ascii.Ascii false false false true false true true false)
                  (String.String (Ascii.Ascii true false true false false true true false)
                     (String.String (Ascii.Ascii true false false true false true true false)
                        (String.String (Ascii.Ascii true true false false true true true false)
                           (String.String (Ascii.Ascii true false true false false true true false)
                              (String.String (Ascii.Ascii false true true true false true true false)
                                 (String.String
                                    (Ascii.Ascii false true false false false true true false)
                                    (String.String
                                       (Ascii.Ascii true false true false false true true false)
                                       (String.String
                                          (Ascii.Ascii false true false false true true true false)
                                          (String.String
                                             (Ascii.Ascii true true true false false true true false)
                                             (String.String
                                                (Ascii.Ascii true false true true false true false
                                                   false) String.EmptyString))))))))))) n m) /\
           m_central d = List.concat (eye n) /\
           length (m_mats d) = (if heis_added m b then 4 else 2) * (n - 2) /\
           length (m_names d) = (if heis_added m b then 4 else 2) * (n - 2) /\
           List.Forall (mat_ok n m) (m_mats d) /\
           (forall i : nat,
            1 <= i <= n - 2 ->
            List.nth (i - 1) (m_mats d) nil = E n 0 i (BinNums.Zpos BinNums.xH) /\
            List.nth (n - 2 + (i - 1)) (m_mats d) nil = E n i (n - 1) (BinNums.Zpos BinNums.xH) /\
            (heis_added m b = true ->
             List.nth (2 * (n - 2) + (i - 1)) (m_mats d) nil =
             E n 0 i (red m (BinNums.Zneg BinNums.xH)) /\
             List.nth (3 * (n - 2) + (i - 1)) (m_mats d) nil =
             E n i (n - 1) (red m (BinNums.Zneg BinNums.xH))) /\
            is_inverse_to m n (E n 0 i (BinNums.Zpos BinNums.xH))
              (E n 0 i (red m (BinNums.Zneg BinNums.xH))) = true /\
            is_inverse_to m n (E n 0 i (red m (BinNums.Zneg BinNums.xH)))
              (E n 0 i (BinNums.Zpos BinNums.xH)) = true /\
            is_inverse_to m n (E n i (n - 1) (BinNums.Zpos BinNums.xH))
              (E n i (n - 1) (red m (BinNums.Zneg BinNums.xH))) = true /\
            is_inverse_to m n (E n i (n - 1) (red m (BinNums.Zneg BinNums.xH)))
              (E n i (n - 1) (BinNums.Zpos BinNums.xH)) = true) /\
           FamiliesRun.m_closed d = (b || BinInt.Z.eqb m (BinNums.Zpos (BinNums.xO BinNums.xH)))%bool /\
           (FamiliesRun.m_closed d = true -> inverse_closed m n (m_mats d)).
Proof. exact @heisenberg_documented. Qed.
Print Assumptions C15_heisenberg_documented.

(* heisenberg: the constructor succeeds EXACTLY on the documented parameter range (and which error otherwise) *)
Theorem C15_heisenberg_range :
  forall (cand : list (list BinNums.Z) -> list (list BinNums.Z)) (z m : BinNums.Z) (b : bool),
         cand_elem cand ->
         ((exists d : mdef, heisenberg cand z m b = Ok d) <->
          BinInt.Z.le (BinNums.Zpos (BinNums.xI BinNums.xH)) z /\ valid_modulo m = true) /\
         (~ (BinInt.Z.le (BinNums.Zpos (BinNums.xI BinNums.xH)) z /\ valid_modulo m = true) ->
          heisenberg cand z m b = Err AssertionErr).
Proof. exact @heisenberg_range. Qed.
Print Assumptions C15_heisenberg_range.

(* the acceptance check of the matrix families holds for EVERY call (the unbounded version of C15_matrix_families_ok_bounded) *)
Theorem C15_matrix_families_ok_all :
  forall c : FamiliesRun.mcall, mcall_ok c = true.
Proof. exact @matrix_families_ok_all. Qed.
Print Assumptions C15_matrix_families_ok_all.

From V Require Import Base Perm PermProofs Families ClassEnumCycles ClassEnumGeneral DerangementsGeneral ConjugacyClassesGeneral.

(* derangements(n), GENERAL n >= 2: the generators are exactly the permutations of n points without fixed points, each once *)
Theorem C15_derangements_spec :
  forall N : nat,
         2 <= N ->
         exists d : pdef,
           derangements (BinInt.Z.of_nat N) = Ok d /\
           (forall p : list nat, List.In p (p_gens d) <-> Derangement N p) /\
           List.NoDup (p_gens d) /\
           length (p_names d) = length (p_gens d) /\ p_central d = of_nats (List.seq 0 N).
Proof. exact @derangements_spec. Qed.
Print Assumptions C15_derangements_spec.

(* involutive_derangements(n), GENERAL even n >= 2: exactly the fixed-point-free involutions, each once *)
Theorem C15_involutive_derangements_spec :
  forall N : nat,
         2 <= N ->
         PeanoNat.Nat.Even N ->
         exists d : pdef,
           involutive_derangements (BinInt.Z.of_nat N) = Ok d /\
           (forall p : list nat, List.In p (p_gens d) <-> InvDerangement N p) /\
           List.NoDup (p_gens d) /\
           length (p_names d) = length (p_gens d) /\ p_central d = of_nats (List.seq 0 N).
Proof. exact @involutive_derangements_spec. Qed.
Print Assumptions C15_involutive_derangements_spec.

(* and it asserts for n < 2 or odd n *)
Theorem C15_involutive_derangements_bad :
  forall n : BinNums.Z,
         BinInt.Z.lt n (BinNums.Zpos (BinNums.xO BinNums.xH)) \/
         BinInt.Z.modulo n (BinNums.Zpos (BinNums.xO BinNums.xH)) <> BinNums.Z0 ->
         involutive_derangements n = Err AssertionErr.
Proof. exact @involutive_derangements_bad. Qed.
Print Assumptions C15_involutive_derangements_bad.

(* conjugacy_classes(n, classes) with full classes, GENERAL: exactly the permutations whose cycle type (padded with fixed points) is one of the requested ones *)
Theorem C15_conjugacy_classes_spec :
  forall (N : nat) (classes : list (list BinNums.Z)) (shuffles : list (list nat)),
         1 <= N ->
         classes <> nil ->
         (forall cl : list BinNums.Z, List.In cl classes -> class_valid N cl) ->
         exists d : pdef,
           conjugacy_classes (BinInt.Z.of_nat N)
             (List.map (fun cl : list BinNums.Z => (cl, None)) classes) shuffles = 
           Ok d /\
           (forall p : list nat,
            List.In p (p_gens d) <->
            (exists cl : list BinNums.Z,
               List.In cl classes /\ length p = N /\ Perm p /\ cycle_type p = class_type N cl)) /\
           length (p_names d) = length (p_gens d) /\ p_central d = of_nats (List.seq 0 N).
Proof. exact @conjugacy_classes_spec. Qed.
Print Assumptions C15_conjugacy_classes_spec.
