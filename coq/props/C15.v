(** C15 - Library graph families. Statements only (provisional). *)
From Coq Require Import ZArith List.
From V Require Import Base Perm Families FamiliesRun.
