(** C15 - Library graph families. Only statements; every proof is [exact] of a lemma proved elsewhere.

    Part 1 (general in n, no bound): for the index-list families the constructor succeeds inside its
    documented range, returns the documented NUMBER of generators, every generator is a permutation of
    length n, and its ACTION on an arbitrary sequence x of length n (library convention
    new[j] = old[p[j]], [apply_perm]) is the documented one.
    Part 2 (all families, bounded, exhaustive, bound in the statement): [family_ok] by [vm_compute]. *)
From Coq Require Import ZArith List Arith.
From V Require Import Base Perm PermProofs Def Families FamiliesRun FamiliesOk FamiliesProofs FamiliesBounded
                      FamiliesBoundedMatrix.
Import ListNotations.
Open Scope nat_scope.

(* ------------------------------------------------------------------------------------------------ *)
(* lrx(n, k), n >= 3, 1 <= k < n: L, R, X = shift left, shift right, swap of elements 0 and k *)
Theorem C15_lrx : forall n k, 3 <= n -> 1 <= k < n ->
  exists d, lrx (Z.of_nat n) (Z.of_nat k) = Ok d /\ length (p_gens d) = 3 /\ Forall (PermN n) (p_gens d) /\
    forall (A : Type) (dflt : A) (x : list A), length x = n ->
      map (fun p => apply_perm dflt p x) (p_gens d) = [shift_left x; shift_right x; swap_at dflt x 0 k].
Proof. exact lrx_documented. Qed.
Print Assumptions C15_lrx.

(* lx(n), n >= 3: left shift and swap of the first two elements; documented as NOT inverse-closed *)
Theorem C15_lx : forall n, 3 <= n ->
  exists d, lx (Z.of_nat n) = Ok d /\ length (p_gens d) = 2 /\ Forall (PermN n) (p_gens d) /\
    (forall (A : Type) (dflt : A) (x : list A), length x = n ->
      map (fun p => apply_perm dflt p x) (p_gens d) = [shift_left x; swap_at dflt x 0 1]) /\
    is_some (perm_inverse_map (p_gens d)) = false.
Proof. exact lx_documented. Qed.
Print Assumptions C15_lx.

(* top_spin(n, k), n >= k >= 2: shift left, shift right, reversal of the first k elements *)
Theorem C15_top_spin : forall n k, 2 <= k <= n ->
  exists d, top_spin (Z.of_nat n) (Z.of_nat k) = Ok d /\ length (p_gens d) = 3 /\ Forall (PermN n) (p_gens d) /\
    forall (A : Type) (dflt : A) (x : list A), length x = n ->
      map (fun p => apply_perm dflt p x) (p_gens d) = [shift_left x; shift_right x; rev_prefix k x].
Proof. exact top_spin_documented. Qed.
Print Assumptions C15_top_spin.

(* pancake(n), n >= 2: n-1 generators R1..R(n-1); Ri reverses the elements 0..i *)
Theorem C15_pancake : forall n, 2 <= n ->
  exists d, pancake (Z.of_nat n) = Ok d /\ length (p_gens d) = n - 1 /\ length (p_names d) = n - 1 /\
    Forall (PermN n) (p_gens d) /\
    forall (A : Type) (dflt : A) (x : list A) i, length x = n -> 1 <= i <= n - 1 ->
      apply_perm dflt (nth (i - 1) (p_gens d) []) x = rev (firstn (i + 1) x) ++ skipn (i + 1) x.
Proof. exact pancake_documented. Qed.
Print Assumptions C15_pancake.

(* coxeter(n), n >= 2: n-1 generators (0,1), (1,2), ..., (n-2,n-1) *)
Theorem C15_coxeter : forall n, 2 <= n ->
  exists d, coxeter (Z.of_nat n) = Ok d /\ length (p_gens d) = n - 1 /\ length (p_names d) = n - 1 /\
    Forall (PermN n) (p_gens d) /\
    forall (A : Type) (dflt : A) (x : list A) i, length x = n -> i < n - 1 ->
      apply_perm dflt (nth i (p_gens d) []) x = swap_at dflt x i (i + 1).
Proof. exact coxeter_documented. Qed.
Print Assumptions C15_coxeter.

(* cyclic_coxeter(n), n >= 2: n generators (0,1), ..., (n-2,n-1), (0,n-1) *)
Theorem C15_cyclic_coxeter : forall n, 2 <= n ->
  exists d, cyclic_coxeter (Z.of_nat n) = Ok d /\ length (p_gens d) = n /\ length (p_names d) = n /\
    Forall (PermN n) (p_gens d) /\
    forall (A : Type) (dflt : A) (x : list A), length x = n ->
      (forall i, i < n - 1 -> apply_perm dflt (nth i (p_gens d) []) x = swap_at dflt x i (i + 1)) /\
      apply_perm dflt (nth (n - 1) (p_gens d) []) x = swap_at dflt x 0 (n - 1).
Proof. exact cyclic_coxeter_documented. Qed.
Print Assumptions C15_cyclic_coxeter.

(* stars(n), n >= 3: the n-1 transpositions (0 i) *)
Theorem C15_stars : forall n, 3 <= n ->
  exists d, stars (Z.of_nat n) = Ok d /\ length (p_gens d) = n - 1 /\ length (p_names d) = n - 1 /\
    Forall (PermN n) (p_gens d) /\
    forall (A : Type) (dflt : A) (x : list A) i, length x = n -> 1 <= i <= n - 1 ->
      apply_perm dflt (nth (i - 1) (p_gens d) []) x = swap_at dflt x 0 i.
Proof. exact stars_documented. Qed.
Print Assumptions C15_stars.

(* all_transpositions(n), n >= 2: exactly the n(n-1)/2 transpositions *)
Theorem C15_all_transpositions : forall n, 2 <= n ->
  exists d, all_transpositions (Z.of_nat n) = Ok d /\ 2 * length (p_gens d) = n * (n - 1) /\
    length (p_names d) = length (p_gens d) /\ Forall (PermN n) (p_gens d) /\
    (forall p, In p (p_gens d) <-> exists i j, i < j < n /\ p = transp n i j) /\
    forall (A : Type) (dflt : A) (x : list A) i j, length x = n -> i < j < n ->
      apply_perm dflt (transp n i j) x = swap_at dflt x i j.
Proof. exact all_transpositions_documented. Qed.
Print Assumptions C15_all_transpositions.

(* full_reversals(n), n >= 2: exactly the n(n-1)/2 reversals of a substring x[i..j] *)
Theorem C15_full_reversals : forall n, 2 <= n ->
  exists d, full_reversals (Z.of_nat n) = Ok d /\ 2 * length (p_gens d) = n * (n - 1) /\
    length (p_names d) = length (p_gens d) /\ Forall (PermN n) (p_gens d) /\
    (forall p, In p (p_gens d) <-> exists i j, i < j < n /\ p = gen_rev_segment n i j) /\
    forall (A : Type) (dflt : A) (x : list A) i j, length x = n -> i < j < n ->
      apply_perm dflt (gen_rev_segment n i j) x
      = firstn i x ++ rev (firstn (j + 1 - i) (skipn i x)) ++ skipn (j + 1) x.
Proof. exact full_reversals_documented. Qed.
Print Assumptions C15_full_reversals.

(* down_cycles(n), n >= 2: exactly the n(n-1)/2 cycles (i, i+1, ..., j); each rotates x[i..j] by one *)
Theorem C15_down_cycles : forall n, 2 <= n ->
  exists d, down_cycles (Z.of_nat n) = Ok d /\ 2 * length (p_gens d) = n * (n - 1) /\
    length (p_names d) = length (p_gens d) /\ Forall (PermN n) (p_gens d) /\
    (forall p, In p (p_gens d) <-> exists i j, i < j < n /\ p = gen_cycle n i j) /\
    forall (A : Type) (dflt : A) (x : list A) i j, length x = n -> i < j < n ->
      apply_perm dflt (gen_cycle n i j) x
      = firstn i x ++ firstn (j - i) (skipn (i + 1) x) ++ firstn 1 (skipn i x) ++ skipn (j + 1) x.
Proof. exact down_cycles_documented. Qed.
Print Assumptions C15_down_cycles.

(* prefix_cycles(n), n >= 2: the n-1 cycles (0 1 ... j-1), j = 2..n *)
Theorem C15_prefix_cycles : forall n, 2 <= n ->
  exists d, prefix_cycles (Z.of_nat n) = Ok d /\ length (p_gens d) = n - 1 /\ length (p_names d) = n - 1 /\
    Forall (PermN n) (p_gens d) /\
    forall (A : Type) (dflt : A) (x : list A) j, length x = n -> 2 <= j <= n ->
      nth (j - 2) (p_gens d) [] = gen_cycle n 0 (j - 1) /\
      apply_perm dflt (nth (j - 2) (p_gens d) []) x = rot_segment 0 (j - 1) x.
Proof. exact prefix_cycles_documented. Qed.
Print Assumptions C15_prefix_cycles.

(* consecutive_k_cycles(n, k), 1 <= k <= n: the n-k+1 cycles (i, i+1, ..., i+k-1), i = 0..n-k *)
Theorem C15_consecutive_k_cycles : forall n k, 1 <= k <= n ->
  exists d, consecutive_k_cycles (Z.of_nat n) (Z.of_nat k) = Ok d /\
    length (p_gens d) = n - k + 1 /\ length (p_names d) = n - k + 1 /\ Forall (PermN n) (p_gens d) /\
    forall (A : Type) (dflt : A) (x : list A) i, length x = n -> i <= n - k ->
      nth i (p_gens d) [] = gen_cycle n i (i + k - 1) /\
      apply_perm dflt (nth i (p_gens d) []) x = rot_segment i (i + k - 1) x.
Proof. exact consecutive_k_cycles_documented. Qed.
Print Assumptions C15_consecutive_k_cycles.

(* the permutation written gen_cycle n i j IS the cycle (i, i+1, ..., j): t -> t+1 for i <= t < j, j -> i *)
Theorem C15_gen_cycle_is_the_cycle : forall n i j x, i <= j -> j < n -> x < n ->
  nth x (gen_cycle n i j) 0 = if x <? i then x else if x <? j then x + 1 else if x =? j then i else x.
Proof. exact gen_cycle_is_the_cycle. Qed.
Print Assumptions C15_gen_cycle_is_the_cycle.

(* ------------------------------------------------------------------------------------------------ *)
(* what the boolean acceptance check means *)
Theorem C15_family_ok_meaning : forall c, pcall_ok c = true ->
  match run_pcall c with
  | Err _ => pexpect c = None
  | Ok d => exists size count closed, pexpect c = Some (size, count, closed) /\
      Forall (fun p => Perm p /\ length p = size) (p_gens d) /\
      length (p_gens d) = count /\ length (p_names d) = count /\
      p_central d = zrange 0 (Z.of_nat size) /\
      (closed = true <-> forall p, In p (p_gens d) -> In (inverse_perm p) (p_gens d))
  end.
Proof. exact pcall_ok_sound. Qed.
Print Assumptions C15_family_ok_meaning.

(* ALL deterministic permutation families, every parameter tuple with n in -1..bound (bound per family):
   the constructor raises exactly outside its range; inside, every generator is a permutation of the
   documented size, the count is the documented formula, the inverse-closed flag is the documented one *)
Theorem C15_perm_families_ok_bounded :
  pfamilies_ok
    [(FAllTranspositions, 12); (FTransposons, 10); (FBlockInterchange, 9); (FFullReversals, 12);
     (FSignedReversals, 9); (FLrx, 12); (FLx, 16); (FTopSpin, 12); (FCoxeter, 16); (FCyclicCoxeter, 16);
     (FPancake, 16); (FCubicPancake, 12); (FBurntPancake, 12); (FThreeCycles, 9); (FThreeCycles0ij, 10);
     (FThreeCycles01i, 16); (FDerangements, 7); (FInvolutiveDerangements, 10); (FStars, 16);
     (FGeneralizedStars, 10); (FRapaportM1, 16); (FRapaportM2, 16); (FAllCycles, 7); (FLslCycles, 16);
     (FWrappedKCycles, 10); (FLarx, 16); (FIncreasingKCycles, 9); (FSheveleva2, 12); (FKoltsov3, 8);
     (FConsecutiveKCycles, 10); (FDownCycles, 12); (FPrefixCycles, 16)]%Z = true.
Proof. exact perm_families_ok_bounded. Qed.
Print Assumptions C15_perm_families_ok_bounded.

(* conjugacy_classes(n, {lens: None}) is exactly the conjugacy class, for every partition of every m <= n <= 7 *)
Theorem C15_conjugacy_classes_ok_upto_7 : conj_ok_upto 7 = true.
Proof. exact conjugacy_classes_ok_upto_7. Qed.
Print Assumptions C15_conjugacy_classes_ok_upto_7.

(* matrix families: n in -1..bound, modulo in test_moduli (valid and invalid), add_inverses both *)
Theorem C15_matrix_families_ok_bounded :
  mfamilies_ok [(FHeisenberg, 5); (FSlFundRoots, 4); (FSlRootWeyl, 5)]%Z = true.
Proof. exact matrix_families_ok_bounded. Qed.
Print Assumptions C15_matrix_families_ok_bounded.
