(** C09 - An early-stopped BFS returns exactly the documented prefix of the full BFS. Statement only. *)
From Coq Require Import ZArith List Arith Sorting.Sorted.
From V Require Import Base Tensor Graph GraphProofs GraphImpl Bfs BfsStep BfsProofs.
Import ListNotations.

Theorem C09_bfs_prefix :
  forall (G : impl) (cfg : bfs_cfg) (U : state -> Prop),
  closed state (acts G) U ->
  (forall a b, U a -> U b -> hashf G a = hashf G b -> a = b) ->
  (is_identity G = true -> forall a, U a -> unword G (hashf G a) = a) ->
  (inv_closed G = true -> symmetric_on state (acts G) U) ->
  (1 <= batch_size cfg)%Z ->
  forall starts, (forall s, In s starts -> U s) -> starts <> [] ->
  forall o, bfs G cfg starts = Ok o ->
  let L := fun i => layer state st_eq_dec (acts G) starts i in
  let D := length (sizes o) in
  (1 <= D)%nat /\
  sizes o = map (fun i => length (L i)) (seq 0 D) /\
  (forall i, (i < D)%nat -> L i <> []) /\
  (D - 1 <= N.to_nat (max_diameter cfg))%nat /\
  (* completion is reported only when an empty next layer was observed *)
  (completed o = true -> L D = []) /\
  (* an interrupted run stopped for one of the three documented reasons, at its last layer *)
  (completed o = false ->
      (D - 1 = N.to_nat (max_diameter cfg))%nat
      \/ (max_explore cfg <= Z.of_nat (length (L (D - 1)%nat)))%Z
      \/ (exists f l lh, stop cfg = Some f /\ f (D - 1)%nat l lh = true /\ set_eq l (L (D - 1)%nat))) /\
  (forall j, (1 <= j)%nat -> (j < D - 1)%nat -> (Z.of_nat (length (L j)) < max_explore cfg)%Z) /\
  (* stored layers are the true layers, stored exactly per the threshold rule *)
  (forall k l, In (k, l) (layers o) -> (k < D)%nat /\ NoDup l /\ set_eq l (L k)) /\
  NoDup (map fst (layers o)) /\
  (forall k, (k < D)%nat ->
      ((exists l, In (k, l) (layers o)) <->
       k = 0%nat \/ (Z.of_nat (length (L k)) <= max_store cfg)%Z \/ (completed o = true /\ k = (D - 1)%nat))) /\
  (* per-layer hashes: one strictly sorted list per reported layer, the hashes of exactly that layer *)
  (ret_hashes cfg = false -> layer_hashes o = []) /\
  (ret_hashes cfg = true -> length (layer_hashes o) = D /\
      forall i, (i < D)%nat ->
        let hs := nth i (layer_hashes o) [] in
        StronglySorted Z.lt hs /\ length hs = length (L i) /\
        (forall h, In h hs <-> exists t, In t (L i) /\ hashf G t = h)) /\
  (* the callback is called on layers 1,2,... in order, once each *)
  callback_trace o = seq 1 (length (callback_trace o)) /\ (length (callback_trace o) <= D - 1)%nat.
Proof. exact bfs_prefix. Qed.
Print Assumptions C09_bfs_prefix.

From V Require Import Base Tensor Graph GraphProofs GraphImpl Hash Def Paths BfsStep Bfs BfsRun BfsProofs PathsProofs Mitm MitmProofs PathRun MitmFind Interactive InteractiveBetween InstPerm InstSmall InstBfs InstPaths.

(* END TO END for impl_of d: the documented prefix with only NoColl left *)
Theorem C09_perm_prefix :
  forall (d : gdesc) (cfg : bfs_cfg),
         wf_perm_desc d ->
         flag_sound d ->
         NoCollOn (impl_of d) (Ustates d) ->
         1 <= batch_size cfg ->
         forall starts : list state,
         (forall s : state, In s starts -> Ustates d s) ->
         starts <> [] ->
         forall o : bfs_out,
         bfs (impl_of d) cfg starts = Ok o ->
         let L := fun i : nat => layer state st_eq_dec (acts (impl_of d)) starts i in
         let D := length (sizes o) in
         (1 <= D)%nat /\
         sizes o = map (fun i : nat => length (L i)) (seq 0 D) /\
         (forall i : nat, (i < D)%nat -> L i <> []) /\
         (D - 1 <= N.to_nat (max_diameter cfg))%nat /\
         (completed o = true -> L D = []) /\
         (completed o = false ->
          (D - 1)%nat = N.to_nat (max_diameter cfg) \/
          max_explore cfg <= Z.of_nat (length (L (D - 1)%nat)) \/
          (exists (f : nat -> list state -> list Z -> bool) (l : list state) 
           (lh : list Z), stop cfg = Some f /\ f (D - 1)%nat l lh = true /\ set_eq l (L (D - 1)%nat))) /\
         (forall j : nat,
          (1 <= j)%nat -> (j < D - 1)%nat -> Z.of_nat (length (L j)) < max_explore cfg) /\
         (forall (k : nat) (l : list state),
          In (k, l) (layers o) -> (k < D)%nat /\ NoDup l /\ set_eq l (L k)) /\
         NoDup (map fst (layers o)) /\
         (forall k : nat,
          (k < D)%nat ->
          (exists l : list state, In (k, l) (layers o)) <->
          k = 0%nat \/
          Z.of_nat (length (L k)) <= max_store cfg \/ completed o = true /\ k = (D - 1)%nat) /\
         (ret_hashes cfg = false -> layer_hashes o = []) /\
         (ret_hashes cfg = true ->
          length (layer_hashes o) = D /\
          (forall i : nat,
           (i < D)%nat ->
           let hs := nth i (layer_hashes o) [] in
           StronglySorted Z.lt hs /\
           length hs = length (L i) /\
           (forall h : Z, In h hs <-> (exists t : state, In t (L i) /\ hashf (impl_of d) t = h)))) /\
         callback_trace o = seq 1 (length (callback_trace o)) /\
         (length (callback_trace o) <= D - 1)%nat.
Proof. exact @bfs_perm_prefix. Qed.
Print Assumptions C09_perm_prefix.

(* single-word identity hash: no hash hypothesis *)
Theorem C09_perm_prefix_unconditional :
  forall (d : gdesc) (cfg : bfs_cfg),
         wf_perm_desc d ->
         flag_sound d ->
         g_hasher d = HIdentity ->
         single_word d ->
         1 <= batch_size cfg ->
         forall starts : list state,
         (forall s : state, In s starts -> Ustates d s) ->
         starts <> [] ->
         forall o : bfs_out,
         bfs (impl_of d) cfg starts = Ok o ->
         let L := fun i : nat => layer state st_eq_dec (acts (impl_of d)) starts i in
         let D := length (sizes o) in
         (1 <= D)%nat /\
         sizes o = map (fun i : nat => length (L i)) (seq 0 D) /\
         (forall i : nat, (i < D)%nat -> L i <> []) /\
         (D - 1 <= N.to_nat (max_diameter cfg))%nat /\
         (completed o = true -> L D = []) /\
         (completed o = false ->
          (D - 1)%nat = N.to_nat (max_diameter cfg) \/
          max_explore cfg <= Z.of_nat (length (L (D - 1)%nat)) \/
          (exists (f : nat -> list state -> list Z -> bool) (l : list state) 
           (lh : list Z), stop cfg = Some f /\ f (D - 1)%nat l lh = true /\ set_eq l (L (D - 1)%nat))) /\
         (forall j : nat,
          (1 <= j)%nat -> (j < D - 1)%nat -> Z.of_nat (length (L j)) < max_explore cfg) /\
         (forall (k : nat) (l : list state),
          In (k, l) (layers o) -> (k < D)%nat /\ NoDup l /\ set_eq l (L k)) /\
         NoDup (map fst (layers o)) /\
         (forall k : nat,
          (k < D)%nat ->
          (exists l : list state, In (k, l) (layers o)) <->
          k = 0%nat \/
          Z.of_nat (length (L k)) <= max_store cfg \/ completed o = true /\ k = (D - 1)%nat) /\
         (ret_hashes cfg = false -> layer_hashes o = []) /\
         (ret_hashes cfg = true ->
          length (layer_hashes o) = D /\
          (forall i : nat,
           (i < D)%nat ->
           let hs := nth i (layer_hashes o) [] in
           StronglySorted Z.lt hs /\
           length hs = length (L i) /\
           (forall h : Z, In h hs <-> (exists t : state, In t (L i) /\ hashf (impl_of d) t = h)))) /\
         callback_trace o = seq 1 (length (callback_trace o)) /\
         (length (callback_trace o) <= D - 1)%nat.
Proof. exact @bfs_perm_identity_hash_prefix_unconditional. Qed.
Print Assumptions C09_perm_prefix_unconditional.

From V Require Import Base Tensor Graph GraphProofs GraphImpl Hash Matrix MatrixProofs Def Paths BfsStep Bfs BfsRun BfsProofs PathsProofs Mitm MitmProofs PathRun MitmFind InstShared InstMatrix InstMatrixAlgebra InstMatrixBfs.

(* END TO END for matrix graphs: the documented prefix with only NoColl left *)
Theorem C09_matrix_prefix :
  forall (d : gdesc) (cfg : bfs_cfg),
         wf_matrix_desc d = true ->
         NoCollMat d ->
         1 <= batch_size cfg ->
         forall starts : list state,
         (forall s : state, In s starts -> Umat d s) ->
         starts <> [] ->
         forall o : bfs_out,
         bfs (impl_of d) cfg starts = Ok o ->
         let L := fun i : nat => layer state st_eq_dec (acts (impl_of d)) starts i in
         let D := length (sizes o) in
         (1 <= D)%nat /\
         sizes o = map (fun i : nat => length (L i)) (seq 0 D) /\
         (forall i : nat, (i < D)%nat -> L i <> []) /\
         (D - 1 <= N.to_nat (max_diameter cfg))%nat /\
         (completed o = true -> L D = []) /\
         (completed o = false ->
          (D - 1)%nat = N.to_nat (max_diameter cfg) \/
          max_explore cfg <= Z.of_nat (length (L (D - 1)%nat)) \/
          (exists (f : nat -> list state -> list Z -> bool) (l : list state) 
           (lh : list Z), stop cfg = Some f /\ f (D - 1)%nat l lh = true /\ set_eq l (L (D - 1)%nat))) /\
         (forall j : nat,
          (1 <= j)%nat -> (j < D - 1)%nat -> Z.of_nat (length (L j)) < max_explore cfg) /\
         (forall (k : nat) (l : list state),
          In (k, l) (layers o) -> (k < D)%nat /\ NoDup l /\ set_eq l (L k)) /\
         NoDup (map fst (layers o)) /\
         (forall k : nat,
          (k < D)%nat ->
          (exists l : list state, In (k, l) (layers o)) <->
          k = 0%nat \/
          Z.of_nat (length (L k)) <= max_store cfg \/ completed o = true /\ k = (D - 1)%nat) /\
         (ret_hashes cfg = false -> layer_hashes o = []) /\
         (ret_hashes cfg = true ->
          length (layer_hashes o) = D /\
          (forall i : nat,
           (i < D)%nat ->
           let hs := nth i (layer_hashes o) [] in
           StronglySorted Z.lt hs /\
           length hs = length (L i) /\
           (forall h : Z, In h hs <-> (exists t : state, In t (L i) /\ hashf (impl_of d) t = h)))) /\
         callback_trace o = seq 1 (length (callback_trace o)) /\
         (length (callback_trace o) <= D - 1)%nat.
Proof. exact @matrix_bfs_prefix. Qed.
Print Assumptions C09_matrix_prefix.
