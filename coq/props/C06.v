(** C06 - Beam search never reports a path that does not exist, and is exact when unpruned. Statements only: every proof is [exact] of a lemma proved elsewhere.
    For EVERY selection oracle (the unstable argsort), score function, beam width and step budget. reach [start] k c = a walk of exactly k edges from start to c exists.
    The ball theorem needs an inverse map (inverse-closed generators): on non-inverse-closed graphs the statement is false (known finding F15).
    (Statements are the lemmas' closed types as printed by Coq, hence the qualified names.) *)
From V Require Import Base Tensor Graph GraphProofs GraphImpl Def Paths BfsStep PathsProofs Beam BeamProofs.

(* simple mode: success means a real walk of exactly the reported length; a returned path replays to the central state and has that length *)
Theorem C06_simple_sound_noball :
  forall (G Ginv : impl) (U : state -> Prop),
         closed state (acts G) U ->
         closed state (acts Ginv) U ->
         (forall a b : state, U a -> U b -> hashf G a = hashf G b -> a = b) ->
         (is_identity G = true -> forall a : state, U a -> unword G (hashf G a) = a) ->
         length (acts Ginv) = length (acts G) ->
         (forall (i : nat) (g gi : state -> state) (x : state),
          List.nth_error (acts G) i = Some g ->
          List.nth_error (acts Ginv) i = Some gi -> U x -> g (gi x) = x /\ gi (g x) = x) ->
         forall start : state,
         U start ->
         U (central G) ->
         forall (inv_map : option (list nat)) (width : nat) (return_path : bool)
           (max_steps : BinNums.N) (sels : list selection) (r : beam_result),
         search_simple G Ginv inv_map width return_path None start max_steps sels = Ok r ->
         path_found r = true ->
         reach state (acts G) (start :: nil) (path_length r) (central G) /\
         (forall p : list nat,
          bpath r = Some p ->
          length p = path_length r /\ run state (acts G) start p = Some (central G)).
Proof. exact @simple_sound_noball. Qed.
Print Assumptions C06_simple_sound_noball.

(* the same with a pre-computed BFS ball, on inverse-closed graphs *)
Theorem C06_simple_sound_ball :
  forall (G Ginv : impl) (U : state -> Prop),
         closed state (acts G) U ->
         closed state (acts Ginv) U ->
         (forall a b : state, U a -> U b -> hashf G a = hashf G b -> a = b) ->
         (is_identity G = true -> forall a : state, U a -> unword G (hashf G a) = a) ->
         length (acts Ginv) = length (acts G) ->
         (forall (i : nat) (g gi : state -> state) (x : state),
          List.nth_error (acts G) i = Some g ->
          List.nth_error (acts Ginv) i = Some gi -> U x -> g (gi x) = x /\ gi (g x) = x) ->
         forall start : state,
         U start ->
         U (central G) ->
         forall (m : list nat) (lh : list (list BinNums.Z)) (ns width : nat) 
           (return_path : bool) (max_steps : BinNums.N) (sels : list selection) 
           (r : beam_result),
         (forall (i : nat) (g : state -> state),
          List.nth_error (acts G) i = Some g ->
          exists g' : state -> state,
            List.nth_error (acts G) (List.nth i m 0) = Some g' /\
            (forall x : state, U x -> g' (g x) = x)) ->
         inv_closed G = true ->
         ball_ok G (central G) lh ->
         length lh = ns ->
         1 <= ns ->
         search_simple G Ginv (Some m) width return_path (Some (lh, ns)) start max_steps sels = Ok r ->
         path_found r = true ->
         reach state (acts G) (start :: nil) (path_length r) (central G) /\
         (forall p : list nat,
          bpath r = Some p ->
          length p = path_length r /\ run state (acts G) start p = Some (central G)).
Proof. exact @simple_sound_ball. Qed.
Print Assumptions C06_simple_sound_ball.

(* advanced mode, any history depth: success means a real walk of exactly the reported length *)
Theorem C06_advanced_sound :
  forall (G : impl) (U : state -> Prop),
         closed state (acts G) U ->
         (forall a b : state, U a -> U b -> hashf G a = hashf G b -> a = b) ->
         (is_identity G = true -> forall a : state, U a -> unword G (hashf G a) = a) ->
         forall start : state,
         U start ->
         forall (width history : nat) (max_steps : BinNums.N) (sels : list selection)
           (r : beam_result),
         search_advanced G width history start (central G) max_steps sels = Ok r ->
         path_found r = true -> reach state (acts G) (start :: nil) (path_length r) (central G).
Proof. exact @advanced_sound. Qed.
Print Assumptions C06_advanced_sound.

(* hence the reported length is never below the true distance *)
Theorem C06_simple_noball_ge_dist :
  forall (G Ginv : impl) (U : state -> Prop),
         closed state (acts G) U ->
         closed state (acts Ginv) U ->
         (forall a b : state, U a -> U b -> hashf G a = hashf G b -> a = b) ->
         (is_identity G = true -> forall a : state, U a -> unword G (hashf G a) = a) ->
         length (acts Ginv) = length (acts G) ->
         (forall (i : nat) (g gi : state -> state) (x : state),
          List.nth_error (acts G) i = Some g ->
          List.nth_error (acts Ginv) i = Some gi -> U x -> g (gi x) = x /\ gi (g x) = x) ->
         forall start : state,
         U start ->
         U (central G) ->
         forall (inv_map : option (list nat)) (width : nat) (return_path : bool)
           (max_steps : BinNums.N) (sels : list selection) (r : beam_result) 
           (d : nat),
         search_simple G Ginv inv_map width return_path None start max_steps sels = Ok r ->
         path_found r = true ->
         dist_is state (acts G) (start :: nil) (central G) d -> d <= path_length r.
Proof. exact @simple_noball_ge_dist. Qed.
Print Assumptions C06_simple_noball_ge_dist.

(* no assertion can fire without a ball (the only model error is an inconsistent oracle recording) *)
Theorem C06_simple_total_noball :
  forall (G Ginv : impl) (U : state -> Prop),
         closed state (acts G) U ->
         closed state (acts Ginv) U ->
         (forall a b : state, U a -> U b -> hashf G a = hashf G b -> a = b) ->
         (is_identity G = true -> forall a : state, U a -> unword G (hashf G a) = a) ->
         length (acts Ginv) = length (acts G) ->
         (forall (i : nat) (g gi : state -> state) (x : state),
          List.nth_error (acts G) i = Some g ->
          List.nth_error (acts Ginv) i = Some gi -> U x -> g (gi x) = x /\ gi (g x) = x) ->
         forall start : state,
         U start ->
         U (central G) ->
         forall (inv_map : option (list nat)) (width : nat) (return_path : bool)
           (max_steps : BinNums.N) (sels : list selection),
         1 <= width ->
         List.Forall (fun _ : selection => True) sels ->
         (exists r : beam_result,
            search_simple G Ginv inv_map width return_path None start max_steps sels = Ok r) \/
         search_simple G Ginv inv_map width return_path None start max_steps sels = Err RuntimeErr.
Proof. exact @simple_total_noball. Qed.
Print Assumptions C06_simple_total_noball.

(* unpruned (beam wider than the orbit) with budget >= distance: success with exactly the shortest distance *)
Theorem C06_simple_unpruned_exact :
  forall (G Ginv : impl) (U : state -> Prop),
         closed state (acts G) U ->
         (forall a b : state, U a -> U b -> hashf G a = hashf G b -> a = b) ->
         (is_identity G = true -> forall a : state, U a -> unword G (hashf G a) = a) ->
         forall start : state,
         U start ->
         U (central G) ->
         forall (inv_map : option (list nat)) (width : nat) (max_steps : BinNums.N) (d : nat),
         (forall l : list state,
          List.NoDup l -> (forall t : state, List.In t l -> U t) -> length l < width) ->
         dist_is state (acts G) (start :: nil) (central G) d ->
         d <= BinNat.N.to_nat max_steps ->
         exists r : beam_result,
           search_simple G Ginv inv_map width false None start max_steps nil = Ok r /\
           path_found r = true /\ path_length r = d.
Proof. exact @simple_unpruned_exact. Qed.
Print Assumptions C06_simple_unpruned_exact.

(* the same in advanced mode for EVERY history depth (stale ring-buffer rows only ban states at smaller distance) *)
Theorem C06_advanced_unpruned_exact :
  forall (G : impl) (U : state -> Prop),
         closed state (acts G) U ->
         (forall a b : state, U a -> U b -> hashf G a = hashf G b -> a = b) ->
         (is_identity G = true -> forall a : state, U a -> unword G (hashf G a) = a) ->
         forall start : state,
         U start ->
         forall (width history : nat) (max_steps : BinNums.N) (d : nat),
         (forall l : list state,
          List.NoDup l -> (forall t : state, List.In t l -> U t) -> length l < width) ->
         dist_is state (acts G) (start :: nil) (central G) d ->
         d <= BinNat.N.to_nat max_steps ->
         exists r : beam_result,
           search_advanced G width history start (central G) max_steps nil = Ok r /\
           path_found r = true /\ path_length r = d.
Proof. exact @advanced_unpruned_exact. Qed.
Print Assumptions C06_advanced_unpruned_exact.

From V Require Import Base Tensor Graph GraphProofs GraphImpl Hash Def Paths BfsStep Bfs BfsRun BfsProofs PathsProofs Mitm MitmProofs PathRun MitmFind Interactive InteractiveBetween Beam BeamProofs Walks WalksProofs AlgoRun InstPerm InstSmall InstBfs InstPaths InstShared InstMatrix InstMatrixBfs InstBeam InstWalks.

(* the unpruned-beam theorem with the ORBIT of the start state as universe (the right instantiation: a beam wider than the orbit, not than the set of all conceivable states) *)
Theorem C06_orbit_simple_unpruned_exact :
  forall (G Ginv : impl) (U : state -> Prop),
         closed state (acts G) U ->
         (forall a b : state, U a -> U b -> hashf G a = hashf G b -> a = b) ->
         (is_identity G = true -> forall a : state, U a -> unword G (hashf G a) = a) ->
         forall start : state,
         U start ->
         forall (inv_map : option (list nat)) (width : nat) (max_steps : BinNums.N) (k : nat),
         wider_than_orbit G start width ->
         dist_is state (acts G) (start :: nil) (central G) k ->
         k <= BinNat.N.to_nat max_steps ->
         exists r : beam_result,
           search_simple G Ginv inv_map width false None start max_steps nil = Ok r /\
           path_found r = true /\ path_length r = k.
Proof. exact @orbit_simple_unpruned_exact. Qed.
Print Assumptions C06_orbit_simple_unpruned_exact.

(* END TO END on env_of d (well-formed permutation description): a reported success is a real walk of the reported length and a returned path replays to the central state; only NoColl remains *)
Theorem C06_perm_simple_sound_noball :
  forall (d : gdesc) (inv_mats : list (list (list BinNums.Z))) (e : path_env),
         wf_perm_desc d ->
         env_of d inv_mats = Some e ->
         NoCollOn (impl_of d) (Ustates d) ->
         forall start : state,
         Ustates d start ->
         forall (inv_map : option (list nat)) (width : nat) (return_path : bool)
           (max_steps : BinNums.N) (sels : list selection) (r : beam_result),
         search_simple (pe_G e) (pe_Ginv e) inv_map width return_path None start max_steps sels =
         Ok r ->
         path_found r = true ->
         reach state (acts (impl_of d)) (start :: nil) (path_length r) (g_central d) /\
         (forall p : list nat,
          bpath r = Some p ->
          length p = path_length r /\ run state (acts (impl_of d)) start p = Some (g_central d)).
Proof. exact @beam_perm_simple_sound_noball. Qed.
Print Assumptions C06_perm_simple_sound_noball.

(* the same with the ball computed by the BFS model, as run_beam does *)
Theorem C06_perm_simple_sound_ball_e2e :
  forall (d : gdesc) (inv_mats : list (list (list BinNums.Z))) (e : path_env),
         wf_perm_desc d ->
         env_of d inv_mats = Some e ->
         NoCollOn (impl_of d) (Ustates d) ->
         forall start : state,
         Ustates d start ->
         forall (batch : BinNums.Z) (depth : BinNums.N) (explore : BinNums.Z)
           (lh : list (list BinNums.Z)) (ns width : nat) (return_path : bool) 
           (max_steps : BinNums.N) (sels : list selection) (r : beam_result),
         inv_closed (pe_G e) = true ->
         BinInt.Z.le (BinNums.Zpos BinNums.xH) batch ->
         ball_of (pe_G e) batch depth explore (g_central d :: nil) = Ok (lh, ns) ->
         search_simple (pe_G e) (pe_Ginv e) (pe_invmap e) width return_path 
           (Some (lh, ns)) start max_steps sels = Ok r ->
         path_found r = true ->
         reach state (acts (impl_of d)) (start :: nil) (path_length r) (g_central d) /\
         (forall p : list nat,
          bpath r = Some p ->
          length p = path_length r /\ run state (acts (impl_of d)) start p = Some (g_central d)).
Proof. exact @beam_perm_simple_sound_ball_e2e. Qed.
Print Assumptions C06_perm_simple_sound_ball_e2e.

(* advanced mode, one-word identity hash: no hash hypothesis *)
Theorem C06_perm_advanced_sound_unconditional :
  forall (d : gdesc) (inv_mats : list (list (list BinNums.Z))) (e : path_env),
         wf_perm_desc d ->
         env_of d inv_mats = Some e ->
         g_hasher d = HIdentity ->
         single_word d ->
         forall start : state,
         Ustates d start ->
         forall (width history : nat) (max_steps : BinNums.N) (sels : list selection)
           (r : beam_result),
         search_advanced (pe_G e) width history start (g_central d) max_steps sels = Ok r ->
         path_found r = true ->
         reach state (acts (impl_of d)) (start :: nil) (path_length r) (g_central d).
Proof. exact @beam_perm_advanced_sound_unconditional. Qed.
Print Assumptions C06_perm_advanced_sound_unconditional.

(* a beam wider than n!+1, budget >= distance: success with exactly the shortest distance - no hypothesis beyond well-formedness (one-word identity hash) *)
Theorem C06_perm_simple_unpruned_exact_fact_unconditional :
  forall (d : gdesc) (inv_mats : list (list (list BinNums.Z))) (e : path_env),
         wf_perm_desc d ->
         env_of d inv_mats = Some e ->
         g_hasher d = HIdentity ->
         single_word d ->
         forall start : state,
         Ustates d start ->
         forall (inv_map : option (list nat)) (width : nat) (max_steps : BinNums.N) (k : nat),
         Factorial.fact (desc_n d) + 1 < width ->
         dist_is state (acts (impl_of d)) (start :: nil) (g_central d) k ->
         k <= BinNat.N.to_nat max_steps ->
         exists r : beam_result,
           search_simple (pe_G e) (pe_Ginv e) inv_map width false None start max_steps nil = Ok r /\
           path_found r = true /\ path_length r = k.
Proof. exact @beam_perm_simple_unpruned_exact_fact_unconditional. Qed.
Print Assumptions C06_perm_simple_unpruned_exact_fact_unconditional.

(* the same for the advanced mode and every history depth *)
Theorem C06_perm_advanced_unpruned_exact_fact_unconditional :
  forall (d : gdesc) (inv_mats : list (list (list BinNums.Z))) (e : path_env),
         wf_perm_desc d ->
         env_of d inv_mats = Some e ->
         g_hasher d = HIdentity ->
         single_word d ->
         forall start : state,
         Ustates d start ->
         forall (width history : nat) (max_steps : BinNums.N) (k : nat),
         Factorial.fact (desc_n d) + 1 < width ->
         dist_is state (acts (impl_of d)) (start :: nil) (g_central d) k ->
         k <= BinNat.N.to_nat max_steps ->
         exists r : beam_result,
           search_advanced (pe_G e) width history start (g_central d) max_steps nil = Ok r /\
           path_found r = true /\ path_length r = k.
Proof. exact @beam_perm_advanced_unpruned_exact_fact_unconditional. Qed.
Print Assumptions C06_perm_advanced_unpruned_exact_fact_unconditional.

(* END TO END for matrix groups (wf_matrix_core, wf_inv_mats, NoCollMat) *)
Theorem C06_matrix_simple_sound_noball :
  forall (d : gdesc) (inv_mats : list (list (list BinNums.Z))) (e : path_env),
         wf_matrix_core d = true ->
         wf_inv_mats d inv_mats = true ->
         env_of d inv_mats = Some e ->
         NoCollMat d ->
         forall start : state,
         Umat d start ->
         forall (inv_map : option (list nat)) (width : nat) (return_path : bool)
           (max_steps : BinNums.N) (sels : list selection) (r : beam_result),
         search_simple (pe_G e) (pe_Ginv e) inv_map width return_path None start max_steps sels =
         Ok r ->
         path_found r = true ->
         reach state (acts (impl_of d)) (start :: nil) (path_length r) (g_central d) /\
         (forall p : list nat,
          bpath r = Some p ->
          length p = path_length r /\ run state (acts (impl_of d)) start p = Some (g_central d)).
Proof. exact @beam_matrix_simple_sound_noball. Qed.
Print Assumptions C06_matrix_simple_sound_noball.

(* matrix groups, unpruned advanced mode exact *)
Theorem C06_matrix_advanced_unpruned_exact :
  forall (d : gdesc) (inv_mats : list (list (list BinNums.Z))) (e : path_env),
         wf_matrix_core d = true ->
         wf_inv_mats d inv_mats = true ->
         env_of d inv_mats = Some e ->
         NoCollMat d ->
         forall start : state,
         Umat d start ->
         forall (width history : nat) (max_steps : BinNums.N) (k : nat),
         wider_than_orbit (impl_of d) start width ->
         dist_is state (acts (impl_of d)) (start :: nil) (g_central d) k ->
         k <= BinNat.N.to_nat max_steps ->
         exists r : beam_result,
           search_advanced (pe_G e) width history start (g_central d) max_steps nil = Ok r /\
           path_found r = true /\ path_length r = k.
Proof. exact @beam_matrix_advanced_unpruned_exact. Qed.
Print Assumptions C06_matrix_advanced_unpruned_exact.
