(** C08 - The explicit graph exported from a BFS equals the true Schreier graph. Statements only: every proof is [exact] of a lemma proved elsewhere.
    Statements about the BFS model with return_all_edges: L i = the true layers (distance classes); edges are pairs of HASHES, which NoColl identifies with states;
    the renumbering / naming layer (Export.v) is tied to the implementation by the correspondence check.
    (Statements are the lemmas' closed types as printed by Coq, hence the qualified names.) *)
From V Require Import Base Tensor Graph GraphProofs GraphImpl Bfs BfsStep BfsProofs BfsEdges.

(* completed run: the edge list is exactly {(v, g v) | v in the orbit, g a generator} *)
Theorem C08_edges_completed :
  forall (G : impl) (cfg : bfs_cfg) (U : state -> Prop),
         closed state (acts G) U ->
         (forall a b : state, U a -> U b -> hashf G a = hashf G b -> a = b) ->
         (is_identity G = true -> forall a : state, U a -> unword G (hashf G a) = a) ->
         (inv_closed G = true -> symmetric_on state (acts G) U) ->
         BinInt.Z.le (BinNums.Zpos BinNums.xH) (batch_size cfg) ->
         forall starts : list state,
         (forall s : state, List.In s starts -> U s) ->
         starts <> nil ->
         ret_edges cfg = true ->
         forall (o : bfs_out) (es : list (BinNums.Z * BinNums.Z)),
         bfs G cfg starts = Ok o ->
         completed o = true ->
         edges o = Some es ->
         let D := length (sizes o) in
         forall a b : BinNums.Z,
         List.In (a, b) es <->
         (exists (v : state) (g : state -> state) (i : nat),
            i < D /\
            List.In v (layer state st_eq_dec (acts G) starts i) /\
            List.In g (acts G) /\ a = hashf G v /\ b = hashf G (g v)).
Proof. exact @bfs_edges_completed. Qed.
Print Assumptions C08_edges_completed.

(* interrupted run: exactly the out-edges of the non-final layers plus the reversals of the last expansion *)
Theorem C08_edges_interrupted_exact :
  forall (G : impl) (cfg : bfs_cfg) (U : state -> Prop),
         closed state (acts G) U ->
         (forall a b : state, U a -> U b -> hashf G a = hashf G b -> a = b) ->
         (is_identity G = true -> forall a : state, U a -> unword G (hashf G a) = a) ->
         (inv_closed G = true -> symmetric_on state (acts G) U) ->
         BinInt.Z.le (BinNums.Zpos BinNums.xH) (batch_size cfg) ->
         forall starts : list state,
         (forall s : state, List.In s starts -> U s) ->
         starts <> nil ->
         ret_edges cfg = true ->
         forall (o : bfs_out) (es : list (BinNums.Z * BinNums.Z)),
         bfs G cfg starts = Ok o ->
         completed o = false ->
         edges o = Some es ->
         let D := length (sizes o) in
         2 <= D /\
         (forall a b : BinNums.Z,
          List.In (a, b) es <->
          (exists (v : state) (g : state -> state) (i : nat),
             i + 1 < D /\
             List.In v (layer state st_eq_dec (acts G) starts i) /\
             List.In g (acts G) /\ a = hashf G v /\ b = hashf G (g v)) \/
          (exists (v : state) (g : state -> state),
             List.In v (layer state st_eq_dec (acts G) starts (D - 2)) /\
             List.In g (acts G) /\ a = hashf G (g v) /\ b = hashf G v)).
Proof. exact @bfs_edges_interrupted_exact. Qed.
Print Assumptions C08_edges_interrupted_exact.

(* states and hashes of every stored layer are aligned, so vertex k's hash is the hash of row k *)
Theorem C08_layers_hashes_aligned :
  forall (G : impl) (cfg : bfs_cfg) (U : state -> Prop),
         closed state (acts G) U ->
         (forall a b : state, U a -> U b -> hashf G a = hashf G b -> a = b) ->
         (is_identity G = true -> forall a : state, U a -> unword G (hashf G a) = a) ->
         (inv_closed G = true -> symmetric_on state (acts G) U) ->
         BinInt.Z.le (BinNums.Zpos BinNums.xH) (batch_size cfg) ->
         forall starts : list state,
         (forall s : state, List.In s starts -> U s) ->
         starts <> nil ->
         ret_edges cfg = true ->
         forall o : bfs_out,
         bfs G cfg starts = Ok o ->
         ret_hashes cfg = true ->
         forall (k : nat) (l : list state),
         List.In (k, l) (layers o) -> List.nth k (layer_hashes o) nil = List.map (hashf G) l.
Proof. exact @bfs_layers_hashes_aligned. Qed.
Print Assumptions C08_layers_hashes_aligned.

(* with edges requested an edge list is always returned *)
Theorem C08_edges_some :
  forall (G : impl) (cfg : bfs_cfg) (U : state -> Prop),
         closed state (acts G) U ->
         (forall a b : state, U a -> U b -> hashf G a = hashf G b -> a = b) ->
         (is_identity G = true -> forall a : state, U a -> unword G (hashf G a) = a) ->
         (inv_closed G = true -> symmetric_on state (acts G) U) ->
         BinInt.Z.le (BinNums.Zpos BinNums.xH) (batch_size cfg) ->
         forall starts : list state,
         (forall s : state, List.In s starts -> U s) ->
         starts <> nil ->
         ret_edges cfg = true ->
         forall o : bfs_out,
         bfs G cfg starts = Ok o -> exists es : list (BinNums.Z * BinNums.Z), edges o = Some es.
Proof. exact @bfs_edges_some. Qed.
Print Assumptions C08_edges_some.
