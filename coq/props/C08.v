(** C08 - The explicit graph exported from a BFS equals the true Schreier graph. Statements only: every proof is [exact] of a lemma proved elsewhere.
    Statements about the BFS model with return_all_edges: L i = the true layers (distance classes); edges are pairs of HASHES, which NoColl identifies with states;
    the renumbering / naming layer (Export.v) is tied to the implementation by the correspondence check.
    (Statements are the lemmas' closed types as printed by Coq, hence the qualified names.) *)
From V Require Import Base Tensor Graph GraphProofs GraphImpl Bfs BfsStep BfsProofs BfsEdges.

(* completed run: the edge list is exactly {(v, g v) | v in the orbit, g a generator} *)
Theorem C08_edges_completed :
  forall (G : impl) (cfg : bfs_cfg) (U : state -> Prop),
         closed state (acts G) U ->
         (forall a b : state, U a -> U b -> hashf G a = hashf G b -> a = b) ->
         (is_identity G = true -> forall a : state, U a -> unword G (hashf G a) = a) ->
         (inv_closed G = true -> symmetric_on state (acts G) U) ->
         BinInt.Z.le (BinNums.Zpos BinNums.xH) (batch_size cfg) ->
         forall starts : list state,
         (forall s : state, List.In s starts -> U s) ->
         starts <> nil ->
         ret_edges cfg = true ->
         forall (o : bfs_out) (es : list (BinNums.Z * BinNums.Z)),
         bfs G cfg starts = Ok o ->
         completed o = true ->
         edges o = Some es ->
         let D := length (sizes o) in
         forall a b : BinNums.Z,
         List.In (a, b) es <->
         (exists (v : state) (g : state -> state) (i : nat),
            i < D /\
            List.In v (layer state st_eq_dec (acts G) starts i) /\
            List.In g (acts G) /\ a = hashf G v /\ b = hashf G (g v)).
Proof. exact @bfs_edges_completed. Qed.
Print Assumptions C08_edges_completed.

(* interrupted run: exactly the out-edges of the non-final layers plus the reversals of the last expansion *)
Theorem C08_edges_interrupted_exact :
  forall (G : impl) (cfg : bfs_cfg) (U : state -> Prop),
         closed state (acts G) U ->
         (forall a b : state, U a -> U b -> hashf G a = hashf G b -> a = b) ->
         (is_identity G = true -> forall a : state, U a -> unword G (hashf G a) = a) ->
         (inv_closed G = true -> symmetric_on state (acts G) U) ->
         BinInt.Z.le (BinNums.Zpos BinNums.xH) (batch_size cfg) ->
         forall starts : list state,
         (forall s : state, List.In s starts -> U s) ->
         starts <> nil ->
         ret_edges cfg = true ->
         forall (o : bfs_out) (es : list (BinNums.Z * BinNums.Z)),
         bfs G cfg starts = Ok o ->
         completed o = false ->
         edges o = Some es ->
         let D := length (sizes o) in
         2 <= D /\
         (forall a b : BinNums.Z,
          List.In (a, b) es <->
          (exists (v : state) (g : state -> state) (i : nat),
             i + 1 < D /\
             List.In v (layer state st_eq_dec (acts G) starts i) /\
             List.In g (acts G) /\ a = hashf G v /\ b = hashf G (g v)) \/
          (exists (v : state) (g : state -> state),
             List.In v (layer state st_eq_dec (acts G) starts (D - 2)) /\
             List.In g (acts G) /\ a = hashf G (g v) /\ b = hashf G v)).
Proof. exact @bfs_edges_interrupted_exact. Qed.
Print Assumptions C08_edges_interrupted_exact.

(* states and hashes of every stored layer are aligned, so vertex k's hash is the hash of row k *)
Theorem C08_layers_hashes_aligned :
  forall (G : impl) (cfg : bfs_cfg) (U : state -> Prop),
         closed state (acts G) U ->
         (forall a b : state, U a -> U b -> hashf G a = hashf G b -> a = b) ->
         (is_identity G = true -> forall a : state, U a -> unword G (hashf G a) = a) ->
         (inv_closed G = true -> symmetric_on state (acts G) U) ->
         BinInt.Z.le (BinNums.Zpos BinNums.xH) (batch_size cfg) ->
         forall starts : list state,
         (forall s : state, List.In s starts -> U s) ->
         starts <> nil ->
         ret_edges cfg = true ->
         forall o : bfs_out,
         bfs G cfg starts = Ok o ->
         ret_hashes cfg = true ->
         forall (k : nat) (l : list state),
         List.In (k, l) (layers o) -> List.nth k (layer_hashes o) nil = List.map (hashf G) l.
Proof. exact @bfs_layers_hashes_aligned. Qed.
Print Assumptions C08_layers_hashes_aligned.

(* with edges requested an edge list is always returned *)
Theorem C08_edges_some :
  forall (G : impl) (cfg : bfs_cfg) (U : state -> Prop),
         closed state (acts G) U ->
         (forall a b : state, U a -> U b -> hashf G a = hashf G b -> a = b) ->
         (is_identity G = true -> forall a : state, U a -> unword G (hashf G a) = a) ->
         (inv_closed G = true -> symmetric_on state (acts G) U) ->
         BinInt.Z.le (BinNums.Zpos BinNums.xH) (batch_size cfg) ->
         forall starts : list state,
         (forall s : state, List.In s starts -> U s) ->
         starts <> nil ->
         ret_edges cfg = true ->
         forall o : bfs_out,
         bfs G cfg starts = Ok o -> exists es : list (BinNums.Z * BinNums.Z), edges o = Some es.
Proof. exact @bfs_edges_some. Qed.
Print Assumptions C08_edges_some.

From V Require Import Base Perm Tensor Graph GraphProofs GraphImpl Bfs BfsStep BfsProofs BfsEdges Export ExportProofs ExportSchreier.

(* the vertex numbering exists exactly when the per-layer hash lists have the recorded sizes and no hash repeats (the Hash collision assertion), and then it numbers the concatenated hashes 0,1,2,... *)
Theorem C08_hashes_to_indices_iff :
  forall (lh : list (list BinNums.Z)) (ls : list nat) (m : list (BinNums.Z * nat)),
         hashes_to_indices lh ls = Ok m <->
         sizes_agree lh ls /\ List.NoDup (List.concat lh) /\ m = index_dict (List.concat lh).
Proof. exact @hashes_to_indices_iff. Qed.
Print Assumptions C08_hashes_to_indices_iff.

(* the renumbered edge list is the hash edge list looked up pointwise (KeyError exactly when an endpoint is unknown) *)
Theorem C08_edges_list_iff :
  forall (m : list (BinNums.Z * nat)) (eh : list (BinNums.Z * BinNums.Z))
           (el : list (nat * nat)), edges_list m eh = Ok el <-> List.Forall2 (edge_maps m) eh el.
Proof. exact @edges_list_iff. Qed.
Print Assumptions C08_edges_list_iff.

(* under an injective hash: index pair (i,j) is listed exactly when some generator maps state i to state j *)
Theorem C08_numbering_consistent :
  forall (A : Type) (hash : A -> BinNums.Z) (d : A) (states : list A)
           (lh : list (list BinNums.Z)) (ls : list nat),
         List.NoDup states ->
         (forall a b : A, List.In a states -> List.In b states -> hash a = hash b -> a = b) ->
         sizes_agree lh ls ->
         List.concat lh = List.map hash states ->
         forall gens : list (A -> A),
         (forall (v : A) (g : A -> A), List.In v states -> List.In g gens -> List.In (g v) states) ->
         forall eh : list (BinNums.Z * BinNums.Z),
         (forall a b : BinNums.Z,
          List.In (a, b) eh <->
          (exists (v : A) (g : A -> A),
             List.In v states /\ List.In g gens /\ a = hash v /\ b = hash (g v))) ->
         exists el : list (nat * nat),
           hashes_to_indices lh ls = Ok (numbering A hash states) /\
           edges_list (numbering A hash states) eh = Ok el /\
           length el = length eh /\
           (forall i j : nat,
            List.In (i, j) el <->
            i < length states /\
            j < length states /\
            (exists g : A -> A, List.In g gens /\ g (List.nth i states d) = List.nth j states d)).
Proof. exact @numbering_consistent. Qed.
Print Assumptions C08_numbering_consistent.

(* get_edge_name returns the name of the FIRST generator mapping state i to state j *)
Theorem C08_edge_name_spec :
  forall (perms : list (list nat)) (names : list String.string) (s1 s2 : list BinNums.Z)
           (nm : String.string),
         edge_name perms names s1 s2 = Ok nm <->
         (exists k : nat,
            k < length perms /\
            k < length names /\
            List.nth k names String.EmptyString = nm /\
            gen_maps perms k s1 s2 /\ (forall k' : nat, k' < k -> ~ gen_maps perms k' s1 s2)).
Proof. exact @edge_name_spec. Qed.
Print Assumptions C08_edge_name_spec.

(* and asserts exactly when no generator does *)
Theorem C08_edge_name_err_iff :
  forall (perms : list (list nat)) (names : list String.string) (s1 s2 : list BinNums.Z),
         length names = length perms ->
         edge_name perms names s1 s2 = Err AssertionErr <->
         (forall k : nat, k < length perms -> ~ gen_maps perms k s1 s2).
Proof. exact @edge_name_err_iff. Qed.
Print Assumptions C08_edge_name_err_iff.

(* vertex names of equal-length states with non-negative entries are distinct for distinct states (both separator modes, and across them) *)
Theorem C08_vertex_name_injective :
  forall s1 s2 : list BinNums.Z,
         length s1 = length s2 ->
         (forall x : BinNums.Z, List.In x s1 -> BinInt.Z.le BinNums.Z0 x) ->
         (forall x : BinNums.Z, List.In x s2 -> BinInt.Z.le BinNums.Z0 x) ->
         vertex_name s1 = vertex_name s2 -> s1 = s2.
Proof. exact @vertex_name_injective. Qed.
Print Assumptions C08_vertex_name_injective.

(* COMPOSITION with the BFS model: on a completed run with edges and hashes the exported numbering and edge list describe exactly the Schreier graph on the orbit *)
Theorem C08_export_is_schreier_graph :
  forall (G : impl) (cfg : bfs_cfg) (U : state -> Prop),
         closed state (acts G) U ->
         (forall a b : state, U a -> U b -> hashf G a = hashf G b -> a = b) ->
         (is_identity G = true -> forall a : state, U a -> unword G (hashf G a) = a) ->
         (inv_closed G = true -> symmetric_on state (acts G) U) ->
         BinInt.Z.le (BinNums.Zpos BinNums.xH) (batch_size cfg) ->
         forall starts : list state,
         (forall s : state, List.In s starts -> U s) ->
         starts <> nil ->
         ret_edges cfg = true ->
         ret_hashes cfg = true ->
         forall (o : bfs_out) (es : list (BinNums.Z * BinNums.Z)),
         bfs G cfg starts = Ok o ->
         completed o = true ->
         edges o = Some es ->
         length (layers o) = length (sizes o) ->
         exists (m : list (BinNums.Z * nat)) (el : list (nat * nat)),
           hashes_to_indices (layer_hashes o) (sizes o) = Ok m /\
           edges_list m es = Ok el /\
           length el = length es /\
           List.NoDup (all_states o) /\
           (forall t : state,
            List.In t (all_states o) <-> (exists k : nat, reach state (acts G) starts k t)) /\
           length (all_states o) = List.fold_right PeanoNat.Nat.add 0 (sizes o) /\
           (forall k : nat,
            k < length (all_states o) ->
            assoc_get (hashf G (List.nth k (all_states o) nil)) m = Some k) /\
           (forall (h : BinNums.Z) (k : nat),
            assoc_get h m = Some k ->
            k < length (all_states o) /\ h = hashf G (List.nth k (all_states o) nil)) /\
           (forall i j : nat,
            List.In (i, j) el <->
            i < length (all_states o) /\
            j < length (all_states o) /\
            (exists g : state -> state,
               List.In g (acts G) /\
               g (List.nth i (all_states o) nil) = List.nth j (all_states o) nil)).
Proof. exact @export_is_schreier_graph. Qed.
Print Assumptions C08_export_is_schreier_graph.

(* every exported edge gets the name of a generator that realises it *)
Theorem C08_export_edge_names :
  forall (G : impl) (cfg : bfs_cfg) (U : state -> Prop),
         closed state (acts G) U ->
         (forall a b : state, U a -> U b -> hashf G a = hashf G b -> a = b) ->
         (is_identity G = true -> forall a : state, U a -> unword G (hashf G a) = a) ->
         (inv_closed G = true -> symmetric_on state (acts G) U) ->
         BinInt.Z.le (BinNums.Zpos BinNums.xH) (batch_size cfg) ->
         forall starts : list state,
         (forall s : state, List.In s starts -> U s) ->
         starts <> nil ->
         ret_edges cfg = true ->
         ret_hashes cfg = true ->
         forall (o : bfs_out) (es : list (BinNums.Z * BinNums.Z)),
         bfs G cfg starts = Ok o ->
         completed o = true ->
         edges o = Some es ->
         length (layers o) = length (sizes o) ->
         forall (perms : list (list nat)) (names : list String.string),
         acts G = List.map (fun p : list nat => apply_perm BinNums.Z0 p) perms ->
         length names = length perms ->
         forall (m : list (BinNums.Z * nat)) (el : list (nat * nat)),
         hashes_to_indices (layer_hashes o) (sizes o) = Ok m ->
         edges_list m es = Ok el ->
         forall i j : nat,
         List.In (i, j) el ->
         exists (nm : String.string) (k : nat),
           edge_name perms names (List.nth i (all_states o) nil) (List.nth j (all_states o) nil) =
           Ok nm /\
           k < length perms /\
           List.nth k names String.EmptyString = nm /\
           apply_perm BinNums.Z0 (List.nth k perms nil) (List.nth i (all_states o) nil) =
           List.nth j (all_states o) nil /\
           (forall k' : nat,
            k' < k ->
            apply_perm BinNums.Z0 (List.nth k' perms nil) (List.nth i (all_states o) nil) <>
            List.nth j (all_states o) nil).
Proof. exact @export_edge_names. Qed.
Print Assumptions C08_export_edge_names.

(* exported vertex names are pairwise distinct *)
Theorem C08_export_vertex_names_distinct :
  forall (G : impl) (cfg : bfs_cfg) (U : state -> Prop),
         closed state (acts G) U ->
         (forall a b : state, U a -> U b -> hashf G a = hashf G b -> a = b) ->
         (is_identity G = true -> forall a : state, U a -> unword G (hashf G a) = a) ->
         (inv_closed G = true -> symmetric_on state (acts G) U) ->
         BinInt.Z.le (BinNums.Zpos BinNums.xH) (batch_size cfg) ->
         forall starts : list state,
         (forall s : state, List.In s starts -> U s) ->
         starts <> nil ->
         forall o : bfs_out,
         bfs G cfg starts = Ok o ->
         length (layers o) = length (sizes o) ->
         forall w : nat,
         (forall s : state,
          U s -> length s = w /\ (forall x : BinNums.Z, List.In x s -> BinInt.Z.le BinNums.Z0 x)) ->
         List.NoDup (List.map vertex_name (all_states o)).
Proof. exact @export_vertex_names_distinct. Qed.
Print Assumptions C08_export_vertex_names_distinct.

From V Require Import Base Perm Tensor Graph GraphProofs GraphImpl Bfs BfsStep BfsProofs BfsEdges Export ExportProofs ExportSchreier ExportMatrices ExportMatricesProofs.

(* the dense adjacency matrix has a 1 at (i, j) exactly when the pair is in the edge list *)
Theorem C08_dense_entry_one :
  forall (n : nat) (el : list (nat * nat)) (i j : nat),
         i < n ->
         j < n ->
         List.nth j (List.nth i (adjacency_dense n el) nil) BinNums.Z0 = BinNums.Zpos BinNums.xH <->
         List.In (i, j) el.
Proof. exact @dense_entry_one. Qed.
Print Assumptions C08_dense_entry_one.

(* and only 0/1 entries *)
Theorem C08_dense_entries_01 :
  forall (n : nat) (el : list (nat * nat)) (r : list BinNums.Z) (x : BinNums.Z),
         List.In r (adjacency_dense n el) ->
         List.In x r -> x = BinNums.Z0 \/ x = BinNums.Zpos BinNums.xH.
Proof. exact @dense_entries_01. Qed.
Print Assumptions C08_dense_entries_01.

(* the sparse (COO) matrix has exactly the listed pairs, each with value 1 *)
Theorem C08_sparse_support :
  forall (el : list (nat * nat)) (i j : nat) (v : BinNums.Z),
         List.In (i, j, v) (adjacency_sparse el) <-> v = BinNums.Zpos BinNums.xH /\ List.In (i, j) el.
Proof. exact @sparse_support. Qed.
Print Assumptions C08_sparse_support.

(* dense = min(1, sparse with duplicates summed) *)
Theorem C08_dense_vs_sparse :
  forall (n : nat) (el : list (nat * nat)) (i j : nat),
         i < n ->
         j < n ->
         entry (adjacency_dense n el) i j =
         BinInt.Z.min (BinNums.Zpos BinNums.xH) (coo_entry (adjacency_sparse el) i j).
Proof. exact @dense_vs_sparse. Qed.
Print Assumptions C08_dense_vs_sparse.

(* the matrix is symmetric iff the edge set is *)
Theorem C08_dense_transpose_iff :
  forall (n : nat) (el : list (nat * nat)),
         mtranspose n (adjacency_dense n el) = adjacency_dense n el <->
         (forall i j : nat, i < n -> j < n -> List.In (i, j) el -> List.In (j, i) el).
Proof. exact @dense_transpose_iff. Qed.
Print Assumptions C08_dense_transpose_iff.

(* COMPOSITION: on a completed run both matrices have an entry at (i, j) exactly when some generator maps state i to state j; symmetric when the generators are inverse-closed *)
Theorem C08_export_adjacency_is_schreier :
  forall (G : impl) (cfg : bfs_cfg) (U : state -> Prop),
         closed state (acts G) U ->
         (forall a b : state, U a -> U b -> hashf G a = hashf G b -> a = b) ->
         (is_identity G = true -> forall a : state, U a -> unword G (hashf G a) = a) ->
         (inv_closed G = true -> symmetric_on state (acts G) U) ->
         BinInt.Z.le (BinNums.Zpos BinNums.xH) (batch_size cfg) ->
         forall starts : list state,
         (forall s : state, List.In s starts -> U s) ->
         starts <> nil ->
         ret_edges cfg = true ->
         ret_hashes cfg = true ->
         forall (o : bfs_out) (es : list (BinNums.Z * BinNums.Z)),
         bfs G cfg starts = Ok o ->
         completed o = true ->
         edges o = Some es ->
         length (layers o) = length (sizes o) ->
         forall (m : list (BinNums.Z * nat)) (el : list (nat * nat)),
         hashes_to_indices (layer_hashes o) (sizes o) = Ok m ->
         edges_list m es = Ok el ->
         let A := adjacency_dense (List.fold_right PeanoNat.Nat.add 0 (sizes o)) el in
         adjacency_matrix (List.fold_right PeanoNat.Nat.add 0 (sizes o)) el = Ok A /\
         length A = List.fold_right PeanoNat.Nat.add 0 (sizes o) /\
         (forall r : list BinNums.Z,
          List.In r A -> length r = List.fold_right PeanoNat.Nat.add 0 (sizes o)) /\
         (forall (r : list BinNums.Z) (x : BinNums.Z),
          List.In r A -> List.In x r -> x = BinNums.Z0 \/ x = BinNums.Zpos BinNums.xH) /\
         (forall i j : nat,
          i < List.fold_right PeanoNat.Nat.add 0 (sizes o) ->
          j < List.fold_right PeanoNat.Nat.add 0 (sizes o) ->
          List.nth j (List.nth i A nil) BinNums.Z0 = BinNums.Zpos BinNums.xH <-> gen_edge G o i j) /\
         (forall i j : nat,
          i < List.fold_right PeanoNat.Nat.add 0 (sizes o) ->
          j < List.fold_right PeanoNat.Nat.add 0 (sizes o) ->
          List.nth j (List.nth i A nil) BinNums.Z0 = BinNums.Z0 <-> ~ gen_edge G o i j) /\
         length (adjacency_sparse el) = length es /\
         (forall i j : nat,
          (exists v : BinNums.Z, List.In (i, j, v) (adjacency_sparse el)) <->
          i < List.fold_right PeanoNat.Nat.add 0 (sizes o) /\
          j < List.fold_right PeanoNat.Nat.add 0 (sizes o) /\ gen_edge G o i j) /\
         (forall (i j : nat) (v : BinNums.Z),
          List.In (i, j, v) (adjacency_sparse el) -> v = BinNums.Zpos BinNums.xH) /\
         (inv_closed G = true -> mtranspose (List.fold_right PeanoNat.Nat.add 0 (sizes o)) A = A).
Proof. exact @export_adjacency_is_schreier. Qed.
Print Assumptions C08_export_adjacency_is_schreier.

(* named_undirected_edges lists the name pair of i, j iff an edge joins them in either direction *)
Theorem C08_export_named_undirected :
  forall (G : impl) (cfg : bfs_cfg) (U : state -> Prop),
         closed state (acts G) U ->
         (forall a b : state, U a -> U b -> hashf G a = hashf G b -> a = b) ->
         (is_identity G = true -> forall a : state, U a -> unword G (hashf G a) = a) ->
         (inv_closed G = true -> symmetric_on state (acts G) U) ->
         BinInt.Z.le (BinNums.Zpos BinNums.xH) (batch_size cfg) ->
         forall starts : list state,
         (forall s : state, List.In s starts -> U s) ->
         starts <> nil ->
         ret_edges cfg = true ->
         ret_hashes cfg = true ->
         forall (o : bfs_out) (es : list (BinNums.Z * BinNums.Z)),
         bfs G cfg starts = Ok o ->
         completed o = true ->
         edges o = Some es ->
         length (layers o) = length (sizes o) ->
         forall (m : list (BinNums.Z * nat)) (el : list (nat * nat)),
         hashes_to_indices (layer_hashes o) (sizes o) = Ok m ->
         edges_list m es = Ok el ->
         forall i j : nat,
         List.NoDup (List.map vertex_name (all_states o)) ->
         i < List.fold_right PeanoNat.Nat.add 0 (sizes o) ->
         j < List.fold_right PeanoNat.Nat.add 0 (sizes o) ->
         List.In
           (sorted_pair (vertex_name (List.nth i (all_states o) nil))
              (vertex_name (List.nth j (all_states o) nil)))
           (named_undirected (List.map vertex_name (all_states o)) el) <->
         gen_edge G o i j \/ gen_edge G o j i.
Proof. exact @export_named_undirected. Qed.
Print Assumptions C08_export_named_undirected.

(* the label networkx stores on (name i, name j) is the name of the first generator mapping state i to state j *)
Theorem C08_export_nx_directed_labels :
  forall (G : impl) (cfg : bfs_cfg) (U : state -> Prop),
         closed state (acts G) U ->
         (forall a b : state, U a -> U b -> hashf G a = hashf G b -> a = b) ->
         (is_identity G = true -> forall a : state, U a -> unword G (hashf G a) = a) ->
         (inv_closed G = true -> symmetric_on state (acts G) U) ->
         BinInt.Z.le (BinNums.Zpos BinNums.xH) (batch_size cfg) ->
         forall starts : list state,
         (forall s : state, List.In s starts -> U s) ->
         starts <> nil ->
         ret_edges cfg = true ->
         ret_hashes cfg = true ->
         forall (o : bfs_out) (es : list (BinNums.Z * BinNums.Z)),
         bfs G cfg starts = Ok o ->
         completed o = true ->
         edges o = Some es ->
         length (layers o) = length (sizes o) ->
         forall (m : list (BinNums.Z * nat)) (el : list (nat * nat)),
         hashes_to_indices (layer_hashes o) (sizes o) = Ok m ->
         edges_list m es = Ok el ->
         forall (perms : list (list nat)) (gnames : list String.string),
         acts G = List.map (fun p : list nat => apply_perm BinNums.Z0 p) perms ->
         length gnames = length perms ->
         forall i j : nat,
         List.NoDup (List.map vertex_name (all_states o)) ->
         List.In (i, j) el ->
         exists k : nat,
           dict_get
             (vertex_name (List.nth i (all_states o) nil),
              vertex_name (List.nth j (all_states o) nil))
             (nx_edges_directed (List.map vertex_name (all_states o))
                (List.map (fun '(i0, j0) => edge_label o perms gnames i0 j0) el) el) =
           Some (List.nth k gnames String.EmptyString) /\
           edge_name perms gnames (List.nth i (all_states o) nil) (List.nth j (all_states o) nil) =
           Ok (List.nth k gnames String.EmptyString) /\
           k < length perms /\
           apply_perm BinNums.Z0 (List.nth k perms nil) (List.nth i (all_states o) nil) =
           List.nth j (all_states o) nil /\
           (forall k' : nat,
            k' < k ->
            apply_perm BinNums.Z0 (List.nth k' perms nil) (List.nth i (all_states o) nil) <>
            List.nth j (all_states o) nil).
Proof. exact @export_nx_directed_labels. Qed.
Print Assumptions C08_export_nx_directed_labels.

(* what the differential check of the matrices means *)
Theorem C08_check_dense_iff :
  forall (n : nat) (el : list (nat * nat)) (observed : list (list BinNums.Z)),
         check_dense n el observed = true <-> adjacency_matrix n el = Ok observed.
Proof. exact @check_dense_iff. Qed.
Print Assumptions C08_check_dense_iff.
