(** C14 - A graph object answers each query as a fresh one would, whatever came before. Statements only. *)
From Coq Require Import List Bool String.
From V Require Import EffectsDefs EffectsProofs ObjectModel.
From V.gen Require Import Effects.
Import ListNotations.

(* from the CURRENT source (regenerated table): every attribute write in the library is in a constructor, on a freshly
   created object, on a helper object of its own, or sets the find_path cache *)
Theorem C14_writes_only_caches : forallb effect_ok effects = true.
Proof. exact writes_only_caches. Qed.
Print Assumptions C14_writes_only_caches.

(* the object as a state machine with an immutable part and two caches: for ANY sequence of operations, each operation
   returns what it returns on a fresh object, and the immutable part never changes *)
Theorem C14_history_independent :
  forall (I InvT Key Ball Q A P R : Type) (key_eqb : Key -> Key -> bool),
  (forall a b, key_eqb a b = true <-> a = b) ->
  forall (mk_inv : I -> InvT) (mk_ball : I -> InvT -> Key -> Ball) (answer : I -> InvT -> Ball -> Q -> A)
         (pure_op : I -> InvT -> P -> R) (i : I) (ops : list (op Key Q P)) (x : op Key Q P),
  snd (step I InvT Key Ball Q A P R key_eqb mk_inv mk_ball answer pure_op
            (run I InvT Key Ball Q A P R key_eqb mk_inv mk_ball answer pure_op (fresh I InvT Key Ball i) ops) x)
  = snd (step I InvT Key Ball Q A P R key_eqb mk_inv mk_ball answer pure_op (fresh I InvT Key Ball i) x)
  /\ imm I InvT Key Ball (run I InvT Key Ball Q A P R key_eqb mk_inv mk_ball answer pure_op (fresh I InvT Key Ball i) ops) = i.
Proof. exact history_independent. Qed.
Print Assumptions C14_history_independent.
