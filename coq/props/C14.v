(** C14 - A graph object answers each query as a fresh one would, whatever came before. Statements only. *)
From Coq Require Import List Bool String.
From V Require Import EffectsDefs EffectsProofs ObjectModel.
From V.gen Require Import Effects.
Import ListNotations.

(* from the CURRENT source (regenerated table): every attribute write in the library is in a constructor, on a freshly
   created object, on a helper object of its own, or sets the find_path cache *)
Theorem C14_writes_only_caches : forallb effect_ok effects = true.
Proof. exact writes_only_caches. Qed.
Print Assumptions C14_writes_only_caches.

(* the object as a state machine with an immutable part and two caches: for ANY sequence of operations, each operation
   returns what it returns on a fresh object, and the immutable part never changes *)
Theorem C14_history_independent :
  forall (I InvT Key Ball Q A P R : Type) (key_eqb : Key -> Key -> bool),
  (forall a b, key_eqb a b = true <-> a = b) ->
  forall (mk_inv : I -> InvT) (mk_ball : I -> InvT -> Key -> Ball) (answer : I -> InvT -> Ball -> Q -> A)
         (pure_op : I -> InvT -> P -> R) (i : I) (ops : list (op Key Q P)) (x : op Key Q P),
  snd (step I InvT Key Ball Q A P R key_eqb mk_inv mk_ball answer pure_op
            (run I InvT Key Ball Q A P R key_eqb mk_inv mk_ball answer pure_op (fresh I InvT Key Ball i) ops) x)
  = snd (step I InvT Key Ball Q A P R key_eqb mk_inv mk_ball answer pure_op (fresh I InvT Key Ball i) x)
  /\ imm I InvT Key Ball (run I InvT Key Ball Q A P R key_eqb mk_inv mk_ball answer pure_op (fresh I InvT Key Ball i) ops) = i.
Proof. exact history_independent. Qed.
Print Assumptions C14_history_independent.

From V Require Import Base Tensor Graph GraphProofs GraphImpl Hash Def Paths BfsStep Bfs BfsRun BfsProofs PathsProofs Mitm MitmProofs PathRun MitmFind Interactive InteractiveBetween InstPerm InstSmall InstBfs InstPaths.

(* the graph / inverted-copy pair built by env_of from a well-formed permutation description: the copy hashes EVERY state like its origin (shared hasher and encoder), has the same central state, as many generators, and generator i of the copy undoes generator i of the origin on all states - no hashing assumption *)
Theorem C14_perm_env_structural :
  forall (d : gdesc) (inv_mats : list (list (list BinNums.Z))) (e : path_env),
         wf_perm_desc d -> env_of d inv_mats = Some e -> path_structural e (Ustates d).
Proof. exact @perm_env_structural. Qed.
Print Assumptions C14_perm_env_structural.

(* copies share hashes with their origin (inverted copy) *)
Theorem C14_copy_shares_hashes :
  forall (d : gdesc) (s : state),
         wf_perm_desc d -> hashf (impl_of (desc_inv d)) s = hashf (impl_of d) s.
Proof. exact @desc_inv_hash. Qed.
Print Assumptions C14_copy_shares_hashes.

From V Require Import Base Tensor Graph GraphProofs GraphImpl Hash Matrix MatrixProofs Def Paths BfsStep Bfs BfsRun BfsProofs PathsProofs Mitm MitmProofs PathRun MitmFind InstShared InstMatrix InstMatrixAlgebra InstMatrixBfs.

(* ANY description (permutation or matrix): the inverted copy built by env_of hashes every state like its origin, has the same central state, the same identity-hash flag and decoder, and as many generators - copies share hashes with their origin so that results can be combined *)
Theorem C14_env_of_shares :
  forall (d : gdesc) (im : list (list (list BinNums.Z))) (e : path_env),
         env_of d im = Some e ->
         (forall s : state, hashf (pe_Ginv e) s = hashf (pe_G e) s) /\
         central (pe_Ginv e) = central (pe_G e) /\
         is_identity (pe_Ginv e) = is_identity (pe_G e) /\
         (forall h : BinNums.Z, unword (pe_Ginv e) h = unword (pe_G e) h) /\
         Datatypes.length (acts (pe_Ginv e)) = Datatypes.length (acts (pe_G e)).
Proof. exact @env_of_shares. Qed.
Print Assumptions C14_env_of_shares.

(* a modified copy (other generators, same encoder and hasher) hashes every state like its origin, exactly when its rows are encoded alike *)
Theorem C14_with_flag_shares_hash :
  forall (d : gdesc) (k : gkind),
         flag_rows_alike d k ->
         forall s : state, hashf (impl_of (with_flag d k)) s = hashf (impl_of d) s.
Proof. exact @with_flag_shares_hash. Qed.
Print Assumptions C14_with_flag_shares_hash.
