(** C14 - A graph object answers each query as a fresh one would, whatever came before. Statements only. *)
From Coq Require Import List Bool String.
From V Require Import EffectsDefs EffectsProofs ObjectModel.
From V.gen Require Import Effects.
Import ListNotations.

(* from the CURRENT source (regenerated table): every attribute write in the library is in a constructor, on a freshly
   created object, on a helper object of its own, or sets the find_path cache *)
Theorem C14_writes_only_caches : forallb effect_ok effects = true.
Proof. exact writes_only_caches. Qed.
Print Assumptions C14_writes_only_caches.

(* the object as a state machine with an immutable part and two caches: for ANY sequence of operations, each operation
   returns what it returns on a fresh object, and the immutable part never changes *)
Theorem C14_history_independent :
  forall (I InvT Key Ball Q A P R : Type) (key_eqb : Key -> Key -> bool),
  (forall a b, key_eqb a b = true <-> a = b) ->
  forall (mk_inv : I -> InvT) (mk_ball : I -> InvT -> Key -> Ball) (answer : I -> InvT -> Ball -> Q -> A)
         (pure_op : I -> InvT -> P -> R) (i : I) (ops : list (op Key Q P)) (x : op Key Q P),
  snd (step I InvT Key Ball Q A P R key_eqb mk_inv mk_ball answer pure_op
            (run I InvT Key Ball Q A P R key_eqb mk_inv mk_ball answer pure_op (fresh I InvT Key Ball i) ops) x)
  = snd (step I InvT Key Ball Q A P R key_eqb mk_inv mk_ball answer pure_op (fresh I InvT Key Ball i) x)
  /\ imm I InvT Key Ball (run I InvT Key Ball Q A P R key_eqb mk_inv mk_ball answer pure_op (fresh I InvT Key Ball i) ops) = i.
Proof. exact history_independent. Qed.
Print Assumptions C14_history_independent.

From V Require Import Base Tensor Graph GraphProofs GraphImpl Hash Def Paths BfsStep Bfs BfsRun BfsProofs PathsProofs Mitm MitmProofs PathRun MitmFind Interactive InteractiveBetween InstPerm InstSmall InstBfs InstPaths.

(* the graph / inverted-copy pair built by env_of from a well-formed permutation description: the copy hashes EVERY state like its origin (shared hasher and encoder), has the same central state, as many generators, and generator i of the copy undoes generator i of the origin on all states - no hashing assumption *)
Theorem C14_perm_env_structural :
  forall (d : gdesc) (inv_mats : list (list (list BinNums.Z))) (e : path_env),
         wf_perm_desc d -> env_of d inv_mats = Some e -> path_structural e (Ustates d).
Proof. exact @perm_env_structural. Qed.
Print Assumptions C14_perm_env_structural.

(* copies share hashes with their origin (inverted copy) *)
Theorem C14_copy_shares_hashes :
  forall (d : gdesc) (s : state),
         wf_perm_desc d -> hashf (impl_of (desc_inv d)) s = hashf (impl_of d) s.
Proof. exact @desc_inv_hash. Qed.
Print Assumptions C14_copy_shares_hashes.

From V Require Import Base Tensor Graph GraphProofs GraphImpl Hash Matrix MatrixProofs Def Paths BfsStep Bfs BfsRun BfsProofs PathsProofs Mitm MitmProofs PathRun MitmFind InstShared InstMatrix InstMatrixAlgebra InstMatrixBfs.

(* ANY description (permutation or matrix): the inverted copy built by env_of hashes every state like its origin, has the same central state, the same identity-hash flag and decoder, and as many generators - copies share hashes with their origin so that results can be combined *)
Theorem C14_env_of_shares :
  forall (d : gdesc) (im : list (list (list BinNums.Z))) (e : path_env),
         env_of d im = Some e ->
         (forall s : state, hashf (pe_Ginv e) s = hashf (pe_G e) s) /\
         central (pe_Ginv e) = central (pe_G e) /\
         is_identity (pe_Ginv e) = is_identity (pe_G e) /\
         (forall h : BinNums.Z, unword (pe_Ginv e) h = unword (pe_G e) h) /\
         Datatypes.length (acts (pe_Ginv e)) = Datatypes.length (acts (pe_G e)).
Proof. exact @env_of_shares. Qed.
Print Assumptions C14_env_of_shares.

(* a modified copy (other generators, same encoder and hasher) hashes every state like its origin, exactly when its rows are encoded alike *)
Theorem C14_with_flag_shares_hash :
  forall (d : gdesc) (k : gkind),
         flag_rows_alike d k ->
         forall s : state, hashf (impl_of (with_flag d k)) s = hashf (impl_of d) s.
Proof. exact @with_flag_shares_hash. Qed.
Print Assumptions C14_with_flag_shares_hash.

From V Require Import Base ObjectModelFull ObjectModelInst InstShared.

(* the RICHER object machine (heap of graph objects with cached inverted copy and cached find_path ball, derived copies sharing the hasher/encoder part, BfsResult objects with five dependent caches): after ANY operation sequence every operation on any reachable object answers as on a fresh object with the same immutable part *)
Theorem C14_history_independent_full :
  forall (RI NV H2I EL VN AS AD SP NE : Type) (mk_nv : RI -> result NV)
           (mk_h2i : RI -> NV -> result H2I) (mk_el : RI -> H2I -> result EL)
           (mk_vn : RI -> result VN) (mk_as : RI -> result AS) (mk_adj : RI -> NV -> EL -> AD)
           (mk_sparse : RI -> EL -> NV -> SP) (mk_named : RI -> VN -> EL -> NE)
           (S D Key Ball Q A P R BArgs : Type) (key_eqb : Key -> Key -> bool),
         (forall a b : Key, key_eqb a b = true <-> a = b) ->
         forall (inv_defn : D -> D) (inv_closed : imm S D -> bool) (mk_ball : imm S D -> Key -> Ball)
           (p_depth : imm S D -> P -> nat) (pure_op : imm S D -> list (imm S D) -> P -> R)
           (fp_depth : imm S D -> Key -> Q -> nat)
           (answer : imm S D -> imm S D -> list (imm S D) -> Ball -> Q -> A)
           (mk_res : imm S D -> BArgs -> RI) (i : imm S D) (ops : list (op D Key Q P BArgs))
           (h : nat) (j : imm S D) (g : gop D Key Q P BArgs),
         imm_at RI NV H2I EL VN AS S D Key Ball
           (run RI NV H2I EL VN AS AD SP NE mk_nv mk_h2i mk_el mk_vn mk_as mk_adj mk_sparse mk_named
              S D Key Ball Q A P R BArgs key_eqb inv_defn inv_closed mk_ball p_depth pure_op fp_depth
              answer mk_res (init RI NV H2I EL VN AS S D Key Ball i) ops) h = 
         Some j ->
         view RI NV H2I EL VN AS AD SP NE S D Key Ball A R
           (step RI NV H2I EL VN AS AD SP NE mk_nv mk_h2i mk_el mk_vn mk_as mk_adj mk_sparse mk_named
              S D Key Ball Q A P R BArgs key_eqb inv_defn inv_closed mk_ball p_depth pure_op fp_depth
              answer mk_res
              (run RI NV H2I EL VN AS AD SP NE mk_nv mk_h2i mk_el mk_vn mk_as mk_adj mk_sparse
                 mk_named S D Key Ball Q A P R BArgs key_eqb inv_defn inv_closed mk_ball p_depth
                 pure_op fp_depth answer mk_res (init RI NV H2I EL VN AS S D Key Ball i) ops)
              (OnObj h g)) =
         view RI NV H2I EL VN AS AD SP NE S D Key Ball A R
           (step RI NV H2I EL VN AS AD SP NE mk_nv mk_h2i mk_el mk_vn mk_as mk_adj mk_sparse mk_named
              S D Key Ball Q A P R BArgs key_eqb inv_defn inv_closed mk_ball p_depth pure_op fp_depth
              answer mk_res (init RI NV H2I EL VN AS S D Key Ball j) (OnObj 0 g)) /\
         view RI NV H2I EL VN AS AD SP NE S D Key Ball A R
           (step RI NV H2I EL VN AS AD SP NE mk_nv mk_h2i mk_el mk_vn mk_as mk_adj mk_sparse mk_named
              S D Key Ball Q A P R BArgs key_eqb inv_defn inv_closed mk_ball p_depth pure_op fp_depth
              answer mk_res
              (run RI NV H2I EL VN AS AD SP NE mk_nv mk_h2i mk_el mk_vn mk_as mk_adj mk_sparse
                 mk_named S D Key Ball Q A P R BArgs key_eqb inv_defn inv_closed mk_ball p_depth
                 pure_op fp_depth answer mk_res (init RI NV H2I EL VN AS S D Key Ball i) ops)
              (OnObj h g)) =
         spec_gop RI NV H2I EL VN AS AD SP NE S D Key Ball Q A P R BArgs inv_defn inv_closed mk_ball
           p_depth pure_op fp_depth answer mk_res j g.
Proof. exact @history_independent_full. Qed.
Print Assumptions C14_history_independent_full.

(* no operation sequence changes the immutable part of any graph or result object, origin included *)
Theorem C14_immutable_parts_never_change :
  forall (RI NV H2I EL VN AS AD SP NE : Type) (mk_nv : RI -> result NV)
           (mk_h2i : RI -> NV -> result H2I) (mk_el : RI -> H2I -> result EL)
           (mk_vn : RI -> result VN) (mk_as : RI -> result AS) (mk_adj : RI -> NV -> EL -> AD)
           (mk_sparse : RI -> EL -> NV -> SP) (mk_named : RI -> VN -> EL -> NE)
           (S D Key Ball Q A P R BArgs : Type) (key_eqb : Key -> Key -> bool),
         (forall a b : Key, key_eqb a b = true <-> a = b) ->
         forall (inv_defn : D -> D) (inv_closed : imm S D -> bool) (mk_ball : imm S D -> Key -> Ball)
           (p_depth : imm S D -> P -> nat) (pure_op : imm S D -> list (imm S D) -> P -> R)
           (fp_depth : imm S D -> Key -> Q -> nat)
           (answer : imm S D -> imm S D -> list (imm S D) -> Ball -> Q -> A)
           (mk_res : imm S D -> BArgs -> RI) (i : imm S D) (ops1 ops2 : list (op D Key Q P BArgs)),
         (forall (h : nat) (j : imm S D),
          imm_at RI NV H2I EL VN AS S D Key Ball
            (run RI NV H2I EL VN AS AD SP NE mk_nv mk_h2i mk_el mk_vn mk_as mk_adj mk_sparse mk_named
               S D Key Ball Q A P R BArgs key_eqb inv_defn inv_closed mk_ball p_depth pure_op
               fp_depth answer mk_res (init RI NV H2I EL VN AS S D Key Ball i) ops1) h = 
          Some j ->
          imm_at RI NV H2I EL VN AS S D Key Ball
            (run RI NV H2I EL VN AS AD SP NE mk_nv mk_h2i mk_el mk_vn mk_as mk_adj mk_sparse mk_named
               S D Key Ball Q A P R BArgs key_eqb inv_defn inv_closed mk_ball p_depth pure_op
               fp_depth answer mk_res (init RI NV H2I EL VN AS S D Key Ball i) 
               (ops1 ++ ops2)) h = Some j) /\
         (forall (r : nat) (ri : RI),
          rimm_at RI NV H2I EL VN AS S D Key Ball
            (run RI NV H2I EL VN AS AD SP NE mk_nv mk_h2i mk_el mk_vn mk_as mk_adj mk_sparse mk_named
               S D Key Ball Q A P R BArgs key_eqb inv_defn inv_closed mk_ball p_depth pure_op
               fp_depth answer mk_res (init RI NV H2I EL VN AS S D Key Ball i) ops1) r = 
          Some ri ->
          rimm_at RI NV H2I EL VN AS S D Key Ball
            (run RI NV H2I EL VN AS AD SP NE mk_nv mk_h2i mk_el mk_vn mk_as mk_adj mk_sparse mk_named
               S D Key Ball Q A P R BArgs key_eqb inv_defn inv_closed mk_ball p_depth pure_op
               fp_depth answer mk_res (init RI NV H2I EL VN AS S D Key Ball i) 
               (ops1 ++ ops2)) r = Some ri) /\
         imm_at RI NV H2I EL VN AS S D Key Ball
           (run RI NV H2I EL VN AS AD SP NE mk_nv mk_h2i mk_el mk_vn mk_as mk_adj mk_sparse mk_named
              S D Key Ball Q A P R BArgs key_eqb inv_defn inv_closed mk_ball p_depth pure_op fp_depth
              answer mk_res (init RI NV H2I EL VN AS S D Key Ball i) (ops1 ++ ops2)) 0 = 
         Some i.
Proof. exact @immutable_parts_never_change. Qed.
Print Assumptions C14_immutable_parts_never_change.

(* whole sessions (invalid handles included): the trace equals the trace of the pure specification *)
Theorem C14_session_spec :
  forall (RI NV H2I EL VN AS AD SP NE : Type) (mk_nv : RI -> result NV)
           (mk_h2i : RI -> NV -> result H2I) (mk_el : RI -> H2I -> result EL)
           (mk_vn : RI -> result VN) (mk_as : RI -> result AS) (mk_adj : RI -> NV -> EL -> AD)
           (mk_sparse : RI -> EL -> NV -> SP) (mk_named : RI -> VN -> EL -> NE)
           (S D Key Ball Q A P R BArgs : Type) (key_eqb : Key -> Key -> bool),
         (forall a b : Key, key_eqb a b = true <-> a = b) ->
         forall (inv_defn : D -> D) (inv_closed : imm S D -> bool) (mk_ball : imm S D -> Key -> Ball)
           (p_depth : imm S D -> P -> nat) (pure_op : imm S D -> list (imm S D) -> P -> R)
           (fp_depth : imm S D -> Key -> Q -> nat)
           (answer : imm S D -> imm S D -> list (imm S D) -> Ball -> Q -> A)
           (mk_res : imm S D -> BArgs -> RI) (i : imm S D) (ops : list (op D Key Q P BArgs)),
         trace RI NV H2I EL VN AS AD SP NE mk_nv mk_h2i mk_el mk_vn mk_as mk_adj mk_sparse mk_named S
           D Key Ball Q A P R BArgs key_eqb inv_defn inv_closed mk_ball p_depth pure_op fp_depth
           answer mk_res (init RI NV H2I EL VN AS S D Key Ball i) ops =
         spec_trace RI NV H2I EL VN AS AD SP NE mk_nv mk_h2i mk_el mk_vn mk_as mk_adj mk_sparse
           mk_named S D Key Ball Q A P R BArgs key_eqb inv_defn inv_closed mk_ball p_depth pure_op
           fp_depth answer mk_res (init RI NV H2I EL VN AS S D Key Ball i) ops.
Proof. exact @session_spec. Qed.
Print Assumptions C14_session_spec.

(* every object reachable by any sequence of copies has the origin's shared (hasher, encoder) part *)
Theorem C14_copies_share :
  forall (RI NV H2I EL VN AS AD SP NE : Type) (mk_nv : RI -> result NV)
           (mk_h2i : RI -> NV -> result H2I) (mk_el : RI -> H2I -> result EL)
           (mk_vn : RI -> result VN) (mk_as : RI -> result AS) (mk_adj : RI -> NV -> EL -> AD)
           (mk_sparse : RI -> EL -> NV -> SP) (mk_named : RI -> VN -> EL -> NE)
           (S D Key Ball Q A P R BArgs : Type) (key_eqb : Key -> Key -> bool),
         (forall a b : Key, key_eqb a b = true <-> a = b) ->
         forall (inv_defn : D -> D) (inv_closed : imm S D -> bool) (mk_ball : imm S D -> Key -> Ball)
           (p_depth : imm S D -> P -> nat) (pure_op : imm S D -> list (imm S D) -> P -> R)
           (fp_depth : imm S D -> Key -> Q -> nat)
           (answer : imm S D -> imm S D -> list (imm S D) -> Ball -> Q -> A)
           (mk_res : imm S D -> BArgs -> RI) (i : imm S D) (ops : list (op D Key Q P BArgs))
           (h : nat) (j : imm S D),
         imm_at RI NV H2I EL VN AS S D Key Ball
           (run RI NV H2I EL VN AS AD SP NE mk_nv mk_h2i mk_el mk_vn mk_as mk_adj mk_sparse mk_named
              S D Key Ball Q A P R BArgs key_eqb inv_defn inv_closed mk_ball p_depth pure_op fp_depth
              answer mk_res (init RI NV H2I EL VN AS S D Key Ball i) ops) h = 
         Some j -> shared j = shared i.
Proof. exact @copies_share. Qed.
Print Assumptions C14_copies_share.

(* BfsResult accessors (vertex names, edge list, adjacency ...) in any order return the pure function of the result; the cache-coherence invariant holds *)
Theorem C14_accessors_any_order :
  forall (RI NV H2I EL VN AS AD SP NE : Type) (mk_nv : RI -> result NV)
           (mk_h2i : RI -> NV -> result H2I) (mk_el : RI -> H2I -> result EL)
           (mk_vn : RI -> result VN) (mk_as : RI -> result AS) (mk_adj : RI -> NV -> EL -> AD)
           (mk_sparse : RI -> EL -> NV -> SP) (mk_named : RI -> VN -> EL -> NE) 
           (ri : RI) (before : list acc) (a : acc),
         snd
           (acc_step RI NV H2I EL VN AS AD SP NE mk_nv mk_h2i mk_el mk_vn mk_as mk_adj mk_sparse
              mk_named
              (acc_run RI NV H2I EL VN AS AD SP NE mk_nv mk_h2i mk_el mk_vn mk_as mk_adj mk_sparse
                 mk_named (rfresh RI NV H2I EL VN AS ri) before) a) =
         spec_acc RI NV H2I EL VN AS AD SP NE mk_nv mk_h2i mk_el mk_vn mk_as mk_adj mk_sparse
           mk_named ri a /\
         snd
           (acc_step RI NV H2I EL VN AS AD SP NE mk_nv mk_h2i mk_el mk_vn mk_as mk_adj mk_sparse
              mk_named
              (acc_run RI NV H2I EL VN AS AD SP NE mk_nv mk_h2i mk_el mk_vn mk_as mk_adj mk_sparse
                 mk_named (rfresh RI NV H2I EL VN AS ri) before) a) =
         snd
           (acc_step RI NV H2I EL VN AS AD SP NE mk_nv mk_h2i mk_el mk_vn mk_as mk_adj mk_sparse
              mk_named (rfresh RI NV H2I EL VN AS ri) a) /\
         r_imm RI NV H2I EL VN AS
           (acc_run RI NV H2I EL VN AS AD SP NE mk_nv mk_h2i mk_el mk_vn mk_as mk_adj mk_sparse
              mk_named (rfresh RI NV H2I EL VN AS ri) before) = ri /\
         RInv RI NV H2I EL VN AS mk_nv mk_h2i mk_el mk_vn mk_as
           (acc_run RI NV H2I EL VN AS AD SP NE mk_nv mk_h2i mk_el mk_vn mk_as mk_adj mk_sparse
              mk_named (rfresh RI NV H2I EL VN AS ri) before).
Proof. exact @accessors_any_order. Qed.
Print Assumptions C14_accessors_any_order.

(* connected to the concrete model: every reachable copy hashes every state like impl_of d *)
Theorem C14_reachable_objects_hash_like_origin :
  forall (RI NV H2I EL VN AS AD SP NE : Type) (mk_nv : RI -> result NV)
           (mk_h2i : RI -> NV -> result H2I) (mk_el : RI -> H2I -> result EL)
           (mk_vn : RI -> result VN) (mk_as : RI -> result AS) (mk_adj : RI -> NV -> EL -> AD)
           (mk_sparse : RI -> EL -> NV -> SP) (mk_named : RI -> VN -> EL -> NE)
           (Key Ball Q A P R BArgs : Type) (key_eqb : Key -> Key -> bool),
         (forall a b : Key, key_eqb a b = true <-> a = b) ->
         forall (inv_defn : gdesc -> gdesc) (inv_closed : cimm -> bool)
           (mk_ball : cimm -> Key -> Ball) (p_depth : cimm -> P -> nat)
           (pure_op : cimm -> list cimm -> P -> R) (fp_depth : cimm -> Key -> Q -> nat)
           (answer : cimm -> cimm -> list cimm -> Ball -> Q -> A) (mk_res : cimm -> BArgs -> RI)
           (d : gdesc) (ops : list (op gdesc Key Q P BArgs)) (h : nat) (j : imm cshared gdesc),
         imm_at RI NV H2I EL VN AS cshared gdesc Key Ball
           (run RI NV H2I EL VN AS AD SP NE mk_nv mk_h2i mk_el mk_vn mk_as mk_adj mk_sparse mk_named
              cshared gdesc Key Ball Q A P R BArgs key_eqb inv_defn inv_closed mk_ball p_depth
              pure_op fp_depth answer mk_res
              (init RI NV H2I EL VN AS cshared gdesc Key Ball (embed d)) ops) h = 
         Some j -> forall s : state, hash_of_shared (shared j) s = hashf (impl_of d) s.
Proof. exact @reachable_objects_hash_like_origin. Qed.
Print Assumptions C14_reachable_objects_hash_like_origin.
