
(** C16 - Puzzle definitions are faithful to their sources and to the physical puzzle. GAP loader: round trip for every text in the shipped format (GapProofs.v); generated puzzles: bounded structure theorems (PuzzlesProofs.v). Statements only: every proof is [exact] of a lemma proved elsewhere.
    (Statements are the lemmas' closed types as printed by Coq, hence the qualified names.) *)
From V Require Import Base Perm PermCycles Gap Puzzles PuzzlesRun GapProofs.

(* ANY generators written as disjoint 1-based cycles under distinct admissible names, with an optional identical-pieces partition: the loader returns exactly those permutations (each cycle element mapped to its successor, everything else fixed) on max-index points, named as written, and a central state that colours two points equal exactly when they are declared identical *)
Theorem C16_gap_roundtrip :
  forall (gens : list (String.string * list (list BinNums.Z)))
           (ipo : option (list (list BinNums.Z))),
         let n := BinInt.Z.to_nat (max_index (List.map snd gens)) in
         List.NoDup (List.map fst gens) ->
         List.Forall gen_ok gens ->
         List.concat (List.concat (List.map snd gens)) <> nil ->
         ip_valid n ipo ->
         exists g : gap_puzzle,
           parse_gap_file (print_gap gens ipo) = Ok g /\
           gp_names g = List.map fst gens /\
           gp_n g = n /\
           List.Forall2
             (fun (p : list nat) (x : String.string * list (list BinNums.Z)) => gen_spec n (snd x) p)
             (gp_gens g) gens /\ central_spec n ipo (gp_central g).
Proof. exact @gap_roundtrip. Qed.
Print Assumptions C16_gap_roundtrip.

(* the same for any interleaving of generator lines, ip lines (the last one wins) and ignored lines (comments, empty lines, other assignments such as Gen:=[...) *)
Theorem C16_gap_roundtrip_lines :
  forall ls : list gline,
         let gens := gens_of ls in
         let n := BinInt.Z.to_nat (max_index (List.map snd gens)) in
         List.Forall line_ok ls ->
         gens_valid gens ->
         ip_valid n (ip_of ls) ->
         exists g : gap_puzzle,
           parse_gap_file (string_of_chars (print_lines ls)) = Ok g /\
           gp_names g =
           List.map (fun x : chars * list (list BinNums.Z) => string_of_chars (gname x)) gens /\
           gp_n g = n /\
           List.Forall2
             (fun (p : list nat) (x : chars * list (list BinNums.Z)) => gen_spec n (snd x) p)
             (gp_gens g) gens /\ central_spec n (ip_of ls) (gp_central g).
Proof. exact @gap_roundtrip_lines. Qed.
Print Assumptions C16_gap_roundtrip_lines.

(* the regular-expression cycle reader returns exactly the printed cycles *)
Theorem C16_cycle_str_to_list_print :
  forall cs : list (list BinNums.Z),
         cycles_printable cs -> cycle_str_to_list (print_cycles cs) = Ok cs.
Proof. exact @cycle_str_to_list_print. Qed.
Print Assumptions C16_cycle_str_to_list_print.

(* the ip line (JSON subset) parses back *)
Theorem C16_parse_ip_print :
  forall ip : list (list BinNums.Z), ip_printable ip -> parse_ip (print_ip ip) = Ok ip.
Proof. exact @parse_ip_print. Qed.
Print Assumptions C16_parse_ip_print.

(* the colouring: values 0..n-1, equal colour iff same declared class (singletons may be omitted, classes may be repeated) *)
Theorem C16_central_state_from_ip_spec :
  forall (n : nat) (ip : list (list BinNums.Z)),
         classes_disjoint ip ->
         ip_in_range n ip ->
         exists c : list BinNums.Z,
           central_state_from_ip n ip = Ok c /\
           length c = n /\
           (forall i : nat,
            i < n ->
            BinInt.Z.le BinNums.Z0 (List.nth i c BinNums.Z0) /\
            BinInt.Z.lt (List.nth i c BinNums.Z0) (BinInt.Z.of_nat n)) /\
           (forall i j : nat,
            i < n -> j < n -> List.nth i c BinNums.Z0 = List.nth j c BinNums.Z0 <-> same_class ip i j).
Proof. exact @central_state_from_ip_spec. Qed.
Print Assumptions C16_central_state_from_ip_spec.

(* n = the largest index; generators through permutation_from_cycles *)
Theorem C16_build_gap_spec :
  forall (gens : list (chars * list (list BinNums.Z))) (ipo : option (list (list BinNums.Z))),
         let n := BinInt.Z.to_nat (max_index (List.map snd gens)) in
         gens_valid gens ->
         ip_valid n ipo ->
         exists g : gap_puzzle,
           build_gap
             {| ps_names := List.map gname gens; ps_dict := List.map gentry gens; ps_ip := ipo |} =
           Ok g /\
           gp_names g =
           List.map (fun x : chars * list (list BinNums.Z) => string_of_chars (gname x)) gens /\
           gp_n g = n /\
           List.Forall2
             (fun (p : list nat) (x : chars * list (list BinNums.Z)) => gen_spec n (snd x) p)
             (gp_gens g) gens /\ central_spec n ipo (gp_central g).
Proof. exact @build_gap_spec. Qed.
Print Assumptions C16_build_gap_spec.

(* the cheap permutation test used when evaluating the model on large files is the model's test *)
Theorem C16_is_perm_fast_eq :
  forall p : list nat, is_perm_fast p = is_perm p.
Proof. exact @is_perm_fast_eq. Qed.
Print Assumptions C16_is_perm_fast_eq.

(* hence evaluating with it evaluates the model *)
Theorem C16_load_puzzle_fast_eq :
  forall file_name text : String.string,
         load_puzzle_from_file_with is_perm_fast file_name text =
         load_puzzle_from_file file_name text.
Proof. exact @load_puzzle_fast_eq. Qed.
Print Assumptions C16_load_puzzle_fast_eq.
