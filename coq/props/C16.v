
(** C16 - Puzzle definitions are faithful to their sources and to the physical puzzle. GAP loader: round trip for every text in the shipped format (GapProofs.v); generated puzzles: bounded structure theorems (PuzzlesProofs.v). Statements only: every proof is [exact] of a lemma proved elsewhere.
    (Statements are the lemmas' closed types as printed by Coq, hence the qualified names.) *)
From V Require Import Base Perm PermCycles Gap Puzzles PuzzlesRun GapProofs.

(* ANY generators written as disjoint 1-based cycles under distinct admissible names, with an optional identical-pieces partition: the loader returns exactly those permutations (each cycle element mapped to its successor, everything else fixed) on max-index points, named as written, and a central state that colours two points equal exactly when they are declared identical *)
Theorem C16_gap_roundtrip :
  forall (gens : list (String.string * list (list BinNums.Z)))
           (ipo : option (list (list BinNums.Z))),
         let n := BinInt.Z.to_nat (max_index (List.map snd gens)) in
         List.NoDup (List.map fst gens) ->
         List.Forall gen_ok gens ->
         List.concat (List.concat (List.map snd gens)) <> nil ->
         ip_valid n ipo ->
         exists g : gap_puzzle,
           parse_gap_file (print_gap gens ipo) = Ok g /\
           gp_names g = List.map fst gens /\
           gp_n g = n /\
           List.Forall2
             (fun (p : list nat) (x : String.string * list (list BinNums.Z)) => gen_spec n (snd x) p)
             (gp_gens g) gens /\ central_spec n ipo (gp_central g).
Proof. exact @gap_roundtrip. Qed.
Print Assumptions C16_gap_roundtrip.

(* the same for any interleaving of generator lines, ip lines (the last one wins) and ignored lines (comments, empty lines, other assignments such as Gen:=[...) *)
Theorem C16_gap_roundtrip_lines :
  forall ls : list gline,
         let gens := gens_of ls in
         let n := BinInt.Z.to_nat (max_index (List.map snd gens)) in
         List.Forall line_ok ls ->
         gens_valid gens ->
         ip_valid n (ip_of ls) ->
         exists g : gap_puzzle,
           parse_gap_file (string_of_chars (print_lines ls)) = Ok g /\
           gp_names g =
           List.map (fun x : chars * list (list BinNums.Z) => string_of_chars (gname x)) gens /\
           gp_n g = n /\
           List.Forall2
             (fun (p : list nat) (x : chars * list (list BinNums.Z)) => gen_spec n (snd x) p)
             (gp_gens g) gens /\ central_spec n (ip_of ls) (gp_central g).
Proof. exact @gap_roundtrip_lines. Qed.
Print Assumptions C16_gap_roundtrip_lines.

(* the regular-expression cycle reader returns exactly the printed cycles *)
Theorem C16_cycle_str_to_list_print :
  forall cs : list (list BinNums.Z),
         cycles_printable cs -> cycle_str_to_list (print_cycles cs) = Ok cs.
Proof. exact @cycle_str_to_list_print. Qed.
Print Assumptions C16_cycle_str_to_list_print.

(* the ip line (JSON subset) parses back *)
Theorem C16_parse_ip_print :
  forall ip : list (list BinNums.Z), ip_printable ip -> parse_ip (print_ip ip) = Ok ip.
Proof. exact @parse_ip_print. Qed.
Print Assumptions C16_parse_ip_print.

(* the colouring: values 0..n-1, equal colour iff same declared class (singletons may be omitted, classes may be repeated) *)
Theorem C16_central_state_from_ip_spec :
  forall (n : nat) (ip : list (list BinNums.Z)),
         classes_disjoint ip ->
         ip_in_range n ip ->
         exists c : list BinNums.Z,
           central_state_from_ip n ip = Ok c /\
           length c = n /\
           (forall i : nat,
            i < n ->
            BinInt.Z.le BinNums.Z0 (List.nth i c BinNums.Z0) /\
            BinInt.Z.lt (List.nth i c BinNums.Z0) (BinInt.Z.of_nat n)) /\
           (forall i j : nat,
            i < n -> j < n -> List.nth i c BinNums.Z0 = List.nth j c BinNums.Z0 <-> same_class ip i j).
Proof. exact @central_state_from_ip_spec. Qed.
Print Assumptions C16_central_state_from_ip_spec.

(* n = the largest index; generators through permutation_from_cycles *)
Theorem C16_build_gap_spec :
  forall (gens : list (chars * list (list BinNums.Z))) (ipo : option (list (list BinNums.Z))),
         let n := BinInt.Z.to_nat (max_index (List.map snd gens)) in
         gens_valid gens ->
         ip_valid n ipo ->
         exists g : gap_puzzle,
           build_gap
             {| ps_names := List.map gname gens; ps_dict := List.map gentry gens; ps_ip := ipo |} =
           Ok g /\
           gp_names g =
           List.map (fun x : chars * list (list BinNums.Z) => string_of_chars (gname x)) gens /\
           gp_n g = n /\
           List.Forall2
             (fun (p : list nat) (x : chars * list (list BinNums.Z)) => gen_spec n (snd x) p)
             (gp_gens g) gens /\ central_spec n ipo (gp_central g).
Proof. exact @build_gap_spec. Qed.
Print Assumptions C16_build_gap_spec.

(* the cheap permutation test used when evaluating the model on large files is the model's test *)
Theorem C16_is_perm_fast_eq :
  forall p : list nat, is_perm_fast p = is_perm p.
Proof. exact @is_perm_fast_eq. Qed.
Print Assumptions C16_is_perm_fast_eq.

(* hence evaluating with it evaluates the model *)
Theorem C16_load_puzzle_fast_eq :
  forall file_name text : String.string,
         load_puzzle_from_file_with is_perm_fast file_name text =
         load_puzzle_from_file file_name text.
Proof. exact @load_puzzle_fast_eq. Qed.
Print Assumptions C16_load_puzzle_fast_eq.

From V Require Import Base Perm PermProofs Puzzles PuzzlesProofs.

(* kernel computation, bound in the statement: the structure check holds for the cubes 2x2x2 .. 6x6x6, all four metrics *)
Theorem C16_cube_structure_upto_6 :
  List.forallb cube_ok (2 :: 3 :: 4 :: 5 :: 6 :: nil) = true.
Proof. exact @cube_structure_upto_6. Qed.
Print Assumptions C16_cube_structure_upto_6.

(* what the check means: 3n layer turns, each a permutation of 6n^2 stickers of order 4 moving 4n (inner) or 4n+n^2-(n mod 2) (outer) stickers; the turns of one axis commute pairwise, have disjoint supports and together move every sticker except the two axis-face centres (n odd); QSTM/QTM/HTM/ATM generator sets are permutations and inverse-closed *)
Theorem C16_cube_ok_meaning :
  forall n : nat, cube_ok n = true -> CubeStructure n.
Proof. exact @cube_ok_meaning. Qed.
Print Assumptions C16_cube_ok_meaning.

(* hence for every n in 2..6 *)
Theorem C16_cube_structure_2_6 :
  forall n : nat, 2 <= n <= 6 -> CubeStructure n.
Proof. exact @cube_structure_2_6. Qed.
Print Assumptions C16_cube_structure_2_6.

(* kernel computation over all 4477 admissible tuples with ring sizes <= 12 *)
Theorem C16_rings_structure_upto_12 :
  List.forallb (fun '(ls, li, rs, ri) => rings_ok ls li rs ri) (ring_params 12) = true.
Proof. exact @rings_structure_upto_12. Qed.
Print Assumptions C16_rings_structure_upto_12.

(* the enumeration covers every admissible tuple up to the bound *)
Theorem C16_ring_params_complete :
  forall (bound : nat) (ls li rs ri : BinNums.Z),
         BinInt.Z.le (BinNums.Zpos (BinNums.xO BinNums.xH)) ls /\
         BinInt.Z.le ls (BinInt.Z.of_nat bound) ->
         BinInt.Z.le (BinNums.Zpos (BinNums.xO BinNums.xH)) rs /\
         BinInt.Z.le rs (BinInt.Z.of_nat bound) ->
         li = BinNums.Z0 /\ ri = BinNums.Z0 \/
         (BinInt.Z.le (BinNums.Zpos BinNums.xH) li /\ BinInt.Z.lt li ls) /\
         BinInt.Z.le (BinNums.Zpos BinNums.xH) ri /\ BinInt.Z.lt ri rs ->
         List.In (ls, li, rs, ri) (ring_params bound).
Proof. exact @ring_params_complete. Qed.
Print Assumptions C16_ring_params_complete.

(* both rotations are single cycles of the ring lengths, meet exactly in {0} / {0, left_index}, at the stated spacing; step -1 is the inverse; generator sets inverse-closed *)
Theorem C16_rings_ok_meaning :
  forall ls li rs ri : BinNums.Z, rings_ok ls li rs ri = true -> RingsStructure ls li rs ri.
Proof. exact @rings_ok_meaning. Qed.
Print Assumptions C16_rings_ok_meaning.

(* hence for all admissible tuples with sizes 2..12 *)
Theorem C16_rings_structure_2_12 :
  forall ls li rs ri : BinNums.Z,
         BinInt.Z.le (BinNums.Zpos (BinNums.xO BinNums.xH)) ls /\
         BinInt.Z.le ls (BinNums.Zpos (BinNums.xO (BinNums.xO (BinNums.xI BinNums.xH)))) ->
         BinInt.Z.le (BinNums.Zpos (BinNums.xO BinNums.xH)) rs /\
         BinInt.Z.le rs (BinNums.Zpos (BinNums.xO (BinNums.xO (BinNums.xI BinNums.xH)))) ->
         li = BinNums.Z0 /\ ri = BinNums.Z0 \/
         (BinInt.Z.le (BinNums.Zpos BinNums.xH) li /\ BinInt.Z.lt li ls) /\
         BinInt.Z.le (BinNums.Zpos BinNums.xH) ri /\ BinInt.Z.lt ri rs -> 
         RingsStructure ls li rs ri.
Proof. exact @rings_structure_2_12. Qed.
Print Assumptions C16_rings_structure_2_12.

(* kernel computation for all 1 <= a, b <= 6 *)
Theorem C16_globe_structure_upto_6 :
  List.forallb (fun '(a, b) => globe_ok a b) (List.list_prod (List.seq 1 6) (List.seq 1 6)) =
         true.
Proof. exact @globe_structure_upto_6. Qed.
Print Assumptions C16_globe_structure_upto_6.

(* a+1 r-generators that are single cycles of length 2b on their own row, 2b f-generators that are involutions, generator set inverse-closed *)
Theorem C16_globe_ok_meaning :
  forall a b : nat, globe_ok a b = true -> GlobeStructure a b.
Proof. exact @globe_ok_meaning. Qed.
Print Assumptions C16_globe_ok_meaning.

(* hence for all a, b in 1..6 *)
Theorem C16_globe_structure_1_6 :
  forall a b : nat, 1 <= a <= 6 -> 1 <= b <= 6 -> GlobeStructure a b.
Proof. exact @globe_structure_1_6. Qed.
Print Assumptions C16_globe_structure_1_6.

(* GENERAL in all ring sizes: the left rotation is a single cycle of length left_size on the points below left_size *)
Theorem C16_rings_left_single_cycle_general :
  forall (ls li rs ri : BinNums.Z) (lz rz : list BinNums.Z),
         hungarian_rings_permutations ls li rs ri (BinNums.Zpos BinNums.xH) = Ok (lz, rz) ->
         BinInt.Z.le (BinNums.Zpos (BinNums.xO BinNums.xH)) ls ->
         SingleCycle (List.map BinInt.Z.to_nat lz) (BinInt.Z.to_nat ls) /\
         (forall x : nat, Moved (List.map BinInt.Z.to_nat lz) x <-> x < BinInt.Z.to_nat ls).
Proof. exact @rings_left_single_cycle_general. Qed.
Print Assumptions C16_rings_left_single_cycle_general.

(* GENERAL: _circular_shift is the rotation *)
Theorem C16_circular_shift_nth :
  forall (A : Type) (items : list A) (step : BinNums.Z) (d : A) (i : nat),
         i < length items ->
         List.nth i (circular_shift items step) d =
         List.nth
           (BinInt.Z.to_nat
              (BinInt.Z.modulo (BinInt.Z.add (BinInt.Z.of_nat i) step)
                 (BinInt.Z.of_nat (length items)))) items d.
Proof. exact @circular_shift_nth. Qed.
Print Assumptions C16_circular_shift_nth.

(* GENERAL: the globe's row rotation is a single cycle *)
Theorem C16_help_cyclic_single_cycle :
  forall start fin1 n : nat,
         start + 2 <= fin1 -> fin1 <= n -> SingleCycle (help_cyclic start fin1 n) (fin1 - start).
Proof. exact @help_cyclic_single_cycle. Qed.
Print Assumptions C16_help_cyclic_single_cycle.

From V Require Import Base Perm PermProofs Puzzles PuzzlesProofs CubeGeneral CubeGeneralMoves.

(* EVERY n >= 2 (no bound): the cube move generator returns 3n named layer turns, each a permutation of 6n^2 stickers of order 4 moving exactly 4n (inner) / 4n + n^2 - (n mod 2) (outer) stickers; the turns of one axis commute pairwise, have disjoint supports and together move every sticker except the two axis-face centres *)
Theorem C16_cube_moves_structure_general :
  forall n : nat, 2 <= n -> CubeMovesStructure n.
Proof. exact @cube_moves_structure_general. Qed.
Print Assumptions C16_cube_moves_structure_general.

(* the closed form: every layer turn IS the geometric quarter turn of its slice on sticker coordinates (face, row, col) *)
Theorem C16_move_perm_nth :
  forall (n : nat) (t : mtype) (s i : nat),
         2 <= n -> s < n -> i < 6 * (n * n) -> List.nth i (move_perm n t s) 0 = turn_fun n t s i.
Proof. exact @move_perm_nth. Qed.
Print Assumptions C16_move_perm_nth.

(* a turn moves EXACTLY the stickers of its layer (explicit list: the rim of the slice, plus the outer face without its centre) *)
Theorem C16_move_perm_support :
  forall (n : nat) (t : mtype) (s x : nat),
         2 <= n -> s < n -> List.In x (layer_stickers n t s) <-> Moved (move_perm n t s) x.
Proof. exact @move_perm_support. Qed.
Print Assumptions C16_move_perm_support.

(* order 4 *)
Theorem C16_move_perm_Order4 :
  forall (n : nat) (t : mtype) (s : nat), 2 <= n -> s < n -> Order4 (move_perm n t s).
Proof. exact @move_perm_Order4. Qed.
Print Assumptions C16_move_perm_Order4.

(* turns of one axis commute *)
Theorem C16_move_perm_commute :
  forall (n : nat) (t : mtype) (s s' : nat),
         2 <= n ->
         s < n ->
         s' < n ->
         compose (move_perm n t s) (move_perm n t s') = compose (move_perm n t s') (move_perm n t s).
Proof. exact @move_perm_commute. Qed.
Print Assumptions C16_move_perm_commute.

(* the slices of one axis cover every sticker except the axis-face centres *)
Theorem C16_axis_cover :
  forall (n : nat) (t : mtype) (i : nat),
         2 <= n ->
         i < 6 * (n * n) ->
         (exists s : nat, s < n /\ Moved (move_perm n t s) i) <-> ~ AxisCentre n t i.
Proof. exact @axis_cover. Qed.
Print Assumptions C16_axis_cover.

(* the returned dictionary (names, renaming of the r-turns, order) in closed form *)
Theorem C16_cube_moves_eq :
  forall n : nat, 2 <= n -> cube_moves n = Ok (canonical n).
Proof. exact @cube_moves_eq. Qed.
Print Assumptions C16_cube_moves_eq.

(* the face-rotation bookkeeping emits each 4-orbit exactly once *)
Theorem C16_rotate_face_cw_NoDup :
  forall n face : nat, List.NoDup (List.concat (rotate_face_cw n face)).
Proof. exact @rotate_face_cw_NoDup. Qed.
Print Assumptions C16_rotate_face_cw_NoDup.

From V Require Import Base Perm PermProofs Puzzles PuzzlesProofs CubeGeneral PuzzlesGeneral.

(* EVERY n >= 2: the full cube structure - layer turns AND the generator sets of all four metrics (QSTM, QTM, HTM, ATM) are permutations of 6n^2 stickers and inverse-closed *)
Theorem C16_cube_general :
  forall n : nat, 2 <= n -> CubeStructure n.
Proof. exact @cube_general. Qed.
Print Assumptions C16_cube_general.

(* ALL ring sizes >= 2 and all accepted index pairs: both rotations are single cycles of the ring lengths meeting exactly in {0} / {0, left_index} at the stated spacing, step -1 is the inverse, generator sets inverse-closed *)
Theorem C16_rings_general :
  forall ls li rs ri : BinNums.Z,
         BinInt.Z.le (BinNums.Zpos (BinNums.xO BinNums.xH)) ls ->
         BinInt.Z.le (BinNums.Zpos (BinNums.xO BinNums.xH)) rs ->
         li = BinNums.Z0 /\ ri = BinNums.Z0 \/
         (BinInt.Z.le (BinNums.Zpos BinNums.xH) li /\ BinInt.Z.lt li ls) /\
         BinInt.Z.le (BinNums.Zpos BinNums.xH) ri /\ BinInt.Z.lt ri rs -> 
         RingsStructure ls li rs ri.
Proof. exact @rings_general. Qed.
Print Assumptions C16_rings_general.

(* the same spelled out on the two rotations *)
Theorem C16_rings_rotations_general :
  forall ls li rs ri : BinNums.Z,
         BinInt.Z.le (BinNums.Zpos (BinNums.xO BinNums.xH)) ls ->
         BinInt.Z.le (BinNums.Zpos (BinNums.xO BinNums.xH)) rs ->
         li = BinNums.Z0 /\ ri = BinNums.Z0 \/
         (BinInt.Z.le (BinNums.Zpos BinNums.xH) li /\ BinInt.Z.lt li ls) /\
         BinInt.Z.le (BinNums.Zpos BinNums.xH) ri /\ BinInt.Z.lt ri rs ->
         exists L R : list nat,
           hungarian_rings_permutations ls li rs ri (BinNums.Zpos BinNums.xH) =
           Ok (List.map BinInt.Z.of_nat L, List.map BinInt.Z.of_nat R) /\
           hungarian_rings_permutations ls li rs ri (BinNums.Zneg BinNums.xH) =
           Ok (List.map BinInt.Z.of_nat (inverse_perm L), List.map BinInt.Z.of_nat (inverse_perm R)) /\
           Perm L /\
           Perm R /\
           SingleCycle L (BinInt.Z.to_nat ls) /\
           SingleCycle R (BinInt.Z.to_nat rs) /\
           (forall x : nat, Moved L x /\ Moved R x <-> x = 0 \/ x = BinInt.Z.to_nat li) /\
           (DistIs L 0 (BinInt.Z.to_nat li) (BinInt.Z.to_nat li) \/
            DistIs L (BinInt.Z.to_nat li) 0 (BinInt.Z.to_nat li)) /\
           (DistIs R 0 (BinInt.Z.to_nat li) (BinInt.Z.to_nat ri) \/
            DistIs R (BinInt.Z.to_nat li) 0 (BinInt.Z.to_nat ri)).
Proof. exact @rings_rotations_general. Qed.
Print Assumptions C16_rings_rotations_general.

(* ALL a, b >= 1: r-generators are single cycles of length 2b on their row, f-generators involutions, generator set inverse-closed *)
Theorem C16_globe_general :
  forall a b : nat, 1 <= a -> 1 <= b -> GlobeStructure a b.
Proof. exact @globe_general. Qed.
Print Assumptions C16_globe_general.

(* globe, cube and ring generator sets are inverse-closed, for all parameters *)
Theorem C16_generator_sets_inverse_closed :
  (forall (n : nat) (metric : String.string),
          2 <= n ->
          List.In metric
            (String.String (Ascii.Ascii true false false false true false true false)
               (String.String (Ascii.Ascii true true false false true false true false)
                  (String.String (Ascii.Ascii false false true false true false true false)
                     (String.String (Ascii.Ascii true false true true false false true false)
                        String.EmptyString)))
             :: String.String (Ascii.Ascii true false false false true false true false)
                  (String.String (Ascii.Ascii false false true false true false true false)
                     (String.String (Ascii.Ascii true false true true false false true false)
                        String.EmptyString))
                :: String.String (Ascii.Ascii false false false true false false true false)
                     (String.String (Ascii.Ascii false false true false true false true false)
                        (String.String (Ascii.Ascii true false true true false false true false)
                           String.EmptyString))
                   :: String.String (Ascii.Ascii true false false false false false true false)
                        (String.String (Ascii.Ascii false false true false true false true false)
                           (String.String (Ascii.Ascii true false true true false false true false)
                              String.EmptyString)) :: nil) ->
          exists pz : puzzle,
            rubik_cube (BinInt.Z.of_nat n) metric = Ok pz /\
            (forall g : list nat, List.In g (pz_gens pz) -> length g = 6 * (n * n) /\ Perm g) /\
            InverseClosed (pz_gens pz)) /\
         (forall ls li rs ri : BinNums.Z,
          BinInt.Z.le (BinNums.Zpos (BinNums.xO BinNums.xH)) ls ->
          BinInt.Z.le (BinNums.Zpos (BinNums.xO BinNums.xH)) rs ->
          li = BinNums.Z0 /\ ri = BinNums.Z0 \/
          (BinInt.Z.le (BinNums.Zpos BinNums.xH) li /\ BinInt.Z.lt li ls) /\
          BinInt.Z.le (BinNums.Zpos BinNums.xH) ri /\ BinInt.Z.lt ri rs ->
          BinInt.Z.le (BinInt.Z.mul (BinNums.Zpos (BinNums.xO BinNums.xH)) li) ls ->
          BinInt.Z.le (BinInt.Z.mul (BinNums.Zpos (BinNums.xO BinNums.xH)) ri) rs ->
          exists pz : puzzle,
            hungarian_rings ls li rs ri = Ok pz /\
            (forall g : list nat,
             List.In g (pz_gens pz) -> length g = ring_points ls li rs ri /\ Perm g) /\
            InverseClosed (pz_gens pz)) /\
         (forall a b : nat,
          1 <= a ->
          1 <= b ->
          exists pz : puzzle,
            globe_puzzle a b = Ok pz /\
            (forall g : list nat, List.In g (pz_gens pz) -> length g = 2 * (a + 1) * b /\ Perm g) /\
            InverseClosed (pz_gens pz)).
Proof. exact @generator_sets_inverse_closed. Qed.
Print Assumptions C16_generator_sets_inverse_closed.

(* every other index pair is rejected with ValueError *)
Theorem C16_rings_perms_rejects :
  forall ls li rs ri step : BinNums.Z,
         ~
         (li = BinNums.Z0 /\ ri = BinNums.Z0 \/
          (BinInt.Z.le (BinNums.Zpos BinNums.xH) li /\ BinInt.Z.lt li ls) /\
          BinInt.Z.le (BinNums.Zpos BinNums.xH) ri /\ BinInt.Z.lt ri rs) ->
         hungarian_rings_permutations ls li rs ri step = Err ValueErr.
Proof. exact @rings_perms_rejects. Qed.
Print Assumptions C16_rings_perms_rejects.

(* ---- table-driven puzzles: the CURRENT literal tables of moves.py / cube.py (regenerated by translator T4b on every run) ---- *)
From V Require Import MoveTablesDefs MoveTablesProofs.
From V.gen Require Import MoveTables.

(* mini pyramorphix: 17 moves, each a permutation of 24 points, the set is inverse-closed (the documented undirected graph) *)
Theorem C16_mini_pyramorphix_table_ok :
  table_ok 24 tbl_mini_pyramorphix_allowed_moves = true /\ List.length tbl_mini_pyramorphix_allowed_moves = 17
  /\ gens_inverse_closed (perms_of tbl_mini_pyramorphix_allowed_moves) = true.
Proof. exact mini_pyramorphix_table_ok. Qed.
Print Assumptions C16_mini_pyramorphix_table_ok.

Theorem C16_picture_cube_table_ok :
  table_ok 72 tbl_picture_cube_333_allowed_moves = true /\ List.length tbl_picture_cube_333_allowed_moves = 18
  /\ gens_inverse_closed (perms_of tbl_picture_cube_333_allowed_moves) = true.
Proof. exact picture_cube_table_ok. Qed.
Print Assumptions C16_picture_cube_table_ok.

(* pyraminx: 8 moves of order 3 on 36 points; with their inverses 16 generators, inverse-closed *)
Theorem C16_pyraminx_table_ok :
  table_ok 36 tbl_pyraminx_moves = true /\ List.length pyraminx_gens = 16
  /\ List.forallb (has_order 3) (perms_of tbl_pyraminx_moves) = true
  /\ gens_inverse_closed (List.map snd pyraminx_gens) = true.
Proof. exact pyraminx_table_ok. Qed.
Print Assumptions C16_pyraminx_table_ok.

(* megaminx: 12 face turns of order 5 on 120 points; with their inverses 24 generators, inverse-closed *)
Theorem C16_megaminx_table_ok :
  table_ok 120 tbl_megaminx_moves = true /\ List.length megaminx_gens = 24
  /\ List.forallb (has_order 5) (perms_of tbl_megaminx_moves) = true
  /\ gens_inverse_closed (List.map snd megaminx_gens) = true.
Proof. exact megaminx_table_ok. Qed.
Print Assumptions C16_megaminx_table_ok.

(* the fixed-corner 2x2x2 tables and the 3x3x3 face-turn table: permutations of order 4; the fixed-corner generator sets are inverse-closed *)
Theorem C16_cube222_table_ok :
  table_ok 24 tbl_cube222_moves = true /\ List.forallb order4 (perms_of tbl_cube222_moves) = true
  /\ gens_inverse_closed (List.map snd cube222_quarter_gens) = true /\ gens_inverse_closed (List.map snd cube222_half_gens) = true.
Proof. exact cube222_table_ok. Qed.
Print Assumptions C16_cube222_table_ok.

Theorem C16_cube333_table_ok :
  table_ok 54 tbl_cube333_moves = true /\ List.forallb order4 (perms_of tbl_cube333_moves) = true.
Proof. exact cube333_table_ok. Qed.
Print Assumptions C16_cube333_table_ok.

(* what the boolean facts mean *)
Theorem C16_table_ok_meaning : forall size t, table_ok size t = true ->
  exists l, table_perms t = Ok l /\ forall nm p, List.In (nm, p) l -> Perm.is_perm p = true /\ List.length p = size.
Proof. exact table_ok_meaning. Qed.
Print Assumptions C16_table_ok_meaning.

Theorem C16_gens_inverse_closed_meaning : forall gens, gens_inverse_closed gens = true ->
  forall p, List.In p gens -> List.In (Perm.inverse_perm p) gens.
Proof. exact gens_inverse_closed_meaning. Qed.
Print Assumptions C16_gens_inverse_closed_meaning.
