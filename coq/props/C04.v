(** C04 - Paths restored from a BFS result are valid and shortest. Statements only: every proof is [exact] of a lemma proved elsewhere.
    G/Ginv: a graph instance and its inverted copy (same hasher); U: the states a run touches; ball_ok G c lh: lh are the strictly sorted
    per-layer hash lists of the true BFS layers from the central state c (what C09_bfs_prefix delivers); NoColl = hash injective on U.
    (Statements are the lemmas' closed types as printed by Coq, hence the qualified names.) *)
From V Require Import Base Tensor Graph GraphProofs GraphImpl Def Paths BfsStep PathsProofs.

(* the backward walk over layer hashes yields a real path of the right length; its internal assertion cannot fire *)
Theorem C04_restore_path_correct :
  forall (G Ginv : impl) (U : state -> Prop),
         closed state (acts G) U ->
         closed state (acts Ginv) U ->
         (forall a b : state, U a -> U b -> hashf G a = hashf G b -> a = b) ->
         length (acts Ginv) = length (acts G) ->
         (forall (i : nat) (g gi : state -> state) (x : state),
          List.nth_error (acts G) i = Some g ->
          List.nth_error (acts Ginv) i = Some gi -> U x -> g (gi x) = x /\ gi (g x) = x) ->
         forall c : state,
         U c ->
         forall (lh : list (list BinNums.Z)) (i : nat) (q : state),
         ball_ok G c lh ->
         i <= length lh ->
         List.In q (layer state st_eq_dec (acts G) (c :: nil) i) ->
         exists p : list nat,
           restore_path G Ginv (List.firstn i lh) q = Ok p /\
           length p = i /\ run state (acts G) c p = Some q.
Proof. exact @restore_path_correct. Qed.
Print Assumptions C04_restore_path_correct.

(* a returned path replays from the central state to the query and its length is the true distance *)
Theorem C04_find_path_to_sound :
  forall (G Ginv : impl) (U : state -> Prop),
         closed state (acts G) U ->
         closed state (acts Ginv) U ->
         (forall a b : state, U a -> U b -> hashf G a = hashf G b -> a = b) ->
         length (acts Ginv) = length (acts G) ->
         (forall (i : nat) (g gi : state -> state) (x : state),
          List.nth_error (acts G) i = Some g ->
          List.nth_error (acts Ginv) i = Some gi -> U x -> g (gi x) = x /\ gi (g x) = x) ->
         forall c : state,
         U c ->
         forall (lh : list (list BinNums.Z)) (ns : nat) (q : state) (p : list nat),
         ball_ok G c lh ->
         U q ->
         find_path_to G Ginv lh ns q = Ok (Some p) ->
         run state (acts G) c p = Some q /\
         dist_is state (acts G) (c :: nil) q (length p) /\ length p < length lh.
Proof. exact @find_path_to_sound. Qed.
Print Assumptions C04_find_path_to_sound.

(* 'no path' exactly when the state is in none of the layers 0..D; never an error on a well-formed ball *)
Theorem C04_find_path_to_complete :
  forall (G Ginv : impl) (U : state -> Prop),
         closed state (acts G) U ->
         closed state (acts Ginv) U ->
         (forall a b : state, U a -> U b -> hashf G a = hashf G b -> a = b) ->
         length (acts Ginv) = length (acts G) ->
         (forall (i : nat) (g gi : state -> state) (x : state),
          List.nth_error (acts G) i = Some g ->
          List.nth_error (acts Ginv) i = Some gi -> U x -> g (gi x) = x /\ gi (g x) = x) ->
         forall c : state,
         U c ->
         forall (lh : list (list BinNums.Z)) (ns : nat) (q : state),
         ball_ok G c lh ->
         U q ->
         length lh = ns ->
         (find_path_to G Ginv lh ns q = Ok None <->
          (forall i : nat, i < length lh -> ~ List.In q (layer state st_eq_dec (acts G) (c :: nil) i))) /\
         (exists r : option (list nat), find_path_to G Ginv lh ns q = Ok r).
Proof. exact @find_path_to_complete. Qed.
Print Assumptions C04_find_path_to_complete.

(* no replayable path is shorter *)
Theorem C04_find_path_to_shortest :
  forall (G Ginv : impl) (U : state -> Prop),
         closed state (acts G) U ->
         closed state (acts Ginv) U ->
         (forall a b : state, U a -> U b -> hashf G a = hashf G b -> a = b) ->
         length (acts Ginv) = length (acts G) ->
         (forall (i : nat) (g gi : state -> state) (x : state),
          List.nth_error (acts G) i = Some g ->
          List.nth_error (acts Ginv) i = Some gi -> U x -> g (gi x) = x /\ gi (g x) = x) ->
         forall c : state,
         U c ->
         forall (lh : list (list BinNums.Z)) (ns : nat) (q : state) (p : list nat),
         ball_ok G c lh ->
         U q ->
         find_path_to G Ginv lh ns q = Ok (Some p) ->
         forall p' : list nat, run state (acts G) c p' = Some q -> length p <= length p'.
Proof. exact @find_path_to_shortest. Qed.
Print Assumptions C04_find_path_to_shortest.

(* inverse-closed generators: the reverted path leads from the state to the central state, length = distance *)
Theorem C04_find_path_from_sound :
  forall (G Ginv : impl) (U : state -> Prop),
         closed state (acts G) U ->
         closed state (acts Ginv) U ->
         (forall a b : state, U a -> U b -> hashf G a = hashf G b -> a = b) ->
         length (acts Ginv) = length (acts G) ->
         (forall (i : nat) (g gi : state -> state) (x : state),
          List.nth_error (acts G) i = Some g ->
          List.nth_error (acts Ginv) i = Some gi -> U x -> g (gi x) = x /\ gi (g x) = x) ->
         forall c : state,
         U c ->
         forall (m : list nat) (lh : list (list BinNums.Z)) (ns : nat) (q : state) (p : list nat),
         (forall (i : nat) (g : state -> state),
          List.nth_error (acts G) i = Some g ->
          exists g' : state -> state,
            List.nth_error (acts G) (List.nth i m 0) = Some g' /\
            (forall x : state, U x -> g' (g x) = x)) ->
         ball_ok G c lh ->
         U q ->
         find_path_from G Ginv (Some m) lh ns q = Ok (Some p) ->
         run state (acts G) q p = Some c /\ dist_is state (acts G) (c :: nil) q (length p).
Proof. exact @find_path_from_sound. Qed.
Print Assumptions C04_find_path_from_sound.

(* reverting a path A->B gives a valid path B->A of the same length *)
Theorem C04_revert_path_valid :
  forall (G : impl) (U : state -> Prop),
         closed state (acts G) U ->
         forall (m : list nat) (a b : state) (p : list nat),
         (forall (i : nat) (g : state -> state),
          List.nth_error (acts G) i = Some g ->
          exists g' : state -> state,
            List.nth_error (acts G) (List.nth i m 0) = Some g' /\
            (forall x : state, U x -> g' (g x) = x)) ->
         U a ->
         run state (acts G) a p = Some b ->
         exists q : list nat,
           revert_path (Some m) p = Ok q /\ length q = length p /\ run state (acts G) b q = Some a.
Proof. exact @revert_path_valid. Qed.
Print Assumptions C04_revert_path_valid.

From V Require Import Base Tensor Graph GraphProofs GraphImpl Hash Def Paths BfsStep Bfs BfsRun BfsProofs PathsProofs Mitm MitmProofs PathRun MitmFind Interactive InteractiveBetween InstPerm InstSmall InstBfs InstPaths.

(* END TO END on env_of d (graph and inverted copy built from a well-formed permutation description): only NoColl remains *)
Theorem C04_perm_find_path_to_sound :
  forall (d : gdesc) (inv_mats : list (list (list BinNums.Z))) (e : path_env),
         wf_perm_desc d ->
         env_of d inv_mats = Some e ->
         NoCollOn (impl_of d) (Ustates d) ->
         forall c : state,
         Ustates d c ->
         forall (lh : list (list BinNums.Z)) (ns : nat) (q : state) (p : list nat),
         ball_ok (pe_G e) c lh ->
         Ustates d q ->
         find_path_to (pe_G e) (pe_Ginv e) lh ns q = Ok (Some p) ->
         run state (acts (pe_G e)) c p = Some q /\
         dist_is state (acts (pe_G e)) (c :: nil) q (length p) /\ length p < length lh.
Proof. exact @find_path_to_perm_sound. Qed.
Print Assumptions C04_perm_find_path_to_sound.

(* completeness, same hypotheses *)
Theorem C04_perm_find_path_to_complete :
  forall (d : gdesc) (inv_mats : list (list (list BinNums.Z))) (e : path_env),
         wf_perm_desc d ->
         env_of d inv_mats = Some e ->
         NoCollOn (impl_of d) (Ustates d) ->
         forall c : state,
         Ustates d c ->
         forall (lh : list (list BinNums.Z)) (ns : nat) (q : state),
         ball_ok (pe_G e) c lh ->
         Ustates d q ->
         length lh = ns ->
         (find_path_to (pe_G e) (pe_Ginv e) lh ns q = Ok None <->
          (forall i : nat,
           i < length lh -> ~ List.In q (layer state st_eq_dec (acts (pe_G e)) (c :: nil) i))) /\
         (exists r : option (list nat), find_path_to (pe_G e) (pe_Ginv e) lh ns q = Ok r).
Proof. exact @find_path_to_perm_complete. Qed.
Print Assumptions C04_perm_find_path_to_complete.

(* single-word identity hash: no hash hypothesis *)
Theorem C04_perm_find_path_to_shortest_unconditional :
  forall (d : gdesc) (inv_mats : list (list (list BinNums.Z))) (e : path_env),
         wf_perm_desc d ->
         env_of d inv_mats = Some e ->
         g_hasher d = HIdentity ->
         single_word d ->
         forall c : state,
         Ustates d c ->
         forall (lh : list (list BinNums.Z)) (ns : nat) (q : state) (p : list nat),
         ball_ok (pe_G e) c lh ->
         Ustates d q ->
         find_path_to (pe_G e) (pe_Ginv e) lh ns q = Ok (Some p) ->
         forall p' : list nat, run state (acts (pe_G e)) c p' = Some q -> length p <= length p'.
Proof. exact @find_path_to_perm_shortest_unconditional. Qed.
Print Assumptions C04_perm_find_path_to_shortest_unconditional.

(* find_path_from, single-word identity hash: no hash hypothesis *)
Theorem C04_perm_find_path_from_sound_unconditional :
  forall (d : gdesc) (inv_mats : list (list (list BinNums.Z))) (e : path_env),
         wf_perm_desc d ->
         env_of d inv_mats = Some e ->
         g_hasher d = HIdentity ->
         single_word d ->
         forall c : state,
         Ustates d c ->
         forall (m : list nat) (lh : list (list BinNums.Z)) (ns : nat) (q : state) (p : list nat),
         pe_invmap e = Some m ->
         ball_ok (pe_G e) c lh ->
         Ustates d q ->
         find_path_from (pe_G e) (pe_Ginv e) (Some m) lh ns q = Ok (Some p) ->
         run state (acts (pe_G e)) q p = Some c /\
         dist_is state (acts (pe_G e)) (c :: nil) q (length p).
Proof. exact @find_path_from_perm_sound_unconditional. Qed.
Print Assumptions C04_perm_find_path_from_sound_unconditional.

(* restore_path, single-word identity hash: no hash hypothesis *)
Theorem C04_perm_restore_path_unconditional :
  forall (d : gdesc) (inv_mats : list (list (list BinNums.Z))) (e : path_env),
         wf_perm_desc d ->
         env_of d inv_mats = Some e ->
         g_hasher d = HIdentity ->
         single_word d ->
         forall c : state,
         Ustates d c ->
         forall (lh : list (list BinNums.Z)) (i : nat) (q : state),
         ball_ok (pe_G e) c lh ->
         i <= length lh ->
         List.In q (layer state st_eq_dec (acts (pe_G e)) (c :: nil) i) ->
         exists p : list nat,
           restore_path (pe_G e) (pe_Ginv e) (List.firstn i lh) q = Ok p /\
           length p = i /\ run state (acts (pe_G e)) c p = Some q.
Proof. exact @restore_path_perm_correct_unconditional. Qed.
Print Assumptions C04_perm_restore_path_unconditional.

From V Require Import Base Tensor Graph GraphProofs GraphImpl Hash Matrix MatrixProofs Def Paths BfsStep Bfs BfsRun BfsProofs PathsProofs Mitm MitmProofs PathRun MitmFind InstShared InstMatrix InstMatrixAlgebra InstMatrixBfs.

(* END TO END on env_of d inv_mats for matrix groups (inverse matrices as data that passed the product check): only NoColl remains *)
Theorem C04_matrix_find_path_to_sound :
  forall (d : gdesc) (inv_mats : list (list (list BinNums.Z))) (e : path_env),
         wf_matrix_core d = true ->
         wf_inv_mats d inv_mats = true ->
         env_of d inv_mats = Some e ->
         NoCollMat d ->
         forall (lh : list (list BinNums.Z)) (ns : nat) (q : state) (p : list nat),
         ball_ok (pe_G e) (central (pe_G e)) lh ->
         Umat d q ->
         find_path_to (pe_G e) (pe_Ginv e) lh ns q = Ok (Some p) ->
         run state (acts (pe_G e)) (central (pe_G e)) p = Some q /\
         dist_is state (acts (pe_G e)) (central (pe_G e) :: nil) q (length p) /\ length p < length lh.
Proof. exact @matrix_find_path_to_sound. Qed.
Print Assumptions C04_matrix_find_path_to_sound.

(* completeness, same hypotheses *)
Theorem C04_matrix_find_path_to_complete :
  forall (d : gdesc) (inv_mats : list (list (list BinNums.Z))) (e : path_env),
         wf_matrix_core d = true ->
         wf_inv_mats d inv_mats = true ->
         env_of d inv_mats = Some e ->
         NoCollMat d ->
         forall (lh : list (list BinNums.Z)) (ns : nat) (q : state),
         ball_ok (pe_G e) (central (pe_G e)) lh ->
         Umat d q ->
         length lh = ns ->
         (find_path_to (pe_G e) (pe_Ginv e) lh ns q = Ok None <->
          (forall i : nat,
           i < length lh ->
           ~ List.In q (layer state st_eq_dec (acts (pe_G e)) (central (pe_G e) :: nil) i))) /\
         (exists r : option (list nat), find_path_to (pe_G e) (pe_Ginv e) lh ns q = Ok r).
Proof. exact @matrix_find_path_to_complete. Qed.
Print Assumptions C04_matrix_find_path_to_complete.
