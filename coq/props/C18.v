(** C18 - placeholder obligations until PathsProofs lands. *)
From Coq Require Import ZArith List.
From V Require Import Base Perm PermProofs.
Theorem C18_inverse_generator_undoes : forall (A : Type) (d : A) p (x : list A), Perm p -> length x = length p ->
  apply_perm d (inverse_perm p) (apply_perm d p x) = x /\ apply_perm d p (apply_perm d (inverse_perm p) x) = x.
Proof. exact @inverse_undoes. Qed.
Print Assumptions C18_inverse_generator_undoes.
