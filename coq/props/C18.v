(** C18 - A saved BFS result loads back equal and stays usable for path queries. Statements only: every proof is [exact] of a lemma proved elsewhere.
    Model SaveLoad.v: the HDF5 file is an abstract map from dataset names to arrays/strings; save/load use the library's key scheme.
    (Statements are the lemmas' closed types as printed by Coq, hence the qualified names.) *)
From V Require Import Base SaveLoad SaveLoadProofs.

(* every well-formed result (any names, central state, subset of stored layers, hashes or none, edges or none) loads back IDENTICAL *)
Theorem C18_load_save :
  forall r : bfs_result, length (r_hashes r) <= length (r_sizes r) -> load (save r) = Ok r.
Proof. exact @load_save. Qed.
Print Assumptions C18_load_save.

(* and compares equal both ways *)
Theorem C18_load_save_eq :
  forall r : bfs_result,
         length (r_hashes r) <= length (r_sizes r) ->
         exists r' : bfs_result,
           load (save r) = Ok r' /\ result_eq r' r = true /\ result_eq r r' = true.
Proof. exact @load_save_eq. Qed.
Print Assumptions C18_load_save_eq.

(* the k.strip('layer__') trick parses the layer id back (digits are not in the stripped set) *)
Theorem C18_strip_parse_key :
  forall k : nat,
         parse_nat
           (strip
              (String.append
                 (String.String (Ascii.Ascii false false true true false true true false)
                    (String.String (Ascii.Ascii true false false false false true true false)
                       (String.String (Ascii.Ascii true false false true true true true false)
                          (String.String (Ascii.Ascii true false true false false true true false)
                             (String.String (Ascii.Ascii false true false false true true true false)
                                (String.String
                                   (Ascii.Ascii true true true true true false true false)
                                   (String.String
                                      (Ascii.Ascii true true true true true false true false)
                                      String.EmptyString))))))) (nat_to_string k))) = 
         Some k.
Proof. exact @strip_parse_key. Qed.
Print Assumptions C18_strip_parse_key.

(* equal results agree on every field *)
Theorem C18_result_eq_sound :
  forall a b : bfs_result,
         result_eq a b = true ->
         r_completed a = r_completed b /\
         r_sizes a = r_sizes b /\
         r_hashes a = r_hashes b /\
         r_edges a = r_edges b /\
         r_gens a = r_gens b /\
         r_gen_names a = r_gen_names b /\
         r_central a = r_central b /\
         r_name a = r_name b /\
         (forall (k : nat) (l : list (list BinNums.Z)),
          List.In (k, l) (r_layers a) ->
          exists l' : list (list BinNums.Z), List.In (k, l') (r_layers b) /\ l' = l) /\
         (forall (k : nat) (l : list (list BinNums.Z)),
          List.In (k, l) (r_layers b) ->
          exists l' : list (list BinNums.Z), List.In (k, l') (r_layers a)).
Proof. exact @result_eq_sound. Qed.
Print Assumptions C18_result_eq_sound.

(* results differing in any scalar/list field compare unequal *)
Theorem C18_result_eq_distinguishes :
  forall a b : bfs_result,
         r_completed a <> r_completed b \/
         r_sizes a <> r_sizes b \/
         r_hashes a <> r_hashes b \/
         r_edges a <> r_edges b \/
         r_gens a <> r_gens b \/
         r_gen_names a <> r_gen_names b \/ r_central a <> r_central b \/ r_name a <> r_name b ->
         result_eq a b = false.
Proof. exact @result_eq_distinguishes. Qed.
Print Assumptions C18_result_eq_distinguishes.
