(** C18 - A saved BFS result loads back equal and stays usable for path queries. Statements only: every proof is [exact] of a lemma proved elsewhere.
    Model SaveLoad.v: the HDF5 file is an abstract map from dataset names to arrays/strings; save/load use the library's key scheme.
    (Statements are the lemmas' closed types as printed by Coq, hence the qualified names.) *)
From V Require Import Base SaveLoad SaveLoadProofs.

(* every well-formed result (any names, central state, subset of stored layers, hashes or none, edges or none) loads back IDENTICAL *)
Theorem C18_load_save :
  forall r : bfs_result, length (r_hashes r) <= length (r_sizes r) -> load (save r) = Ok r.
Proof. exact @load_save. Qed.
Print Assumptions C18_load_save.

(* and compares equal both ways *)
Theorem C18_load_save_eq :
  forall r : bfs_result,
         length (r_hashes r) <= length (r_sizes r) ->
         exists r' : bfs_result,
           load (save r) = Ok r' /\ result_eq r' r = true /\ result_eq r r' = true.
Proof. exact @load_save_eq. Qed.
Print Assumptions C18_load_save_eq.

(* the k.strip('layer__') trick parses the layer id back (digits are not in the stripped set) *)
Theorem C18_strip_parse_key :
  forall k : nat,
         parse_nat
           (strip
              (String.append
                 (String.String (Ascii.Ascii false false true true false true true false)
                    (String.String (Ascii.Ascii true false false false false true true false)
                       (String.String (Ascii.Ascii true false false true true true true false)
                          (String.String (Ascii.Ascii true false true false false true true false)
                             (String.String (Ascii.Ascii false true false false true true true false)
                                (String.String
                                   (Ascii.Ascii true true true true true false true false)
                                   (String.String
                                      (Ascii.Ascii true true true true true false true false)
                                      String.EmptyString))))))) (nat_to_string k))) = 
         Some k.
Proof. exact @strip_parse_key. Qed.
Print Assumptions C18_strip_parse_key.

(* equal results agree on every field *)
Theorem C18_result_eq_sound :
  forall a b : bfs_result,
         result_eq a b = true ->
         r_completed a = r_completed b /\
         r_sizes a = r_sizes b /\
         r_hashes a = r_hashes b /\
         r_edges a = r_edges b /\
         r_gens a = r_gens b /\
         r_gen_names a = r_gen_names b /\
         r_central a = r_central b /\
         r_name a = r_name b /\
         (forall (k : nat) (l : list (list BinNums.Z)),
          List.In (k, l) (r_layers a) ->
          exists l' : list (list BinNums.Z), List.In (k, l') (r_layers b) /\ l' = l) /\
         (forall (k : nat) (l : list (list BinNums.Z)),
          List.In (k, l) (r_layers b) ->
          exists l' : list (list BinNums.Z), List.In (k, l') (r_layers a)).
Proof. exact @result_eq_sound. Qed.
Print Assumptions C18_result_eq_sound.

(* results differing in any scalar/list field compare unequal *)
Theorem C18_result_eq_distinguishes :
  forall a b : bfs_result,
         r_completed a <> r_completed b \/
         r_sizes a <> r_sizes b \/
         r_hashes a <> r_hashes b \/
         r_edges a <> r_edges b \/
         r_gens a <> r_gens b \/
         r_gen_names a <> r_gen_names b \/ r_central a <> r_central b \/ r_name a <> r_name b ->
         result_eq a b = false.
Proof. exact @result_eq_distinguishes. Qed.
Print Assumptions C18_result_eq_distinguishes.

From V Require Import Base SaveLoad SaveLoadProofs SaveLoadFull SaveLoadUtf8.

(* load (save r) = r for every well-formed result, all nine fields *)
Theorem C18_load_save_full :
  forall r : bfs_result, wf_result r -> load (save r) = Ok r.
Proof. exact @load_save_full. Qed.
Print Assumptions C18_load_save_full.

(* the file's keys may come in ANY order (h5py lists them alphabetically: layer__10 before layer__2): the loaded result has the same fields, the same layer for every index, is equal to the original both ways *)
Theorem C18_load_key_order_independent :
  forall (r : bfs_result) (s' : list (String.string * h5val)),
         wf_result r ->
         Permutation.Permutation (save r) s' ->
         exists r' : bfs_result,
           load s' = Ok r' /\
           same_upto_layer_order r' r /\
           wf_layers r' /\
           (forall k : nat, layer_get k (r_layers r') = layer_get k (r_layers r)) /\
           result_eq r' r = true /\ result_eq r r' = true /\ canon r' = canon r.
Proof. exact @load_key_order_independent. Qed.
Print Assumptions C18_load_key_order_independent.

(* the number after layer__ is parsed back for EVERY natural number (several digits), by the model's parser and by an independent int()-like parser *)
Theorem C18_layer_key_parse :
  forall k : nat,
         starts_with
           (String.String (Ascii.Ascii false false true true false true true false)
              (String.String (Ascii.Ascii true false false false false true true false)
                 (String.String (Ascii.Ascii true false false true true true true false)
                    (String.String (Ascii.Ascii true false true false false true true false)
                       (String.String (Ascii.Ascii false true false false true true true false)
                          (String.String (Ascii.Ascii true true true true true false true false)
                             (String.String (Ascii.Ascii true true true true true false true false)
                                String.EmptyString)))))))
           (String.append
              (String.String (Ascii.Ascii false false true true false true true false)
                 (String.String (Ascii.Ascii true false false false false true true false)
                    (String.String (Ascii.Ascii true false false true true true true false)
                       (String.String (Ascii.Ascii true false true false false true true false)
                          (String.String (Ascii.Ascii false true false false true true true false)
                             (String.String (Ascii.Ascii true true true true true false true false)
                                (String.String
                                   (Ascii.Ascii true true true true true false true false)
                                   String.EmptyString))))))) (nat_to_string k)) = true /\
         parse_nat
           (strip
              (String.append
                 (String.String (Ascii.Ascii false false true true false true true false)
                    (String.String (Ascii.Ascii true false false false false true true false)
                       (String.String (Ascii.Ascii true false false true true true true false)
                          (String.String (Ascii.Ascii true false true false false true true false)
                             (String.String (Ascii.Ascii false true false false true true true false)
                                (String.String
                                   (Ascii.Ascii true true true true true false true false)
                                   (String.String
                                      (Ascii.Ascii true true true true true false true false)
                                      String.EmptyString))))))) (nat_to_string k))) = 
         Some k /\
         py_int
           (strip
              (String.append
                 (String.String (Ascii.Ascii false false true true false true true false)
                    (String.String (Ascii.Ascii true false false false false true true false)
                       (String.String (Ascii.Ascii true false false true true true true false)
                          (String.String (Ascii.Ascii true false true false false true true false)
                             (String.String (Ascii.Ascii false true false false true true true false)
                                (String.String
                                   (Ascii.Ascii true true true true true false true false)
                                   (String.String
                                      (Ascii.Ascii true true true true true false true false)
                                      String.EmptyString))))))) (nat_to_string k))) = 
         Some k /\
         strip
           (String.append
              (String.String (Ascii.Ascii false false true true false true true false)
                 (String.String (Ascii.Ascii true false false false false true true false)
                    (String.String (Ascii.Ascii true false false true true true true false)
                       (String.String (Ascii.Ascii true false true false false true true false)
                          (String.String (Ascii.Ascii false true false false true true true false)
                             (String.String (Ascii.Ascii true true true true true false true false)
                                (String.String
                                   (Ascii.Ascii true true true true true false true false)
                                   String.EmptyString))))))) (nat_to_string k)) = 
         nat_to_string k.
Proof. exact @layer_key_parse. Qed.
Print Assumptions C18_layer_key_parse.

(* different well-formed results give different files *)
Theorem C18_save_injective :
  forall r1 r2 : bfs_result, wf_result r1 -> wf_result r2 -> save r1 = save r2 -> r1 = r2.
Proof. exact @save_injective. Qed.
Print Assumptions C18_save_injective.

(* __eq__ holds exactly when all fields are equal (stored layers compared index by index) *)
Theorem C18_result_eq_iff :
  forall a b : bfs_result,
         wf_layers a -> wf_layers b -> result_eq a b = true <-> fields_equal a b.
Proof. exact @result_eq_iff. Qed.
Print Assumptions C18_result_eq_iff.

(* __eq__ is symmetric on well-formed results *)
Theorem C18_result_eq_sym :
  forall a b : bfs_result, wf_layers a -> wf_layers b -> result_eq a b = result_eq b a.
Proof. exact @result_eq_sym. Qed.
Print Assumptions C18_result_eq_sym.

(* and transitive *)
Theorem C18_result_eq_trans :
  forall a b c : bfs_result,
         result_eq a b = true -> result_eq b c = true -> result_eq a c = true.
Proof. exact @result_eq_trans. Qed.
Print Assumptions C18_result_eq_trans.

(* a layer stored on one side only makes the results unequal, both ways *)
Theorem C18_result_eq_layer_one_sided :
  forall (a b : bfs_result) (k : nat) (l : list (list BinNums.Z)),
         layer_get k (r_layers a) = Some l ->
         layer_get k (r_layers b) = None -> result_eq a b = false /\ result_eq b a = false.
Proof. exact @result_eq_layer_one_sided. Qed.
Print Assumptions C18_result_eq_layer_one_sided.

(* an edge list on one side only makes the results unequal, both ways *)
Theorem C18_result_eq_edges_one_sided :
  forall (a b : bfs_result) (e : list (list BinNums.Z)),
         r_edges a = Some e -> r_edges b = None -> result_eq a b = false /\ result_eq b a = false.
Proof. exact @result_eq_edges_one_sided. Qed.
Print Assumptions C18_result_eq_edges_one_sided.

(* generator names (any Unicode text without U+0000, UTF-8 of any length) round-trip without truncation through the variable-length string storage *)
Theorem C18_names_unicode_roundtrip :
  forall names : list pystr,
         List.Forall py_valid names ->
         List.Forall (fun s : list BinNums.Z => ~ List.In BinNums.Z0 s) names ->
         exists cells : list String.string,
           py_store_names pystr utf8_encode String.string cstr_write names = Ok cells /\
           py_fetch_names pystr utf8_decode String.string cstr_read cells = Some names.
Proof. exact @names_unicode_roundtrip. Qed.
Print Assumptions C18_names_unicode_roundtrip.
