(** C19 - The Hamming predictor counts mismatches and scoring is batch-independent. Statements only. *)
From Coq Require Import ZArith List.
From V Require Import Base Tensor Predictor PredictorProofs.
Import ListNotations.
Open Scope Z_scope.

(* value = number of positions in which the flat state differs from the flat central state *)
Theorem C19_hamming_counts : forall c s, hamming c s = Z.of_nat (mismatches c s).
Proof. exact hamming_counts. Qed.
Print Assumptions C19_hamming_counts.

(* 0 exactly for the central state *)
Theorem C19_hamming_zero_iff : forall c s, length s = length c -> (hamming c s = 0 <-> s = c).
Proof. exact hamming_zero_iff. Qed.
Print Assumptions C19_hamming_zero_iff.

Theorem C19_zero_is_zero : forall states, Forall (fun v => v = 0) (predict_zero states).
Proof. exact zero_is_zero. Qed.
Print Assumptions C19_zero_is_zero.

(* same values in the same order for every batch size, for every row-wise predictor *)
Theorem C19_batched_eq : forall (f : list Z -> Z) batch_size states, 1 <= batch_size ->
  predictor_call (map f) batch_size states = map f states.
Proof. exact batched_eq. Qed.
Print Assumptions C19_batched_eq.
