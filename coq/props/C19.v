(** C19 - The Hamming predictor counts mismatches and scoring is batch-independent. Statements only. *)
From Coq Require Import ZArith List.
From V Require Import Base Tensor Predictor PredictorProofs.
Import ListNotations.
Open Scope Z_scope.

(* value = number of positions in which the flat state differs from the flat central state *)
Theorem C19_hamming_counts : forall c s, hamming c s = Z.of_nat (mismatches c s).
Proof. exact hamming_counts. Qed.
Print Assumptions C19_hamming_counts.

(* 0 exactly for the central state *)
Theorem C19_hamming_zero_iff : forall c s, length s = length c -> (hamming c s = 0 <-> s = c).
Proof. exact hamming_zero_iff. Qed.
Print Assumptions C19_hamming_zero_iff.

Theorem C19_zero_is_zero : forall states, Forall (fun v => v = 0) (predict_zero states).
Proof. exact zero_is_zero. Qed.
Print Assumptions C19_zero_is_zero.

(* same values in the same order for every batch size, for every row-wise predictor *)
Theorem C19_batched_eq : forall (f : list Z -> Z) batch_size states, 1 <= batch_size ->
  predictor_call (map f) batch_size states = map f states.
Proof. exact batched_eq. Qed.
Print Assumptions C19_batched_eq.

From V Require Import Base Perm PermProofs Predictor PredictorProofs PredictorFull.

(* for ANY score type (fractions, tuples) and any row-wise scorer, splitting the states into batches of any size >= 1 gives the same values in the same order *)
Theorem C19_batched_eq_any :
  forall (S A : Type) (f : list S -> list A) (batch_size : Z) (states : list S),
         row_wise f -> 1 <= batch_size -> predictor_call_gen f batch_size states = f states.
Proof. exact @batched_eq_any. Qed.
Print Assumptions C19_batched_eq_any.

(* row-wise = determined state by state *)
Theorem C19_row_wise_iff :
  forall (S A : Type) (f : list S -> list A),
         row_wise f <-> (forall l : list S, f l = flat_map (fun x : S => f [x]) l).
Proof. exact @row_wise_iff. Qed.
Print Assumptions C19_row_wise_iff.

(* 0 <= hamming <= number of positions *)
Theorem C19_hamming_bounds :
  forall c s : list Z, 0 <= hamming c s <= Z.of_nat (length c).
Proof. exact @hamming_bounds. Qed.
Print Assumptions C19_hamming_bounds.

(* the Hamming heuristic is a metric: triangle inequality *)
Theorem C19_hamming_triangle :
  forall a b c : list Z,
         length a = length b -> length b = length c -> hamming a c <= hamming a b + hamming b c.
Proof. exact @hamming_triangle. Qed.
Print Assumptions C19_hamming_triangle.

(* symmetry *)
Theorem C19_hamming_sym :
  forall c s : list Z, hamming c s = hamming s c.
Proof. exact @hamming_sym. Qed.
Print Assumptions C19_hamming_sym.

(* matrix-shaped states (flattened row-major): 0 exactly for the central state *)
Theorem C19_hamming_matrix_zero_iff :
  forall (n m : nat) (C M : list (list Z)),
         shape n m C -> shape n m M -> hamming_matrix C M = 0 <-> M = C.
Proof. exact @hamming_matrix_zero_iff. Qed.
Print Assumptions C19_hamming_matrix_zero_iff.

(* relabelling the positions of both states by a permutation does not change the score *)
Theorem C19_hamming_perm_invariant :
  forall (d : Z) (p : list nat) (c s : list Z),
         Perm p ->
         length c = length p ->
         length s = length p -> hamming (apply_perm d p c) (apply_perm d p s) = hamming c s.
Proof. exact @hamming_perm_invariant. Qed.
Print Assumptions C19_hamming_perm_invariant.

(* a generator that moves k positions changes the score by at most k *)
Theorem C19_hamming_neighbor_lipschitz :
  forall (d : Z) (p : list nat) (c s : list Z),
         length c = length p ->
         length s = length p ->
         Z.abs (hamming c (apply_perm d p s) - hamming c s) <= Z.of_nat (support_size p).
Proof. exact @hamming_neighbor_lipschitz. Qed.
Print Assumptions C19_hamming_neighbor_lipschitz.
