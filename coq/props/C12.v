(** C12 - Automatic path finding returns only valid paths, shortest within its BFS radius. Statements only: every proof is [exact] of a lemma proved elsewhere.
    find_path_one (PathRun.v) is the model of cayleypy.find_path for graphs without a pre-trained model: inverse-closed graphs use MITM from the start state
    and revert the path; directed graphs run MITM in the inverted graph and reverse the generator sequence. balls_ok: the cached ball is well formed.
    (Statements are the lemmas' closed types as printed by Coq, hence the qualified names.) *)
From V Require Import Base Tensor Graph GraphProofs GraphImpl Def Paths BfsStep PathsProofs Mitm MitmProofs PathRun MitmFind.

(* any returned sequence replays from the start state to the central state (both branches); it is shortest and within twice the ball depth *)
Theorem C12_find_path_valid :
  forall (e : path_env) (U : state -> Prop),
         closed state (acts (pe_G e)) U ->
         closed state (acts (pe_Ginv e)) U ->
         (forall a b : state, U a -> U b -> hashf (pe_G e) a = hashf (pe_G e) b -> a = b) ->
         (forall s : state, hashf (pe_Ginv e) s = hashf (pe_G e) s) ->
         length (acts (pe_Ginv e)) = length (acts (pe_G e)) ->
         (forall (i : nat) (g gi : state -> state) (x : state),
          List.nth_error (acts (pe_G e)) i = Some g ->
          List.nth_error (acts (pe_Ginv e)) i = Some gi -> U x -> g (gi x) = x /\ gi (g x) = x) ->
         (is_identity (pe_G e) = true ->
          forall a : state, U a -> unword (pe_G e) (hashf (pe_G e) a) = a) ->
         (is_identity (pe_Ginv e) = true ->
          forall a : state, U a -> unword (pe_Ginv e) (hashf (pe_Ginv e) a) = a) ->
         (inv_closed (pe_Ginv e) = true -> symmetric_on state (acts (pe_Ginv e)) U) ->
         central (pe_Ginv e) = central (pe_G e) ->
         U (central (pe_G e)) ->
         (forall (q : state) (k : nat),
          BinInt.Z.lt (BinInt.Z.of_nat (length (layer state st_eq_dec (acts (pe_G e)) (q :: nil) k)))
            (BinNums.Zpos
               (BinNums.xO
                  (BinNums.xO
                     (BinNums.xO
                        (BinNums.xO
                           (BinNums.xO
                              (BinNums.xO
                                 (BinNums.xO
                                    (BinNums.xO
                                       (BinNums.xO
                                          (BinNums.xO
                                             (BinNums.xO
                                                (BinNums.xO
                                                   (BinNums.xI
                                                      (BinNums.xO
                                                         (BinNums.xO
                                                            (BinNums.xO
                                                               (BinNums.xI
                                                                  (BinNums.xO
                                                                     (BinNums.xI
                                                                        (BinNums.xO
                                                                        (BinNums.xO
                                                                        (BinNums.xI
                                                                        (BinNums.xO
                                                                        (BinNums.xI
                                                                        (BinNums.xO
                                                                        (BinNums.xO
                                                                        (BinNums.xI
                                                                        (BinNums.xO
                                                                        (BinNums.xI
                                                                        (BinNums.xO
                                                                        (BinNums.xI
                                                                        (BinNums.xI
                                                                        (BinNums.xO
                                                                        (BinNums.xO
                                                                        (BinNums.xO
                                                                        (BinNums.xI
                                                                        (BinNums.xO
                                                                        (BinNums.xI
                                                                        (BinNums.xI BinNums.xH))))))))))))))))))))))))))))))))))))))))) ->
         (forall (q : state) (k : nat),
          BinInt.Z.lt
            (BinInt.Z.of_nat (length (layer state st_eq_dec (acts (pe_Ginv e)) (q :: nil) k)))
            (BinNums.Zpos
               (BinNums.xO
                  (BinNums.xO
                     (BinNums.xO
                        (BinNums.xO
                           (BinNums.xO
                              (BinNums.xO
                                 (BinNums.xO
                                    (BinNums.xO
                                       (BinNums.xO
                                          (BinNums.xO
                                             (BinNums.xO
                                                (BinNums.xO
                                                   (BinNums.xI
                                                      (BinNums.xO
                                                         (BinNums.xO
                                                            (BinNums.xO
                                                               (BinNums.xI
                                                                  (BinNums.xO
                                                                     (BinNums.xI
                                                                        (BinNums.xO
                                                                        (BinNums.xO
                                                                        (BinNums.xI
                                                                        (BinNums.xO
                                                                        (BinNums.xI
                                                                        (BinNums.xO
                                                                        (BinNums.xO
                                                                        (BinNums.xI
                                                                        (BinNums.xO
                                                                        (BinNums.xI
                                                                        (BinNums.xO
                                                                        (BinNums.xI
                                                                        (BinNums.xI
                                                                        (BinNums.xO
                                                                        (BinNums.xO
                                                                        (BinNums.xO
                                                                        (BinNums.xI
                                                                        (BinNums.xO
                                                                        (BinNums.xI
                                                                        (BinNums.xI BinNums.xH))))))))))))))))))))))))))))))))))))))))) ->
         (forall m : list nat, pe_invmap e = Some m -> invmap_ok e U m) ->
         forall (lhf : list (list BinNums.Z)) (nsf : nat) (lhi : list (list BinNums.Z)) 
           (nsi : nat) (s : state) (p : list nat),
         balls_ok e lhf nsf lhi nsi ->
         U s ->
         find_path_one e (lhf, nsf) (lhi, nsi) s = Ok (Some p) ->
         run state (acts (pe_G e)) s p = Some (central (pe_G e)) /\
         dist_is state (acts (pe_G e)) (s :: nil) (central (pe_G e)) (length p) /\
         length p <= 2 * ball_depth e nsf nsi.
Proof. exact @find_path_valid. Qed.
Print Assumptions C12_find_path_valid.

(* distance within twice the depth of the internal BFS: a path of exactly that length is returned *)
Theorem C12_find_path_shortest :
  forall (e : path_env) (U : state -> Prop),
         closed state (acts (pe_G e)) U ->
         closed state (acts (pe_Ginv e)) U ->
         (forall a b : state, U a -> U b -> hashf (pe_G e) a = hashf (pe_G e) b -> a = b) ->
         (forall s : state, hashf (pe_Ginv e) s = hashf (pe_G e) s) ->
         length (acts (pe_Ginv e)) = length (acts (pe_G e)) ->
         (forall (i : nat) (g gi : state -> state) (x : state),
          List.nth_error (acts (pe_G e)) i = Some g ->
          List.nth_error (acts (pe_Ginv e)) i = Some gi -> U x -> g (gi x) = x /\ gi (g x) = x) ->
         (is_identity (pe_G e) = true ->
          forall a : state, U a -> unword (pe_G e) (hashf (pe_G e) a) = a) ->
         (is_identity (pe_Ginv e) = true ->
          forall a : state, U a -> unword (pe_Ginv e) (hashf (pe_Ginv e) a) = a) ->
         (inv_closed (pe_Ginv e) = true -> symmetric_on state (acts (pe_Ginv e)) U) ->
         central (pe_Ginv e) = central (pe_G e) ->
         U (central (pe_G e)) ->
         (forall (q : state) (k : nat),
          BinInt.Z.lt (BinInt.Z.of_nat (length (layer state st_eq_dec (acts (pe_G e)) (q :: nil) k)))
            (BinNums.Zpos
               (BinNums.xO
                  (BinNums.xO
                     (BinNums.xO
                        (BinNums.xO
                           (BinNums.xO
                              (BinNums.xO
                                 (BinNums.xO
                                    (BinNums.xO
                                       (BinNums.xO
                                          (BinNums.xO
                                             (BinNums.xO
                                                (BinNums.xO
                                                   (BinNums.xI
                                                      (BinNums.xO
                                                         (BinNums.xO
                                                            (BinNums.xO
                                                               (BinNums.xI
                                                                  (BinNums.xO
                                                                     (BinNums.xI
                                                                        (BinNums.xO
                                                                        (BinNums.xO
                                                                        (BinNums.xI
                                                                        (BinNums.xO
                                                                        (BinNums.xI
                                                                        (BinNums.xO
                                                                        (BinNums.xO
                                                                        (BinNums.xI
                                                                        (BinNums.xO
                                                                        (BinNums.xI
                                                                        (BinNums.xO
                                                                        (BinNums.xI
                                                                        (BinNums.xI
                                                                        (BinNums.xO
                                                                        (BinNums.xO
                                                                        (BinNums.xO
                                                                        (BinNums.xI
                                                                        (BinNums.xO
                                                                        (BinNums.xI
                                                                        (BinNums.xI BinNums.xH))))))))))))))))))))))))))))))))))))))))) ->
         (forall (q : state) (k : nat),
          BinInt.Z.lt
            (BinInt.Z.of_nat (length (layer state st_eq_dec (acts (pe_Ginv e)) (q :: nil) k)))
            (BinNums.Zpos
               (BinNums.xO
                  (BinNums.xO
                     (BinNums.xO
                        (BinNums.xO
                           (BinNums.xO
                              (BinNums.xO
                                 (BinNums.xO
                                    (BinNums.xO
                                       (BinNums.xO
                                          (BinNums.xO
                                             (BinNums.xO
                                                (BinNums.xO
                                                   (BinNums.xI
                                                      (BinNums.xO
                                                         (BinNums.xO
                                                            (BinNums.xO
                                                               (BinNums.xI
                                                                  (BinNums.xO
                                                                     (BinNums.xI
                                                                        (BinNums.xO
                                                                        (BinNums.xO
                                                                        (BinNums.xI
                                                                        (BinNums.xO
                                                                        (BinNums.xI
                                                                        (BinNums.xO
                                                                        (BinNums.xO
                                                                        (BinNums.xI
                                                                        (BinNums.xO
                                                                        (BinNums.xI
                                                                        (BinNums.xO
                                                                        (BinNums.xI
                                                                        (BinNums.xI
                                                                        (BinNums.xO
                                                                        (BinNums.xO
                                                                        (BinNums.xO
                                                                        (BinNums.xI
                                                                        (BinNums.xO
                                                                        (BinNums.xI
                                                                        (BinNums.xI BinNums.xH))))))))))))))))))))))))))))))))))))))))) ->
         (forall m : list nat, pe_invmap e = Some m -> invmap_ok e U m) ->
         forall (lhf : list (list BinNums.Z)) (nsf : nat) (lhi : list (list BinNums.Z)) 
           (nsi : nat) (s : state) (d : nat),
         balls_ok e lhf nsf lhi nsi ->
         U s ->
         (inv_closed (pe_G e) = true -> exists m : list nat, pe_invmap e = Some m) ->
         dist_is state (acts (pe_G e)) (s :: nil) (central (pe_G e)) d ->
         d <= 2 * ball_depth e nsf nsi ->
         exists p : list nat,
           find_path_one e (lhf, nsf) (lhi, nsi) s = Ok (Some p) /\
           length p = d /\ run state (acts (pe_G e)) s p = Some (central (pe_G e)).
Proof. exact @find_path_shortest. Qed.
Print Assumptions C12_find_path_shortest.

(* nothing is returned only when no path of that length exists *)
Theorem C12_find_path_none :
  forall (e : path_env) (U : state -> Prop),
         closed state (acts (pe_G e)) U ->
         closed state (acts (pe_Ginv e)) U ->
         (forall a b : state, U a -> U b -> hashf (pe_G e) a = hashf (pe_G e) b -> a = b) ->
         (forall s : state, hashf (pe_Ginv e) s = hashf (pe_G e) s) ->
         length (acts (pe_Ginv e)) = length (acts (pe_G e)) ->
         (forall (i : nat) (g gi : state -> state) (x : state),
          List.nth_error (acts (pe_G e)) i = Some g ->
          List.nth_error (acts (pe_Ginv e)) i = Some gi -> U x -> g (gi x) = x /\ gi (g x) = x) ->
         (is_identity (pe_G e) = true ->
          forall a : state, U a -> unword (pe_G e) (hashf (pe_G e) a) = a) ->
         (is_identity (pe_Ginv e) = true ->
          forall a : state, U a -> unword (pe_Ginv e) (hashf (pe_Ginv e) a) = a) ->
         (inv_closed (pe_Ginv e) = true -> symmetric_on state (acts (pe_Ginv e)) U) ->
         central (pe_Ginv e) = central (pe_G e) ->
         U (central (pe_G e)) ->
         (forall (q : state) (k : nat),
          BinInt.Z.lt (BinInt.Z.of_nat (length (layer state st_eq_dec (acts (pe_G e)) (q :: nil) k)))
            (BinNums.Zpos
               (BinNums.xO
                  (BinNums.xO
                     (BinNums.xO
                        (BinNums.xO
                           (BinNums.xO
                              (BinNums.xO
                                 (BinNums.xO
                                    (BinNums.xO
                                       (BinNums.xO
                                          (BinNums.xO
                                             (BinNums.xO
                                                (BinNums.xO
                                                   (BinNums.xI
                                                      (BinNums.xO
                                                         (BinNums.xO
                                                            (BinNums.xO
                                                               (BinNums.xI
                                                                  (BinNums.xO
                                                                     (BinNums.xI
                                                                        (BinNums.xO
                                                                        (BinNums.xO
                                                                        (BinNums.xI
                                                                        (BinNums.xO
                                                                        (BinNums.xI
                                                                        (BinNums.xO
                                                                        (BinNums.xO
                                                                        (BinNums.xI
                                                                        (BinNums.xO
                                                                        (BinNums.xI
                                                                        (BinNums.xO
                                                                        (BinNums.xI
                                                                        (BinNums.xI
                                                                        (BinNums.xO
                                                                        (BinNums.xO
                                                                        (BinNums.xO
                                                                        (BinNums.xI
                                                                        (BinNums.xO
                                                                        (BinNums.xI
                                                                        (BinNums.xI BinNums.xH))))))))))))))))))))))))))))))))))))))))) ->
         (forall (q : state) (k : nat),
          BinInt.Z.lt
            (BinInt.Z.of_nat (length (layer state st_eq_dec (acts (pe_Ginv e)) (q :: nil) k)))
            (BinNums.Zpos
               (BinNums.xO
                  (BinNums.xO
                     (BinNums.xO
                        (BinNums.xO
                           (BinNums.xO
                              (BinNums.xO
                                 (BinNums.xO
                                    (BinNums.xO
                                       (BinNums.xO
                                          (BinNums.xO
                                             (BinNums.xO
                                                (BinNums.xO
                                                   (BinNums.xI
                                                      (BinNums.xO
                                                         (BinNums.xO
                                                            (BinNums.xO
                                                               (BinNums.xI
                                                                  (BinNums.xO
                                                                     (BinNums.xI
                                                                        (BinNums.xO
                                                                        (BinNums.xO
                                                                        (BinNums.xI
                                                                        (BinNums.xO
                                                                        (BinNums.xI
                                                                        (BinNums.xO
                                                                        (BinNums.xO
                                                                        (BinNums.xI
                                                                        (BinNums.xO
                                                                        (BinNums.xI
                                                                        (BinNums.xO
                                                                        (BinNums.xI
                                                                        (BinNums.xI
                                                                        (BinNums.xO
                                                                        (BinNums.xO
                                                                        (BinNums.xO
                                                                        (BinNums.xI
                                                                        (BinNums.xO
                                                                        (BinNums.xI
                                                                        (BinNums.xI BinNums.xH))))))))))))))))))))))))))))))))))))))))) ->
         (forall m : list nat, pe_invmap e = Some m -> invmap_ok e U m) ->
         forall (lhf : list (list BinNums.Z)) (nsf : nat) (lhi : list (list BinNums.Z)) 
           (nsi : nat) (s : state),
         balls_ok e lhf nsf lhi nsi ->
         U s ->
         (inv_closed (pe_G e) = true -> exists m : list nat, pe_invmap e = Some m) ->
         (forall d : nat,
          dist_is state (acts (pe_G e)) (s :: nil) (central (pe_G e)) d ->
          2 * ball_depth e nsf nsi < d) -> find_path_one e (lhf, nsf) (lhi, nsi) s = Ok None.
Proof. exact @find_path_none. Qed.
Print Assumptions C12_find_path_none.

From V Require Import Base Tensor Graph GraphProofs GraphImpl Hash Def Paths BfsStep Bfs BfsRun BfsProofs PathsProofs Mitm MitmProofs PathRun MitmFind Interactive InteractiveBetween InstPerm InstSmall InstBfs InstPaths.

(* END TO END as check_fp_case runs it (the ball computed by the BFS model, not assumed): hypotheses wf_perm_desc, NoColl, layer-size bounds *)
Theorem C12_perm_e2e_valid :
  forall (d : gdesc) (inv_mats : list (list (list BinNums.Z))) (e : path_env)
           (batch : BinNums.Z) (depth : BinNums.N) (explore : BinNums.Z) 
           (lh : list (list BinNums.Z)) (ns : nat) (s : state) (p : list nat),
         wf_perm_desc d ->
         env_of d inv_mats = Some e ->
         NoCollOn (impl_of d) (Ustates d) ->
         (forall (q : state) (k : nat),
          BinInt.Z.lt (BinInt.Z.of_nat (length (layer state st_eq_dec (acts (pe_G e)) (q :: nil) k)))
            (BinNums.Zpos
               (BinNums.xO
                  (BinNums.xO
                     (BinNums.xO
                        (BinNums.xO
                           (BinNums.xO
                              (BinNums.xO
                                 (BinNums.xO
                                    (BinNums.xO
                                       (BinNums.xO
                                          (BinNums.xO
                                             (BinNums.xO
                                                (BinNums.xO
                                                   (BinNums.xI
                                                      (BinNums.xO
                                                         (BinNums.xO
                                                            (BinNums.xO
                                                               (BinNums.xI
                                                                  (BinNums.xO
                                                                     (BinNums.xI
                                                                        (BinNums.xO
                                                                        (BinNums.xO
                                                                        (BinNums.xI
                                                                        (BinNums.xO
                                                                        (BinNums.xI
                                                                        (BinNums.xO
                                                                        (BinNums.xO
                                                                        (BinNums.xI
                                                                        (BinNums.xO
                                                                        (BinNums.xI
                                                                        (BinNums.xO
                                                                        (BinNums.xI
                                                                        (BinNums.xI
                                                                        (BinNums.xO
                                                                        (BinNums.xO
                                                                        (BinNums.xO
                                                                        (BinNums.xI
                                                                        (BinNums.xO
                                                                        (BinNums.xI
                                                                        (BinNums.xI BinNums.xH))))))))))))))))))))))))))))))))))))))))) ->
         (forall (q : state) (k : nat),
          BinInt.Z.lt
            (BinInt.Z.of_nat (length (layer state st_eq_dec (acts (pe_Ginv e)) (q :: nil) k)))
            (BinNums.Zpos
               (BinNums.xO
                  (BinNums.xO
                     (BinNums.xO
                        (BinNums.xO
                           (BinNums.xO
                              (BinNums.xO
                                 (BinNums.xO
                                    (BinNums.xO
                                       (BinNums.xO
                                          (BinNums.xO
                                             (BinNums.xO
                                                (BinNums.xO
                                                   (BinNums.xI
                                                      (BinNums.xO
                                                         (BinNums.xO
                                                            (BinNums.xO
                                                               (BinNums.xI
                                                                  (BinNums.xO
                                                                     (BinNums.xI
                                                                        (BinNums.xO
                                                                        (BinNums.xO
                                                                        (BinNums.xI
                                                                        (BinNums.xO
                                                                        (BinNums.xI
                                                                        (BinNums.xO
                                                                        (BinNums.xO
                                                                        (BinNums.xI
                                                                        (BinNums.xO
                                                                        (BinNums.xI
                                                                        (BinNums.xO
                                                                        (BinNums.xI
                                                                        (BinNums.xI
                                                                        (BinNums.xO
                                                                        (BinNums.xO
                                                                        (BinNums.xO
                                                                        (BinNums.xI
                                                                        (BinNums.xO
                                                                        (BinNums.xI
                                                                        (BinNums.xI BinNums.xH))))))))))))))))))))))))))))))))))))))))) ->
         BinInt.Z.le (BinNums.Zpos BinNums.xH) batch ->
         fp_ball e batch depth explore (g_central d) = Ok (lh, ns) ->
         Ustates d s ->
         find_path_one e (lh, ns) (lh, ns) s = Ok (Some p) ->
         run state (acts (impl_of d)) s p = Some (g_central d) /\
         dist_is state (acts (impl_of d)) (s :: nil) (g_central d) (length p) /\
         length p <= 2 * (ns - 1).
Proof. exact @find_path_perm_e2e_valid. Qed.
Print Assumptions C12_perm_e2e_valid.

(* n <= 14, single-word identity hash: NO hash and NO size hypothesis - a returned sequence replays to the central state, is a shortest path, of length <= 2*depth *)
Theorem C12_perm_e2e_valid_closed :
  forall (d : gdesc) (inv_mats : list (list (list BinNums.Z))) (e : path_env)
           (batch : BinNums.Z) (depth : BinNums.N) (explore : BinNums.Z) 
           (lh : list (list BinNums.Z)) (ns : nat) (s : state) (p : list nat),
         wf_perm_desc d ->
         env_of d inv_mats = Some e ->
         g_hasher d = HIdentity ->
         single_word d ->
         desc_n d <= 14 ->
         BinInt.Z.le (BinNums.Zpos BinNums.xH) batch ->
         fp_ball e batch depth explore (g_central d) = Ok (lh, ns) ->
         Ustates d s ->
         find_path_one e (lh, ns) (lh, ns) s = Ok (Some p) ->
         run state (acts (impl_of d)) s p = Some (g_central d) /\
         dist_is state (acts (impl_of d)) (s :: nil) (g_central d) (length p) /\
         length p <= 2 * (ns - 1).
Proof. exact @find_path_perm_e2e_valid_closed. Qed.
Print Assumptions C12_perm_e2e_valid_closed.

(* within twice the depth a path IS returned and it is shortest (closed form) *)
Theorem C12_perm_e2e_shortest_closed :
  forall (d : gdesc) (inv_mats : list (list (list BinNums.Z))) (e : path_env)
           (batch : BinNums.Z) (depth : BinNums.N) (explore : BinNums.Z) 
           (lh : list (list BinNums.Z)) (ns : nat) (s : state) (k : nat),
         wf_perm_desc d ->
         env_of d inv_mats = Some e ->
         g_hasher d = HIdentity ->
         single_word d ->
         desc_n d <= 14 ->
         BinInt.Z.le (BinNums.Zpos BinNums.xH) batch ->
         fp_ball e batch depth explore (g_central d) = Ok (lh, ns) ->
         Ustates d s ->
         dist_is state (acts (impl_of d)) (s :: nil) (g_central d) k ->
         k <= 2 * (ns - 1) ->
         exists p : list nat,
           find_path_one e (lh, ns) (lh, ns) s = Ok (Some p) /\
           length p = k /\ run state (acts (impl_of d)) s p = Some (g_central d).
Proof. exact @find_path_perm_e2e_shortest_closed. Qed.
Print Assumptions C12_perm_e2e_shortest_closed.

(* nothing is returned only beyond twice the depth (closed form) *)
Theorem C12_perm_e2e_none_closed :
  forall (d : gdesc) (inv_mats : list (list (list BinNums.Z))) (e : path_env)
           (batch : BinNums.Z) (depth : BinNums.N) (explore : BinNums.Z) 
           (lh : list (list BinNums.Z)) (ns : nat) (s : state),
         wf_perm_desc d ->
         env_of d inv_mats = Some e ->
         g_hasher d = HIdentity ->
         single_word d ->
         desc_n d <= 14 ->
         BinInt.Z.le (BinNums.Zpos BinNums.xH) batch ->
         fp_ball e batch depth explore (g_central d) = Ok (lh, ns) ->
         Ustates d s ->
         (forall k : nat,
          dist_is state (acts (impl_of d)) (s :: nil) (g_central d) k -> 2 * (ns - 1) < k) ->
         find_path_one e (lh, ns) (lh, ns) s = Ok None.
Proof. exact @find_path_perm_e2e_none_closed. Qed.
Print Assumptions C12_perm_e2e_none_closed.

From V Require Import Base Tensor Graph GraphProofs GraphImpl Hash Matrix MatrixProofs Def Paths BfsStep Bfs BfsRun BfsProofs PathsProofs Mitm MitmProofs PathRun MitmFind InstShared InstMatrix InstMatrixAlgebra InstMatrixBfs.

(* END TO END for matrix groups: hypotheses wf_matrix_core, wf_inv_mats, NoColl and the layer-size bounds *)
Theorem C12_matrix_find_path_valid :
  forall (d : gdesc) (inv_mats : list (list (list BinNums.Z))) (e : path_env),
         wf_matrix_core d = true ->
         wf_inv_mats d inv_mats = true ->
         env_of d inv_mats = Some e ->
         NoCollMat d ->
         (forall (q : state) (k : nat),
          BinInt.Z.lt (BinInt.Z.of_nat (length (layer state st_eq_dec (acts (pe_G e)) (q :: nil) k)))
            (BinNums.Zpos
               (BinNums.xO
                  (BinNums.xO
                     (BinNums.xO
                        (BinNums.xO
                           (BinNums.xO
                              (BinNums.xO
                                 (BinNums.xO
                                    (BinNums.xO
                                       (BinNums.xO
                                          (BinNums.xO
                                             (BinNums.xO
                                                (BinNums.xO
                                                   (BinNums.xI
                                                      (BinNums.xO
                                                         (BinNums.xO
                                                            (BinNums.xO
                                                               (BinNums.xI
                                                                  (BinNums.xO
                                                                     (BinNums.xI
                                                                        (BinNums.xO
                                                                        (BinNums.xO
                                                                        (BinNums.xI
                                                                        (BinNums.xO
                                                                        (BinNums.xI
                                                                        (BinNums.xO
                                                                        (BinNums.xO
                                                                        (BinNums.xI
                                                                        (BinNums.xO
                                                                        (BinNums.xI
                                                                        (BinNums.xO
                                                                        (BinNums.xI
                                                                        (BinNums.xI
                                                                        (BinNums.xO
                                                                        (BinNums.xO
                                                                        (BinNums.xO
                                                                        (BinNums.xI
                                                                        (BinNums.xO
                                                                        (BinNums.xI
                                                                        (BinNums.xI BinNums.xH))))))))))))))))))))))))))))))))))))))))) ->
         (forall (q : state) (k : nat),
          BinInt.Z.lt
            (BinInt.Z.of_nat (length (layer state st_eq_dec (acts (pe_Ginv e)) (q :: nil) k)))
            (BinNums.Zpos
               (BinNums.xO
                  (BinNums.xO
                     (BinNums.xO
                        (BinNums.xO
                           (BinNums.xO
                              (BinNums.xO
                                 (BinNums.xO
                                    (BinNums.xO
                                       (BinNums.xO
                                          (BinNums.xO
                                             (BinNums.xO
                                                (BinNums.xO
                                                   (BinNums.xI
                                                      (BinNums.xO
                                                         (BinNums.xO
                                                            (BinNums.xO
                                                               (BinNums.xI
                                                                  (BinNums.xO
                                                                     (BinNums.xI
                                                                        (BinNums.xO
                                                                        (BinNums.xO
                                                                        (BinNums.xI
                                                                        (BinNums.xO
                                                                        (BinNums.xI
                                                                        (BinNums.xO
                                                                        (BinNums.xO
                                                                        (BinNums.xI
                                                                        (BinNums.xO
                                                                        (BinNums.xI
                                                                        (BinNums.xO
                                                                        (BinNums.xI
                                                                        (BinNums.xI
                                                                        (BinNums.xO
                                                                        (BinNums.xO
                                                                        (BinNums.xO
                                                                        (BinNums.xI
                                                                        (BinNums.xO
                                                                        (BinNums.xI
                                                                        (BinNums.xI BinNums.xH))))))))))))))))))))))))))))))))))))))))) ->
         forall (lhf : list (list BinNums.Z)) (nsf : nat) (lhi : list (list BinNums.Z)) 
           (nsi : nat) (s : state) (p : list nat),
         balls_ok e lhf nsf lhi nsi ->
         Umat d s ->
         find_path_one e (lhf, nsf) (lhi, nsi) s = Ok (Some p) ->
         run state (acts (pe_G e)) s p = Some (central (pe_G e)) /\
         dist_is state (acts (pe_G e)) (s :: nil) (central (pe_G e)) (length p) /\
         length p <= 2 * ball_depth e nsf nsi.
Proof. exact @matrix_find_path_valid. Qed.
Print Assumptions C12_matrix_find_path_valid.

(* shortest within twice the depth, matrix groups *)
Theorem C12_matrix_find_path_shortest :
  forall (d : gdesc) (inv_mats : list (list (list BinNums.Z))) (e : path_env),
         wf_matrix_core d = true ->
         wf_inv_mats d inv_mats = true ->
         env_of d inv_mats = Some e ->
         NoCollMat d ->
         (forall (q : state) (k : nat),
          BinInt.Z.lt (BinInt.Z.of_nat (length (layer state st_eq_dec (acts (pe_G e)) (q :: nil) k)))
            (BinNums.Zpos
               (BinNums.xO
                  (BinNums.xO
                     (BinNums.xO
                        (BinNums.xO
                           (BinNums.xO
                              (BinNums.xO
                                 (BinNums.xO
                                    (BinNums.xO
                                       (BinNums.xO
                                          (BinNums.xO
                                             (BinNums.xO
                                                (BinNums.xO
                                                   (BinNums.xI
                                                      (BinNums.xO
                                                         (BinNums.xO
                                                            (BinNums.xO
                                                               (BinNums.xI
                                                                  (BinNums.xO
                                                                     (BinNums.xI
                                                                        (BinNums.xO
                                                                        (BinNums.xO
                                                                        (BinNums.xI
                                                                        (BinNums.xO
                                                                        (BinNums.xI
                                                                        (BinNums.xO
                                                                        (BinNums.xO
                                                                        (BinNums.xI
                                                                        (BinNums.xO
                                                                        (BinNums.xI
                                                                        (BinNums.xO
                                                                        (BinNums.xI
                                                                        (BinNums.xI
                                                                        (BinNums.xO
                                                                        (BinNums.xO
                                                                        (BinNums.xO
                                                                        (BinNums.xI
                                                                        (BinNums.xO
                                                                        (BinNums.xI
                                                                        (BinNums.xI BinNums.xH))))))))))))))))))))))))))))))))))))))))) ->
         (forall (q : state) (k : nat),
          BinInt.Z.lt
            (BinInt.Z.of_nat (length (layer state st_eq_dec (acts (pe_Ginv e)) (q :: nil) k)))
            (BinNums.Zpos
               (BinNums.xO
                  (BinNums.xO
                     (BinNums.xO
                        (BinNums.xO
                           (BinNums.xO
                              (BinNums.xO
                                 (BinNums.xO
                                    (BinNums.xO
                                       (BinNums.xO
                                          (BinNums.xO
                                             (BinNums.xO
                                                (BinNums.xO
                                                   (BinNums.xI
                                                      (BinNums.xO
                                                         (BinNums.xO
                                                            (BinNums.xO
                                                               (BinNums.xI
                                                                  (BinNums.xO
                                                                     (BinNums.xI
                                                                        (BinNums.xO
                                                                        (BinNums.xO
                                                                        (BinNums.xI
                                                                        (BinNums.xO
                                                                        (BinNums.xI
                                                                        (BinNums.xO
                                                                        (BinNums.xO
                                                                        (BinNums.xI
                                                                        (BinNums.xO
                                                                        (BinNums.xI
                                                                        (BinNums.xO
                                                                        (BinNums.xI
                                                                        (BinNums.xI
                                                                        (BinNums.xO
                                                                        (BinNums.xO
                                                                        (BinNums.xO
                                                                        (BinNums.xI
                                                                        (BinNums.xO
                                                                        (BinNums.xI
                                                                        (BinNums.xI BinNums.xH))))))))))))))))))))))))))))))))))))))))) ->
         forall (lhf : list (list BinNums.Z)) (nsf : nat) (lhi : list (list BinNums.Z)) 
           (nsi : nat) (s : state) (k : nat),
         balls_ok e lhf nsf lhi nsi ->
         Umat d s ->
         dist_is state (acts (pe_G e)) (s :: nil) (central (pe_G e)) k ->
         k <= 2 * ball_depth e nsf nsi ->
         exists p : list nat,
           find_path_one e (lhf, nsf) (lhi, nsi) s = Ok (Some p) /\
           length p = k /\ run state (acts (pe_G e)) s p = Some (central (pe_G e)).
Proof. exact @matrix_find_path_shortest. Qed.
Print Assumptions C12_matrix_find_path_shortest.
