(** C10 - Inverted and inverse-closed definitions are exact group-theoretic inverses. Statements only: every proof is [exact] of a lemma proved elsewhere.
    Model: Def.v (inverse map with dict semantics, inverted generators, inverse closure, MatrixGenerator.inv with the float inverse as an oracle candidate).
    MatrixMC.v bridges to MathComp's mulmx1C: in a commutative ring a right inverse of a square matrix is a left inverse.
    (Statements are the lemmas' closed types as printed by Coq, hence the qualified names.) *)
From V Require Import Base W64 Perm PermProofs Matrix Def DefProofs MatrixMC.

(* the inverse permutation undoes the permutation on every sequence, both ways *)
Theorem C10_inverse_perm_undoes :
  forall (A : Type) (d : A) (p : list nat) (x : list A),
         Perm p ->
         length x = length p ->
         apply_perm d (inverse_perm p) (apply_perm d p x) = x /\
         apply_perm d p (apply_perm d (inverse_perm p) x) = x.
Proof. exact @inverse_undoes. Qed.
Print Assumptions C10_inverse_perm_undoes.

(* generator i of the inverted definition undoes generator i (permutations) *)
Theorem C10_inverted_perms_undo :
  forall (perms : list (list nat)) (i : nat) (x : list BinNums.Z),
         i < length perms ->
         Perm (List.nth i perms nil) ->
         length x = length (List.nth i perms nil) ->
         apply_perm BinNums.Z0 (List.nth i (inverted_perms perms) nil)
           (apply_perm BinNums.Z0 (List.nth i perms nil) x) = x /\
         apply_perm BinNums.Z0 (List.nth i perms nil)
           (apply_perm BinNums.Z0 (List.nth i (inverted_perms perms) nil) x) = x.
Proof. exact @inverted_perms_undo. Qed.
Print Assumptions C10_inverted_perms_undo.

(* the inverse map sends i to a position holding the inverse of generator i *)
Theorem C10_perm_inverse_map_correct :
  forall (perms : list (list nat)) (m : list nat),
         perm_inverse_map perms = Some m ->
         length m = length perms /\
         (forall i : nat,
          i < length perms ->
          List.nth i m 0 < length perms /\
          List.nth (List.nth i m 0) perms nil = inverse_perm (List.nth i perms nil)).
Proof. exact @perm_inverse_map_correct. Qed.
Print Assumptions C10_perm_inverse_map_correct.

(* the map is None (flag false) exactly when some generator has no inverse in the list *)
Theorem C10_perm_inverse_map_none :
  forall perms : list (list nat),
         perm_inverse_map perms = None <->
         (exists p : list nat, List.In p perms /\ ~ List.In (inverse_perm p) perms).
Proof. exact @perm_inverse_map_none. Qed.
Print Assumptions C10_perm_inverse_map_none.

(* generator i followed by generator map[i] is the identity *)
Theorem C10_inverse_map_undoes :
  forall (perms : list (list nat)) (m : list nat) (i : nat) (x : list BinNums.Z),
         perm_inverse_map perms = Some m ->
         i < length perms ->
         Perm (List.nth i perms nil) ->
         length x = length (List.nth i perms nil) ->
         apply_perm BinNums.Z0 (List.nth (List.nth i m 0) perms nil)
           (apply_perm BinNums.Z0 (List.nth i perms nil) x) = x.
Proof. exact @inverse_map_undoes. Qed.
Print Assumptions C10_inverse_map_undoes.

(* make_inverse_closed keeps generators, names, order; appends exactly the missing inverses; the result is inverse closed; a closed input is returned unchanged *)
Theorem C10_mic_perms_spec :
  forall (perms : list (list nat)) (names : list String.string) (name : String.string),
         List.Forall Perm perms ->
         length names = length perms ->
         let
         '(mp, mn, mname) := mic_perms perms names name in
          List.firstn (length perms) mp = perms /\
          List.firstn (length perms) mn = names /\
          length mn = length mp /\
          List.skipn (length perms) mp =
          List.map inverse_perm
            (List.filter
               (fun p0 : list nat => negb (List.existsb (nat_list_eqb (inverse_perm p0)) perms))
               perms) /\
          is_some (perm_inverse_map mp) = true /\
          (is_some (perm_inverse_map perms) = true -> (mp, mn, mname) = (perms, names, name)).
Proof. exact @mic_perms_spec. Qed.
Print Assumptions C10_mic_perms_spec.

(* make_inverse_closed is idempotent *)
Theorem C10_mic_perms_idempotent :
  forall (perms : list (list nat)) (names : list String.string) (name : String.string),
         List.Forall Perm perms ->
         length names = length perms ->
         let
         '(mp, mn, mname) := mic_perms perms names name in mic_perms mp mn mname = (mp, mn, mname).
Proof. exact @mic_perms_idempotent. Qed.
Print Assumptions C10_mic_perms_idempotent.

(* MatrixGenerator.inv (modulo 0), for ANY oracle candidate: success means a TWO-sided inverse in int64 arithmetic *)
Theorem C10_mat_inv_two_sided_mod0 :
  forall (n : nat) (M cand M' : list (list BinNums.Z)),
         mat_inv BinNums.Z0 n M cand = Ok M' ->
         mat_mul BinNums.Z0 n M M' = eye n /\
         mat_mul BinNums.Z0 n M' M = eye n /\ is_inverse_to BinNums.Z0 n M M' = true.
Proof. exact @mat_inv_two_sided_mod0. Qed.
Print Assumptions C10_mat_inv_two_sided_mod0.

(* the same modulo m *)
Theorem C10_mat_inv_two_sided_modular :
  forall modulo : BinNums.Z,
         BinInt.Z.le (BinNums.Zpos (BinNums.xO BinNums.xH)) modulo /\
         BinInt.Z.le modulo
           (BinInt.Z.pow (BinNums.Zpos (BinNums.xO BinNums.xH))
              (BinNums.Zpos (BinNums.xI (BinNums.xI (BinNums.xI (BinNums.xI BinNums.xH)))))) ->
         forall (n : nat) (M cand M' : list (list BinNums.Z)),
         BinInt.Z.lt (BinInt.Z.of_nat n)
           (BinInt.Z.pow (BinNums.Zpos (BinNums.xO BinNums.xH))
              (BinNums.Zpos
                 (BinNums.xO (BinNums.xO (BinNums.xO (BinNums.xO (BinNums.xO BinNums.xH))))))) ->
         (forall r c0 : nat,
          r < n ->
          c0 < n -> BinInt.Z.le BinNums.Z0 (mentry M r c0) /\ BinInt.Z.lt (mentry M r c0) modulo) ->
         (forall r c0 : nat,
          r < n ->
          c0 < n ->
          BinInt.Z.le
            (BinInt.Z.opp
               (BinInt.Z.pow (BinNums.Zpos (BinNums.xO BinNums.xH))
                  (BinNums.Zpos (BinNums.xI (BinNums.xI (BinNums.xI (BinNums.xI BinNums.xH)))))))
            (mentry cand r c0) /\
          BinInt.Z.le (mentry cand r c0)
            (BinInt.Z.pow (BinNums.Zpos (BinNums.xO BinNums.xH))
               (BinNums.Zpos (BinNums.xI (BinNums.xI (BinNums.xI (BinNums.xI BinNums.xH))))))) ->
         mat_inv modulo n M cand = Ok M' ->
         mat_mul modulo n M M' = eye n /\
         mat_mul modulo n M' M = eye n /\ is_inverse_to modulo n M M' = true.
Proof. exact @mat_inv_two_sided_modular. Qed.
Print Assumptions C10_mat_inv_two_sided_modular.

(* the inverted matrix generator undoes the generator on every state (modulo 0) *)
Theorem C10_mat_inv_undoes_mod0 :
  forall (n m : nat) (M cand M' : list (list BinNums.Z)) (S : list BinNums.Z),
         mat_inv BinNums.Z0 n M cand = Ok M' ->
         length S = n * m ->
         (forall idx : nat, idx < ssrnat.muln n m -> in64 (List.nth idx S BinNums.Z0)) ->
         mat_apply BinNums.Z0 n m M' (mat_apply BinNums.Z0 n m M S) = S /\
         mat_apply BinNums.Z0 n m M (mat_apply BinNums.Z0 n m M' S) = S.
Proof. exact @mat_inv_undoes_mod0. Qed.
Print Assumptions C10_mat_inv_undoes_mod0.

(* the same modulo m, on reduced states *)
Theorem C10_mat_inv_undoes_modular :
  forall modulo : BinNums.Z,
         BinInt.Z.le (BinNums.Zpos (BinNums.xO BinNums.xH)) modulo /\
         BinInt.Z.le modulo
           (BinInt.Z.pow (BinNums.Zpos (BinNums.xO BinNums.xH))
              (BinNums.Zpos (BinNums.xI (BinNums.xI (BinNums.xI (BinNums.xI BinNums.xH)))))) ->
         forall (n m : nat) (M cand M' : list (list BinNums.Z)) (S : list BinNums.Z),
         BinInt.Z.lt (BinInt.Z.of_nat n)
           (BinInt.Z.pow (BinNums.Zpos (BinNums.xO BinNums.xH))
              (BinNums.Zpos
                 (BinNums.xO (BinNums.xO (BinNums.xO (BinNums.xO (BinNums.xO BinNums.xH))))))) ->
         (forall r c0 : nat,
          r < n ->
          c0 < n -> BinInt.Z.le BinNums.Z0 (mentry M r c0) /\ BinInt.Z.lt (mentry M r c0) modulo) ->
         (forall r c0 : nat,
          r < n ->
          c0 < n ->
          BinInt.Z.le
            (BinInt.Z.opp
               (BinInt.Z.pow (BinNums.Zpos (BinNums.xO BinNums.xH))
                  (BinNums.Zpos (BinNums.xI (BinNums.xI (BinNums.xI (BinNums.xI BinNums.xH)))))))
            (mentry cand r c0) /\
          BinInt.Z.le (mentry cand r c0)
            (BinInt.Z.pow (BinNums.Zpos (BinNums.xO BinNums.xH))
               (BinNums.Zpos (BinNums.xI (BinNums.xI (BinNums.xI (BinNums.xI BinNums.xH))))))) ->
         mat_inv modulo n M cand = Ok M' ->
         length S = n * m ->
         (forall j : nat,
          j < ssrnat.muln n m ->
          BinInt.Z.le BinNums.Z0 (List.nth j S BinNums.Z0) /\
          BinInt.Z.lt (List.nth j S BinNums.Z0) modulo) ->
         mat_apply modulo n m M' (mat_apply modulo n m M S) = S /\
         mat_apply modulo n m M (mat_apply modulo n m M' S) = S.
Proof. exact @mat_inv_undoes_modular. Qed.
Print Assumptions C10_mat_inv_undoes_modular.

(* a candidate that is not a right inverse is rejected with the library's assertion *)
Theorem C10_mat_inv_rejects :
  forall (modulo : BinNums.Z) (n : nat) (M cand : list (list BinNums.Z)),
         mat_eqb (mat_mul modulo n M cand) (eye n) = false ->
         mat_inv modulo n M cand = Err AssertionErr.
Proof. exact @mat_inv_rejects. Qed.
Print Assumptions C10_mat_inv_rejects.

From V Require Import Base W64 Perm Matrix Def DefRun IntInverse IntInverseProofs.

(* the exact fallback of MatrixGenerator.inv (Gauss-Jordan over the rationals, modelled step by step): whatever it returns is the two-sided integer inverse *)
Theorem C10_integer_inverse_sound :
  forall (n : nat) (M R : list (list BinNums.Z)),
         square n M ->
         integer_inverse n M = Some R ->
         square n R /\
         (forall i k : nat,
          i < n -> k < n -> BinInt.Z.lt (BinInt.Z.abs (DefProofs.mentry R i k)) two63) /\
         zmat_mul n M R = eye n /\ zmat_mul n R M = eye n.
Proof. exact @integer_inverse_sound. Qed.
Print Assumptions C10_integer_inverse_sound.

(* and it finds the inverse of EVERY square integer matrix that has an integer inverse with int64 entries *)
Theorem C10_integer_inverse_complete :
  forall (n : nat) (M R : list (list BinNums.Z)),
         square n M ->
         square n R ->
         (forall i k : nat,
          i < n -> k < n -> BinInt.Z.lt (BinInt.Z.abs (DefProofs.mentry R i k)) two63) ->
         zmat_mul n M R = eye n -> integer_inverse n M = Some R.
Proof. exact @integer_inverse_complete. Qed.
Print Assumptions C10_integer_inverse_complete.

(* exact characterisation *)
Theorem C10_integer_inverse_spec :
  forall (n : nat) (M R : list (list BinNums.Z)),
         square n M ->
         integer_inverse n M = Some R <->
         square n R /\
         (forall i k : nat,
          i < n -> k < n -> BinInt.Z.lt (BinInt.Z.abs (DefProofs.mentry R i k)) two63) /\
         zmat_mul n M R = eye n.
Proof. exact @integer_inverse_spec. Qed.
Print Assumptions C10_integer_inverse_spec.

(* COMPLETENESS of MatrixGenerator.inv: for every integer matrix with an integer inverse and ANY floating-point candidate, inv succeeds and returns a two-sided inverse (no assumption on LAPACK) *)
Theorem C10_mat_inv_fb_integer_inverse :
  forall (n : nat) (M R cand : list (list BinNums.Z)),
         square n M ->
         square n R ->
         (forall i k : nat,
          i < n -> k < n -> BinInt.Z.lt (BinInt.Z.abs (DefProofs.mentry R i k)) two63) ->
         zmat_mul n M R = eye n ->
         exists R' : list (list BinNums.Z),
           mat_inv_fb BinNums.Z0 n M cand (integer_inverse n M) = Ok R' /\
           (R' = cand \/ R' = R) /\
           mat_mul BinNums.Z0 n M R' = eye n /\
           mat_mul BinNums.Z0 n R' M = eye n /\ is_inverse_to BinNums.Z0 n M R' = true.
Proof. exact @mat_inv_fb_integer_inverse. Qed.
Print Assumptions C10_mat_inv_fb_integer_inverse.

(* whatever inv returns passed the product check *)
Theorem C10_mat_inv_fb_some :
  forall (modulo : BinNums.Z) (n : nat) (M cand : list (list BinNums.Z))
           (exact : option (list (list BinNums.Z))) (M' : list (list BinNums.Z)),
         mat_inv_fb modulo n M cand exact = Ok M' ->
         exists c : list (list BinNums.Z), mat_inv modulo n M c = Ok M'.
Proof. exact @mat_inv_fb_some. Qed.
Print Assumptions C10_mat_inv_fb_some.

(* what the differential check of the fallback means *)
Theorem C10_check_integer_inverse_meaning :
  forall (M : list (list BinNums.Z)) (r : option (list (list BinNums.Z))),
         square (length M) M ->
         check_integer_inverse (M, r) = true ->
         match r with
         | Some R =>
             square (length M) R /\
             zmat_mul (length M) M R = eye (length M) /\ zmat_mul (length M) R M = eye (length M)
         | None =>
             forall R : list (list BinNums.Z),
             square (length M) R ->
             (forall i k : nat,
              i < length M ->
              k < length M -> BinInt.Z.lt (BinInt.Z.abs (DefProofs.mentry R i k)) two63) ->
             zmat_mul (length M) M R <> eye (length M)
         end.
Proof. exact @check_integer_inverse_meaning. Qed.
Print Assumptions C10_check_integer_inverse_meaning.

From V Require Import Base Tensor Graph GraphProofs GraphImpl Hash Matrix MatrixProofs Def Paths BfsStep Bfs BfsRun BfsProofs PathsProofs Mitm MitmProofs PathRun MitmFind InstShared InstMatrix InstMatrixAlgebra InstMatrixBfs.

(* a matrix that passes the two-sided product check undoes the generator on EVERY reduced state, both ways, in both arithmetic modes *)
Theorem C10_mat_undo :
  forall (modulo : BinNums.Z) (n m : nat) (M M' : list (list BinNums.Z)) (S : state),
         ModOk modulo n ->
         MatOk modulo n M ->
         MatOk modulo n M' ->
         is_inverse_to modulo n M M' = true ->
         UmatP modulo n m S ->
         mat_apply modulo n m M' (mat_apply modulo n m M S) = S /\
         mat_apply modulo n m M (mat_apply modulo n m M' S) = S.
Proof. exact @mat_undo. Qed.
Print Assumptions C10_mat_undo.

(* in the inverted definition built by env_of / with_flag generator i undoes generator i of the origin on all states (matrix groups) *)
Theorem C10_matrix_inverted_undo :
  forall (d : gdesc) (im : list (list (list BinNums.Z))) (ik : gkind),
         wf_matrix_core d = true ->
         wf_inv_mats d im = true ->
         inverted_kind (g_kind d) im = Some ik ->
         forall (i : nat) (g gi : state -> state) (x : state),
         List.nth_error (acts (impl_of d)) i = Some g ->
         List.nth_error (acts (impl_of (with_flag d ik))) i = Some gi ->
         Umat d x -> g (gi x) = x /\ gi (g x) = x.
Proof. exact @matrix_inverted_undo. Qed.
Print Assumptions C10_matrix_inverted_undo.

(* the inverse map of a matrix definition sends each generator to one that undoes it on all states *)
Theorem C10_matrix_invmap_sound :
  forall (d : gdesc) (mp : list nat),
         wf_matrix_core d = true ->
         kind_inverse_map (g_kind d) = Some mp ->
         forall (i : nat) (g : state -> state),
         List.nth_error (acts (impl_of d)) i = Some g ->
         exists g' : state -> state,
           List.nth_error (acts (impl_of d)) (List.nth i mp 0) = Some g' /\
           (forall x : state, Umat d x -> g' (g x) = x).
Proof. exact @matrix_invmap_sound. Qed.
Print Assumptions C10_matrix_invmap_sound.
