(** GENERAL (a, b) structure of the globe puzzle (Puzzles.v [globe_gens], [globe_puzzle]; globe.py):
    for ALL a, b >= 1
      - globe_gens a b is the list r0..ra, f0..f(2b-1) (closed form [globe_gens_eq]),
      - r_k is one cycle of length 2b on row k, f_k is a product of disjoint transpositions: a permutation of
        2(a+1)b points, an involution, not the identity ([GlobeGensStructure]),
      - globe_puzzle a b succeeds, has 2(a+1) + 2b generators, all permutations, and the generator list is
        inverse-closed ([GlobeStructure]).
    PuzzlesProofs.v proves the same statements for 1 <= a, b <= 6 by computation ([globe_ok]). *)
From Coq Require Import String Ascii ZArith List Bool Arith Lia DecimalString Sorting.Permutation.
From V Require Import Base Perm PermProofs PermCycles Puzzles PuzzlesProofs CubeGeneral CubeGeneralMoves PuzzlesGeneralCommon.
Import ListNotations.
Local Open Scope list_scope.
Local Open Scope nat_scope.

(* ====================================================================================== *)
(** * a sequence of swaps of pairwise distinct cells *)

Definition swap_pair (lst : list nat) (pr : nat * nat) : list nat := swap_cells lst (fst pr) (snd pr).
Definition cells (pairs : list (nat * nat)) : list nat := flat_map (fun pr => [fst pr; snd pr]) pairs.

Lemma swap_cells_length lst i j : length (swap_cells lst i j) = length lst.
Proof. unfold swap_cells. rewrite !upd_length. reflexivity. Qed.

Lemma swap_cells_nth lst i j x : i < length lst -> j < length lst -> i <> j ->
  nth x (swap_cells lst i j) 0 = if x =? i then nth j lst 0 else if x =? j then nth i lst 0 else nth x lst 0.
Proof.
  intros Hi Hj Hne. unfold swap_cells.
  destruct (Nat.eqb_spec x j) as [->|Nj].
  - rewrite nth_upd_same by (rewrite upd_length; exact Hj).
    destruct (Nat.eqb_spec j i) as [E|_]; [congruence|reflexivity].
  - rewrite nth_upd_other by congruence.
    destruct (Nat.eqb_spec x i) as [->|Ni].
    + apply nth_upd_same. exact Hi.
    + apply nth_upd_other. congruence.
Qed.

(** after the swaps: the two cells of every pair have exchanged their contents, everything else is untouched *)
Lemma swaps_spec n : forall pairs lst, length lst = n -> NoDup (cells pairs) ->
  (forall c, In c (cells pairs) -> c < n) ->
  let r := fold_left swap_pair pairs lst in
  length r = n /\
  (forall i j, In (i, j) pairs -> nth i r 0 = nth j lst 0 /\ nth j r 0 = nth i lst 0) /\
  (forall x, ~ In x (cells pairs) -> nth x r 0 = nth x lst 0).
Proof.
  induction pairs as [|[i j] rest IH]; intros lst HL ND Hlt; cbv zeta.
  - cbn [fold_left]. split; [exact HL|]. split; [intros i j []|reflexivity].
  - cbn [fold_left]. change (swap_pair lst (i, j)) with (swap_cells lst i j).
    cbn [cells flat_map fst snd app] in ND, Hlt. fold (cells rest) in ND, Hlt.
    apply NoDup_cons_iff in ND as [Hi1 ND1]. apply NoDup_cons_iff in ND1 as [Hj1 ND2].
    assert (i <> j) as Hij by (intros E; apply Hi1; left; auto).
    assert (~ In i (cells rest)) as Hi2 by (intros H; apply Hi1; right; exact H).
    assert (i < n) as Hin by (apply Hlt; left; reflexivity).
    assert (j < n) as Hjn by (apply Hlt; right; left; reflexivity).
    set (lst' := swap_cells lst i j).
    assert (length lst' = n) as HL' by (unfold lst'; rewrite swap_cells_length; exact HL).
    assert (forall x, nth x lst' 0 = if x =? i then nth j lst 0 else if x =? j then nth i lst 0 else nth x lst 0) as Hn'.
    { intros x. apply swap_cells_nth; lia. }
    destruct (IH lst' HL' ND2 (fun c Hc => Hlt c (or_intror (or_intror Hc)))) as (R1 & R2 & R3). cbv zeta in R1, R2, R3.
    split; [exact R1|]. split.
    + intros i' j' [E|Hin'].
      * inversion E; subst i' j'. rewrite (R3 i Hi2), (R3 j Hj1), !Hn'.
        rewrite Nat.eqb_refl. destruct (Nat.eqb_spec j i) as [E'|_]; [congruence|]. rewrite Nat.eqb_refl. auto.
      * destruct (R2 i' j' Hin') as [E1 E2]. rewrite E1, E2, !Hn'.
        assert (In i' (cells rest) /\ In j' (cells rest)) as [Hci Hcj].
        { split; apply in_flat_map; exists (i', j'); (split; [exact Hin'|cbn; auto]). }
        destruct (Nat.eqb_spec j' i) as [->|_]; [contradiction|].
        destruct (Nat.eqb_spec j' j) as [->|_]; [contradiction|].
        destruct (Nat.eqb_spec i' i) as [->|_]; [contradiction|].
        destruct (Nat.eqb_spec i' j) as [->|_]; [contradiction|]. auto.
    + intros x Hx. rewrite R3 by (intros H; apply Hx; right; right; exact H). rewrite Hn'.
      destruct (Nat.eqb_spec x i) as [->|_]; [exfalso; apply Hx; left; reflexivity|].
      destruct (Nat.eqb_spec x j) as [->|_]; [exfalso; apply Hx; right; left; reflexivity|]. reflexivity.
Qed.

(** swaps of pairwise distinct cells applied to the identity table: an involution *)
Theorem swaps_involution n pairs : NoDup (cells pairs) -> (forall c, In c (cells pairs) -> c < n) ->
  let p := fold_left swap_pair pairs (seq 0 n) in
  length p = n /\ Perm p /\ Involution p /\
  (forall i j, In (i, j) pairs -> pstep p i = j /\ pstep p j = i) /\
  (forall x, x < n -> ~ In x (cells pairs) -> pstep p x = x).
Proof.
  intros ND Hlt. cbv zeta.
  destruct (swaps_spec n pairs (seq 0 n) (seq_length _ _) ND Hlt) as (R1 & R2 & R3). cbv zeta in R1, R2, R3.
  set (p := fold_left swap_pair pairs (seq 0 n)) in *.
  assert (forall i j, In (i, j) pairs -> i < n /\ j < n) as Hpl.
  { intros i j Hin. split; apply Hlt; apply in_flat_map; exists (i, j); (split; [exact Hin|cbn; auto]). }
  assert (forall i j, In (i, j) pairs -> pstep p i = j /\ pstep p j = i) as Hsw.
  { intros i j Hin. destruct (R2 i j Hin) as [E1 E2]. destruct (Hpl i j Hin) as [Hi Hj].
    unfold pstep. rewrite E1, E2, !seq_nth by assumption. auto. }
  assert (forall x, x < n -> ~ In x (cells pairs) -> pstep p x = x) as Hfx.
  { intros x Hx Hout. unfold pstep. rewrite R3 by exact Hout. apply seq_nth. exact Hx. }
  assert (Perm p /\ Involution p) as [HP HI].
  { apply pointwise_involution_Perm. rewrite R1. intros x Hx.
    destruct (in_dec Nat.eq_dec x (cells pairs)) as [Hin|Hout].
    - apply in_flat_map in Hin as ([i j] & Hpr & Hx'). cbn [fst snd] in Hx'.
      destruct (Hsw i j Hpr) as [E1 E2]. destruct (Hpl i j Hpr) as [Hi Hj].
      destruct Hx' as [<-|[<-|[]]].
      + rewrite E1, E2. auto.
      + rewrite E2, E1. auto.
    - rewrite (Hfx x Hx Hout). rewrite (Hfx x Hx Hout). auto. }
  auto.
Qed.

(* ====================================================================================== *)
(** * the cells exchanged by the flip f *)

(* side false: cell k of the block of row i; side true: its partner, cell b-1-k of the block of row a-i *)
Definition gcell (a b f : nat) (side : bool) (i k : nat) : nat :=
  if side then (a - i) * (2 * b) + (f + (b - 1 - k)) mod (2 * b)
  else i * (2 * b) + (f + k) mod (2 * b).

Definition fpairs (a b f : nat) : list (nat * nat) :=
  flat_map (fun i => map (fun k => (gcell a b f false i k, gcell a b f true i k)) (seq 0 b)) (seq 0 ((a + 1) / 2)).

(* the body of the loop over f_count in globe_gens *)
Definition fperm (a b f : nat) : list nat :=
  fold_left (fun lst i =>
      let block1 := map (fun k => i * (2 * b) + (f + k) mod (2 * b)) (seq 0 b) in
      let block2 := map (fun k => (a + 1 - 1 - i) * (2 * b) + (f + k) mod (2 * b)) (seq 0 b) in
      fold_left (fun lst k => swap_cells lst (nth k block1 0) (nth (b - 1 - k) block2 0)) (seq 0 b) lst)
    (seq 0 ((a + 1) / 2)) (seq 0 (2 * (a + 1) * b)).

Lemma fold_left_ext_in {A B} (f g : A -> B -> A) l :
  (forall a b, In b l -> f a b = g a b) -> forall a, fold_left f l a = fold_left g l a.
Proof.
  induction l as [|b l IH]; intros H a; cbn [fold_left]; [reflexivity|].
  rewrite H by (left; reflexivity). apply IH. intros a' b' Hb'. apply H. right; exact Hb'.
Qed.

Lemma fold_left_map {A B C} (F : A -> C -> A) (g : B -> C) l : forall a,
  fold_left (fun s k => F s (g k)) l a = fold_left F (map g l) a.
Proof. induction l as [|b l IH]; intros a; cbn [fold_left map]; [reflexivity|apply IH]. Qed.

Lemma fold_left_flat_map {A B C} (F : A -> C -> A) (h : B -> list C) l : forall a,
  fold_left (fun s i => fold_left F (h i) s) l a = fold_left F (flat_map h l) a.
Proof.
  induction l as [|b l IH]; intros a; cbn [fold_left flat_map]; [reflexivity|].
  rewrite fold_left_app. apply IH.
Qed.

Lemma fperm_as_swaps a b f : fperm a b f = fold_left swap_pair (fpairs a b f) (seq 0 (2 * (a + 1) * b)).
Proof.
  unfold fperm, fpairs. rewrite <- fold_left_flat_map. apply fold_left_ext_in. intros lst i _.
  cbv zeta. rewrite <- fold_left_map. apply fold_left_ext_in. intros lst' k Hk. apply in_seq in Hk.
  unfold swap_pair. cbn [fst snd].
  rewrite (nth_map_lt _ _ _ 0 0) by (rewrite seq_length; lia). rewrite seq_nth by lia.
  rewrite (nth_map_lt _ _ _ 0 0) by (rewrite seq_length; lia). rewrite seq_nth by lia.
  unfold gcell. cbn [Nat.add]. replace (a + 1 - 1 - i) with (a - i) by lia. reflexivity.
Qed.

Lemma mod_add_inj x f u v : u < x -> v < x -> (f + u) mod x = (f + v) mod x -> u = v.
Proof.
  intros Hu Hv E. assert (x <> 0) as Hx by lia.
  pose proof (Nat.div_mod_eq (f + u) x) as E1. pose proof (Nat.div_mod_eq (f + v) x) as E2.
  rewrite E in E1. set (r := (f + v) mod x) in *.
  set (q1 := (f + u) / x) in *. set (q2 := (f + v) / x) in *.
  assert (q1 = q2) as Eq by nia. rewrite Eq in E1. lia.
Qed.

Lemma half_rows a i i' : i < (a + 1) / 2 -> i' < (a + 1) / 2 -> i + i' < a.
Proof. intros H1 H2. pose proof (Nat.mul_div_le (a + 1) 2). lia. Qed.

Lemma gcell_inj a b f s i k s' i' k' : 1 <= b ->
  i < (a + 1) / 2 -> k < b -> i' < (a + 1) / 2 -> k' < b ->
  gcell a b f s i k = gcell a b f s' i' k' -> s = s' /\ i = i' /\ k = k'.
Proof.
  intros Hb Hi Hk Hi' Hk' E. pose proof (half_rows a i i' Hi Hi') as Hrow.
  pose proof (half_rows a i i Hi Hi) as Hrow1. pose proof (half_rows a i' i' Hi' Hi') as Hrow2.
  assert (forall z, z mod (2 * b) < 2 * b) as Hm by (intros z; apply Nat.mod_upper_bound; lia).
  unfold gcell in E. destruct s, s'.
  - apply rc_inj in E as [E1 E2]; try apply Hm. apply mod_add_inj in E2; [|lia|lia].
    split; [reflexivity|]. split; lia.
  - exfalso. apply rc_inj in E as [E1 E2]; try apply Hm. lia.
  - exfalso. apply rc_inj in E as [E1 E2]; try apply Hm. lia.
  - apply rc_inj in E as [E1 E2]; try apply Hm. apply mod_add_inj in E2; [|lia|lia]. auto.
Qed.

Lemma gcell_lt a b f s i k : 1 <= b -> i < (a + 1) / 2 -> gcell a b f s i k < 2 * (a + 1) * b.
Proof.
  intros Hb Hi. pose proof (half_rows a i i Hi Hi) as Hrow.
  assert (forall z, z mod (2 * b) < 2 * b) as Hm by (intros z; apply Nat.mod_upper_bound; lia).
  unfold gcell. destruct s.
  - pose proof (Hm (f + (b - 1 - k))). nia.
  - pose proof (Hm (f + k)). nia.
Qed.

Lemma In_fpairs a b f c d : In (c, d) (fpairs a b f) <->
  exists i k, i < (a + 1) / 2 /\ k < b /\ c = gcell a b f false i k /\ d = gcell a b f true i k.
Proof.
  unfold fpairs. rewrite in_flat_map. split.
  - intros (i & Hi & Hin). apply in_map_iff in Hin as (k & E & Hk). apply in_seq in Hi, Hk.
    inversion E; subst. exists i, k. repeat split; lia.
  - intros (i & k & Hi & Hk & -> & ->). exists i. split; [apply in_seq; lia|].
    apply in_map_iff. exists k. split; [reflexivity|apply in_seq; lia].
Qed.

Lemma In_cells_fpairs a b f x : In x (cells (fpairs a b f)) <->
  exists s i k, i < (a + 1) / 2 /\ k < b /\ x = gcell a b f s i k.
Proof.
  unfold cells. rewrite in_flat_map. split.
  - intros ([c d] & Hin & Hx). apply In_fpairs in Hin as (i & k & Hi & Hk & -> & ->). cbn [fst snd] in Hx.
    destruct Hx as [<-|[<-|[]]]; [exists false, i, k|exists true, i, k]; repeat split; assumption.
  - intros (s & i & k & Hi & Hk & ->). exists (gcell a b f false i k, gcell a b f true i k).
    split; [apply In_fpairs; exists i, k; repeat split; assumption|]. cbn [fst snd In]. destruct s; auto.
Qed.

Lemma NoDup_cells_fpairs a b f : 1 <= b -> NoDup (cells (fpairs a b f)).
Proof.
  intros Hb. unfold cells, fpairs. rewrite flat_map_flat_map.
  apply NoDup_flat_map; [apply seq_NoDup| |].
  - intros i Hi. apply in_seq in Hi. rewrite flat_map_map. cbn [fst snd].
    apply NoDup_flat_map; [apply seq_NoDup| |].
    + intros k Hk. apply in_seq in Hk. constructor; [|constructor; [intros []|constructor]].
      intros [E|[]]. symmetry in E. apply gcell_inj in E; [destruct E as [E _]; discriminate E|lia..].
    + intros k k' z Hk Hk' Hz Hz'. apply in_seq in Hk, Hk'.
      assert (exists s, z = gcell a b f s i k) as [s ->] by (destruct Hz as [<-|[<-|[]]]; eauto).
      assert (exists s', gcell a b f s i k = gcell a b f s' i k') as [s' E] by (destruct Hz' as [<-|[<-|[]]]; eauto).
      apply gcell_inj in E; lia.
  - intros i i' z Hi Hi' Hz Hz'. apply in_seq in Hi, Hi'.
    rewrite flat_map_map in Hz, Hz'. cbn [fst snd] in Hz, Hz'.
    apply in_flat_map in Hz as (k & Hk & Hz). apply in_flat_map in Hz' as (k' & Hk' & Hz'). apply in_seq in Hk, Hk'.
    assert (exists s, z = gcell a b f s i k) as [s ->] by (destruct Hz as [<-|[<-|[]]]; eauto).
    assert (exists s', gcell a b f s i k = gcell a b f s' i' k') as [s' E2] by (destruct Hz' as [<-|[<-|[]]]; eauto).
    apply gcell_inj in E2; lia.
Qed.

(** the flip f_k, for ALL a, b >= 1 *)
Theorem fperm_structure a b f : 1 <= a -> 1 <= b -> FGenStructure a b (fperm a b f).
Proof.
  intros Ha Hb. rewrite fperm_as_swaps.
  assert (forall c, In c (cells (fpairs a b f)) -> c < 2 * (a + 1) * b) as Hlt.
  { intros c Hc. apply In_cells_fpairs in Hc as (s & i & k & Hi & Hk & ->). apply gcell_lt; assumption. }
  destruct (swaps_involution (2 * (a + 1) * b) (fpairs a b f) (NoDup_cells_fpairs a b f Hb) Hlt)
    as (H1 & H2 & H3 & H4 & _). cbv zeta in H1, H2, H3, H4.
  set (p := fold_left swap_pair (fpairs a b f) (seq 0 (2 * (a + 1) * b))) in *.
  unfold FGenStructure, globe_points. split; [exact H1|]. split; [exact H2|]. split; [exact H3|].
  (* the pair of row 0, k = 0 is really exchanged *)
  assert (0 < (a + 1) / 2) as Hh by (apply Nat.div_str_pos; lia).
  assert (In (gcell a b f false 0 0, gcell a b f true 0 0) (fpairs a b f)) as Hin
    by (apply In_fpairs; exists 0, 0; repeat split; lia).
  destruct (H4 _ _ Hin) as [E _]. intros Eid.
  assert (pstep p (gcell a b f false 0 0) = gcell a b f false 0 0) as E'.
  { rewrite Eid at 1. unfold pstep, identity_perm. apply seq_nth. rewrite H1. apply gcell_lt; assumption. }
  rewrite E in E'. apply gcell_inj in E'; [destruct E' as [E' _]; discriminate E'|lia..].
Qed.

(* ====================================================================================== *)
(** * the rotations r_k *)

Definition rperm (a b k : nat) : list nat := help_cyclic (k * (2 * b)) ((k + 1) * (2 * b)) (2 * (a + 1) * b).

Theorem rperm_structure a b k : 1 <= b -> k < a + 1 -> RGenStructure a b k (rperm a b k).
Proof.
  intros Hb Hk. unfold RGenStructure, rperm, globe_points.
  set (start := k * (2 * b)). set (fin1 := (k + 1) * (2 * b)). set (n := 2 * (a + 1) * b).
  assert (start + 2 <= fin1) as H1 by (unfold start, fin1; nia).
  assert (fin1 <= n) as H2 by (unfold fin1, n; nia).
  assert (start <= fin1 <= n) as H by lia.
  pose proof (help_cyclic_length start fin1 n H) as HL.
  split; [exact HL|]. split; [apply help_cyclic_Perm; exact H|]. split.
  - replace (2 * b) with (fin1 - start) by (unfold start, fin1; nia). apply help_cyclic_single_cycle; assumption.
  - intros x. unfold Moved, pstep. rewrite HL. split.
    + intros [Hx Hm]. rewrite help_cyclic_nth in Hm by lia. unfold cyc_fun in Hm.
      destruct (start <=? x) eqn:E1; [apply Nat.leb_le in E1|apply Nat.leb_gt in E1]; cbn [andb] in Hm; [|lia].
      destruct (x <? fin1) eqn:E2; [apply Nat.ltb_lt in E2|apply Nat.ltb_ge in E2]; [lia|lia].
    + intros Hx. split; [lia|]. rewrite help_cyclic_nth by lia. unfold cyc_fun.
      assert (start <=? x = true) as E1 by (apply Nat.leb_le; lia).
      assert (x <? fin1 = true) as E2 by (apply Nat.ltb_lt; lia).
      rewrite E1, E2. cbn [andb].
      destruct (S x =? fin1) eqn:E3; [apply Nat.eqb_eq in E3|apply Nat.eqb_neq in E3]; lia.
Qed.

(* ====================================================================================== *)
(** * globe_gens in closed form *)

Definition globe_rs (a b : nat) : list (string * list nat) :=
  map (fun r => ("r" +++ str_of_nat r, rperm a b r)) (seq 0 (a + 1)).
Definition globe_fs (a b : nat) : list (string * list nat) :=
  map (fun f => ("f" +++ str_of_nat f, fperm a b f)) (seq 0 (2 * b)).

Lemma prefixed_names_NoDup c m : NoDup (map (fun i => String c (str_of_nat i)) (seq 0 m)).
Proof.
  apply NoDup_map_inj; [apply seq_NoDup|]. intros i j _ _ E. inversion E as [E']. apply str_of_nat_inj. exact E'.
Qed.

Theorem globe_gens_eq a b : globe_gens a b = globe_rs a b ++ globe_fs a b.
Proof.
  unfold globe_gens. cbv zeta.
  change (fold_left (fun d kv => sdict_set (fst kv) (snd kv) d) (globe_rs a b ++ globe_fs a b) []
          = globe_rs a b ++ globe_fs a b).
  rewrite (fold_sdict_fresh fst snd).
  - cbn [app]. rewrite <- (map_id (globe_rs a b ++ globe_fs a b)) at 2. apply map_ext. intros [k v]; reflexivity.
  - cbn [map app]. rewrite map_app. unfold globe_rs, globe_fs. rewrite !map_map. cbn [fst].
    apply NoDup_app_intro; try apply prefixed_names_NoDup.
    intros x Hx Hx'. apply in_map_iff in Hx as (i & <- & _). apply in_map_iff in Hx' as (j & E & _). discriminate E.
Qed.

Theorem globe_gens_structure_general a b : 1 <= a -> 1 <= b -> GlobeGensStructure a b.
Proof.
  intros Ha Hb. exists (globe_rs a b), (globe_fs a b).
  split; [apply globe_gens_eq|]. split; [unfold globe_rs; rewrite map_length; apply seq_length|].
  split; [unfold globe_fs; rewrite map_length; apply seq_length|].
  split; [unfold globe_rs, globe_r_names; rewrite map_map; reflexivity|].
  split; [unfold globe_fs, globe_f_names; rewrite map_map; reflexivity|]. split.
  - intros k Hk. unfold globe_rs.
    rewrite (nth_map_lt _ _ _ 0 (""%string, [])) by (rewrite seq_length; exact Hk).
    rewrite seq_nth by exact Hk. cbn [snd Nat.add]. apply rperm_structure; assumption.
  - intros p Hp. unfold globe_fs in Hp. rewrite map_map in Hp. cbn [snd] in Hp.
    apply in_map_iff in Hp as (f & <- & _). apply fperm_structure; assumption.
Qed.

(* ====================================================================================== *)
(** * globe_puzzle *)

Lemma InverseClosed_app l1 l2 : InverseClosed l1 -> InverseClosed l2 -> InverseClosed (l1 ++ l2).
Proof.
  intros H1 H2 g Hg. apply in_or_app. apply in_app_or in Hg as [Hg|Hg]; [left; apply H1|right; apply H2]; exact Hg.
Qed.

Definition globe_generators (a b : nat) : list (list nat) :=
  flat_map (fun p => [p; inverse_perm p]) (map (rperm a b) (seq 0 (a + 1))) ++ map (fperm a b) (seq 0 (2 * b)).

Lemma globe_puzzle_gens_eq a b :
  flat_map (fun kv => if has_char "r"%char (fst kv) then [snd kv; inverse_perm (snd kv)] else [snd kv]) (globe_gens a b)
  = globe_generators a b.
Proof.
  rewrite globe_gens_eq, flat_map_app. unfold globe_generators. f_equal.
  - unfold globe_rs. rewrite !flat_map_concat_map, !map_map. reflexivity.
  - unfold globe_fs. rewrite flat_map_map. cbn [fst snd].
    induction (seq 0 (2 * b)) as [|f l IH]; [reflexivity|]. cbn [flat_map map].
    change ("f" +++ str_of_nat f)%string with (String "f" (str_of_nat f)). cbn [has_char].
    rewrite has_char_r_str_of_nat. change (Ascii.eqb "f" "r") with false. cbn [orb app]. f_equal. exact IH.
Qed.

Theorem globe_puzzle_general a b : 1 <= a -> 1 <= b ->
  GensStructure (globe_points a b) (2 * (a + 1) + 2 * b) (globe_puzzle a b).
Proof.
  intros Ha Hb. unfold globe_puzzle. cbv zeta. rewrite globe_puzzle_gens_eq.
  assert (forall k, k < a + 1 -> length (rperm a b k) = globe_points a b /\ Perm (rperm a b k)) as HR.
  { intros k Hk. destruct (rperm_structure a b k Hb Hk) as (H1 & H2 & _). auto. }
  assert (forall f, length (fperm a b f) = globe_points a b /\ Perm (fperm a b f) /\ Involution (fperm a b f)) as HF.
  { intros f. destruct (fperm_structure a b f Ha Hb) as (H1 & H2 & H3 & _). auto. }
  assert (length (globe_generators a b) = 2 * (a + 1) + 2 * b) as HL.
  { unfold globe_generators. rewrite app_length, map_length, seq_length.
    rewrite (flat_map_length_const _ 2) by (intros x Hx; reflexivity). rewrite map_length, seq_length. lia. }
  rewrite <- HL. apply create_def_GensStructure.
  - intros E. rewrite E in HL. cbn in HL. lia.
  - intros g Hg. unfold globe_generators in Hg. apply in_app_or in Hg as [Hg|Hg].
    + apply in_flat_map in Hg as (p & Hp & Hin). apply in_map_iff in Hp as (k & <- & Hk). apply in_seq in Hk.
      destruct (HR k ltac:(lia)) as [H1 H2]. destruct Hin as [<-|[<-|[]]]; [auto|].
      split; [rewrite inverse_perm_length; exact H1|apply inverse_is_perm; exact H2].
    + apply in_map_iff in Hg as (f & <- & _). destruct (HF f) as (H1 & H2 & _). auto.
  - rewrite <- globe_puzzle_gens_eq.
    induction (globe_gens a b) as [|kv l IH]; [reflexivity|]. cbn [flat_map]. rewrite !app_length, IH.
    destruct (has_char "r" (fst kv)); reflexivity.
  - rewrite seq_length. unfold globe_points. lia.
  - intros v Hv. apply in_seq in Hv. unfold globe_points. lia.
  - unfold globe_points. nia.
  - unfold globe_generators. apply InverseClosed_app.
    + apply InverseClosed_with_inverses. intros p Hp. apply in_map_iff in Hp as (k & <- & Hk). apply in_seq in Hk.
      apply (HR k). lia.
    + intros g Hg. apply in_map_iff in Hg as (f & <- & Hf). destruct (HF f) as (_ & H2 & H3).
      rewrite involution_inverse by assumption. apply in_map. exact Hf.
Qed.

(** [GlobeStructure a b] of PuzzlesProofs.v (there: 1 <= a, b <= 6 by computation), for ALL a, b >= 1 *)
Theorem globe_structure_general a b : 1 <= a -> 1 <= b -> GlobeStructure a b.
Proof.
  intros Ha Hb. split; [apply globe_gens_structure_general|apply globe_puzzle_general]; assumption.
Qed.

(* the two facts asked for explicitly: f_k o f_k = id, and the generator list is inverse-closed *)
Corollary globe_f_involution a b f p : 1 <= a -> 1 <= b -> In (("f" +++ str_of_nat f)%string, p) (globe_gens a b) ->
  length p = 2 * (a + 1) * b /\ Perm p /\ compose p p = identity_perm (length p).
Proof.
  intros Ha Hb Hin. rewrite globe_gens_eq in Hin. apply in_app_or in Hin as [Hin|Hin].
  - unfold globe_rs in Hin. apply in_map_iff in Hin as (r & E & _). discriminate E.
  - unfold globe_fs in Hin. apply in_map_iff in Hin as (f' & E & _). inversion E as [[E1 E2]].
    destruct (fperm_structure a b f' Ha Hb) as (H1 & H2 & H3 & _). auto.
Qed.

Corollary globe_inverse_closed a b : 1 <= a -> 1 <= b ->
  exists pz, globe_puzzle a b = Ok pz /\ InverseClosed (pz_gens pz).
Proof.
  intros Ha Hb. destruct (globe_puzzle_general a b Ha Hb) as (pz & E & _ & _ & HI). exists pz. auto.
Qed.

(* ---------- validation against the model and non-vacuity ---------- *)
Example ex_globe_closed_forms :
  forallb (fun '(a, b) =>
     list_eqb (pair_eqb String.eqb nat_list_eqb) (globe_gens a b) (globe_rs a b ++ globe_fs a b)
     && forallb (fun f => nat_list_eqb (fperm a b f) (fold_left swap_pair (fpairs a b f) (seq 0 (2 * (a + 1) * b))))
                (seq 0 (2 * b)))
    (list_prod (seq 0 5) (seq 0 5)) = true.
Proof. vm_compute. reflexivity. Qed.

Example ex_swaps_involution :
  let pairs := [(0, 3); (4, 1)] in
  NoDup (cells pairs) /\ (forall c, In c (cells pairs) -> c < 6) /\ fold_left swap_pair pairs (seq 0 6) = [3; 4; 2; 0; 1; 5].
Proof.
  cbv zeta. split; [repeat constructor; cbn; intuition lia|]. split; [|reflexivity].
  intros c Hc. cbn in Hc. intuition lia.
Qed.

Example ex_gcell : 1 <= 3 /\ 0 < (2 + 1) / 2 /\ 2 < 3 /\ gcell 2 3 4 false 0 2 = 0 /\ gcell 2 3 4 true 0 2 = 16
  /\ fpairs 2 3 4 = [(4, 12); (5, 17); (0, 16)] /\ fperm 2 3 4 = [16; 1; 2; 3; 12; 17; 6; 7; 8; 9; 10; 11; 4; 13; 14; 15; 0; 5].
Proof. vm_compute. repeat split; lia. Qed.

Example ex_globe_general_vs_bounded : GlobeStructure 3 2 /\ globe_ok 3 2 = true.
Proof. split; [apply globe_structure_general; lia|vm_compute; reflexivity]. Qed.

Example ex_globe_f_involution : In (("f" +++ str_of_nat 1)%string, fperm 1 1 1) (globe_gens 1 1).
Proof. vm_compute. auto. Qed.

Print Assumptions swaps_involution.
Print Assumptions fperm_structure.
Print Assumptions rperm_structure.
Print Assumptions globe_gens_eq.
Print Assumptions globe_gens_structure_general.
Print Assumptions globe_puzzle_general.
Print Assumptions globe_structure_general.
Print Assumptions globe_f_involution.
Print Assumptions globe_inverse_closed.
