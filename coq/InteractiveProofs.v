(** Correctness of the interactive BFS model (Interactive.v):
    Part 1 - [ibfs_after k] holds exactly the true layers 0..k (hash images) and the k-th layer itself;
             [find_on_last_layer] is an exact intersection test.
    Part 2 (InteractiveBetween.v) - the synchronous two-sided search [find_path_between] is exact. *)
From Coq Require Import ZArith List Bool Arith Lia Permutation Sorted.
From V Require Import Base BaseProofs Tensor TensorProofs Graph GraphProofs GraphImpl Def Paths
                      BfsStep Interactive.
Import ListNotations.
Local Open Scope nat_scope.

(* ------------------------------------------------------------------ *)
(** * Generic list facts *)

Lemma In_firstn_nth {A} (d : A) m : forall (l : list A) x,
  In x (firstn m l) <-> exists n, n < m /\ n < length l /\ nth n l d = x.
Proof.
  induction m as [|m IH]; intros l x.
  - simpl. split; [tauto|]. intros (n & Hn & _). lia.
  - destruct l as [|a l].
    + simpl. split; [tauto|]. intros (n & _ & Hn & _). lia.
    + cbn [firstn In]. rewrite IH. split.
      * intros [<- | (n & Hn & Hl & Hx)].
        -- exists 0. simpl. repeat split; lia.
        -- exists (S n). simpl. repeat split; auto; lia.
      * intros (n & Hn & Hl & Hx). destruct n as [|n]; simpl in *.
        -- left. exact Hx.
        -- right. exists n. repeat split; auto; lia.
Qed.

Lemma In_nth_iff {A} (d : A) (l : list A) x :
  In x l <-> exists j, j < length l /\ nth j l d = x.
Proof.
  split.
  - intros H. apply (In_nth _ _ d) in H. exact H.
  - intros (j & Hj & <-). apply nth_In. exact Hj.
Qed.

Lemma last_nth {A} (d : A) (l : list A) : last l d = nth (length l - 1) l d.
Proof.
  induction l as [|a l IH]; [reflexivity|].
  destruct l as [|b l]; [reflexivity|].
  change (last (a :: b :: l) d) with (last (b :: l) d). rewrite IH.
  simpl length. replace (S (S (length l)) - 1) with (S (length l)) by lia.
  replace (S (length l) - 1) with (length l) by lia. reflexivity.
Qed.

(* the hash layers the seen-test looks at: the newest two (inverse closed) or all of them *)
Lemma In_rev_window (l : list (list Z)) k lay :
  length l = S k ->
  (In lay (firstn 2 (rev l)) <->
   lay = nth k l [] \/ exists j, k = S j /\ lay = nth j l []).
Proof.
  intros Hlen. rewrite (In_firstn_nth []). rewrite rev_length, Hlen. split.
  - intros (n & Hn & Hk & Hx). rewrite rev_nth in Hx by lia. rewrite Hlen in Hx.
    destruct n as [|n].
    + left. rewrite <- Hx. f_equal. lia.
    + right. assert (n = 0) by lia. subst n. destruct k as [|j]; [lia|].
      exists j. split; [reflexivity|]. rewrite <- Hx. f_equal. lia.
  - intros [-> | (j & -> & ->)].
    + exists 0. split; [lia|]. split; [lia|]. rewrite rev_nth by lia. rewrite Hlen. f_equal. lia.
    + exists 1. split; [lia|]. split; [lia|]. rewrite rev_nth by lia. rewrite Hlen. f_equal. lia.
Qed.

(* ------------------------------------------------------------------ *)
(** * Part 1: the interactive BFS computes the true layers *)

Section IbfsCorrect.
  Variable G : impl.
  Variable U : state -> Prop.
  Hypothesis U_closed : closed state (acts G) U.
  Hypothesis NoColl : forall a b, U a -> U b -> hashf G a = hashf G b -> a = b.
  Hypothesis IdOK : is_identity G = true -> forall a, U a -> unword G (hashf G a) = a.
  Hypothesis Sym : inv_closed G = true -> symmetric_on state (acts G) U.
  Variable starts : list state.
  Hypothesis starts_U : forall s, In s starts -> U s.
  Notation L i := (layer state st_eq_dec (acts G) starts i).
  Local Notation hf := (hashf G).

  Definition ibfs_after (k : nat) : ibfs := Nat.iter k (ibfs_step G) (ibfs_init G starts).

  Lemma ibfs_after_S k : ibfs_after (S k) = ibfs_step G (ibfs_after k).
  Proof. reflexivity. Qed.

  (* a strictly sorted hash list that is the hash image of the true layer i *)
  Definition HLi (i : nat) (lay : list Z) : Prop :=
    StronglySorted Z.lt lay /\ forall h, In h lay <-> exists t, In t (L i) /\ hf t = h.

  Definition IInv (k : nat) (b : ibfs) : Prop :=
    length (ihashes b) = S k /\
    NoDup (cur_layer b) /\ set_eq (cur_layer b) (L k) /\
    (forall i, i <= k -> HLi i (nth i (ihashes b) [])) /\
    nth k (ihashes b) [] = map hf (cur_layer b).

  Lemma iL_U j t : In t (L j) -> U t.
  Proof. apply layer_in_closed; auto. Qed.

  Lemma iN_layer_U i0 t : In t (N state (acts G) (L i0)) -> U t.
  Proof.
    intros H. apply N_spec in H. destruct H as (x & g & Hx & Hg & ->).
    apply U_closed; auto. eapply iL_U; eauto.
  Qed.

  Lemma HLi_of_layer k l :
    NoDup l -> set_eq l (L k) -> StronglySorted Z.lt (map hf l) -> HLi k (map hf l).
  Proof.
    intros Hnd Hset Hs. split; [exact Hs|]. intros h. rewrite in_map_iff. split.
    - intros (t & Hh & Ht). exists t. split; [apply Hset; exact Ht | exact Hh].
    - intros (t & Ht & Hh). exists t. split; [exact Hh | apply Hset; exact Ht].
  Qed.

  Lemma ibfs_init_inv : IInv 0 (ibfs_init G starts).
  Proof.
    unfold ibfs_init.
    destruct (get_unique_states G starts (hashes G starts)) as [l h] eqn:E.
    apply (gus_spec G U NoColl IdOK) in E; [|exact starts_U].
    destruct E as (Hnd & Hin & -> & Hs).
    assert (Hset : set_eq l (L 0)).
    { intros t. rewrite Hin, layer_0, nodup_In. reflexivity. }
    unfold IInv. cbn [cur_layer ihashes]. split; [reflexivity|]. split; [exact Hnd|].
    split; [exact Hset|]. split; [|reflexivity].
    intros i Hi. assert (i = 0) by lia. subst i. cbn [nth]. apply HLi_of_layer; auto.
  Qed.

  Lemma ibfs_step_eq b nl :
    get_unique_states G (get_neighbors G (cur_layer b)) (hashes G (get_neighbors G (cur_layer b)))
      = (nl, map hf nl) ->
    let consider := if inv_closed G then firstn 2 (rev (ihashes b)) else rev (ihashes b) in
    let q := fun s => negb (seenb consider (hf s)) in
    ibfs_step G b = {| cur_layer := filter q nl; ihashes := ihashes b ++ [map hf (filter q nl)] |}.
  Proof.
    intros E consider q. unfold ibfs_step. rewrite E. unfold ibfs_remove_seen.
    fold consider.
    assert (Em : map (fun h : Z => negb (existsb (fun layer : list Z => isin_ss1 layer h) consider)) (map hf nl)
                 = map q nl).
    { rewrite map_map. reflexivity. }
    rewrite Em. rewrite mask_select_map, mask_select_filter. reflexivity.
  Qed.

  Lemma ibfs_step_inv k b : IInv k b -> IInv (S k) (ibfs_step G b).
  Proof.
    intros (Hlen & Hnd & Hset & Hhl & Hlast).
    assert (HcurU : forall s, In s (cur_layer b) -> U s).
    { intros s Hs. apply (iL_U k). apply Hset. exact Hs. }
    destruct (get_unique_states G (get_neighbors G (cur_layer b))
                (hashes G (get_neighbors G (cur_layer b)))) as [nl nlh] eqn:E.
    pose proof E as E'.
    apply (gus_spec G U NoColl IdOK) in E'; [|apply (neighbors_U G U U_closed); exact HcurU].
    destruct E' as (Hndn & Hin & -> & Hsn).
    rewrite (ibfs_step_eq b nl E).
    set (consider := if inv_closed G then firstn 2 (rev (ihashes b)) else rev (ihashes b)).
    set (q := fun s => negb (seenb consider (hf s))).
    destruct (filter_good G nl q Hndn Hsn) as [H1 H2].
    (* what the considered hash layers are *)
    assert (Hcons_in : forall lay, In lay consider -> exists j, j <= k /\ lay = nth j (ihashes b) []).
    { intros lay Hl. unfold consider in Hl. destruct (inv_closed G).
      - apply (In_rev_window _ k lay Hlen) in Hl. destruct Hl as [-> | (j & -> & ->)].
        + exists k. split; [lia | reflexivity].
        + exists j. split; [lia | reflexivity].
      - apply in_rev in Hl. apply (In_nth_iff []) in Hl. destruct Hl as (j & Hj & <-).
        exists j. split; [lia | reflexivity]. }
    assert (Hcons_sorted : forall lay, In lay consider -> sortedZ lay).
    { intros lay Hl. destruct (Hcons_in lay Hl) as (j & Hj & ->).
      apply SSlt_le. apply (Hhl j Hj). }
    assert (Hnb : forall t, In t (get_neighbors G (cur_layer b)) <-> In t (N state (acts G) (L k))).
    { intros t. rewrite get_neighbors_spec, N_spec.
      split; intros (x & g & Hx & Hg & ->); exists x, g; repeat split; auto; apply Hset; auto. }
    assert (Hnew : set_eq (filter q nl) (L (S k))).
    { intros t. rewrite filter_In. unfold q. rewrite negb_true_iff.
      rewrite (seenb_false_iff consider (hf t) Hcons_sorted).
      rewrite Hin, Hnb, layer_succ_spec. split.
      - intros [HN Hns]. split; [exact HN|]. intros Hseen.
        assert (Hex : exists j, j <= k /\ In (nth j (ihashes b) []) consider /\ In t (L j)).
        { unfold consider. destruct (inv_closed G) eqn:Einv.
          - destruct (window2 state st_eq_dec (acts G) U starts k t (Sym eq_refl) U_closed starts_U HN Hseen)
              as [Hk | (j & -> & Hj)].
            + exists k. split; [lia|]. split; [|exact Hk].
              apply (In_rev_window _ k _ Hlen). left. reflexivity.
            + exists j. split; [lia|]. split; [|exact Hj].
              apply (In_rev_window _ (S j) _ Hlen). right. exists j. split; reflexivity.
          - apply seen_upto_spec in Hseen. destruct Hseen as (j & Hj & Hinj).
            exists j. split; [exact Hj|]. split; [|exact Hinj].
            apply -> in_rev. apply nth_In. lia. }
        destruct Hex as (j & Hj & Hc & Hinj).
        apply (Hns _ Hc). apply (Hhl j Hj). exists t. split; [exact Hinj | reflexivity].
      - intros [HN Hns]. split; [exact HN|]. intros lay Hl Hh.
        destruct (Hcons_in lay Hl) as (j & Hj & ->).
        apply (Hhl j Hj) in Hh. destruct Hh as (t' & Ht' & Heq).
        assert (t' = t).
        { apply NoColl; auto; [eapply iL_U; eauto | eapply iN_layer_U; eauto]. }
        subst t'. apply Hns. apply seen_upto_spec. exists j. split; [exact Hj | exact Ht']. }
    unfold IInv. cbn [cur_layer ihashes].
    split; [rewrite app_length, Hlen; simpl; lia|].
    split; [exact H1|]. split; [exact Hnew|]. split.
    - intros i Hi. destruct (Nat.eq_dec i (S k)) as [-> | Hne].
      + rewrite app_nth2 by lia. rewrite Hlen, Nat.sub_diag. cbn [nth].
        apply HLi_of_layer; auto.
      + rewrite app_nth1 by lia. apply Hhl. lia.
    - rewrite app_nth2 by lia. rewrite Hlen, Nat.sub_diag. reflexivity.
  Qed.

  Lemma ibfs_after_inv k : IInv k (ibfs_after k).
  Proof.
    induction k as [|k IH].
    - apply ibfs_init_inv.
    - rewrite ibfs_after_S. apply ibfs_step_inv. exact IH.
  Qed.

  Theorem ibfs_layers k :
    let b := ibfs_after k in
    length (ihashes b) = S k /\
    NoDup (cur_layer b) /\ set_eq (cur_layer b) (L k) /\
    (forall i, (i <= k)%nat -> StronglySorted Z.lt (nth i (ihashes b) []) /\
                              (forall h, In h (nth i (ihashes b) []) <-> exists t, In t (L i) /\ hashf G t = h)) /\
    nth k (ihashes b) [] = map (hashf G) (cur_layer b).
  Proof. exact (ibfs_after_inv k). Qed.

  (* a hash image of a layer has as many entries as the layer *)
  Lemma HLi_length i lay : HLi i lay -> length lay = length (L i).
  Proof.
    intros [Hs Him]. rewrite <- (map_length hf (L i)). apply Permutation_length.
    apply NoDup_Permutation.
    - apply SSlt_NoDup. exact Hs.
    - apply NoDup_map_inj_on; [apply layer_NoDup|].
      intros a b Ha Hb. apply NoColl; eapply iL_U; eauto.
    - intros h. rewrite Him, in_map_iff. split.
      + intros (t & Ht & Hh). exists t. auto.
      + intros (t & Hh & Ht). exists t. auto.
  Qed.

  Corollary ibfs_growth k :
    map (@length Z) (ihashes (ibfs_after k)) = map (fun i => length (L i)) (seq 0 (S k)).
  Proof.
    destruct (ibfs_after_inv k) as (Hlen & _ & _ & Hhl & _).
    apply (nth_ext _ _ 0 0).
    - rewrite !map_length, seq_length. exact Hlen.
    - intros n Hn. rewrite map_length, Hlen in Hn.
      rewrite (nth_indep _ 0 (length (@nil Z))) by (rewrite map_length; lia).
      rewrite map_nth.
      rewrite (nth_indep _ 0 ((fun i => length (L i)) 0)) by (rewrite map_length, seq_length; lia).
      rewrite (map_nth (fun i => length (L i))). rewrite seq_nth by lia. simpl.
      apply HLi_length. apply Hhl. lia.
  Qed.

  Lemma ibfs_last_hashes k : last (ihashes (ibfs_after k)) [] = map hf (cur_layer (ibfs_after k)).
  Proof.
    destruct (ibfs_after_inv k) as (Hlen & _ & _ & _ & Hlast).
    rewrite last_nth, Hlen. replace (S k - 1) with k by lia. exact Hlast.
  Qed.

  (* find_on_last_layer against a sorted hash image of a set X of states in U returns a state of
     L k /\ X, and None iff the intersection is empty *)
  Theorem find_on_last_layer_spec k (X : list state) hs :
    (forall x, In x X -> U x) -> StronglySorted Z.lt hs ->
    (forall h, In h hs <-> exists t, In t X /\ hashf G t = h) ->
    (forall m, find_on_last_layer (ibfs_after k) hs = Some m -> In m (L k) /\ In m X) /\
    (find_on_last_layer (ibfs_after k) hs = None <-> forall m, In m (L k) -> ~ In m X).
  Proof.
    intros HX Hs Him.
    destruct (ibfs_after_inv k) as (Hlen & Hnd & Hset & Hhl & Hlast).
    unfold find_on_last_layer. rewrite ibfs_last_hashes.
    set (cur := cur_layer (ibfs_after k)) in *.
    assert (Hsz : sortedZ hs) by (apply SSlt_le; exact Hs).
    assert (Hmask : forall i, nth i (isin_ss (map hf cur) hs) false = true <->
                              i < length cur /\ In (nth i cur []) X).
    { intros i. unfold isin_ss. rewrite map_map. split.
      - intros H. destruct (lt_dec i (length cur)) as [Hlt | Hge].
        + split; [exact Hlt|].
          rewrite (nth_indep _ false ((fun x => isin_ss1 hs (hf x)) [])) in H by (rewrite map_length; exact Hlt).
          rewrite (map_nth (fun x => isin_ss1 hs (hf x))) in H.
          apply (isin_ss1_sorted hs _ Hsz) in H. apply Him in H. destruct H as (t & Ht & Hh).
          assert (t = nth i cur []) as <-; [|exact Ht].
          apply NoColl; auto. apply (iL_U k). apply Hset. apply nth_In. exact Hlt.
        + rewrite nth_overflow in H by (rewrite map_length; lia). discriminate.
      - intros [Hlt Hin].
        rewrite (nth_indep _ false ((fun x => isin_ss1 hs (hf x)) [])) by (rewrite map_length; exact Hlt).
        rewrite (map_nth (fun x => isin_ss1 hs (hf x))).
        apply (isin_ss1_sorted hs _ Hsz). apply Him. exists (nth i cur []). auto. }
    split.
    - intros m H. destruct (first_true (isin_ss (map hf cur) hs)) as [i|] eqn:E; [|discriminate].
      inversion H; subst m; clear H. apply first_true_spec in E. destruct E as [E _].
      apply Hmask in E. destruct E as [Hlt Hin]. split; [|exact Hin].
      apply Hset. apply nth_In. exact Hlt.
    - split.
      + intros H m Hm HmX.
        destruct (first_true (isin_ss (map hf cur) hs)) as [i|] eqn:E; [discriminate|].
        apply Hset in Hm. apply (In_nth _ _ []) in Hm. destruct Hm as (i & Hi & Hnth).
        pose proof (proj1 (first_true_none _) E i) as Hf.
        assert (Ht : nth i (isin_ss (map hf cur) hs) false = true).
        { apply Hmask. split; [exact Hi|]. subst m. exact HmX. }
        congruence.
      + intros H. destruct (first_true (isin_ss (map hf cur) hs)) as [i|] eqn:E; [|reflexivity].
        exfalso. apply first_true_spec in E. destruct E as [E _]. apply Hmask in E.
        destruct E as [Hlt Hin]. apply (H (nth i cur [])); [|exact Hin].
        apply Hset. apply nth_In. exact Hlt.
  Qed.
End IbfsCorrect.

Print Assumptions ibfs_layers.
Print Assumptions ibfs_growth.
Print Assumptions find_on_last_layer_spec.
